# Builds c-ares from the CURRENT /repo working tree into static archives
# (one per flavour) plus the verification harnesses.  Every check command runs
# `make -C /verif <targets>` first, so edits under /repo are always picked up
# (dependency tracking through -MMD).
VDIR   := $(patsubst %/,%,$(dir $(abspath $(lastword $(MAKEFILE_LIST)))))
REPO   ?= /repo
B      ?= $(VDIR)/.build
CFG    := $(B)/cfg
CC     := clang
CXX    := clang++
SRCS   := $(shell find $(REPO)/src/lib -name '*.c' | sort)
INCS   := -I$(CFG) -I$(REPO)/include -I$(REPO)/src/lib -I$(REPO)/src/lib/include
DEFS   := -DHAVE_CONFIG_H=1 -DCARES_BUILDING_LIBRARY -DCARES_STATICLIB -D_GNU_SOURCE \
          -D_POSIX_C_SOURCE=200809L -D_XOPEN_SOURCE=700 -DCARES_VERIF_HOOKS
COMMON := -g -fno-omit-frame-pointer -fno-optimize-sibling-calls
ASANF  := -O1 $(COMMON) -fsanitize=address,undefined -fno-sanitize-recover=undefined -ftrivial-auto-var-init=pattern
TSANF  := -O1 $(COMMON) -fsanitize=thread
PLAINF := -O2 $(COMMON)

HSRC   := $(VDIR)/harness

define flavour
$(1)_OBJS := $$(patsubst $(REPO)/src/lib/%.c,$(B)/$(1)/lib/%.o,$(SRCS))
$(B)/$(1)/lib/%.o: $(REPO)/src/lib/%.c $(CFG)/ares_config.h $(VDIR)/Makefile
	@mkdir -p $$(dir $$@)
	@$(CC) $(2) $(DEFS) $(INCS) -MMD -MP -c $$< -o $$@
$(B)/$(1)/libcares.a: $$($(1)_OBJS)
	@rm -f $$@ && ar rcs $$@ $$^
-include $$($(1)_OBJS:.o=.d)
endef

$(eval $(call flavour,asan,$(ASANF)))
$(eval $(call flavour,tsan,$(TSANF)))
$(eval $(call flavour,plain,$(PLAINF)))

$(CFG)/ares_config.h:
	@mkdir -p $(B)
	@(cmake -S $(REPO) -B $(CFG) -G Ninja -DCARES_BUILD_TESTS=OFF -DCARES_BUILD_TOOLS=OFF \
	   -DCARES_STATIC=ON -DCARES_SHARED=OFF > $(B)/cfg.log 2>&1 && test -f $(CFG)/ares_config.h) || \
	 (mkdir -p $(CFG) && cp $(REPO)/_build/ares_config.h $(REPO)/_build/ares_build.h $(CFG)/)

cfg: $(CFG)/ares_config.h

HARNESS_INC := $(INCS) -I$(HSRC)
HXX_ASAN := $(CXX) -std=c++17 $(ASANF) $(DEFS) $(HARNESS_INC) -Wno-deprecated-declarations
HXX_PLAIN := $(CXX) -std=c++17 $(PLAINF) $(DEFS) $(HARNESS_INC) -Wno-deprecated-declarations
HXX_TSAN := $(CXX) -std=c++17 $(TSANF) $(DEFS) $(HARNESS_INC) -Wno-deprecated-declarations
HCC_ASAN := $(CC) $(ASANF) $(DEFS) $(HARNESS_INC)
HCC_PLAIN := $(CC) $(PLAINF) $(DEFS) $(HARNESS_INC)

-include $(VDIR)/harness/targets.mk

.PHONY: cfg clean
clean:
	rm -rf $(B)/asan $(B)/tsan $(B)/plain $(B)/bin
