// Shared plumbing for all verification engines (EX-A .. EX-E).
//
//  * Report: what a (shard of a) run covered; written as one JSON file that
//    the python driver `vf` merges into /verif/evidence/<id>.json.
//  * current-case tracking + sanitizer death callback: when ASan/UBSan (or a
//    fatal signal / watchdog) kills the process, the case that was being
//    executed is written to <out>.crash so the driver can turn it into a
//    replayable violation and resume the shard after it.
//  * Ledger: allocator ledger installed through ares_library_init_mem(); leak
//    detection is decided by this ledger deterministically, not by LSan.
//  * tiny JSON helpers, 64-bit FNV hashing.
#pragma once
#include <cstdint>
#include <cstdio>
#include <cstdlib>
#include <cstring>
#include <map>
#include <set>
#include <string>
#include <vector>
#include <unordered_map>
#include <signal.h>
#include <unistd.h>
#include <sys/time.h>
#include <sys/resource.h>
#include <execinfo.h>

extern "C" void __sanitizer_set_death_callback(void (*cb)(void));
extern "C" void __sanitizer_symbolize_pc(void *pc, const char *fmt, char *out_buf, size_t out_buf_size);

namespace vf {

inline std::string jesc(const std::string &s)
{
  std::string o;
  char        b[8];
  for (unsigned char c : s) {
    if (c == '"' || c == '\\') {
      o += '\\';
      o += (char)c;
    } else if (c < 0x20 || c >= 0x7f) {
      snprintf(b, sizeof b, "\\u%04x", c);
      o += b;
    } else {
      o += (char)c;
    }
  }
  return o;
}
inline std::string jstr(const std::string &s) { return "\"" + jesc(s) + "\""; }
inline std::string hex(const unsigned char *p, size_t n)
{
  static const char *d = "0123456789abcdef";
  std::string        o;
  for (size_t i = 0; i < n; i++) {
    o += d[p[i] >> 4];
    o += d[p[i] & 15];
  }
  return o;
}
inline std::string hex(const std::vector<unsigned char> &v) { return hex(v.data(), v.size()); }
inline std::vector<unsigned char> unhex(const std::string &s)
{
  std::vector<unsigned char> v;
  auto                       nib = [](char c) { return c <= '9' ? c - '0' : (c | 32) - 'a' + 10; };
  for (size_t i = 0; i + 1 < s.size(); i += 2) v.push_back((unsigned char)(nib(s[i]) << 4 | nib(s[i + 1])));
  return v;
}

inline uint64_t fnv64(const void *p, size_t n, uint64_t h = 1469598103934665603ULL)
{
  const unsigned char *b = (const unsigned char *)p;
  for (size_t i = 0; i < n; i++) {
    h ^= b[i];
    h *= 1099511628211ULL;
  }
  return h;
}
struct Hash128 {
  uint64_t a, b;
  bool     operator==(const Hash128 &o) const { return a == o.a && b == o.b; }
  bool     operator<(const Hash128 &o) const { return a != o.a ? a < o.a : b < o.b; }
};
inline Hash128 hash128(const std::string &s)
{
  return Hash128{ fnv64(s.data(), s.size()), fnv64(s.data(), s.size(), 0x9e3779b97f4a7c15ULL) };
}
struct Hash128H {
  size_t operator()(const Hash128 &h) const { return (size_t)(h.a ^ (h.b * 31)); }
};

// ---------------------------------------------------------------- crash file
struct CrashCtx {
  char path[512];
  char cur[1 << 16]; // JSON text of the case being executed (replay object)
  char key[256];     // violation key prefix for a crash in this case
};
inline CrashCtx &crashctx()
{
  static CrashCtx c;
  return c;
}
inline void set_current_case(const std::string &replay_json, const std::string &key = "")
{
  CrashCtx &c = crashctx();
  size_t    n = replay_json.size() < sizeof(c.cur) - 1 ? replay_json.size() : sizeof(c.cur) - 1;
  memcpy(c.cur, replay_json.data(), n);
  c.cur[n] = 0;
  snprintf(c.key, sizeof c.key, "%s", key.c_str());
}
inline void write_crash_file(const char *why)
{
  CrashCtx &c = crashctx();
  if (!c.path[0]) return;
  FILE *f = fopen(c.path, "w");
  if (!f) return;
  fprintf(f, "{\"why\":\"%s\",\"key\":\"%s\",\"replay\":%s}\n", why, c.key, c.cur[0] ? c.cur : "null");
  fclose(f);
}
inline void (*&partial_writer())()
{
  static void (*fn)() = nullptr;
  return fn;
}
inline void on_sanitizer_death()
{
  write_crash_file("sanitizer");
  if (partial_writer()) partial_writer()(); // save what was covered so far: the driver merges it and resumes after the crashing case
}
inline void on_fatal_signal(int sig)
{
  write_crash_file(sig == SIGXCPU || sig == SIGALRM ? "watchdog" : "signal");
  if (partial_writer()) partial_writer()();
  _exit(sig == SIGXCPU || sig == SIGALRM ? 98 : 99);
}
inline void install_crash_handler(const std::string &crashpath)
{
  CrashCtx &c = crashctx();
  snprintf(c.path, sizeof c.path, "%s", crashpath.c_str());
  unlink(c.path);
  __sanitizer_set_death_callback(on_sanitizer_death);
  signal(SIGSEGV, on_fatal_signal);
  signal(SIGBUS, on_fatal_signal);
  signal(SIGFPE, on_fatal_signal);
  signal(SIGILL, on_fatal_signal);
  signal(SIGABRT, on_fatal_signal);
  signal(SIGALRM, on_fatal_signal);
}
// per-case watchdog (wall clock seconds); 0 disarms
inline void watchdog(unsigned secs) { alarm(secs); }

// -------------------------------------------------------------------- report
struct Violation {
  std::string key;    // stable identity: oracle + failing shape (matched against known_findings.json)
  std::string desc;   // human readable
  std::string replay; // JSON object text understood by `<engine> --replay`
};

struct Report {
  std::string                     engine, family, tier, bound;
  uint64_t                        states = 0, transitions = 0, executions = 0;
  bool                            exhaustive = true, closed = false;
  std::set<std::string>           outcomes;  // distinct observed outcomes (vacuity guard)
  std::map<std::string, uint64_t> witnesses; // named behaviours that must have been seen
  std::map<std::string, uint64_t> counters;  // free-form counts
  std::vector<std::string>        samples;   // JSON texts
  std::vector<Violation>          violations;
  std::vector<std::string>        internal_errors;
  size_t                          max_violations = 50;

  void witness(const char *w, uint64_t n = 1) { witnesses[w] += n; }
  void count(const char *w, uint64_t n = 1) { counters[w] += n; }
  void outcome(const std::string &o)
  {
    if (outcomes.size() < 100000) outcomes.insert(o);
  }
  void sample(const std::string &json, size_t maxn = 6)
  {
    if (samples.size() < maxn) samples.push_back(json);
  }
  bool violation(const std::string &key, const std::string &desc, const std::string &replay)
  {
    for (auto &v : violations)
      if (v.key == key) return false;
    if (violations.size() >= max_violations) return false;
    violations.push_back({ key, desc, replay });
    return true;
  }
  void write(const std::string &path) const
  {
    FILE *f = fopen((path + ".tmp").c_str(), "w");
    if (!f) {
      perror("report");
      exit(3);
    }
    fprintf(f, "{\"engine\":%s,\"family\":%s,\"tier\":%s,\"bound\":%s,\n", jstr(engine).c_str(), jstr(family).c_str(),
            jstr(tier).c_str(), jstr(bound).c_str());
    fprintf(f, "\"states\":%llu,\"transitions\":%llu,\"executions\":%llu,\"exhaustive\":%s,\"closed\":%s,\n",
            (unsigned long long)states, (unsigned long long)transitions, (unsigned long long)executions,
            exhaustive ? "true" : "false", closed ? "true" : "false");
    fprintf(f, "\"distinct_outcomes\":%zu,\"outcomes\":[", outcomes.size());
    size_t i = 0;
    for (auto &o : outcomes) {
      if (i >= 2000) break;
      fprintf(f, "%s%s", i ? "," : "", jstr(o).c_str());
      i++;
    }
    fprintf(f, "],\n\"witnesses\":{");
    i = 0;
    for (auto &w : witnesses) fprintf(f, "%s%s:%llu", i++ ? "," : "", jstr(w.first).c_str(), (unsigned long long)w.second);
    fprintf(f, "},\n\"counters\":{");
    i = 0;
    for (auto &w : counters) fprintf(f, "%s%s:%llu", i++ ? "," : "", jstr(w.first).c_str(), (unsigned long long)w.second);
    fprintf(f, "},\n\"samples\":[");
    i = 0;
    for (auto &s : samples) fprintf(f, "%s%s", i++ ? ",\n" : "", s.c_str());
    fprintf(f, "],\n\"violations\":[");
    i = 0;
    for (auto &v : violations)
      fprintf(f, "%s{\"key\":%s,\"desc\":%s,\"replay\":%s}", i++ ? ",\n" : "", jstr(v.key).c_str(), jstr(v.desc).c_str(),
              v.replay.empty() ? "null" : v.replay.c_str());
    fprintf(f, "],\n\"internal_errors\":[");
    i = 0;
    for (auto &e : internal_errors) fprintf(f, "%s%s", i++ ? "," : "", jstr(e).c_str());
    fprintf(f, "]}\n");
    fclose(f);
    rename((path + ".tmp").c_str(), path.c_str());
  }
};

// register a report so that a crash saves it as <path>.partial
inline Report *&partial_report()
{
  static Report *r = nullptr;
  return r;
}
inline std::string &partial_path()
{
  static std::string p;
  return p;
}
inline void write_partial_report()
{
  if (partial_report() && !partial_path().empty()) partial_report()->write(partial_path());
}
inline void enable_partial_report(Report *r, const std::string &out)
{
  partial_report()  = r;
  partial_path()    = out + ".partial";
  unlink(partial_path().c_str());
  partial_writer()  = write_partial_report;
}

// ------------------------------------------------------------------ CLI args
struct Args {
  std::string family, tier = "quick", out, replay;
  int         shard = 0, nshards = 1;
  double      deadline = 1e18; // seconds of wall time for this process
  long long   resume   = 0;    // enumeration engines: first case index to execute
  std::vector<std::string> extra;
  std::map<std::string, std::string> kv;
  const char *get(const char *k, const char *def = "") const
  {
    auto it = kv.find(k);
    return it == kv.end() ? def : it->second.c_str();
  }
  long long geti(const char *k, long long def) const
  {
    auto it = kv.find(k);
    return it == kv.end() ? def : atoll(it->second.c_str());
  }
};
inline Args parse_args(int argc, char **argv)
{
  Args a;
  for (int i = 1; i < argc; i++) {
    std::string s = argv[i];
    auto        next = [&]() -> std::string { return i + 1 < argc ? argv[++i] : ""; };
    if (s == "--tier") a.tier = next();
    else if (s == "--out") a.out = next();
    else if (s == "--replay") a.replay = next();
    else if (s == "--shard") {
      std::string v = next();
      sscanf(v.c_str(), "%d/%d", &a.shard, &a.nshards);
    } else if (s == "--deadline") a.deadline = atof(next().c_str());
    else if (s == "--resume") a.resume = atoll(next().c_str());
    else if (s.rfind("--", 0) == 0) {
      std::string k = s.substr(2);
      a.kv[k]       = next();
    } else if (a.family.empty()) a.family = s;
    else a.extra.push_back(s);
  }
  return a;
}
inline double now_s()
{
  struct timeval tv;
  gettimeofday(&tv, nullptr);
  return (double)tv.tv_sec + tv.tv_usec / 1e6;
}

// ---------------------------------------------------------- allocator ledger
// Installed via ares_library_init_mem(). Tracks live blocks; can fail the
// n-th allocation (C14). Not thread safe on purpose for single-threaded
// engines; EX-B uses its own locked variant.
struct Ledger {
  std::unordered_map<void *, size_t> live;
  bool                               trace = false; // record the allocation call stack of every block (leak attribution)
  struct Bt {
    void *pc[10];
    int   n;
  };
  std::unordered_map<void *, Bt> bts;
  uint64_t                           nalloc = 0;    // allocation attempts since reset
  uint64_t                           fail_at = 0;   // 1-based index of the allocation to fail, 0 = none
  bool                               failed = false;
  void reset()
  {
    live.clear();
    bts.clear();
    nalloc  = 0;
    fail_at = 0;
    failed  = false;
  }
};
inline Ledger &ledger()
{
  static Ledger l;
  return l;
}
inline bool ledger_should_fail()
{
  Ledger &l = ledger();
  l.nalloc++;
  if (l.fail_at && l.nalloc == l.fail_at) {
    l.failed = true;
    return true;
  }
  return false;
}
inline void *l_malloc(size_t n)
{
  if (ledger_should_fail()) return nullptr;
  void *p = malloc(n ? n : 1);
  if (p) {
    ledger().live[p] = n;
    if (ledger().trace) {
      Ledger::Bt b;
      b.n             = backtrace(b.pc, 10);
      ledger().bts[p] = b;
    }
  }
  return p;
}
// name of the first frames of the allocation stack that are not allocator wrappers ("fn1<fn2")
inline std::string ledger_site(void *p)
{
  auto it = ledger().bts.find(p);
  if (it == ledger().bts.end()) return "?";
  std::string out;
  int         taken = 0;
  for (int i = 0; i < it->second.n && taken < 2; i++) {
    char buf[256];
    __sanitizer_symbolize_pc((char *)it->second.pc[i] - 1, "%f", buf, sizeof buf);
    std::string f = buf;
    if (f.find("l_malloc") != std::string::npos || f.find("l_realloc") != std::string::npos || f.find("backtrace") != std::string::npos || f == "ares_malloc" ||
        f == "ares_malloc_zero" || f == "ares_realloc" || f == "ares_realloc_zero" || f == "ares_strdup" || f.find("interceptor") != std::string::npos || f.empty())
      continue;
    out += (taken ? "<" : "") + f;
    taken++;
  }
  return out.empty() ? "?" : out;
}
inline void l_free(void *p)
{
  if (!p) return;
  auto &l  = ledger();
  auto  it = l.live.find(p);
  if (it == l.live.end()) {
    // free of a block the ledger does not know: let ASan diagnose (double free / wild free)
    free(p);
    return;
  }
  l.live.erase(it);
  l.bts.erase(p);
  free(p);
}
inline void *l_realloc(void *p, size_t n)
{
  if (!p) return l_malloc(n);
  if (ledger_should_fail()) return nullptr;
  // always move, so stale pointers into the old block are caught by ASan
  auto  &l  = ledger();
  auto   it = l.live.find(p);
  size_t old = it == l.live.end() ? 0 : it->second;
  void  *q  = malloc(n ? n : 1);
  if (!q) return nullptr;
  memcpy(q, p, old < n ? old : n);
  if (it != l.live.end()) l.live.erase(it);
  l.bts.erase(p);
  free(p);
  l.live[q] = n;
  if (l.trace) {
    Ledger::Bt b;
    b.n      = backtrace(b.pc, 10);
    l.bts[q] = b;
  }
  return q;
}

} // namespace vf
