# EX-A: event-history explorer (ASan+UBSan flavour)
EXA_SRCS := $(HSRC)/exa_main.cc $(HSRC)/exa_world.cc $(HSRC)/exa_families.cc $(HSRC)/exa_oracles.cc $(HSRC)/exa_peek.cc $(HSRC)/exa_stream.cc $(HSRC)/exa_alloc.cc
EXA_HDRS := $(HSRC)/common.h $(HSRC)/exa_world.h $(HSRC)/exa_dns.h $(HSRC)/exa_peek.h $(HSRC)/exa_families.h
EXA_OBJS := $(patsubst $(HSRC)/%.cc,$(B)/asan/h/%.o,$(EXA_SRCS))

$(B)/asan/h/%.o: $(HSRC)/%.cc $(EXA_HDRS) $(CFG)/ares_config.h
	@mkdir -p $(dir $@)
	@$(HXX_ASAN) -I$(REPO)/src/lib/include -c $< -o $@
# peek TU: includes ares_qcache.c from the repository (so depends on it)
$(B)/asan/h/exa_peek_qcache.o: $(HSRC)/exa_peek_qcache.c $(REPO)/src/lib/ares_qcache.c $(CFG)/ares_config.h
	@mkdir -p $(dir $@)
	@$(HCC_ASAN) -MMD -c $< -o $@
-include $(B)/asan/h/exa_peek_qcache.d
$(BIN)/exa: $(EXA_OBJS) $(B)/asan/h/exa_peek_qcache.o $(B)/asan/libcares.a | $(BIN)
	@$(CXX) $(ASANF) -o $@ $(EXA_OBJS) $(B)/asan/h/exa_peek_qcache.o $(B)/asan/libcares.a -ldl -lpthread
