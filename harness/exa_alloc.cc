// C14: any single allocation failure is survived cleanly. For every scenario of
// the family the clean run counts N allocations; then EVERY n in 1..N is run
// with only the n-th allocation failing (fault enumeration, exhaustive).
#include "exa_world.h"
#include "exa_families.h"

namespace exa {

struct Step {
  int k;       // 0 event, 1 request, 2 auto-reply (answer every outstanding transmission with kind a, service, repeat), 3 dup, 4 save/destroy options
  Ev  ev;
  int a = 0;
};
struct Scenario {
  std::string       name;
  Cfg               cfg;
  std::vector<Step> steps;
};

static Step S_req(int r)
{
  Step s;
  s.k = 1;
  s.a = r;
  return s;
}
static Step S_auto(int kind)
{
  Step s;
  s.k = 2;
  s.a = kind;
  return s;
}
static Step S_ev(Ev e)
{
  Step s;
  s.k  = 0;
  s.ev = e;
  return s;
}
static Step S_k(int k)
{
  Step s;
  s.k = k;
  return s;
}

static std::vector<ReqSpec> alloc_reqs()
{
  std::vector<ReqSpec> v;
  auto                 rq = [&](int kind, const char *name, int qtype, int fam) {
    ReqSpec r;
    r.kind   = kind;
    r.name   = name;
    r.qtype  = qtype;
    r.family = fam;
    v.push_back(r);
  };
  rq(0, "www.example.com", 1, AF_INET);   // 0 send_dnsrec
  rq(1, "www.example.com", 1, AF_INET);   // 1 ares_send
  rq(2, "www.example.com", 1, AF_INET);   // 2 query_dnsrec
  rq(3, "www.example.com", 1, AF_INET);   // 3 ares_query
  rq(4, "host", 1, AF_INET);              // 4 search_dnsrec
  rq(5, "host", 1, AF_INET);              // 5 ares_search
  rq(6, "www.example.com", 1, AF_UNSPEC); // 6 getaddrinfo
  rq(7, "www.example.com", 1, AF_INET);   // 7 gethostbyname
  rq(8, "10.9.0.7", 12, AF_INET);         // 8 gethostbyaddr
  rq(9, "10.9.0.7", 12, AF_INET);         // 9 getnameinfo
  rq(6, "hosted.example.com", 1, AF_UNSPEC); // 10 getaddrinfo answered by the hosts file
  rq(2, "fresh.example.com", 1, AF_INET); // 11 the fresh query issued after the fault
  rq(6, "10.1.2.3", 1, AF_UNSPEC);        // 12 literal
  rq(2, "www.example.com", 16, AF_INET);  // 13 TXT
  rq(8, "fd00::1234:5", 12, AF_INET6);    // 14 gethostbyaddr, IPv6
  rq(9, "2001:db8::ff00:42:8329", 12, AF_INET6); // 15 getnameinfo, IPv6
  rq(6, "hosted.example.com", 1, AF_UNSPEC);     // 16 getaddrinfo answered by the hosts file $CARES_HOSTS names
  v.back().ai_flags = ARES_AI_ENVHOSTS;
  return v;
}

static std::vector<Scenario> scenarios(bool quick)
{
  std::vector<Scenario> v;
  auto base = [](const char *name, unsigned flags) {
    Cfg c;
    c.name           = name;
    c.nservers       = 2;
    c.tries          = 2;
    c.flags          = flags;
    c.domains        = { "example.com" };
    c.qcache_max_ttl = 3600;
    c.auto_io        = true;
    c.lookups        = "fb";
    c.hosts          = "10.7.7.7 hosted.example.com halias\nfd00::77 hosted.example.com\n";
    c.env_hosts      = "10.8.8.8 hosted.example.com\n"; // a second hosts file, used by requests with ARES_AI_ENVHOSTS
    return c;
  };
  std::vector<Cfg> cfgs = { base("udp-edns", ARES_FLAG_EDNS), base("tcp", ARES_FLAG_USEVC) };
  {
    Cfg c      = base("udp-0x20-sortlist-rotate", ARES_FLAG_DNS0x20);
    c.sortlist = "10.9.0.0/255.255.0.0";
    c.rotate   = true;
    c.udp_max_queries = 2;
    cfgs.push_back(c);
  }
  if (!quick) {
    Cfg c          = base("tcp-tfo-pendingwrite", ARES_FLAG_USEVC | ARES_FLAG_STAYOPEN);
    c.tfo          = true;
    c.pending_write_cb = true;
    cfgs.push_back(c);
    Cfg d          = base("legacy-fds-stayopen-bf", ARES_FLAG_STAYOPEN | ARES_FLAG_EDNS);
    d.sock_state_cb = false;
    d.lookups       = "bf";
    d.local_bind    = true;
    cfgs.push_back(d);
    Cfg e          = base("tcp-inprogress", ARES_FLAG_USEVC | ARES_FLAG_EDNS);
    e.connect_mode = 1;
    cfgs.push_back(e);
  }
  for (auto &c : cfgs) {
    // initialisation alone (every option group of the configuration)
    v.push_back({ "init/" + c.name, c, {} });
    for (int r : { 0, 1, 2, 3, 4, 5, 6, 7, 8, 9, 10, 12, 13, 14, 15, 16 }) { // 14, 15: the IPv6 reverse lookups; 16: the per-request hosts file
      if (quick && c.name != "udp-edns" && !(r == 2 || r == 6 || r == 4)) continue;
      v.push_back({ "req" + std::to_string(r) + "-answered/" + c.name, c, { S_req(r), S_auto(RK_DATA) } });
      if (!quick || r == 2 || r == 6) {
        v.push_back({ "req" + std::to_string(r) + "-nxdomain/" + c.name, c, { S_req(r), S_auto(RK_NXDOMAIN) } });
        v.push_back({ "req" + std::to_string(r) + "-timeout/" + c.name, c, { S_req(r), S_ev(mk(EV_TIMER)), S_ev(mk(EV_TIMER)) } });
      }
    }
    v.push_back({ "cache-hit/" + c.name, c, { S_req(2), S_auto(RK_DATA), S_req(2) } });
    // the same question in flight twice: both answers go to the cache under one key, then the question is asked again
    v.push_back({ "same-question-twice-then-again/" + c.name, c, { S_req(2), S_req(2), S_auto(RK_DATA), S_req(2) } });
    v.push_back({ "tc-upgrade/" + c.name, c, { S_req(2), S_auto(RK_TC), S_auto(RK_DATA) } });
    v.push_back({ "servfail-failover/" + c.name, c, { S_req(2), S_auto(RK_SERVFAIL) } });
    v.push_back({ "set-servers/" + c.name, c, { S_req(2), S_ev(mk(EV_SETSERVERS, 2)), S_auto(RK_DATA) } });
    v.push_back({ "set-servers-none/" + c.name, c, { S_req(2), S_ev(mk(EV_SETSERVERS, 1)) } });
    v.push_back({ "reinit/" + c.name, c, { S_req(2), S_ev(mk(EV_REINIT)), S_auto(RK_DATA) } });
    v.push_back({ "cancel/" + c.name, c, { S_req(2), S_req(6), S_ev(mk(EV_CANCEL)) } });
    v.push_back({ "destroy-outstanding/" + c.name, c, { S_req(2), S_req(6), S_ev(mk(EV_DESTROY)) } });
    v.push_back({ "dup/" + c.name, c, { S_k(3) } });
    v.push_back({ "save-options/" + c.name, c, { S_k(4) } });
    v.push_back({ "two-queries-one-socket/" + c.name, c, { S_req(2), S_req(13), S_auto(RK_DATA) } });
    if (!quick || c.name == "udp-edns") {
      Step one_nx = S_k(5);
      one_nx.a    = RK_NXDOMAIN;
      Step one_nd = S_k(5);
      one_nd.a    = RK_NODATA;
      v.push_back({ "search-second-candidate/" + c.name, c, { S_req(4), one_nx, S_auto(RK_DATA) } });
      v.push_back({ "gai-nodata-then-data/" + c.name, c, { S_req(6), one_nd, S_auto(RK_DATA) } });
      v.push_back({ "gai-cname/" + c.name, c, { S_req(6), S_auto(RK_CNAME_DATA) } });
      v.push_back({ "gai-multi/" + c.name, c, { S_req(6), S_auto(RK_DATA_MULTI) } });
      v.push_back({ "gai-mixed/" + c.name, c, { S_req(6), S_auto(RK_DATA_MIXED) } });
      v.push_back({ "ghbn-multi/" + c.name, c, { S_req(7), S_auto(RK_DATA_MULTI) } });
      v.push_back({ "cookie-valid-twice/" + c.name, c, { S_req(2), S_auto(RK_CK_VALID), S_req(13), S_auto(RK_CK_VALID2) } });
      v.push_back({ "badcookie/" + c.name, c, { S_req(2), S_k(5), S_auto(RK_DATA) } });
      v.back().steps[1].a = RK_BADCOOKIE;
      v.push_back({ "formerr-downgrade/" + c.name, c, { S_req(2), S_k(5), S_auto(RK_DATA) } });
      v.back().steps[1].a = RK_FORMERR_NOOPT;
      v.push_back({ "malformed-reply/" + c.name, c, { S_req(2), S_k(5), S_auto(RK_DATA) } });
      v.back().steps[1].a = RK_MALFORMED;
      v.push_back({ "refused-then-timeout/" + c.name, c, { S_req(2), S_k(5), S_ev(mk(EV_TIMER)) } });
      v.back().steps[1].a = RK_REFUSED;
      v.push_back({ "get-servers-csv/" + c.name, c, { S_k(6) } });
      v.push_back({ "set-sortlist/" + c.name, c, { S_k(7), S_req(6), S_auto(RK_DATA_MULTI) } });
      v.push_back({ "set-servers-add/" + c.name, c, { S_ev(mk(EV_SETSERVERS, 4)), S_req(2), S_auto(RK_DATA) } });
      v.push_back({ "fault-send-refused/" + c.name, c, { S_ev(mk(EV_FAULT, FS_SEND_REFUSED)), S_req(2), S_auto(RK_DATA) } });
      v.push_back({ "fault-recv-reset/" + c.name, c, { S_req(2), S_ev(mk(EV_FAULT, FS_RECV_RESET)), S_k(5), S_auto(RK_DATA) } });
      v.back().steps[2].a = RK_DATA;
    }
  }
  return v;
}

struct RunResult {
  std::vector<Viol> viols;
  uint64_t          nalloc = 0;
  bool              fault_hit = false, init_ok = true;
  std::string       outcome, leak_sites;
  std::vector<std::string> log;
};

static RunResult run_scenario(const Scenario &sc, const std::vector<ReqSpec> &reqs, uint64_t fail_at, bool want_log)
{
  RunResult r;
  World     w(&sc.cfg, &reqs);
  w.fail_at = fail_at;
  if (!w.init()) {
    r.init_ok = false;
    if (fail_at == 0) w.violate("HARNESS:init", "clean initialisation failed");
    r.fault_hit = vf::ledger().failed;
    r.nalloc    = vf::ledger().nalloc;
    if (w.ch) {
      w.do_destroy();
    }
    w.teardown();
    r.viols      = w.viols;
    r.leak_sites = w.leak_sites;
    r.outcome    = "init-failed";
    if (want_log) r.log = w.obs;
    return r;
  }
  for (auto &st : sc.steps) {
    if (!w.ch) break;
    switch (st.k) {
      case 0: w.apply(st.ev); break;
      case 1: w.issue(st.a, false); break;
      case 2:
        for (int round = 0; round < 12; round++) {
          if (w.pending_write_notified && w.ch) {
            w.pending_write_notified = false;
            w.in_lib                 = true;
            ares_process_pending_write(w.ch);
            w.in_lib = false;
          }
          for (auto &s : w.socks)
            if (s->open && s->connect_pending) {
              s->connect_pending = false;
              s->connected       = true;
            }
          for (int k = 0; k < 4 && !w.ready_fds(false).empty(); k++) w.do_io(false);
          std::vector<int> a = w.answerable_txs();
          if (a.empty()) break;
          for (int t : a) w.apply(mk(EV_REPLY, t, st.a));
          for (int k = 0; k < 4 && !w.ready_fds(false).empty(); k++) w.do_io(false);
        }
        break;
      case 5: { // one round: answer what is outstanding now with kind a
        std::vector<int> a = w.answerable_txs();
        for (int t : a) w.apply(mk(EV_REPLY, t, st.a));
        for (int k = 0; k < 4 && !w.ready_fds(false).empty(); k++) w.do_io(false);
        break;
      }
      case 6: {
        char *csv = ares_get_servers_csv(w.ch);
        w.log(std::string("get_servers_csv -> ") + (csv ? csv : "NULL"));
        ares_free_string(csv);
        break;
      }
      case 7: {
        int rc = ares_set_sortlist(w.ch, "10.9.0.0/255.255.0.0 10.10.0.0/16 fd00::/8");
        w.log("set_sortlist -> " + std::to_string(rc));
        break;
      }
      case 3: {
        ares_channel_t *d = nullptr;
        w.in_lib          = true;
        int rc            = ares_dup(&d, w.ch);
        if (rc == ARES_SUCCESS && d) ares_destroy(d);
        else if (d) w.violate("C14:dup:channel-returned-on-failure", "ares_dup failed but returned a channel");
        w.in_lib = false;
        w.log("dup -> " + std::to_string(rc));
        break;
      }
      case 4: {
        struct ares_options o;
        int                 mask = 0;
        memset(&o, 0, sizeof o);
        int rc = ares_save_options(w.ch, &o, &mask);
        ares_destroy_options(&o);
        w.log("save_options -> " + std::to_string(rc));
        break;
      }
    }
    w.check_invariants();
  }
  r.fault_hit = vf::ledger().failed;
  r.nalloc    = vf::ledger().nalloc;
  // the channel must remain usable: with the fault gone a fresh query completes
  vf::ledger().fail_at = 0;
  if (w.ch && !w.destroyed) {
    int nservers_left = 1;
    for (auto &st : sc.steps)
      if (st.k == 0 && st.ev.k == EV_SETSERVERS && st.ev.a == 1) nservers_left = 0;
    size_t tx0 = w.txs.size();
    int    tok = w.issue(11, false);
    for (int round = 0; round < 12 && tok >= 0 && w.ch && w.toks[(size_t)tok].count == 0; round++) {
      if (w.pending_write_notified) {
        w.pending_write_notified = false;
        w.in_lib                 = true;
        ares_process_pending_write(w.ch);
        w.in_lib = false;
      }
      for (auto &s : w.socks)
        if (s->open && s->connect_pending) {
          s->connect_pending = false;
          s->connected       = true;
        }
      for (int k = 0; k < 4 && !w.ready_fds(false).empty(); k++) w.do_io(false);
      // a cookie-capable answer: valid for servers that proved cookie support, plain otherwise
      for (int t : w.answerable_txs())
        if (t >= (int)tx0) w.apply(mk(EV_REPLY, t, RK_CK_VALID));
      for (int k = 0; k < 4 && !w.ready_fds(false).empty(); k++) w.do_io(false);
    }
    if (tok >= 0 && nservers_left && (w.toks[(size_t)tok].count != 1 || w.toks[(size_t)tok].status != ARES_SUCCESS))
      w.violate("C14:usable:fresh-query-did-not-succeed", "after the single allocation failure a fresh query on the same channel did not complete successfully (status " +
                                                              std::to_string(tok >= 0 ? w.toks[(size_t)tok].status : -9) + ")");
  }
  w.closure();
  w.teardown();
  r.viols      = w.viols;
  r.leak_sites = w.leak_sites;
  for (auto &t : w.toks) r.outcome += std::to_string(t.status) + ",";
  if (want_log) r.log = w.obs;
  return r;
}

int alloc_main(const vf::Args &a)
{
  vf::Report rep;
  rep.engine = "exa";
  rep.family = "alloc";
  rep.tier   = a.tier;
  bool                  quick = a.tier == "quick";
  double                t_end = vf::now_s() + a.deadline - 3;
  std::vector<ReqSpec>  reqs  = alloc_reqs();
  std::vector<Scenario> scs   = scenarios(quick);
  if (!a.replay.empty()) {
    FILE *f = fopen(a.replay.c_str(), "r");
    if (!f) return 3;
    std::string s;
    char        buf[4096];
    size_t      n;
    while ((n = fread(buf, 1, sizeof buf, f)) > 0) s.append(buf, n);
    fclose(f);
    // the replay file is re-serialised by the driver (spaces after colons are possible)
    auto after = [&](const char *field) -> size_t {
      size_t q = s.find(std::string("\"") + field + "\"");
      if (q == std::string::npos) return q;
      q = s.find(':', q);
      if (q == std::string::npos) return q;
      q++;
      while (q < s.size() && (s[q] == ' ' || s[q] == '\t')) q++;
      return q;
    };
    size_t      p  = after("scenario");
    std::string nm = (p == std::string::npos || s[p] != '"') ? "" : s.substr(p + 1, s.find('"', p + 1) - p - 1);
    p              = after("fail_at");
    uint64_t fa    = p == std::string::npos ? 0 : (uint64_t)atoll(s.c_str() + p);
    for (auto &sc : scenarios(false))
      if (sc.name == nm) {
        RunResult r = run_scenario(sc, reqs, fa, true);
        for (auto &l : r.log) printf("  %s\n", l.c_str());
        int bad = 0;
        for (auto &v : r.viols) {
          // same selection as the check itself
          bool counts = !(v.key.rfind("C10:interest:", 0) == 0) &&
                        (v.key.rfind("C14:", 0) == 0 || v.key.rfind("C01:", 0) == 0 || v.key.rfind("C10:", 0) == 0 || v.key.rfind("C07:", 0) == 0);
          printf("%s %s: %s\n", counts ? "VIOLATED" : "(not part of C14)", v.key.c_str(), v.desc.c_str());
          if (counts) bad = 1;
        }
        if (!bad) printf("property held on this case (allocation %llu of scenario %s failing)\n", (unsigned long long)fa, nm.c_str());
        return bad;
      }
    fprintf(stderr, "unknown scenario %s\n", nm.c_str());
    return 3;
  }
  vf::install_crash_handler(a.out + ".crash");
  vf::enable_partial_report(&rep, a.out);
  long index = 0;
  for (auto &sc : scs) {
    RunResult clean = run_scenario(sc, reqs, 0, false);
    rep.executions++;
    for (auto &v : clean.viols) {
      if (v.key.rfind("HARNESS:", 0) == 0) rep.internal_errors.push_back(sc.name + ": " + v.desc);
      else if (v.key.rfind("C14:", 0) == 0 || v.key.rfind("C01:", 0) == 0) rep.violation("C14:clean-run:" + v.key, "[" + sc.name + " without any fault] " + v.desc, "{\"index\":-1,\"scenario\":" + vf::jstr(sc.name) + ",\"fail_at\":0}");
    }
    uint64_t N = clean.nalloc;
    rep.count("allocations_total", N);
    for (uint64_t n = 1; n <= N; n++) {
      long my = index++;
      if (my % a.nshards != a.shard || my < a.resume) continue;
      if (vf::now_s() > t_end) {
        rep.exhaustive = false;
        break;
      }
      std::string rj = "{\"index\":" + std::to_string(my) + ",\"scenario\":" + vf::jstr(sc.name) + ",\"fail_at\":" + std::to_string(n) + "}";
      vf::set_current_case(rj, "C14:crash");
      vf::watchdog(30);
      RunResult r = run_scenario(sc, reqs, n, false);
      vf::watchdog(0);
      rep.executions++;
      rep.states++;
      rep.transitions += sc.steps.size() + 1;
      if (r.fault_hit) rep.witness("fault_hit");
      if (!r.init_ok) rep.witness("init_reported_failure");
      rep.outcome(r.outcome);
      if ((my % 499) == 0) rep.sample(rj);
      bool leak = false;
      for (auto &v : r.viols)
        if (v.key.find(":leak:") != std::string::npos) leak = true;
      std::string sites;
      if (leak) {
        // attribute the leak: same case again with allocation call stacks recorded
        vf::ledger().trace = true;
        RunResult r2       = run_scenario(sc, reqs, n, false);
        vf::ledger().trace = false;
        sites              = r2.leak_sites;
      }
      for (auto &v : r.viols) {
        // key: oracle + scenario kind (without the configuration suffix)
        std::string kind = sc.name.substr(0, sc.name.find('/'));
        std::string key  = v.key;
        // which sockets the application is told to watch after an allocation failed is not part of the statement of C14
        // (no crash, no corruption, no leak, one callback, usable and destroyable): the C10 interest rules are not applied
        if (key.rfind("C10:interest:", 0) == 0) continue;
        if (key.rfind("C01:", 0) == 0 || key.rfind("C10:", 0) == 0 || key.rfind("C07:", 0) == 0) key = "C14:" + key.substr(4);
        if (key.rfind("C14:", 0) != 0) continue;
        if (key.find(":leak:") != std::string::npos) {
          rep.violation("C14:leak:" + (sites.empty() ? kind : sites), "[" + sc.name + ", allocation " + std::to_string(n) + " of " + std::to_string(N) + " fails] " + v.desc + " allocated in " + sites, rj);
          continue;
        }
        rep.violation(key + ":" + kind, "[" + sc.name + ", allocation " + std::to_string(n) + " of " + std::to_string(N) + " fails] " + v.desc, rj);
      }
    }
    rep.count("scenarios");
  }
  rep.bound = "every allocation index 1..N of each of " + std::to_string(scs.size()) + " scenarios (init per configuration, each request kind answered / NXDOMAIN / timed out over UDP and TCP, cache hit, TC upgrade, failover, "
              "set_servers, reinit, cancel, destroy with requests outstanding, dup, save_options), one failing allocation per run";
  rep.write(a.out);
  return rep.internal_errors.empty() ? 0 : 3;
}

} // namespace exa
