// Minimal DNS wire encoder/decoder used by the virtual name servers of EX-A.
// Written for the harness; shares no code with c-ares (never calls ares_*).
#pragma once
#include <cstdint>
#include <string>
#include <vector>
#include <cstring>

namespace vdns {

typedef std::vector<unsigned char> Bytes;

enum { T_A = 1, T_NS = 2, T_CNAME = 5, T_SOA = 6, T_PTR = 12, T_MX = 15, T_TXT = 16, T_AAAA = 28, T_SRV = 33, T_OPT = 41 };
enum { RC_NOERROR = 0, RC_FORMERR = 1, RC_SERVFAIL = 2, RC_NXDOMAIN = 3, RC_NOTIMP = 4, RC_REFUSED = 5, RC_BADCOOKIE = 23 };

struct Question {
  std::vector<std::string> labels; // raw label bytes, case as on the wire
  uint16_t                 qtype = 0, qclass = 0;
};

struct Query { // what a virtual server understood from a transmission
  bool                  ok = false;
  uint16_t              id = 0, flags = 0;
  std::vector<Question> q;
  bool                  has_opt = false;
  uint16_t              udp_size = 0;
  bool                  has_cookie = false;
  Bytes                 client_cookie, server_cookie;
  uint16_t              ancount = 0, nscount = 0, arcount = 0;
  std::string           err;
  struct RRSeen {
    std::string owner;  // presentation form
    unsigned    type = 0, cls = 0;
    uint32_t    ttl = 0;
    std::string rdname; // for NS/CNAME/PTR: the name in RDATA (decompressed relative to the message start)
  };
  std::vector<RRSeen>   rrs;
};

inline std::string name_text(const std::vector<std::string> &labels)
{
  std::string s;
  for (auto &l : labels) {
    for (unsigned char c : l) {
      if (c == '.' || c == '\\') {
        s += '\\';
        s += (char)c;
      } else if (c <= 0x20 || c >= 0x7f) {
        char b[8];
        snprintf(b, sizeof b, "\\%03u", c);
        s += b;
      } else
        s += (char)c;
    }
    s += '.';
  }
  if (s.empty()) s = ".";
  return s;
}
inline std::string lower(std::string s)
{
  for (auto &c : s)
    if (c >= 'A' && c <= 'Z') c = (char)(c + 32);
  return s;
}

// read a possibly compressed name; returns false on malformed
inline bool read_name(const Bytes &m, size_t &off, std::vector<std::string> &labels)
{
  size_t pos = off, jumps = 0;
  bool   jumped = false;
  labels.clear();
  for (;;) {
    if (pos >= m.size()) return false;
    unsigned c = m[pos];
    if ((c & 0xc0) == 0xc0) {
      if (pos + 1 >= m.size()) return false;
      size_t tgt = ((c & 0x3f) << 8) | m[pos + 1];
      if (!jumped) off = pos + 2;
      jumped = true;
      if (++jumps > 64 || tgt >= pos) return false;
      pos = tgt;
      continue;
    }
    if (c & 0xc0) return false;
    pos++;
    if (c == 0) break;
    if (pos + c > m.size()) return false;
    labels.emplace_back((const char *)&m[pos], c);
    pos += c;
  }
  if (!jumped) off = pos;
  return true;
}

inline Query parse_query(const Bytes &m)
{
  Query q;
  if (m.size() < 12) {
    q.err = "short";
    return q;
  }
  q.id            = (uint16_t)(m[0] << 8 | m[1]);
  q.flags         = (uint16_t)(m[2] << 8 | m[3]);
  unsigned qd     = m[4] << 8 | m[5];
  q.ancount       = (uint16_t)(m[6] << 8 | m[7]);
  q.nscount       = (uint16_t)(m[8] << 8 | m[9]);
  q.arcount       = (uint16_t)(m[10] << 8 | m[11]);
  size_t off      = 12;
  for (unsigned i = 0; i < qd; i++) {
    Question qq;
    if (!read_name(m, off, qq.labels) || off + 4 > m.size()) {
      q.err = "question";
      return q;
    }
    qq.qtype  = (uint16_t)(m[off] << 8 | m[off + 1]);
    qq.qclass = (uint16_t)(m[off + 2] << 8 | m[off + 3]);
    off += 4;
    q.q.push_back(qq);
  }
  unsigned rrs = q.ancount + q.nscount + q.arcount;
  for (unsigned i = 0; i < rrs; i++) {
    std::vector<std::string> nm;
    if (!read_name(m, off, nm) || off + 10 > m.size()) {
      q.err = "rr";
      return q;
    }
    unsigned type = m[off] << 8 | m[off + 1];
    unsigned cls  = m[off + 2] << 8 | m[off + 3];
    unsigned rdl  = m[off + 8] << 8 | m[off + 9];
    uint32_t ttl = (uint32_t)m[off + 4] << 24 | (uint32_t)m[off + 5] << 16 | (uint32_t)m[off + 6] << 8 | m[off + 7];
    off += 10;
    if (off + rdl > m.size()) {
      q.err = "rdlen";
      return q;
    }
    {
      Query::RRSeen seen;
      seen.owner = name_text(nm);
      seen.type  = type;
      seen.cls   = cls;
      seen.ttl   = ttl;
      if (type == T_NS || type == T_CNAME || type == T_PTR) {
        size_t                   o2 = off;
        std::vector<std::string> rn;
        if (!read_name(m, o2, rn) || o2 != off + rdl) {
          q.err = "rdata-name";
          return q;
        }
        seen.rdname = name_text(rn);
      }
      q.rrs.push_back(seen);
    }
    if (type == T_OPT) {
      q.has_opt  = true;
      q.udp_size = (uint16_t)cls;
      size_t p = off, e = off + rdl;
      while (p + 4 <= e) {
        unsigned code = m[p] << 8 | m[p + 1], len = m[p + 2] << 8 | m[p + 3];
        p += 4;
        if (p + len > e) break;
        if (code == 10) {
          q.has_cookie = true;
          if (len >= 8) {
            q.client_cookie.assign(m.begin() + (long)p, m.begin() + (long)p + 8);
            q.server_cookie.assign(m.begin() + (long)p + 8, m.begin() + (long)(p + len));
          }
        }
        p += len;
      }
    }
    off += rdl;
  }
  if (off != m.size()) {
    q.err = "trailing";
    return q;
  }
  q.ok = true;
  return q;
}

struct W {
  Bytes b;
  void  u8(unsigned v) { b.push_back((unsigned char)v); }
  void  u16(unsigned v)
  {
    u8(v >> 8);
    u8(v & 0xff);
  }
  void u32(uint32_t v)
  {
    u16(v >> 16);
    u16(v & 0xffff);
  }
  void name(const std::vector<std::string> &labels)
  {
    for (auto &l : labels) {
      u8((unsigned)l.size());
      for (unsigned char c : l) u8(c);
    }
    u8(0);
  }
  void bytes(const Bytes &x) { b.insert(b.end(), x.begin(), x.end()); }
  // start an RR; returns offset of RDLENGTH to patch
  size_t rr(const std::vector<std::string> &owner, unsigned type, unsigned cls, uint32_t ttl)
  {
    name(owner);
    u16(type);
    u16(cls);
    u32(ttl);
    size_t p = b.size();
    u16(0);
    return p;
  }
  void rr_end(size_t p)
  {
    size_t l = b.size() - p - 2;
    b[p]     = (unsigned char)(l >> 8);
    b[p + 1] = (unsigned char)(l & 0xff);
  }
};

inline std::vector<std::string> labels_of(const std::string &dotted)
{
  std::vector<std::string> v;
  std::string              cur;
  for (char c : dotted) {
    if (c == '.') {
      if (!cur.empty()) v.push_back(cur);
      cur.clear();
    } else
      cur += c;
  }
  if (!cur.empty()) v.push_back(cur);
  return v;
}

// A response under construction.
struct Reply {
  uint16_t id = 0;
  unsigned rcode = 0; // may be > 15 (extended, needs OPT)
  bool     tc = false, aa = false, ra = true, rd = true, qr = true;
  std::vector<Question> q;
  struct RR {
    std::vector<std::string> owner;
    unsigned                 type, cls;
    uint32_t                 ttl;
    Bytes                    rdata;
  };
  std::vector<RR> an, ns, ar;
  bool            opt = false;
  uint16_t        opt_udp = 1232;
  Bytes           cookie; // full cookie option payload (client+server) or empty

  Bytes encode() const
  {
    W w;
    w.u16(id);
    unsigned f = (qr ? 0x8000 : 0) | (aa ? 0x0400 : 0) | (tc ? 0x0200 : 0) | (rd ? 0x0100 : 0) | (ra ? 0x0080 : 0) | (rcode & 0xf);
    w.u16(f);
    w.u16((unsigned)q.size());
    w.u16((unsigned)an.size());
    w.u16((unsigned)ns.size());
    w.u16((unsigned)ar.size() + (opt ? 1 : 0));
    for (auto &qq : q) {
      w.name(qq.labels);
      w.u16(qq.qtype);
      w.u16(qq.qclass);
    }
    for (auto *sec : { &an, &ns, &ar })
      for (auto &r : *sec) {
        size_t p = w.rr(r.owner, r.type, r.cls, r.ttl);
        w.bytes(r.rdata);
        w.rr_end(p);
      }
    if (opt) {
      w.u8(0);
      w.u16(T_OPT);
      w.u16(opt_udp);
      w.u32(((uint32_t)(rcode >> 4) & 0xff) << 24);
      size_t p = w.b.size();
      w.u16(0);
      if (!cookie.empty()) {
        w.u16(10);
        w.u16((unsigned)cookie.size());
        w.bytes(cookie);
      }
      w.rr_end(p);
    }
    return w.b;
  }
};

inline Bytes rdata_a(uint32_t ip)
{
  return Bytes{ (unsigned char)(ip >> 24), (unsigned char)(ip >> 16), (unsigned char)(ip >> 8), (unsigned char)ip };
}
inline Bytes rdata_aaaa(uint32_t marker)
{
  Bytes b = { 0x20, 0x01, 0x0d, 0xb8, 0, 0, 0, 0, 0, 0, 0, 0 };
  b.push_back((unsigned char)(marker >> 24));
  b.push_back((unsigned char)(marker >> 16));
  b.push_back((unsigned char)(marker >> 8));
  b.push_back((unsigned char)marker);
  return b;
}
inline Bytes rdata_name(const std::vector<std::string> &labels)
{
  W w;
  w.name(labels);
  return w.b;
}
inline Bytes rdata_txt(const std::string &s)
{
  Bytes b;
  b.push_back((unsigned char)s.size());
  b.insert(b.end(), s.begin(), s.end());
  return b;
}
inline Bytes rdata_soa(uint32_t minimum, uint32_t serial = 1)
{
  W w;
  w.name(labels_of("ns.example"));
  w.name(labels_of("hostmaster.example"));
  w.u32(serial);
  w.u32(3600);
  w.u32(600);
  w.u32(86400);
  w.u32(minimum);
  return w.b;
}

} // namespace vdns
