// Family definitions for EX-A. Each family fixes alphabet and bounds; the
// explorer enumerates everything inside them.
#include "exa_families.h"

namespace exa {

static Cfg cfg(const char *name, int nservers, int tries, unsigned flags)
{
  Cfg c;
  c.name     = name;
  c.nservers = nservers;
  c.tries    = tries;
  c.flags    = flags;
  c.domains  = { "example.com" };
  return c;
}

static ReqSpec rq(int kind, const char *name, int qtype = 1, int cbmode = 0, int cbarg = 0, int family = AF_INET)
{
  ReqSpec r;
  r.kind   = kind;
  r.name   = name;
  r.qtype  = qtype;
  r.cbmode = cbmode;
  r.cbarg  = cbarg;
  r.family = family;
  return r;
}

// request table shared by the life-* families
static std::vector<ReqSpec> life_reqs()
{
  std::vector<ReqSpec> v;
  v.push_back(rq(2, "www.example.com"));                 // 0 query_dnsrec
  v.push_back(rq(3, "www.example.com"));                 // 1 ares_query (legacy)
  v.push_back(rq(4, "host"));                            // 2 search_dnsrec (search list applies)
  v.push_back(rq(5, "host"));                            // 3 ares_search (legacy)
  v.push_back(rq(6, "www.example.com", 1, 0, 0, AF_UNSPEC)); // 4 getaddrinfo A+AAAA
  v.push_back(rq(7, "www.example.com", 1, 0, 0, AF_INET));   // 5 gethostbyname
  v.push_back(rq(8, "10.9.0.7", 12, 0, 0, AF_INET));     // 6 gethostbyaddr
  v.push_back(rq(9, "10.9.0.7", 12, 0, 0, AF_INET));     // 7 getnameinfo
  v.push_back(rq(0, "www.example.com"));                 // 8 send_dnsrec
  v.push_back(rq(1, "www.example.com"));                 // 9 ares_send (legacy)
  // 10: search name whose presentation form is twice its wire form (escaped dots are the only escapes a
  // host name may contain): 245 characters as given, legal on the wire (125 bytes); with the search
  // domain appended the presentation form exceeds 255 characters although the wire form stays legal
  {
    std::string n;
    for (int l = 0; l < 2; l++) {
      if (l) n += ".";
      for (int i = 0; i < 60; i++) n += "\\.";
      n += "ab";
    }
    v.push_back(rq(4, n.c_str()));
  }
  v.push_back(rq(6, "10.1.2.3", 1, 0, 0, AF_UNSPEC));    // 11 getaddrinfo literal
  v.push_back(rq(2, "cb.example.com", 1, 1, 0));         // 12 query; callback starts request 0
  v.push_back(rq(2, "cb.example.com", 1, 1, 2));         // 13 query; callback starts a search
  v.push_back(rq(2, "cb.example.com", 1, 2, 0));         // 14 query; callback cancels the channel
  v.push_back(rq(6, "cb.example.com", 1, 2, 0, AF_UNSPEC)); // 15 getaddrinfo; callback cancels
  v.push_back(rq(4, "cbhost", 1, 2, 0));                 // 16 search; callback cancels
  v.push_back(rq(6, "cb.example.com", 1, 1, 4, AF_INET)); // 17 getaddrinfo; callback starts getaddrinfo
  v.push_back(rq(2, "a.b.example.com", 28));             // 18 query AAAA, name with >= ndots dots
  v.push_back(rq(2, "cb.example.com", 1, 3, 3));         // 19 query; callback removes the first server from the list
  v.push_back(rq(2, "cb.example.com", 1, 3, 1));         // 20 query; callback sets an empty server list
  v.push_back(rq(2, "cb.example.com", 1, 3, 2));         // 21 query; callback swaps the order of the servers
  v.push_back(rq(6, "cb.example.com", 1, 3, 3, AF_UNSPEC)); // 22 getaddrinfo; callback removes the first server
  return v;
}

static Family life_udp(const std::string &tier)
{
  Family f;
  f.name = "life-udp";
  f.cfgs.push_back(cfg("1srv-2tries", 1, 2, 0));
  f.cfgs.push_back(cfg("2srv-1try-edns", 2, 1, ARES_FLAG_EDNS));
  {
    Cfg c             = cfg("1srv-stayopen-umq1", 1, 2, ARES_FLAG_STAYOPEN);
    c.udp_max_queries = 1;
    f.cfgs.push_back(c);
  }
  {
    Cfg c            = cfg("2srv-cache-0x20", 2, 2, ARES_FLAG_EDNS | ARES_FLAG_DNS0x20);
    c.qcache_max_ttl = 3600;
    f.cfgs.push_back(c);
  }
  {
    Cfg c     = cfg("1srv-hosts-fb", 1, 1, 0);
    c.lookups = "fb";
    c.hosts   = "10.9.9.9 hostsonly.example.com\n";
    f.cfgs.push_back(c);
  }
  {
    Cfg c       = cfg("2srv-1try-fd-numbers-reused", 2, 1, 0);
    c.reuse_fds = true;
    f.cfgs.push_back(c);
  }
  {
    // non-initial start: two requests already outstanding on one UDP socket
    Cfg c      = cfg("1srv-2tries-from-two-outstanding", 1, 2, 0);
    c.preamble = { { EV_REQ, 0, 0 }, { EV_REQ, 1, 0 } };
    f.cfgs.push_back(c);
  }
  f.reqs     = life_reqs();
  f.req_menu = { 0, 1, 2, 4, 5, 6, 7, 8, 9, 10, 11, 3 };
  f.replies  = { RK_DATA, RK_SERVFAIL, RK_TC, RK_NXDOMAIN, RK_MALFORMED };
  f.faults   = { FS_SOCKET, FS_CONNECT, FS_SEND_REFUSED, FS_SEND_WOULDBLOCK, FS_RECV_RESET, FS_GETSOCKNAME };
  // a read error may also hit the SECOND recvfrom() of one drain loop, i.e. right behind a datagram that was read
  f.fault_skips      = { 0, 1 };
  f.fault_skip_sites = { FS_RECV_RESET };
  f.setservers = { 1, 2 };
  f.evmask   = EVBIT(EV_REQ) | EVBIT(EV_REPLY) | EVBIT(EV_IO) | EVBIT(EV_TIMER) | EVBIT(EV_CANCEL) | EVBIT(EV_DESTROY) | EVBIT(EV_SETSERVERS) |
             EVBIT(EV_FAULT);
  f.max_req   = 2;
  f.max_depth = tier == "quick" ? 4 : 6;
  f.max_dev   = tier == "quick" ? 1 : 2;
  if (tier != "quick") f.max_req = 3;
  f.default_oracles = "C01";
  return f;
}

static Family life_reentrant(const std::string &tier)
{
  Family f   = life_udp(tier);
  f.name     = "life-reentrant";
  f.cfgs.resize(2);
  {
    // descriptor numbers are handed out like POSIX does (lowest free one): a connection closed and replaced inside a
    // callback comes back under the same number
    Cfg c       = cfg("1srv-2tries-fd-numbers-reused", 1, 2, 0);
    c.reuse_fds = true;
    f.cfgs.push_back(c);
  }
  {
    // non-initial start: a request whose callback re-enters the library and a plain one are outstanding together
    Cfg c      = cfg("1srv-2tries-from-reentrant-and-plain", 1, 2, 0);
    c.preamble = { { EV_REQ, 12, 0 }, { EV_REQ, 0, 0 } };
    f.cfgs.push_back(c);
  }
  f.req_menu = { 12, 13, 14, 15, 16, 17, 0 };
  f.replies  = { RK_DATA, RK_SERVFAIL, RK_NXDOMAIN };
  f.faults   = { FS_SEND_REFUSED, FS_SOCKET, FS_RECV_RESET };
  f.setservers = { 1 };
  return f;
}

static Family life_tcp(const std::string &tier)
{
  Family f = life_udp(tier);
  f.name   = "life-tcp";
  f.cfgs.clear();
  f.cfgs.push_back(cfg("usevc-1srv", 1, 2, ARES_FLAG_USEVC));
  {
    Cfg c          = cfg("usevc-2srv-inprogress", 2, 1, ARES_FLAG_USEVC | ARES_FLAG_EDNS);
    c.connect_mode = 1;
    f.cfgs.push_back(c);
  }
  {
    Cfg c = cfg("usevc-tfo", 1, 2, ARES_FLAG_USEVC);
    c.tfo = true;
    f.cfgs.push_back(c);
  }
  f.cfgs.push_back(cfg("udp-tc-upgrade-stayopen", 1, 2, ARES_FLAG_STAYOPEN));
  {
    // non-initial start: two requests queued on one TCP connection
    Cfg c      = cfg("usevc-1srv-from-two-queued", 1, 2, ARES_FLAG_USEVC);
    c.preamble = { { EV_REQ, 0, 0 }, { EV_REQ, 4, 0 } };
    f.cfgs.push_back(c);
  }
  f.req_menu = { 0, 4, 2, 14, 12 };
  f.replies  = { RK_DATA, RK_SERVFAIL, RK_TC, RK_MALFORMED };
  f.faults   = { FS_SOCKET, FS_CONNECT, FS_SEND_REFUSED, FS_SEND_SHORT, FS_SEND_WOULDBLOCK, FS_RECV_RESET };
  f.evmask |= EVBIT(EV_TCP);
  f.setservers = { 1 };
  return f;
}


// ---------------------------------------------------------------- C10: sock
static Family sock_family(const std::string &tier)
{
  Family f = life_tcp(tier);
  f.name   = "sock";
  f.cfgs.clear();
  {
    Cfg c             = cfg("udp-umq1", 1, 2, 0);
    c.udp_max_queries = 1;
    f.cfgs.push_back(c);
  }
  {
    Cfg c             = cfg("udp-umq2-stayopen-2srv", 2, 1, ARES_FLAG_STAYOPEN);
    c.udp_max_queries = 2;
    f.cfgs.push_back(c);
  }
  {
    Cfg c           = cfg("legacy-fds-udp", 1, 2, 0);
    c.sock_state_cb = false;
    f.cfgs.push_back(c);
  }
  {
    Cfg c           = cfg("legacy-fds-tcp-inprogress", 1, 2, ARES_FLAG_USEVC);
    c.sock_state_cb = false;
    c.connect_mode  = 1;
    f.cfgs.push_back(c);
  }
  {
    Cfg c           = cfg("legacy-getsock-udp-stayopen", 2, 1, ARES_FLAG_STAYOPEN);
    c.sock_state_cb = false;
    c.use_getsock   = true;
    f.cfgs.push_back(c);
  }
  {
    Cfg c          = cfg("tcp-inprogress-stayopen", 1, 2, ARES_FLAG_USEVC | ARES_FLAG_STAYOPEN);
    c.connect_mode = 1;
    f.cfgs.push_back(c);
  }
  {
    Cfg c = cfg("tcp-tfo-stayopen", 1, 2, ARES_FLAG_USEVC | ARES_FLAG_STAYOPEN);
    c.tfo = true;
    f.cfgs.push_back(c);
  }
  {
    Cfg c        = cfg("udp-localbind-edns", 1, 2, ARES_FLAG_EDNS);
    c.local_bind = true;
    f.cfgs.push_back(c);
  }
  {
    // the application's own callbacks on every new socket; either may reject it
    Cfg c        = cfg("udp-2srv-socketcallbacks", 2, 1, 0);
    c.socket_cbs = true;
    f.cfgs.push_back(c);
    Cfg d        = cfg("tcp-socketcallbacks-inprogress", 1, 2, ARES_FLAG_USEVC);
    d.socket_cbs = true;
    d.connect_mode = 1;
    f.cfgs.push_back(d);
  }
  {
    Cfg c              = cfg("tcp-pendingwrite", 1, 2, ARES_FLAG_USEVC);
    c.pending_write_cb = true;
    f.cfgs.push_back(c);
  }
  f.req_menu = { 0, 4, 2, 18 };
  f.replies  = { RK_DATA, RK_SERVFAIL, RK_TC };
  f.faults   = { FS_SOCKET, FS_SETSOCKOPT, FS_BIND, FS_CONNECT, FS_GETSOCKNAME, FS_SEND_REFUSED, FS_SEND_WOULDBLOCK, FS_SEND_SHORT, FS_RECV_RESET, FS_SEND_EINTR, FS_RECV_EINTR, FS_SOCKCFGCB, FS_SOCKCB };
  f.setservers = { 1, 2 };
  f.evmask |= EVBIT(EV_TCP) | EVBIT(EV_WRITECB);
  f.default_oracles = "C10";
  return f;
}

// --------------------------------------------------------------- C06: retry
static Family retry_family(const std::string &tier)
{
  Family f;
  f.name = "retry";
  struct P {
    int srv, tries, to, maxto, umq;
    unsigned flags;
    bool rotate;
  };
  std::vector<P> ps = {
    { 1, 1, 2000, 0, 0, 0, false },       { 1, 2, 2000, 0, 0, 0, false },        { 1, 3, 250, 0, 0, ARES_FLAG_EDNS, false },
    { 2, 1, 2000, 0, 0, 0, false },       { 2, 2, 2000, 5000, 0, ARES_FLAG_EDNS, false }, { 2, 2, 1, 0, 1, 0, false },
    { 3, 1, 2000, 0, 0, 0, true },        { 2, 2, 2000, 1, 0, 0, false },        { 1, 3, 2000, 3000, 2, ARES_FLAG_EDNS, false },
    { 2, 1, 250, 0, 0, ARES_FLAG_USEVC, false }, { 3, 2, 1000, 2500, 0, ARES_FLAG_EDNS, true }, { 1, 2, 2000, 0, 0, ARES_FLAG_EDNS | ARES_FLAG_DNS0x20, false },
  };
  for (auto &p : ps) {
    Cfg c             = cfg("", p.srv, p.tries, p.flags);
    c.timeout_ms      = p.to;
    c.maxtimeout_ms   = p.maxto;
    c.udp_max_queries = p.umq;
    c.rotate          = p.rotate;
    char b[128];
    snprintf(b, sizeof b, "srv%d-tries%d-to%d-max%d-umq%d-fl%x%s", p.srv, p.tries, p.to, p.maxto, p.umq, p.flags, p.rotate ? "-rot" : "");
    c.name = b;
    f.cfgs.push_back(c);
  }
  {
    // non-initial starts: the server's latency has already been measured (three answered requests), so the base timeout
    // of the explored attempts is the learned one. Slow server: 1100 ms per answer (5 x average = 5500 ms, above every
    // configured maximum); fast server: immediate answers.
    auto learned = [](int latency_ms) {
      std::vector<std::array<int, 3>> pre;
      int                             tx = 0;
      for (int rqi : { 8, 1, 9 }) {
        pre.push_back({ EV_REQ, rqi, 0 });
        if (latency_ms) pre.push_back({ EV_ADVANCE, latency_ms, 0 });
        pre.push_back({ EV_REPLY, tx++, RK_DATA });
        pre.push_back({ EV_IO, 0, 0 });
      }
      return pre;
    };
    Cfg c           = cfg("srv1-tries2-to2000-max2500-from-learned-slow", 1, 2, 0);
    c.timeout_ms    = 2000;
    c.maxtimeout_ms = 2500;
    c.preamble      = learned(1100);
    f.cfgs.push_back(c);
    Cfg d           = cfg("srv2-tries2-to2000-max0-from-learned-slow", 2, 2, ARES_FLAG_EDNS);
    d.timeout_ms    = 2000;
    d.preamble      = learned(1100);
    f.cfgs.push_back(d);
    Cfg e           = cfg("srv1-tries3-to2000-max3000-from-learned-fast", 1, 3, 0);
    e.timeout_ms    = 2000;
    e.maxtimeout_ms = 3000;
    e.preamble      = learned(0);
    f.cfgs.push_back(e);
  }
  {
    // rarely combined flags: truncation ignored (no UDP->TCP switch on TC) together with EDNS cookies, whose BADCOOKIE
    // re-sends are bounded only by the forced switch to TCP; and error replies passed through
    Cfg c = cfg("srv2-tries2-edns-igntc", 2, 2, ARES_FLAG_EDNS | ARES_FLAG_IGNTC);
    f.cfgs.push_back(c);
    Cfg d      = cfg("srv1-tries1-edns-igntc-from-two-badcookie-resends", 1, 1, ARES_FLAG_EDNS | ARES_FLAG_IGNTC);
    d.preamble = { { EV_REQ, 0, 0 }, { EV_REPLY, 0, RK_BADCOOKIE }, { EV_IO, 0, 0 }, { EV_REPLY, 1, RK_BADCOOKIE }, { EV_IO, 0, 0 } };
    f.cfgs.push_back(d);
    Cfg e = cfg("srv2-tries1-nocheckresp-igntc", 2, 1, ARES_FLAG_NOCHECKRESP | ARES_FLAG_IGNTC);
    f.cfgs.push_back(e);
  }
  f.reqs     = life_reqs();
  f.req_menu = { 0, 18 };
  f.replies  = { RK_SERVFAIL, RK_REFUSED, RK_NOTIMP, RK_FORMERR_NOOPT, RK_TC, RK_BADCOOKIE, RK_DATA };
  f.faults   = { FS_SOCKET, FS_CONNECT, FS_SEND_REFUSED, FS_RECV_RESET, FS_SEND_EINTR, FS_RECV_EINTR, FS_SEND_ENOBUFS };
  f.setservers = { 2, 4 };
  f.evmask   = EVBIT(EV_REQ) | EVBIT(EV_REPLY) | EVBIT(EV_IO) | EVBIT(EV_TIMER) | EVBIT(EV_SETSERVERS) | EVBIT(EV_FAULT);
  f.policy_mask = (1u << ARES_VERIF_RAND_JITTER) | (1u << ARES_VERIF_RAND_ROTATE);
  f.max_req   = 2;
  f.max_depth = tier == "quick" ? 5 : 7;
  f.max_dev   = tier == "quick" ? 1 : 2;
  f.default_oracles = "C06";
  f.end_oracle = [](World &w, const History &h) { oracle_c06_retry(w, h); };
  return f;
}

// tries >= 64: one long all-silent history per configuration (the shift in the timeout doubling)
static Family retry_long_family(const std::string &tier)
{
  Family f = retry_family(tier);
  f.name   = "retry-long";
  f.cfgs.clear();
  for (int tries : { 64, 65, 70 })
    for (int srv : { 1, 2 }) {
      Cfg c           = cfg("", srv, tries, 0);
      c.timeout_ms    = 250;
      c.maxtimeout_ms = 1000;
      char b[64];
      snprintf(b, sizeof b, "srv%d-tries%d", srv, tries);
      c.name = b;
      f.cfgs.push_back(c);
    }
  f.req_menu  = { 0 };
  f.replies   = {};
  f.faults    = {};
  f.setservers = {};
  f.evmask    = EVBIT(EV_REQ);
  f.policy_mask = 0;
  f.max_req   = 1;
  f.max_depth = 1;
  return f;
}

// ------------------------------------------------------------ C05: adversary
static Family adversary_family(const std::string &tier)
{
  Family f;
  f.name = "adversary";
  {
    Cfg c            = cfg("2srv-edns-cache", 2, 2, ARES_FLAG_EDNS);
    c.qcache_max_ttl = 3600;
    f.cfgs.push_back(c);
  }
  {
    Cfg c            = cfg("2srv-0x20-cache", 2, 2, ARES_FLAG_DNS0x20);
    c.qcache_max_ttl = 3600;
    f.cfgs.push_back(c);
  }
  {
    Cfg c            = cfg("2srv-plain-stayopen", 2, 2, ARES_FLAG_STAYOPEN);
    c.qcache_max_ttl = 3600;
    f.cfgs.push_back(c);
  }
  {
    Cfg c = cfg("1srv-usevc", 1, 2, ARES_FLAG_USEVC);
    f.cfgs.push_back(c);
  }
  {
    // non-initial start: the server proved cookie support more than a day ago (the client cookie is due for rotation);
    // a cookie-less answer is as illegitimate as ever
    Cfg c            = cfg("1srv-edns-from-proven-a-day-ago", 1, 2, ARES_FLAG_EDNS);
    c.qcache_max_ttl = 3600;
    c.preamble       = { { EV_REQ, 0, 0 }, { EV_REPLY, 0, RK_CK_VALID }, { EV_IO, 0, 0 }, { EV_ADVANCE, 86401000, 0 } };
    f.cfgs.push_back(c);
  }
  {
    // non-initial start: the server proved cookie support, then the local address changed (the next request goes out
    // from another source address with a fresh client cookie): the server still supports cookies
    Cfg c            = cfg("1srv-edns-from-proven-then-source-address-changed", 1, 2, ARES_FLAG_EDNS);
    c.qcache_max_ttl = 0;
    c.preamble       = { { EV_REQ, 0, 0 }, { EV_REPLY, 0, RK_CK_VALID }, { EV_IO, 0, 0 }, { EV_SRCADDR, 1, 0 } };
    f.cfgs.push_back(c);
  }
  {
    // truncated UDP answers are delivered as they are (IGNTC): truncation exempts a packet from nothing
    Cfg c            = cfg("1srv-edns-igntc-from-proven", 1, 2, ARES_FLAG_EDNS | ARES_FLAG_IGNTC);
    c.qcache_max_ttl = 3600;
    c.preamble       = { { EV_REQ, 0, 0 }, { EV_REPLY, 0, RK_CK_VALID }, { EV_IO, 0, 0 } };
    f.cfgs.push_back(c);
  }
  {
    Cfg c            = cfg("2srv-0x20-igntc-nocheckresp", 2, 2, ARES_FLAG_DNS0x20 | ARES_FLAG_IGNTC | ARES_FLAG_NOCHECKRESP);
    c.qcache_max_ttl = 3600;
    f.cfgs.push_back(c);
  }
  f.reqs       = life_reqs();
  f.req_menu   = { 0, 18 };
  f.req_repeat = true;
  f.replies    = { RK_DATA, RK_TC, RK_SERVFAIL, RK_CK_VALID };
  f.forges     = { FG_WRONGID, FG_WRONGNAME, FG_WRONGTYPE, FG_WRONGCLASS, FG_CASEFLIP, FG_WRONGSRC, FG_OTHERSOCK, FG_NOCOOKIE, FG_BADCLIENTCOOKIE, FG_WRONGSRC_FRAMED, FG_NOCOOKIE_TC };
  f.evmask     = EVBIT(EV_REQ) | EVBIT(EV_REPLY) | EVBIT(EV_FORGE) | EVBIT(EV_IO) | EVBIT(EV_TIMER);
  f.max_req    = 2;
  f.max_forge  = tier == "quick" ? 1 : 2;
  f.max_dev    = tier == "quick" ? 1 : 2;
  f.max_depth  = tier == "quick" ? 5 : 7;
  f.default_oracles = "C05";
  f.end_oracle = [](World &w, const History &h) { oracle_c05_provenance(w, h); };
  return f;
}

// ---------------------------------------------------------------- C08: cache
static Family cache_family(const std::string &tier)
{
  Family f;
  f.name = "cache";
  for (int maxttl : { 3600, 5, 0 })
    for (unsigned fl : { 0u, (unsigned)ARES_FLAG_DNS0x20 }) {
      if (maxttl == 0 && fl) continue;
      Cfg c            = cfg("", 1, 2, fl | ARES_FLAG_EDNS);
      c.qcache_max_ttl = maxttl;
      char b[64];
      snprintf(b, sizeof b, "1srv-maxttl%d-%s", maxttl, fl ? "0x20" : "plain");
      c.name = b;
      f.cfgs.push_back(c);
    }
  {
    Cfg c            = cfg("2srv-maxttl3600", 2, 1, ARES_FLAG_EDNS);
    c.qcache_max_ttl = 3600;
    f.cfgs.push_back(c);
  }
  {
    // truncation ignored: a truncated answer is delivered to the application, but must still never be replayed
    Cfg c            = cfg("1srv-maxttl3600-igntc", 1, 2, ARES_FLAG_IGNTC);
    c.qcache_max_ttl = 3600;
    f.cfgs.push_back(c);
  }
  {
    // non-initial start: the base question is already cached (TTL 5 s) when the search begins
    Cfg c            = cfg("1srv-maxttl3600-from-cached-ttl5", 1, 2, ARES_FLAG_EDNS);
    c.qcache_max_ttl = 3600;
    c.preamble       = { { EV_REQ, 0, 0 }, { EV_REPLY, 0, RK_DATA_TTL5 } };
    f.cfgs.push_back(c);
    if (tier != "quick") {
      Cfg d            = cfg("1srv-maxttl5-from-cached-multi", 1, 2, ARES_FLAG_EDNS);
      d.qcache_max_ttl = 5;
      d.preamble       = { { EV_REQ, 0, 0 }, { EV_REPLY, 0, RK_DATA_MULTI } };
      f.cfgs.push_back(d);
    }
  }
  // request table: a base question and its near misses
  f.reqs.push_back(rq(2, "www.example.com"));           // 0 base (query_dnsrec A IN rd)
  f.reqs.push_back(rq(2, "WWW.Example.COM"));           // 1 other case
  f.reqs.push_back(rq(2, "www.example.com", 28));       // 2 other type
  {
    ReqSpec r = rq(2, "www.example.com");
    r.qclass  = 3;
    f.reqs.push_back(r);                                // 3 other class (CHAOS)
  }
  {
    ReqSpec r = rq(0, "www.example.com");
    r.rd      = false;
    f.reqs.push_back(r);                                // 4 send_dnsrec RD off
  }
  {
    ReqSpec r = rq(0, "www.example.com");
    r.cd      = true;
    f.reqs.push_back(r);                                // 5 send_dnsrec CD on
  }
  f.reqs.push_back(rq(3, "www.example.com"));           // 6 legacy ares_query (buffer consumer)
  f.reqs.push_back(rq(4, "www"));                       // 7 search: www + example.com
  f.reqs.push_back(rq(6, "www.example.com", 1, 0, 0, AF_INET)); // 8 getaddrinfo A only
  f.reqs.push_back(rq(2, "www.example.com."));          // 9 trailing dot
  f.reqs.push_back(rq(0, "www.example.com"));           // 10 send_dnsrec, same as base
  f.reqs.push_back(rq(2, "www.example.com", 65280));    // 11 a type the library has no name for
  f.reqs.push_back(rq(2, "www.example.com", 65281));    // 12 another such type: must not share a cache entry with 11
  for (auto &c : f.cfgs) c.auto_io = true;
  f.req_repeat = true;
  if (tier == "quick") {
    f.req_menu = { 0, 1, 2, 4, 6, 8, 10 };
    f.replies  = { RK_DATA_TTL5, RK_DATA_MULTI, RK_DATA_SOA, RK_NXDOMAIN, RK_NODATA, RK_TC, RK_SERVFAIL };
    f.advances = { 1000, 6000, 31000 };
    f.setservers = { 0, 3 };
  } else {
    f.req_menu   = { 0, 1, 2, 3, 4, 5, 6, 7, 8, 9, 10 };
    f.replies    = { RK_DATA, RK_DATA_TTL5, RK_DATA_TTL0, RK_DATA_MULTI, RK_DATA_SOA, RK_NXDOMAIN, RK_NXDOMAIN_NOSOA, RK_NODATA, RK_TC, RK_SERVFAIL };
    f.advances   = { 1000, 4000, 6000, 31000, 3601000 };
    f.setservers = { 0, 2, 3 };
  }
  f.evmask     = EVBIT(EV_REQ) | EVBIT(EV_REPLY) | EVBIT(EV_IO) | EVBIT(EV_ADVANCE) | EVBIT(EV_SETSERVERS) | EVBIT(EV_REINIT);
  f.max_req    = tier == "quick" ? 3 : 4;
  f.max_adv    = 2;
  f.max_depth  = tier == "quick" ? 4 : 5;
  f.default_oracles = "C08";
  f.end_oracle = [](World &w, const History &h) { oracle_c08_cache_end(w, h); };
  return f;
}

// ------------------------------------------------------------- C09: failover
static Family failover_family(const std::string &tier)
{
  Family f;
  f.name = "failover";
  struct P {
    int srv; bool rot; int chance, delay, tries;
  };
  std::vector<P> ps = { { 2, false, 0, 5000, 2 }, { 2, false, 1, 0, 2 }, { 2, false, 1, 5000, 2 }, { 2, true, 0, 5000, 1 }, { 3, false, 1, 0, 1 }, { 3, true, 1, 5000, 1 } };
  if (tier != "quick") ps.push_back({ 3, false, 0, 5000, 2 });
  for (auto &p : ps) {
    Cfg c          = cfg("", p.srv, p.tries, 0);
    c.rotate       = p.rot;
    c.retry_chance = p.chance;
    c.retry_delay  = p.delay;
    c.auto_io      = true;
    char b[96];
    snprintf(b, sizeof b, "srv%d-%s-chance%d-delay%d-tries%d", p.srv, p.rot ? "rotate" : "norotate", p.chance, p.delay, p.tries);
    c.name = b;
    f.cfgs.push_back(c);
  }
  {
    // TCP: connection-level failures (peer close, reset) with a request pending must demote the server too
    Cfg c          = cfg("srv2-usevc-norotate-chance0", 2, 2, ARES_FLAG_USEVC);
    c.retry_chance = 0;
    c.auto_io      = true;
    c.eager_io     = true; // frames reach the wire in the event that queued them: decision time = transmission time
    f.cfgs.push_back(c);
    Cfg d          = cfg("srv2-udp-stayopen-norotate-chance0", 2, 2, ARES_FLAG_STAYOPEN);
    d.retry_chance = 0;
    d.auto_io      = true;
    f.cfgs.push_back(d);
  }
  {
    // non-initial start: the first server has already failed once (request a timed out there and moved on), so the
    // search spends its depth on what happens to a demoted server (probes, restoration, further failures)
    Cfg c          = cfg("srv2-norotate-chance1-delay0-tries2-from-failed0", 2, 2, 0);
    c.retry_chance = 1;
    c.retry_delay  = 0;
    c.auto_io      = true;
    c.preamble     = { { EV_REQ, 0, 0 }, { EV_TIMER, 0, 0 } };
    f.cfgs.push_back(c);
    Cfg e          = cfg("srv2-norotate-chance1-delay5000-tries2-from-failed0", 2, 2, 0);
    e.retry_chance = 1;
    e.retry_delay  = 5000;
    e.auto_io      = true;
    e.preamble     = { { EV_REQ, 0, 0 }, { EV_TIMER, 0, 0 } };
    f.cfgs.push_back(e);
    Cfg d          = cfg("srv3-norotate-chance0-tries2-from-failed0", 3, 2, 0);
    d.retry_chance = 0;
    d.auto_io      = true;
    d.preamble     = { { EV_REQ, 0, 0 }, { EV_TIMER, 0, 0 } };
    f.cfgs.push_back(d);
  }
  {
    // ARES_FLAG_PRIMARY: only the first configured server is used, also after the same list is applied again while that
    // server has failures
    Cfg c          = cfg("srv2-primary-norotate-chance0", 2, 2, ARES_FLAG_PRIMARY);
    c.retry_chance = 0;
    c.auto_io      = true;
    f.cfgs.push_back(c);
  }
  {
    // TCP with the deferred-write notification: the frames are flushed by ares_process_pending_write(); a send failure
    // there is a failure of that server like any other
    Cfg c              = cfg("srv2-usevc-stayopen-pendingwrite-norotate-chance0", 2, 2, ARES_FLAG_USEVC | ARES_FLAG_STAYOPEN);
    c.retry_chance     = 0;
    c.auto_io          = true;
    c.pending_write_cb = true;
    f.cfgs.push_back(c);
  }
  // selection policy is the subject here, not I/O timing: descriptors are serviced after every event so that a frame
  // reaches the wire in the event that chose its server
  for (auto &c : f.cfgs) c.eager_io = true;
  f.reqs.push_back(rq(2, "a.example.com"));
  f.reqs.push_back(rq(2, "b.example.com"));
  f.reqs.push_back(rq(2, "c.example.com", 28));
  f.req_menu   = { 0, 1, 2 };
  f.replies    = { RK_DATA, RK_SERVFAIL, RK_TC };
  f.faults     = { FS_SEND_REFUSED, FS_SEND_ENOBUFS, FS_CONNECT, FS_RECV_RESET };
  f.setservers = { 2, 3, 0 };
  f.advances   = { 6000 };
  f.evmask     = EVBIT(EV_REQ) | EVBIT(EV_REPLY) | EVBIT(EV_TIMER) | EVBIT(EV_FAULT) | EVBIT(EV_SETSERVERS) | EVBIT(EV_ADVANCE) | EVBIT(EV_IO) | EVBIT(EV_TCP) | EVBIT(EV_WRITECB);
  f.policy_mask = (1u << ARES_VERIF_RAND_ROTATE) | (1u << ARES_VERIF_RAND_PROBE);
  f.max_req    = 3;
  f.max_adv    = 1;
  f.max_depth  = tier == "quick" ? 5 : 7;
  f.max_dev    = 1;
  f.default_oracles = "C09";
  f.end_oracle = [](World &w, const History &h) { oracle_c09_failover(w, h); };
  return f;
}

// --------------------------------------------------------------- C12: search
static Family search_family(const std::string &tier)
{
  Family f;
  f.name = "search";
  std::vector<std::vector<std::string>> doms = { {}, { "d1.test" }, { "d1.test", "d2.test" }, { "." }, { "d1.test", "." } };
  for (int ndots : { 0, 1, 2, 3 })
    for (size_t di = 0; di < doms.size(); di++) {
      if (tier == "quick" && ndots == 3 && di != 2) continue;
      Cfg c     = cfg("", 1, 1, 0);
      c.ndots   = ndots;
      c.domains = doms[di];
      c.auto_io = true;
      char b[64];
      snprintf(b, sizeof b, "ndots%d-doms%zu", ndots, di);
      c.name = b;
      f.cfgs.push_back(c);
    }
  {
    Cfg c     = cfg("nosearch", 1, 1, ARES_FLAG_NOSEARCH);
    c.domains = { "d1.test", "d2.test" };
    c.auto_io = true;
    f.cfgs.push_back(c);
  }
  {
    Cfg c         = cfg("aliases", 1, 1, 0);
    c.domains     = { "d1.test" };
    c.hostaliases = "host real.alias.test\nother x.y.test\n";
    c.auto_io     = true;
    f.cfgs.push_back(c);
  }
  {
    Cfg c         = cfg("noaliases", 1, 1, ARES_FLAG_NOALIASES);
    c.domains     = { "d1.test" };
    c.hostaliases = "host real.alias.test\n";
    c.auto_io     = true;
    f.cfgs.push_back(c);
  }
  {
    // the application's search list (also an EMPTY one passed with ARES_OPT_DOMAINS) and ndots win over what the system
    // configuration file says
    Cfg c        = cfg("ndots1-doms-none-by-option-system-file-has-a-search-list", 1, 1, 0);
    c.domains    = {};
    c.ndots      = 1;
    c.sys_resolv = "search sys1.test sys2.test\noptions ndots:3\n";
    c.auto_io    = true;
    f.cfgs.push_back(c);
    Cfg d        = cfg("ndots1-doms1-by-option-system-file-has-a-search-list", 1, 1, 0);
    d.domains    = { "d1.test" };
    d.ndots      = 1;
    d.sys_resolv = "search sys1.test sys2.test\noptions ndots:3\n";
    d.auto_io    = true;
    f.cfgs.push_back(d);
  }
  const char *names[] = { "host", "a.b", "a.b.c", "a.b.c.d", "host.", "a.b.", "a\\.b" };
  for (const char *n : names) {
    f.reqs.push_back(rq(4, n));                          // search_dnsrec
    f.reqs.push_back(rq(5, n));                          // ares_search (legacy)
    f.reqs.push_back(rq(6, n, 1, 0, 0, AF_UNSPEC));      // getaddrinfo A+AAAA
    f.reqs.push_back(rq(7, n, 1, 0, 0, AF_INET));        // gethostbyname
  }
  for (int i = 0; i < (int)f.reqs.size(); i++) {
    if (tier == "quick" && (i % 4 == 1 || i % 4 == 3) && i >= 8) continue; // legacy variants only for the first two names in quick
    f.req_menu.push_back(i);
  }
  f.replies   = { RK_DATA, RK_NODATA, RK_NXDOMAIN, RK_SERVFAIL, RK_REFUSED };
  f.evmask    = EVBIT(EV_REQ) | EVBIT(EV_REPLY) | EVBIT(EV_TIMER);
  f.max_req   = 1;
  f.max_timer = 1;
  f.max_depth = tier == "quick" ? 5 : 7;
  f.default_oracles = "C12";
  f.end_oracle = [](World &w, const History &h) { oracle_c12_search(w, h); };
  return f;
}

// ---------------------------------------------------------------- C13: addrs
static Family addrs_family(const std::string &tier)
{
  Family f;
  f.name = "addrs";
  struct P {
    const char *lookups, *hosts, *sortlist;
  };
  std::vector<P> ps = {
    { "b", "", "" },
    { "b", "", "10.9.0.0/255.255.0.0 10.10.0.0/255.255.0.0" },
    { "fb", "10.7.7.7 hosted.example.com hostalias\nfd00::77 hosted.example.com\n", "" },
    { "bf", "10.7.7.7 hosted.example.com\n", "" },
    { "f", "10.7.7.7 hosted.example.com\n", "" },
  };
  for (auto &p : ps) {
    Cfg c      = cfg("", 1, 1, 0);
    c.lookups  = p.lookups;
    c.hosts    = p.hosts;
    c.sortlist = p.sortlist;
    c.domains  = {};
    c.auto_io  = true;
    c.name     = std::string("lookups-") + p.lookups + (p.hosts[0] ? "-hosts" : "") + (p.sortlist[0] ? "-sortlist" : "");
    f.cfgs.push_back(c);
  }
  if (tier == "envhosts") {
    // two hosts files: the configured one (ARES_OPT_HOSTS_FILE) and the one $CARES_HOSTS names, which requests with
    // ARES_AI_ENVHOSTS must be answered from; the same name has different addresses in each, one name exists in one only
    Cfg c       = cfg("lookups-f-hosts-and-envhosts", 1, 1, 0);
    c.lookups   = "f";
    c.hosts     = "10.7.7.7 hosted.example.com\n10.7.7.8 onlyconf.example.com\n";
    c.env_hosts = "10.8.8.8 hosted.example.com\nfd00::88 hosted.example.com\n10.8.8.9 onlyenv.example.com\n";
    c.domains   = {};
    c.auto_io   = true;
    c.whole_second_clock = true; // the files are older than the load, so a loaded copy counts as current
    f.cfgs.clear();
    f.cfgs.push_back(c);
    Cfg d     = c;
    d.name    = "lookups-fb-hosts-and-envhosts";
    d.lookups = "fb";
    f.cfgs.push_back(d);
  }
  auto gai = [&](const char *n, int fam, int flags, const char *svc) {
    ReqSpec r  = rq(6, n, 1, 0, 0, fam);
    r.ai_flags = flags;
    r.service  = svc;
    f.reqs.push_back(r);
  };
  for (int fam : { AF_UNSPEC, AF_INET, AF_INET6 }) {
    gai("www.example.com", fam, 0, "");
    gai("www.example.com", fam, ARES_AI_NOSORT | ARES_AI_CANONNAME, "");
    gai("www.example.com", fam, ARES_AI_NUMERICSERV, "8080");
  }
  gai("hosted.example.com", AF_UNSPEC, 0, "");
  gai("hosted.example.com", AF_INET6, 0, "");
  gai("10.1.2.3", AF_UNSPEC, 0, "");
  gai("fd00::9", AF_INET6, 0, "");
  gai("10.1.2.3", AF_UNSPEC, ARES_AI_NUMERICSERV, "8080");   // literal with a service (the port's two octets differ)
  gai("fd00::9", AF_INET6, ARES_AI_NUMERICSERV, "443");
  gai("hosted.example.com", AF_UNSPEC, ARES_AI_NUMERICSERV, "8080");
  gai("localhost", AF_UNSPEC, ARES_AI_NUMERICSERV, "8080");
  gai("localhost", AF_UNSPEC, 0, "");
  gai("x.localhost", AF_INET, 0, "");
  gai("10.1.2.3", AF_INET6, 0, "");                           // an IPv4 literal for an IPv6-only lookup: nothing of the other family may come back
  gai("hosted.example.com", AF_UNSPEC, ARES_AI_ENVHOSTS, "");
  gai("onlyenv.example.com", AF_INET, ARES_AI_ENVHOSTS, "");
  gai("onlyconf.example.com", AF_INET, ARES_AI_ENVHOSTS, "");
  gai("onlyconf.example.com", AF_INET, 0, "");
  f.reqs.push_back(rq(7, "www.example.com", 1, 0, 0, AF_INET));
  f.reqs.push_back(rq(7, "www.example.com", 1, 0, 0, AF_INET6));
  f.reqs.push_back(rq(7, "hosted.example.com", 1, 0, 0, AF_INET));
  f.reqs.push_back(rq(8, "10.9.0.7", 12, 0, 0, AF_INET));
  f.reqs.push_back(rq(8, "fd00::1234:5", 12, 0, 0, AF_INET6));
  f.reqs.push_back(rq(9, "10.250.3.77", 12, 0, 0, AF_INET));
  f.reqs.push_back(rq(9, "2001:db8::ff00:42:8329", 12, 0, 0, AF_INET6));
  for (int i = 0; i < (int)f.reqs.size(); i++) f.req_menu.push_back(i);
  f.replies   = { RK_DATA, RK_DATA_MULTI, RK_CNAME_DATA, RK_DATA_MIXED, RK_NODATA, RK_NXDOMAIN };
  // the RFC 6724 sort probes a source address per destination through the channel's socket functions: every one of
  // those calls (the first few sockets after the query's own) may fail
  f.faults      = { FS_SOCKET, FS_CONNECT, FS_GETSOCKNAME };
  f.fault_skips = { 0, 1, 2, 3 };
  f.max_dev     = 1;
  f.evmask    = EVBIT(EV_REQ) | EVBIT(EV_REPLY) | EVBIT(EV_SRCADDR) | EVBIT(EV_FAULT);
  f.max_req   = 1;
  f.max_depth = tier == "quick" ? 4 : 5;
  f.default_oracles = "C13";
  f.end_oracle = [](World &w, const History &h) { oracle_c13_addrs(w, h); };
  return f;
}

// --------------------------------------------------------------- C17: cookie
static Family cookie_family(const std::string &tier)
{
  Family f;
  f.name = "cookie";
  {
    Cfg c     = cfg("1srv-edns", 1, 3, ARES_FLAG_EDNS);
    c.auto_io = true;
    f.cfgs.push_back(c);
  }
  {
    Cfg c     = cfg("2srv-edns", 2, 2, ARES_FLAG_EDNS);
    c.auto_io = true;
    f.cfgs.push_back(c);
  }
  {
    Cfg c                = cfg("1srv-edns-wholesecond", 1, 3, ARES_FLAG_EDNS);
    c.auto_io            = true;
    c.whole_second_clock = true;
    f.cfgs.push_back(c);
  }
  {
    // non-initial start: the server has already proven cookie support (request a answered with a valid cookie)
    Cfg c      = cfg("1srv-edns-from-proven", 1, 3, ARES_FLAG_EDNS);
    c.auto_io  = true;
    c.preamble = { { EV_REQ, 0, 0 }, { EV_REPLY, 0, RK_CK_VALID } };
    f.cfgs.push_back(c);
  }
  {
    // non-initial start: support proven, then a cookie-less reply to the next request was dropped (regression timer
    // armed, request b still outstanding)
    Cfg c      = cfg("1srv-edns-from-regressing", 1, 3, ARES_FLAG_EDNS);
    c.auto_io  = true;
    c.preamble = { { EV_REQ, 0, 0 }, { EV_REPLY, 0, RK_CK_VALID }, { EV_REQ, 1, 0 }, { EV_REPLY, 1, RK_CK_NONE } };
    f.cfgs.push_back(c);
  }
  {
    // non-initial start: request a has already been answered BADCOOKIE twice (two of its three permitted re-sends used)
    Cfg c      = cfg("1srv-edns-from-two-badcookie-resends", 1, 3, ARES_FLAG_EDNS);
    c.auto_io  = true;
    c.preamble = { { EV_REQ, 0, 0 }, { EV_REPLY, 0, RK_BADCOOKIE }, { EV_REPLY, 1, RK_BADCOOKIE } };
    if (tier != "quick") c.depth_cut = 1; // three events deep already
    f.cfgs.push_back(c);
  }
  {
    // socket functions without agetsockname (the callback is optional): the local address is unknown, which is one
    // constant source as far as cookies are concerned
    Cfg c            = cfg("1srv-edns-socket-functions-without-getsockname", 1, 3, ARES_FLAG_EDNS);
    c.auto_io        = true;
    c.no_getsockname = true;
    f.cfgs.push_back(c);
  }
  {
    // truncation ignored (IGNTC): the switch to TCP after three BADCOOKIE re-sends has nothing to do with truncation and
    // must still happen
    Cfg c      = cfg("1srv-edns-igntc-from-two-badcookie-resends", 1, 3, ARES_FLAG_EDNS | ARES_FLAG_IGNTC);
    c.auto_io  = true;
    c.preamble = { { EV_REQ, 0, 0 }, { EV_REPLY, 0, RK_BADCOOKIE }, { EV_REPLY, 1, RK_BADCOOKIE } };
    c.depth_cut = 1;
    f.cfgs.push_back(c);
  }
  f.reqs.push_back(rq(2, "a.example.com"));
  f.reqs.push_back(rq(2, "b.example.com", 28));
  f.req_menu   = { 0, 1 };
  f.req_repeat = true;
  f.replies    = { RK_CK_NONE, RK_CK_VALID, RK_CK_VALID2, RK_CK_WRONGCLIENT, RK_BADCOOKIE, RK_BADCOOKIE_BARE, RK_TC };
  f.advances   = { 119000, 121000, 301000, 86401000 };
  // the cookie is bound to the local address the library learns through getsockname(): that call may fail
  f.faults     = { FS_GETSOCKNAME };
  f.max_dev    = 1;
  f.evmask     = EVBIT(EV_REQ) | EVBIT(EV_REPLY) | EVBIT(EV_TIMER) | EVBIT(EV_ADVANCE) | EVBIT(EV_SRCADDR) | EVBIT(EV_IO) | EVBIT(EV_FAULT);
  f.max_req    = tier == "quick" ? 3 : 4;
  f.max_adv    = 2;
  f.max_depth  = tier == "quick" ? 6 : 8;
  f.default_oracles = "C17";
  f.end_oracle = [](World &w, const History &h) { oracle_c17_cookie(w, h); };
  return f;
}

// ----------------------------------------------------------- C03: wire frames
static Family wire_family(const std::string &tier)
{
  Family f;
  f.name = "wire";
  f.cfgs.push_back(cfg("udp", 1, 2, 0));
  f.cfgs.push_back(cfg("udp-edns-0x20", 2, 2, ARES_FLAG_EDNS | ARES_FLAG_DNS0x20));
  f.cfgs.push_back(cfg("tcp", 1, 2, ARES_FLAG_USEVC));
  {
    Cfg c          = cfg("tcp-edns-inprogress", 1, 2, ARES_FLAG_USEVC | ARES_FLAG_EDNS);
    c.connect_mode = 1;
    f.cfgs.push_back(c);
  }
  {
    Cfg c              = cfg("tcp-pendingwrite-stayopen", 1, 2, ARES_FLAG_USEVC | ARES_FLAG_STAYOPEN);
    c.pending_write_cb = true;
    f.cfgs.push_back(c);
  }
  f.reqs.push_back(rq(10, "www.example.com"));
  f.reqs.push_back(rq(10, "mail.sub.example.org", 28));
  f.reqs.push_back(rq(10, "a.b.c.d.example.net", 16));
  f.reqs.push_back(rq(2, "plain.example.com"));
  f.req_menu   = { 0, 1, 2, 3 };
  f.replies    = { RK_DATA, RK_TC, RK_FORMERR_NOOPT };
  f.faults     = { FS_SEND_SHORT, FS_SEND_WOULDBLOCK };
  f.evmask     = EVBIT(EV_REQ) | EVBIT(EV_REPLY) | EVBIT(EV_IO) | EVBIT(EV_TIMER) | EVBIT(EV_TCP) | EVBIT(EV_FAULT) | EVBIT(EV_WRITECB);
  f.max_req    = 3;
  f.max_depth  = tier == "quick" ? 5 : 7;
  f.max_dev    = 1;
  f.default_oracles = "C03";
  f.end_oracle = [](World &w, const History &h) { oracle_c03_wire(w, h); };
  return f;
}

const Family *find_family(const std::string &name, const std::string &tier)
{
  static std::map<std::string, Family> cache;
  std::string                          k = name + "/" + tier;
  auto                                 it = cache.find(k);
  if (it != cache.end()) return &it->second;
  Family f;
  if (name == "life-udp") f = life_udp(tier);
  else if (name == "life-tcp") f = life_tcp(tier);
  else if (name == "life-reentrant") f = life_reentrant(tier);
  else if (name == "sock") f = sock_family(tier);
  else if (name == "retry") f = retry_family(tier);
  else if (name == "retry-long") f = retry_long_family(tier);
  else if (name == "adversary") f = adversary_family(tier);
  else if (name == "cache") f = cache_family(tier);
  else if (name == "life-reconf") {
    // completion callbacks that change the server list (remove the first server, set none, swap the order) while the
    // library is in the middle of processing answers, timeouts or a cancel
    f      = life_udp(tier);
    f.name = "life-reconf";
    f.cfgs.clear();
    f.cfgs.push_back(cfg("2srv-2tries-edns", 2, 2, ARES_FLAG_EDNS));
    f.cfgs.push_back(cfg("2srv-1try-usevc", 2, 1, ARES_FLAG_USEVC));
    {
      Cfg c             = cfg("2srv-2tries-stayopen-umq1", 2, 2, ARES_FLAG_STAYOPEN);
      c.udp_max_queries = 1;
      f.cfgs.push_back(c);
    }
    {
      Cfg c       = cfg("2srv-1try-fd-numbers-reused", 2, 1, 0);
      c.reuse_fds = true;
      f.cfgs.push_back(c);
    }
    {
      // the query cache owns the record a completion callback is looking at; a callback that changes the servers
      // flushes the cache
      Cfg c            = cfg("2srv-2tries-cache", 2, 2, 0);
      c.qcache_max_ttl = 3600;
      f.cfgs.push_back(c);
    }
    {
      // deferred writes: ares_process_pending_write() walks the server list while a failing flush completes queries
      Cfg c              = cfg("2srv-1try-usevc-tfo-pendingwrite", 2, 1, ARES_FLAG_USEVC);
      c.tfo              = true;
      c.pending_write_cb = true;
      f.cfgs.push_back(c);
      Cfg d              = cfg("1srv-1try-usevc-tfo-pendingwrite", 1, 1, ARES_FLAG_USEVC);
      d.tfo              = true;
      d.pending_write_cb = true;
      f.cfgs.push_back(d);
    }
    f.req_menu   = { 19, 20, 21, 22, 0, 4 };
    f.replies    = { RK_DATA, RK_SERVFAIL, RK_FORMERR_NOOPT, RK_TC };
    f.faults     = { FS_SEND_REFUSED, FS_RECV_RESET };
    f.fault_skips = { 0 };
    f.fault_skip_sites.clear();
    f.setservers = {};
    f.evmask     = EVBIT(EV_REQ) | EVBIT(EV_REPLY) | EVBIT(EV_IO) | EVBIT(EV_TIMER) | EVBIT(EV_CANCEL) | EVBIT(EV_FAULT) | EVBIT(EV_TCP) | EVBIT(EV_WRITECB);
    f.max_req    = tier == "quick" ? 2 : 3;
    f.max_depth  = tier == "quick" ? 4 : 5;
    f.max_dev    = 1;
  } else if (name == "opts" || name == "opts-reconf") {
    // configuration sweep: every single toggle and every PAIR of toggles from a table of documented options over a
    // two-server base configuration, each explored with a small alphabet (pairwise coverage of the option space; the
    // other families fix a handful of hand-picked combinations and go deeper)
    f      = sock_family(tier);
    f.name = "opts";
    f.cfgs.clear();
    struct Tg {
      const char *n;
      void (*ap)(Cfg &);
    };
    static const Tg tg[] = {
      { "stayopen", [](Cfg &c) { c.flags |= ARES_FLAG_STAYOPEN; } },
      { "usevc", [](Cfg &c) { c.flags |= ARES_FLAG_USEVC; } },
      { "igntc", [](Cfg &c) { c.flags |= ARES_FLAG_IGNTC; } },
      { "nocheckresp", [](Cfg &c) { c.flags |= ARES_FLAG_NOCHECKRESP; } },
      { "edns", [](Cfg &c) { c.flags |= ARES_FLAG_EDNS; } },
      { "psz512", [](Cfg &c) { c.flags |= ARES_FLAG_EDNS; c.ednspsz = 512; } },
      { "0x20", [](Cfg &c) { c.flags |= ARES_FLAG_DNS0x20; } },
      { "primary", [](Cfg &c) { c.flags |= ARES_FLAG_PRIMARY; } },
      { "umq1", [](Cfg &c) { c.udp_max_queries = 1; } },
      { "maxto1500", [](Cfg &c) { c.maxtimeout_ms = 1500; } },
      { "rotate", [](Cfg &c) { c.rotate = true; } },
      { "probe", [](Cfg &c) { c.retry_chance = 1; c.retry_delay = 0; } },
      { "nofailoveropt", [](Cfg &c) { c.set_failover = false; } },
      { "cache", [](Cfg &c) { c.qcache_max_ttl = 3600; } },
      { "localbind", [](Cfg &c) { c.local_bind = true; } },
      { "pendingwrite", [](Cfg &c) { c.pending_write_cb = true; } },
      { "legacyfds", [](Cfg &c) { c.sock_state_cb = false; } },
      { "getsock", [](Cfg &c) { c.sock_state_cb = false; c.use_getsock = true; } },
      { "tfo", [](Cfg &c) { c.tfo = true; } },
      { "inprogress", [](Cfg &c) { c.connect_mode = 1; } },
      { "server6", [](Cfg &c) { c.server6 = true; } },
      { "fdreuse", [](Cfg &c) { c.reuse_fds = true; } },
      { "tries1", [](Cfg &c) { c.tries = 1; } },
      { "nosearch", [](Cfg &c) { c.flags |= ARES_FLAG_NOSEARCH; } },
      { "sockcbs", [](Cfg &c) { c.socket_cbs = true; } },
    };
    const int ntg = (int)(sizeof(tg) / sizeof(tg[0]));
    f.cfgs.push_back(cfg("base", 2, 2, 0));
    for (int i = 0; i < ntg; i++) {
      Cfg c = cfg(tg[i].n, 2, 2, 0);
      tg[i].ap(c);
      f.cfgs.push_back(c);
    }
    for (int i = 0; i < ntg; i++)
      for (int j = i + 1; j < ntg; j++) {
        std::string nm = std::string(tg[i].n) + "+" + tg[j].n;
        Cfg         c  = cfg("", 2, 2, 0);
        c.name         = nm;
        tg[i].ap(c);
        tg[j].ap(c);
        f.cfgs.push_back(c);
      }
    f.req_menu   = { 0, 4, 2, 14, 12 }; // incl. a query whose callback cancels the channel and one whose callback starts a request
    if (name == "opts-reconf") {
      // the same configurations with completion callbacks that change the server list
      f.name     = "opts-reconf";
      f.req_menu = { 19, 20, 22, 0, 4 };
    }
    f.replies    = { RK_DATA, RK_SERVFAIL, RK_TC };
    f.faults     = { FS_SEND_REFUSED, FS_RECV_RESET, FS_SOCKCB };
    f.fault_skips = { 0 };
    f.fault_skip_sites.clear();
    f.setservers = { 1 };
    f.max_req    = 2;
    f.max_depth  = tier == "quick" ? 4 : 5;
    f.max_dev    = tier == "quick" ? 0 : 1;
  } else if (name == "search-fault") {
    // one socket() failure (EAGAIN) while a candidate's connection is being opened: the candidate list and the stopping
    // rule are unchanged by it (the attempt failed; it is not an answer)
    f      = search_family(tier);
    f.name = "search-fault";
    {
      std::vector<Cfg> keep;
      for (auto &c : f.cfgs)
        if (c.name == "ndots1-doms2" || c.name == "ndots2-doms2") keep.push_back(c);
      for (auto &c : keep) c.udp_max_queries = 1; // every candidate needs a socket of its own
      Cfg two      = keep[0];
      two.name     = "ndots1-doms2-2srv";
      two.nservers = 2;
      keep.push_back(two);
      f.cfgs = keep;
    }
    f.req_menu.clear();
    for (int i = 0; i < (int)f.reqs.size(); i++)
      if (i / 4 <= 1 && (i % 4 == 0 || i % 4 == 2)) f.req_menu.push_back(i);
    f.replies     = { RK_DATA, RK_NXDOMAIN };
    f.faults      = { FS_SOCKET_EAGAIN };
    f.fault_skips = { 0 };
    f.max_dev     = 1;
    f.evmask |= EVBIT(EV_FAULT);
    f.max_depth = 5;
  } else if (name == "addrs-envhosts") {
    // which hosts file answers is a per-request choice (ARES_AI_ENVHOSTS): up to three lookups in a row on one channel,
    // alternating between the configured file and the one the environment names
    f      = addrs_family("envhosts");
    f.name = "addrs-envhosts";
    f.req_menu.clear();
    for (int i = 0; i < (int)f.reqs.size(); i++) {
      const std::string &n = f.reqs[(size_t)i].name;
      if ((n == "hosted.example.com" && f.reqs[(size_t)i].service.empty()) || n == "onlyenv.example.com" || n == "onlyconf.example.com") f.req_menu.push_back(i);
    }
    f.req_repeat = true;
    f.max_req    = 3;
    f.replies    = { RK_DATA, RK_NXDOMAIN };
    f.faults     = {};
    f.max_dev    = 0;
    f.evmask     = EVBIT(EV_REQ) | EVBIT(EV_REPLY);
    f.max_depth  = tier == "quick" ? 4 : 5;
  } else if (name == "addrs-cache") {
    // address lookups answered from the query cache, more than once and at different ages
    f      = addrs_family(tier);
    f.name = "addrs-cache";
    f.cfgs.clear();
    {
      Cfg c            = cfg("lookups-b-cache", 1, 1, 0);
      c.lookups        = "b";
      c.domains        = {};
      c.auto_io        = true;
      c.qcache_max_ttl = 3600;
      f.cfgs.push_back(c);
    }
    f.req_menu   = { 0, 3, 6 }; // getaddrinfo www.example.com for AF_UNSPEC, AF_INET, AF_INET6
    f.req_repeat = true;
    f.max_req    = 3;
    f.replies    = { RK_DATA, RK_DATA_MULTI };
    f.advances   = { 2000, 3000 };
    f.max_adv    = 2;
    f.faults     = {};
    f.evmask     = EVBIT(EV_REQ) | EVBIT(EV_REPLY) | EVBIT(EV_ADVANCE);
    f.max_depth  = 6;
  } else if (name == "search-reinit") {
    // the search list and ndots come from the configuration FILE, and reinits happen before the request: one during
    // which the file cannot be read (must change nothing and must not block later reinits), one after the file changed
    f      = search_family(tier);
    f.name = "search-reinit";
    f.cfgs.clear();
    for (int ndots : { 1, 3 }) {
      Cfg c            = cfg("", 1, 1, 0);
      c.ndots          = ndots;
      c.domains        = { "d1.test", "d2.test" };
      c.auto_io        = true;
      c.sysconf_search = true;
      char b[64];
      snprintf(b, sizeof b, "file-ndots%d-doms2", ndots);
      c.name = b;
      f.cfgs.push_back(c);
    }
    f.req_menu.clear();
    for (int i = 0; i < (int)f.reqs.size(); i++)
      if (i / 4 <= 1 && (i % 4 == 0 || i % 4 == 2)) f.req_menu.push_back(i); // names host and a.b through search_dnsrec and getaddrinfo
    f.replies         = { RK_DATA, RK_NXDOMAIN };
    f.evmask         |= EVBIT(EV_REINIT);
    f.max_reinit      = 2;
    f.reinit_variants = { 1, 2 };
    f.max_depth       = 5;
  } else if (name == "cache-types") {
    // key and rcode corner cases on one configuration: two query types the library has no name for (they must not share
    // an entry), and an error rcode beyond the classic 0..5
    f      = cache_family(tier);
    f.name = "cache-types";
    f.cfgs.resize(1);
    f.req_menu = { 0, 2, 11, 12 };
    f.replies  = { RK_DATA, RK_NOTAUTH, RK_SERVFAIL, RK_NXDOMAIN };
    f.advances = { 1000 };
    f.setservers = {};
    f.evmask   = EVBIT(EV_REQ) | EVBIT(EV_REPLY) | EVBIT(EV_IO) | EVBIT(EV_ADVANCE);
  } else if (name == "retry-gai") {
    // the retry family's oracles on a dual-family getaddrinfo (the lookup marks the second question 'no retries' once
    // the first is answered): two small configurations, one request
    f      = retry_family(tier);
    f.name = "retry-gai";
    std::vector<Cfg> keep;
    for (auto &c : f.cfgs)
      if (c.preamble.empty() && c.tries == 2 && (c.flags == 0) && c.maxtimeout_ms == 0 && c.timeout_ms == 2000 && !c.rotate) keep.push_back(c);
    f.cfgs     = keep;
    f.req_menu = { 4 };
    f.replies  = { RK_DATA, RK_TC, RK_SERVFAIL, RK_NODATA };
    f.faults   = {};
    f.setservers = {};
    f.evmask   = EVBIT(EV_REQ) | EVBIT(EV_REPLY) | EVBIT(EV_IO) | EVBIT(EV_TIMER);
    f.max_req  = 1;
  } else if (name == "cache-deep") {
    // the quick alphabet one level deeper (the thorough alphabet does not complete at that depth)
    f      = cache_family("quick");
    f.name = "cache-deep";
  }
  else if (name == "failover") f = failover_family(tier);
  else if (name == "search") f = search_family(tier);
  else if (name == "addrs") f = addrs_family(tier);
  else if (name == "cookie") f = cookie_family(tier);
  else if (name == "wire") f = wire_family(tier);
  else return nullptr;
  cache[k] = f;
  return &cache[k];
}

} // namespace exa
