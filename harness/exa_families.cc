// Family definitions for EX-A. Each family fixes alphabet and bounds; the
// explorer enumerates everything inside them.
#include "exa_families.h"

namespace exa {

static Cfg cfg(const char *name, int nservers, int tries, unsigned flags)
{
  Cfg c;
  c.name     = name;
  c.nservers = nservers;
  c.tries    = tries;
  c.flags    = flags;
  c.domains  = { "example.com" };
  return c;
}

static ReqSpec rq(int kind, const char *name, int qtype = 1, int cbmode = 0, int cbarg = 0, int family = AF_INET)
{
  ReqSpec r;
  r.kind   = kind;
  r.name   = name;
  r.qtype  = qtype;
  r.cbmode = cbmode;
  r.cbarg  = cbarg;
  r.family = family;
  return r;
}

// request table shared by the life-* families
static std::vector<ReqSpec> life_reqs()
{
  std::vector<ReqSpec> v;
  v.push_back(rq(2, "www.example.com"));                 // 0 query_dnsrec
  v.push_back(rq(3, "www.example.com"));                 // 1 ares_query (legacy)
  v.push_back(rq(4, "host"));                            // 2 search_dnsrec (search list applies)
  v.push_back(rq(5, "host"));                            // 3 ares_search (legacy)
  v.push_back(rq(6, "www.example.com", 1, 0, 0, AF_UNSPEC)); // 4 getaddrinfo A+AAAA
  v.push_back(rq(7, "www.example.com", 1, 0, 0, AF_INET));   // 5 gethostbyname
  v.push_back(rq(8, "10.9.0.7", 12, 0, 0, AF_INET));     // 6 gethostbyaddr
  v.push_back(rq(9, "10.9.0.7", 12, 0, 0, AF_INET));     // 7 getnameinfo
  v.push_back(rq(0, "www.example.com"));                 // 8 send_dnsrec
  v.push_back(rq(1, "www.example.com"));                 // 9 ares_send (legacy)
  // 10: search name whose presentation form is twice its wire form (escaped dots are the only escapes a
  // host name may contain): 245 characters as given, legal on the wire (125 bytes); with the search
  // domain appended the presentation form exceeds 255 characters although the wire form stays legal
  {
    std::string n;
    for (int l = 0; l < 2; l++) {
      if (l) n += ".";
      for (int i = 0; i < 60; i++) n += "\\.";
      n += "ab";
    }
    v.push_back(rq(4, n.c_str()));
  }
  v.push_back(rq(6, "10.1.2.3", 1, 0, 0, AF_UNSPEC));    // 11 getaddrinfo literal
  v.push_back(rq(2, "cb.example.com", 1, 1, 0));         // 12 query; callback starts request 0
  v.push_back(rq(2, "cb.example.com", 1, 1, 2));         // 13 query; callback starts a search
  v.push_back(rq(2, "cb.example.com", 1, 2, 0));         // 14 query; callback cancels the channel
  v.push_back(rq(6, "cb.example.com", 1, 2, 0, AF_UNSPEC)); // 15 getaddrinfo; callback cancels
  v.push_back(rq(4, "cbhost", 1, 2, 0));                 // 16 search; callback cancels
  v.push_back(rq(6, "cb.example.com", 1, 1, 4, AF_INET)); // 17 getaddrinfo; callback starts getaddrinfo
  v.push_back(rq(2, "a.b.example.com", 28));             // 18 query AAAA, name with >= ndots dots
  return v;
}

static Family life_udp(const std::string &tier)
{
  Family f;
  f.name = "life-udp";
  f.cfgs.push_back(cfg("1srv-2tries", 1, 2, 0));
  f.cfgs.push_back(cfg("2srv-1try-edns", 2, 1, ARES_FLAG_EDNS));
  {
    Cfg c             = cfg("1srv-stayopen-umq1", 1, 2, ARES_FLAG_STAYOPEN);
    c.udp_max_queries = 1;
    f.cfgs.push_back(c);
  }
  {
    Cfg c            = cfg("2srv-cache-0x20", 2, 2, ARES_FLAG_EDNS | ARES_FLAG_DNS0x20);
    c.qcache_max_ttl = 3600;
    f.cfgs.push_back(c);
  }
  {
    Cfg c     = cfg("1srv-hosts-fb", 1, 1, 0);
    c.lookups = "fb";
    c.hosts   = "10.9.9.9 hostsonly.example.com\n";
    f.cfgs.push_back(c);
  }
  f.reqs     = life_reqs();
  f.req_menu = { 0, 1, 2, 4, 5, 6, 7, 8, 9, 10, 11, 3 };
  f.replies  = { RK_DATA, RK_SERVFAIL, RK_TC, RK_NXDOMAIN, RK_MALFORMED };
  f.faults   = { FS_SOCKET, FS_CONNECT, FS_SEND_REFUSED, FS_SEND_WOULDBLOCK, FS_RECV_RESET, FS_GETSOCKNAME };
  f.setservers = { 1, 2 };
  f.evmask   = EVBIT(EV_REQ) | EVBIT(EV_REPLY) | EVBIT(EV_IO) | EVBIT(EV_TIMER) | EVBIT(EV_CANCEL) | EVBIT(EV_DESTROY) | EVBIT(EV_SETSERVERS) |
             EVBIT(EV_FAULT);
  f.max_req   = 2;
  f.max_depth = tier == "quick" ? 4 : 6;
  f.max_dev   = tier == "quick" ? 1 : 2;
  if (tier != "quick") f.max_req = 3;
  f.default_oracles = "C01";
  return f;
}

static Family life_reentrant(const std::string &tier)
{
  Family f   = life_udp(tier);
  f.name     = "life-reentrant";
  f.cfgs.resize(2);
  f.req_menu = { 12, 13, 14, 15, 16, 17, 0 };
  f.replies  = { RK_DATA, RK_SERVFAIL, RK_NXDOMAIN };
  f.faults   = { FS_SEND_REFUSED, FS_SOCKET };
  f.setservers = { 1 };
  return f;
}

static Family life_tcp(const std::string &tier)
{
  Family f = life_udp(tier);
  f.name   = "life-tcp";
  f.cfgs.clear();
  f.cfgs.push_back(cfg("usevc-1srv", 1, 2, ARES_FLAG_USEVC));
  {
    Cfg c          = cfg("usevc-2srv-inprogress", 2, 1, ARES_FLAG_USEVC | ARES_FLAG_EDNS);
    c.connect_mode = 1;
    f.cfgs.push_back(c);
  }
  {
    Cfg c = cfg("usevc-tfo", 1, 2, ARES_FLAG_USEVC);
    c.tfo = true;
    f.cfgs.push_back(c);
  }
  f.cfgs.push_back(cfg("udp-tc-upgrade-stayopen", 1, 2, ARES_FLAG_STAYOPEN));
  f.req_menu = { 0, 4, 2, 14, 12 };
  f.replies  = { RK_DATA, RK_SERVFAIL, RK_TC, RK_MALFORMED };
  f.faults   = { FS_SOCKET, FS_CONNECT, FS_SEND_REFUSED, FS_SEND_SHORT, FS_SEND_WOULDBLOCK, FS_RECV_RESET };
  f.evmask |= EVBIT(EV_TCP);
  f.setservers = { 1 };
  return f;
}

const Family *find_family(const std::string &name, const std::string &tier)
{
  static std::map<std::string, Family> cache;
  std::string                          k = name + "/" + tier;
  auto                                 it = cache.find(k);
  if (it != cache.end()) return &it->second;
  Family f;
  if (name == "life-udp") f = life_udp(tier);
  else if (name == "life-tcp") f = life_tcp(tier);
  else if (name == "life-reentrant") f = life_reentrant(tier);
  else return nullptr;
  cache[k] = f;
  return &cache[k];
}

} // namespace exa
