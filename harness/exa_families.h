// Families: configuration list x request table x event alphabet x budgets x oracles
#pragma once
#include "exa_world.h"
#include <functional>

namespace exa {

struct Family {
  std::string          name;
  std::vector<Cfg>     cfgs;
  std::vector<ReqSpec> reqs;     // request table (indices are what EV_REQ / cbarg refer to)
  std::vector<int>     req_menu; // which of them the application may issue at top level
  std::vector<int>     replies, forges, advances, faults, setservers;
  std::vector<int>     reinit_variants = { 0 }; // 0 plain, 1 the configuration file is unreadable during it, 2 the file's content has changed
  std::vector<int>     fault_skips = { 0 };
  std::vector<int>     fault_skip_sites;   // sites the non-zero skip counts apply to (empty: all sites of the family) // an armed fault hits the (skip+1)-th call of its site
  unsigned             evmask = 0;
  unsigned             policy_mask = 0; // bit per ARES_VERIF_RAND_* purpose whose draws are enumerated
  int                  max_req = 2, max_depth = 4, max_dev = 1, max_cancel = 1, max_adv = 2, max_setsrv = 1, max_reinit = 1, max_forge = 1,
      max_timer = 99, max_tcpev = 1;
  bool                 io_one = false, req_repeat = false;
  std::string          default_oracles;
  // family specific oracles (reference models); violations are recorded through World::violate
  std::function<void(World &, const History &, size_t)> step_oracle; // after event i of the history
  std::function<void(World &, const History &)>         end_oracle;  // after closure
};

#define EVBIT(k) (1u << (k))

const Family *find_family(const std::string &name, const std::string &tier);

// reference-model oracles (exa_oracles.cc)
void oracle_c05_provenance(World &w, const History &h);
void oracle_c06_retry(World &w, const History &h);
void oracle_c08_cache_step(World &w, const History &h, size_t i);
void oracle_c08_cache_end(World &w, const History &h);
void oracle_c09_failover(World &w, const History &h);
void oracle_c12_search(World &w, const History &h);
void oracle_c13_addrs(World &w, const History &h);
void oracle_c17_cookie(World &w, const History &h);
void oracle_c03_wire(World &w, const History &h);

} // namespace exa
