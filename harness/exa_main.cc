// EX-A: explicit-state search over the real c-ares transition function.
//   exa <family> --tier quick|thorough --shard i/n --out f.json --deadline s
//       [--oracles C01,C10] [--depth d] [--dev k] [--dedup 0|1] [--poison file] [--replay file]
#include "exa_world.h"
#include "exa_families.h"
#include <unordered_set>
#include <algorithm>

using namespace exa;

namespace exa {

struct Node {
  History          h;
  std::vector<Ev>  enabled;
};

struct Explorer {
  const Family  *fam;
  vf::Args       args;
  vf::Report     rep;
  std::vector<std::string> oracles;
  std::set<std::string>    poison;
  int            depth = 4, maxdev = 1;
  bool           dedup = true;
  double         t_end = 0;
  bool           deadline_hit = false;
  uint64_t       dup_hits = 0;
  int            completed_depth = 0;
  int            audit_depth = 0;

  bool oracle_on(const std::string &key) const
  {
    if (key.rfind("HARNESS:", 0) == 0) return true;
    for (auto &o : oracles)
      if (key.rfind(o + ":", 0) == 0) return true;
    return false;
  }

  std::string replay_json(int cfgi, const History &h) const
  {
    return "{\"family\":" + vf::jstr(fam->name) + ",\"cfg\":" + std::to_string(cfgi) + ",\"cfg_name\":" + vf::jstr(fam->cfgs[(size_t)cfgi].name) +
           ",\"hist\":" + hist_json(h) + "}";
  }

  // budgets derived from the history
  struct Budget {
    int n[EV_NKINDS] = { 0 };
    int dev = 0;
  };
  static Budget budget_of(const History &h)
  {
    Budget b;
    for (auto &e : h) {
      b.n[e.k]++;
      if (e.k == EV_FAULT || e.k == EV_FORGE) b.dev++;
    }
    return b;
  }

  std::vector<Ev> enabled_events(World &w, const History &h)
  {
    std::vector<Ev> v;
    const Family   &f = *fam;
    if (!w.ch || w.destroyed) return v;
    Budget b = budget_of(h);
    {
      // the scripted preamble of the configuration is not charged
      const Cfg *c = w.cfg;
      for (auto &pe : c->preamble) {
        if (b.n[pe[0]] > 0) b.n[pe[0]]--;
        if ((pe[0] == EV_FAULT || pe[0] == EV_FORGE) && b.dev > 0) b.dev--;
      }
    }
    auto   on = [&](int k) { return (f.evmask >> k) & 1u; };
    if (on(EV_REQ) && b.n[EV_REQ] < f.max_req) {
      for (int r : f.req_menu) {
        if (!f.req_repeat) {
          bool used = false;
          for (auto &e : h)
            if (e.k == EV_REQ && e.a == r) used = true;
          if (used) continue;
        }
        v.push_back(mk(EV_REQ, r));
      }
    }
    if (on(EV_REPLY)) {
      for (int t : w.answerable_txs())
        for (int k : f.replies) {
          // cookie reply kinds need a cookie in the query to differ from plain data
          v.push_back(mk(EV_REPLY, t, k));
        }
    }
    if (on(EV_FORGE) && b.dev < maxdev && b.n[EV_FORGE] < f.max_forge) {
      for (auto &t : w.txs) {
        VSock *s = w.sock_of(t);
        if (!t.q.ok || t.q.q.empty()) continue;
        for (int m : f.forges) {
          if (m == FG_OTHERSOCK) {
            bool other = false;
            for (auto &x : w.socks)
              if (x->open && !x->tcp && x->fd != t.fd) other = true;
            if (!other) continue;
          } else if (!s || !s->open)
            continue;
          if (s && s->tcp && (m == FG_WRONGSRC || m == FG_WRONGSRC_FRAMED)) continue;
          // a different letter case is only a forgery when 0x20 randomisation protects the transmission (UDP)
          if (m == FG_CASEFLIP && (!(w.cfg->flags & ARES_FLAG_DNS0x20) || t.tcp)) continue;
          // a reply without cookie is only illegitimate once this server has proven cookie support
          if (m == FG_NOCOOKIE || m == FG_BADCLIENTCOOKIE || m == FG_NOCOOKIE_TC) {
            if (!t.q.has_cookie) continue;
            // the packet is matched by id against the CURRENT transmission of that query: if that one carries no cookie
            // (the server was meanwhile classified as not supporting them) no cookie rule applies and the packet is an
            // ordinary acceptable answer, not a forgery
            const Transmission *latest = &t;
            for (auto &o : w.txs)
              if (o.q.ok && o.q.id == t.q.id && o.id > latest->id) latest = &o;
            if (!latest->q.has_cookie) continue;
          }
          if (m == FG_NOCOOKIE || m == FG_NOCOOKIE_TC) {
            if (m == FG_NOCOOKIE_TC && (t.tcp || !(w.cfg->flags & ARES_FLAG_IGNTC))) continue;
            bool proven = false;
            for (auto &p : w.packets)
              if (!p.forged && p.src_server == t.server && p.t_accept >= 0 && (p.kind == RK_CK_VALID || p.kind == RK_CK_VALID2)) proven = true;
            // time only matters once a cookie-less reply has been read (it starts the regression period); until then
            // a cookie-less answer stays illegitimate however much time passes (also across a day-old cookie's rotation)
            bool cookieless_read = false;
            for (auto &p : w.packets)
              if (p.src_server == t.server && p.seq_read >= 0 && !(p.kind == RK_CK_VALID || p.kind == RK_CK_VALID2 || p.kind == RK_BADCOOKIE || p.kind == RK_CK_WRONGCLIENT)) cookieless_read = true;
            if (!proven || (b.n[EV_ADVANCE] > 0 && cookieless_read)) continue;
          }
          if (t.forged >= 1) continue;
          v.push_back(mk(EV_FORGE, t.id, m));
        }
      }
    }
    if (on(EV_IO) && !w.ready_fds(false).empty()) {
      v.push_back(mk(EV_IO, 0));
      if (f.io_one && w.ready_fds(false).size() > 2) v.push_back(mk(EV_IO, 1));
    }
    if (on(EV_TIMER) && w.timer_enabled() && b.n[EV_TIMER] < f.max_timer) v.push_back(mk(EV_TIMER));
    if (on(EV_ADVANCE) && b.n[EV_ADVANCE] < f.max_adv)
      for (int ms : f.advances) v.push_back(mk(EV_ADVANCE, ms));
    if (on(EV_PROCESS0) && b.n[EV_PROCESS0] < 1) v.push_back(mk(EV_PROCESS0));
    if (on(EV_CANCEL) && b.n[EV_CANCEL] < f.max_cancel && w.outstanding() > 0) v.push_back(mk(EV_CANCEL));
    if (on(EV_DESTROY)) v.push_back(mk(EV_DESTROY));
    if (on(EV_SETSERVERS) && b.n[EV_SETSERVERS] < f.max_setsrv)
      for (int s : f.setservers) v.push_back(mk(EV_SETSERVERS, s));
    if (on(EV_REINIT) && b.n[EV_REINIT] < f.max_reinit)
      for (int rv : f.reinit_variants) v.push_back(mk(EV_REINIT, rv));
    if (on(EV_TCP))
      for (auto &s : w.socks) {
        if (!s->open || !s->tcp) continue;
        if (s->connect_pending) v.push_back(mk(EV_TCP, s->fd, 0));
        if ((s->connected || s->connect_pending) && !s->peer_closed && !s->reset && b.n[EV_TCP] < f.max_tcpev) {
          v.push_back(mk(EV_TCP, s->fd, 1));
          v.push_back(mk(EV_TCP, s->fd, 2));
        }
      }
    if (on(EV_FAULT) && b.dev < maxdev) {
      for (int site : f.faults) {
        if (w.fault[site]) continue;
        if ((site == FS_SOCKCB || site == FS_SOCKCFGCB) && !w.cfg->socket_cbs) continue; // no such callback installed
        for (int skip : f.fault_skips) {
          if (skip && !f.fault_skip_sites.empty() && std::find(f.fault_skip_sites.begin(), f.fault_skip_sites.end(), site) == f.fault_skip_sites.end()) continue;
          v.push_back(mk(EV_FAULT, site, skip));
        }
      }
    }
    if (on(EV_SRCADDR) && b.n[EV_SRCADDR] < 1) v.push_back(mk(EV_SRCADDR, w.src_variant ? 0 : 1));
    if (on(EV_WRITECB) && w.pending_write_notified) v.push_back(mk(EV_WRITECB));
    return v;
  }

  // Execute one history on a fresh world. Returns world (after closure if requested).
  struct Result {
    std::vector<Viol> viols;
    std::string       key, obs;
    std::vector<Ev>   enabled;
    std::vector<World::Draw> draws;
    std::vector<std::string> log;
    std::map<std::string, uint64_t> wit;
    std::string       outcome;
    bool              init_ok = true;
  };

  Result exec(int cfgi, const History &h, bool want_enabled, bool want_log, bool full = true)
  {
    Result r;
    World  w(&fam->cfgs[(size_t)cfgi], &fam->reqs);
    if (!w.init()) {
      r.init_ok = false;
      w.teardown();
      return r;
    }
    for (size_t i = 0; i < h.size(); i++) {
      w.apply(h[i]);
      if (i + 1 == h.size()) r.draws = w.draws;
      if (full || i + 1 == h.size()) {
        w.check_invariants();
        if (fam->step_oracle) fam->step_oracle(w, h, i);
      }
    }
    r.key = w.state_key();
    if (want_enabled && w.viols.empty()) r.enabled = enabled_events(w, h);
    w.closure();
    if (fam->end_oracle) fam->end_oracle(w, h);
    w.teardown();
    r.viols = w.viols;
    r.obs   = w.obs_hash();
    r.wit   = w.wit;
    // outcome signature: statuses of tokens + number of transmissions
    std::string o;
    for (auto &t : w.toks) o += std::to_string(t.kind) + ":" + std::to_string(t.status) + ":" + std::to_string(t.timeouts) + ",";
    o += "tx" + std::to_string(w.txs.size());
    r.outcome = o;
    if (want_log) r.log = w.obs;
    return r;
  }

  bool report_violations(int cfgi, const History &h, Result &r)
  {
    bool any = false;
    for (auto &v : r.viols) {
      if (!oracle_on(v.key)) {
        rep.count(("other_oracle:" + v.key).c_str());
        continue;
      }
      any = true;
      bool known = false;
      for (auto &x : rep.violations)
        if (x.key == v.key) known = true;
      if (known) continue;
      // determinism self-check: same history twice more, same verdict and same observations
      Result r2 = exec(cfgi, h, false, false), r3 = exec(cfgi, h, false, false);
      auto   has = [&](Result &x) {
        for (auto &y : x.viols)
          if (y.key == v.key) return true;
        return false;
      };
      if (!has(r2) || !has(r3) || r2.obs != r.obs || r3.obs != r.obs) {
        rep.internal_errors.push_back("nondeterministic harness: violation " + v.key + " did not reproduce identically for " + hist_json(h));
        continue;
      }
      if (v.key.rfind("HARNESS:", 0) == 0) {
        rep.internal_errors.push_back(v.key + ": " + v.desc + " " + hist_json(h));
        continue;
      }
      rep.violation(v.key, "[" + fam->cfgs[(size_t)cfgi].name + "] " + v.desc + " | history " + hist_json(h), replay_json(cfgi, h));
    }
    return any;
  }

  void explore_cfg(int cfgi)
  {
    std::unordered_set<vf::Hash128, vf::Hash128H> seen;
    std::vector<Node> frontier, next;
    bool              cut_by_depth = false;
    const int         depth = std::max(1, this->depth - fam->cfgs[(size_t)cfgi].depth_cut);
    // root
    {
      History h;
      for (auto &pe : fam->cfgs[(size_t)cfgi].preamble) h.push_back(mk(pe[0], pe[1], pe[2]));
      vf::set_current_case(replay_json(cfgi, h), oracles.empty() ? "EXA" : oracles[0] + ":crash");
      Result r = exec(cfgi, h, true, false);
      rep.executions++;
      if (!r.init_ok) {
        rep.internal_errors.push_back("channel initialisation failed for cfg " + fam->cfgs[(size_t)cfgi].name);
        return;
      }
      report_violations(cfgi, h, r);
      seen.insert(vf::hash128(r.key));
      if (args.shard == 0) rep.states++;
      frontier.push_back({ h, r.enabled });
    }
    for (int d = 0; d < depth; d++) {
      next.clear();
      size_t idx = 0;
      bool   level_complete = true;
      for (auto &n : frontier) {
        for (auto &ev : n.enabled) {
          // levels 0 and 1 are computed identically by every shard; from level 2 on the work is dealt out
          bool mine = true, count_it = true;
          if (d >= 2) {
          } else if (d == 1) {
            mine = (int)(idx % (size_t)args.nshards) == args.shard;
            idx++;
          } else {
            count_it = args.shard == 0;
          }
          if (!mine) continue;
          if (vf::now_s() > t_end) {
            deadline_hit   = true;
            level_complete = false;
            break;
          }
          // enumerate the event with default policy answers first, then with every alternative combination
          std::vector<Ev> variants;
          variants.push_back(ev);
          for (size_t vi = 0; vi < variants.size(); vi++) {
            History h2 = n.h;
            h2.push_back(variants[vi]);
            std::string rj = replay_json(cfgi, h2);
            if (poison.count(std::to_string(cfgi) + hist_json(h2))) continue;
            vf::set_current_case(rj, oracles.empty() ? "EXA" : oracles[0] + ":crash");
            vf::watchdog(8);
            Result r = exec(cfgi, h2, d + 1 < depth, false, false);
            vf::watchdog(0);
            rep.executions++;
            if (count_it) rep.transitions++;
            for (auto &kv : r.wit) rep.witnesses[kv.first] += kv.second;
            rep.outcome(r.outcome);
            if (rep.samples.size() < 4 && h2.size() >= 3 && (rep.executions % 97) == 0) rep.sample(rj);
            if (vi == 0 && fam->policy_mask && !r.draws.empty()) {
              // alternatives for the policy draws observed inside this event
              std::vector<int> menus;
              for (auto &dr : r.draws)
                if (menus.size() < 3) menus.push_back(((fam->policy_mask >> dr.purpose) & 1u) ? dr.menu : 1);
              std::vector<int> cur(menus.size(), 0);
              for (;;) {
                size_t p = 0;
                while (p < cur.size() && ++cur[p] >= menus[p]) cur[p++] = 0;
                if (p >= cur.size()) break;
                Ev e2   = ev;
                e2.npol = (unsigned char)cur.size();
                for (size_t q = 0; q < cur.size(); q++) e2.pol[q] = (unsigned char)cur[q];
                variants.push_back(e2);
              }
              if (variants.size() > 1) rep.witness("policy_alternatives", variants.size() - 1);
            }
            bool bad = report_violations(cfgi, h2, r);
            if (bad) continue; // poisoned state: not expanded
            vf::Hash128 k = vf::hash128(r.key);
            if (dedup) {
              if (!seen.insert(k).second) {
                dup_hits++;
                continue;
              }
            } else
              seen.insert(k);
            if (count_it) rep.states++;
            if (d + 1 < depth && !r.enabled.empty()) next.push_back({ h2, std::move(r.enabled) });
            if (d + 1 >= depth) cut_by_depth = true; // an unexpanded state remains (conservative: not checked for enabled events)
          }
        }
        if (deadline_hit) break;
      }
      if (level_complete) completed_depth = std::max(completed_depth, d + 1);
      if (deadline_hit) break;
      frontier.swap(next);
      if (frontier.empty()) {
        // fixpoint: no unexplored state remains under the budgets
        completed_depth = std::max(completed_depth, depth);
        if (!cut_by_depth) rep.count("cfgs_closed");
        break;
      }
    }
    rep.count("cfgs_explored");
    if (audit_depth > 0 && args.nshards == 1) {
      // De-duplication audit: every state reached WITHOUT merging (to a smaller depth) must have a key that the merged
      // search also reached; otherwise two states with different futures share a key somewhere.
      std::vector<History> fr{ History() }, nx;
      for (int d = 0; d < audit_depth; d++) {
        nx.clear();
        for (auto &h : fr) {
          Result r0 = exec(cfgi, h, true, false, false);
          for (auto &ev : r0.enabled) {
            History h2 = h;
            h2.push_back(ev);
            Result r = exec(cfgi, h2, false, false, false);
            rep.count("audit_states");
            bool bad = false;
            for (auto &v : r.viols)
              if (oracle_on(v.key)) bad = true;
            if (bad) continue;
            if (!seen.count(vf::hash128(r.key)))
              rep.internal_errors.push_back("de-duplication audit: state of " + hist_json(h2) + " (cfg " + fam->cfgs[(size_t)cfgi].name + ") was never reached by the merged search");
            nx.push_back(h2);
          }
        }
        fr.swap(nx);
      }
    }
  }

  void run()
  {
    for (int c = 0; c < (int)fam->cfgs.size(); c++) {
      if (vf::now_s() > t_end) {
        deadline_hit = true;
        break;
      }
      explore_cfg(c);
    }
    rep.exhaustive = !deadline_hit;
    rep.closed     = !deadline_hit && rep.counters["cfgs_closed"] == fam->cfgs.size();
    rep.counters["dedup_hits"] = dup_hits;
    rep.bound = "family=" + fam->name + " cfgs=" + std::to_string(fam->cfgs.size()) + " depth<=" + std::to_string(depth) + " (completed " +
                std::to_string(completed_depth) + ") deviations<=" + std::to_string(maxdev) + " requests<=" + std::to_string(fam->max_req) +
                " dedup=" + (dedup ? "on" : "off") + (deadline_hit ? " DEADLINE-HIT" : "");
    for (auto &c : fam->cfgs)
      if (c.depth_cut) rep.bound += " [" + c.name + ": depth<=" + std::to_string(std::max(1, depth - c.depth_cut)) + " after its scripted start]";
  }
};

} // namespace exa

namespace exa { int stream_main(const vf::Args &a); int alloc_main(const vf::Args &a); }

static int do_replay(const Family *fam, const vf::Args &a, const std::vector<std::string> &oracles)
{
  FILE *f = fopen(a.replay.c_str(), "r");
  if (!f) {
    perror("replay file");
    return 3;
  }
  std::string s;
  char        buf[4096];
  size_t      n;
  while ((n = fread(buf, 1, sizeof buf, f)) > 0) s.append(buf, n);
  fclose(f);
  int    cfgi = 0;
  size_t p    = s.find("\"cfg\":");
  if (p != std::string::npos) cfgi = atoi(s.c_str() + p + 6);
  p = s.find("\"hist\":");
  History h;
  if (p == std::string::npos || !hist_parse(s.substr(p + 7), h)) {
    fprintf(stderr, "cannot parse history\n");
    return 3;
  }
  Explorer ex;
  ex.fam     = fam;
  ex.oracles = oracles;
  auto r     = ex.exec(cfgi, h, false, true);
  for (auto &l : r.log) printf("  %s\n", l.c_str());
  int bad = 0;
  for (auto &v : r.viols) {
    bool on = ex.oracle_on(v.key);
    printf("%s %s: %s\n", on ? "VIOLATED" : "(other oracle)", v.key.c_str(), v.desc.c_str());
    if (on) bad = 1;
  }
  if (!bad) printf("property held on this history\n");
  return bad;
}

int main(int argc, char **argv)
{
  vf::Args a = vf::parse_args(argc, argv);
  install_hooks();
  if (a.family == "stream") return exa::stream_main(a);
  if (a.family == "alloc") return exa::alloc_main(a);
  const Family *fam = find_family(a.family, a.tier);
  if (!fam) {
    fprintf(stderr, "unknown family %s\n", a.family.c_str());
    return 3;
  }
  std::vector<std::string> oracles;
  {
    std::string o = a.get("oracles", fam->default_oracles.c_str()), cur;
    for (char c : o + ",") {
      if (c == ',') {
        if (!cur.empty()) oracles.push_back(cur);
        cur.clear();
      } else
        cur += c;
    }
  }
  if (!a.replay.empty()) return do_replay(fam, a, oracles);
  if (a.out.empty()) a.out = "/dev/stdout";
  vf::install_crash_handler(a.out + ".crash");
  Explorer ex;
  ex.fam        = fam;
  ex.args       = a;
  ex.oracles    = oracles;
  ex.depth      = (int)a.geti("depth", fam->max_depth);
  ex.maxdev     = (int)a.geti("dev", fam->max_dev);
  ex.dedup      = a.geti("dedup", 1) != 0;
  ex.audit_depth = (int)a.geti("audit", 0);
  ex.t_end      = vf::now_s() + a.deadline - 3;
  ex.rep.engine = "exa";
  ex.rep.family = fam->name;
  ex.rep.tier   = a.tier;
  if (a.kv.count("poison")) {
    FILE *f = fopen(a.get("poison"), "r");
    if (f) {
      std::string s;
      char        buf[4096];
      size_t      n;
      while ((n = fread(buf, 1, sizeof buf, f)) > 0) s.append(buf, n);
      fclose(f);
      // list of replay objects: take every {"...cfg":N ... "hist":[[...]...]}
      size_t pos = 0;
      while ((pos = s.find("\"cfg\":", pos)) != std::string::npos) {
        int    cfgi = atoi(s.c_str() + pos + 6);
        size_t hp   = s.find("\"hist\":", pos);
        if (hp == std::string::npos) break;
        History h;
        // find the end of the history array: matching bracket
        size_t st = hp + 7, i = st;
        int    dpt = 0;
        for (; i < s.size(); i++) {
          if (s[i] == '[') dpt++;
          if (s[i] == ']' && --dpt == 0) break;
        }
        std::string hj = s.substr(st, i - st + 1);
        // normalise through parse/print
        std::string compact;
        for (char c : hj)
          if (c != ' ' && c != '\n') compact += c;
        if (hist_parse(compact, h)) ex.poison.insert(std::to_string(cfgi) + hist_json(h));
        pos = i;
      }
    }
  }
  ex.run();
  ex.rep.write(a.out);
  return ex.rep.internal_errors.empty() ? 0 : 3;
}
