// Reference-model oracles of the EX-A families. They use only what the
// harness itself recorded (transmissions, packets, tokens, public callback
// streams); none of them reads c-ares internals.
#include "exa_families.h"
#include <algorithm>
#include <set>
#include <stdarg.h>

namespace exa {

static std::string fmt(const char *f, ...)
{
  char    b[1024];
  va_list ap;
  va_start(ap, f);
  vsnprintf(b, sizeof b, f, ap);
  va_end(ap);
  return b;
}

static const Transmission *current_tx_at_read(const World &w, const Packet &p); // defined with the C17 oracle

static std::string norm_name(std::string n)
{
  n = vdns::lower(n);
  if (n.empty() || n.back() != '.') n += '.';
  return n;
}

static const Packet *pkt(const World &w, int serial)
{
  if (serial < 1 || serial > (int)w.packets.size()) return nullptr;
  return &w.packets[(size_t)serial - 1];
}

// ---------------------------------------------------------------------------
// C05: only an authentic, matching response may supply data
// ---------------------------------------------------------------------------
void oracle_c05_provenance(World &w, const History &)
{
  for (auto &t : w.toks) {
    if (t.count == 0) continue;
    std::vector<int> ms = t.markers;
    if (t.neg_marker) ms.push_back(t.neg_marker);
    for (int m : ms) {
      const Packet *p = pkt(w, m);
      if (!p) {
        w.violate("C05:provenance:unknown-marker", fmt("token %d delivered data with marker %d that no injected packet carries (invented data)", t.id, m));
        continue;
      }
      if (p->forged) {
        const char *mut = "?";
        for (auto &l : w.obs) {
          std::string key = fmt("inject pkt#%d FORGED", p->serial);
          if (l.find(key) != std::string::npos) {
            for (int i = 0; i < FG_NKINDS; i++)
              if (l.find(std::string(" ") + fg_names[i] + " ") != std::string::npos) mut = fg_names[i];
          }
        }
        if (!strcmp(mut, "nocookie") || !strcmp(mut, "badclientcookie")) {
          // only a forgery if the transmission it is matched against carries a cookie (see the gating in the explorer)
          const Transmission *cur = current_tx_at_read(w, *p);
          if (cur && !cur->q.has_cookie) {
            w.W("c05_cookie_forgery_not_applicable");
            continue;
          }
        }
        w.violate(std::string("C05:provenance:forged-packet-accepted:") + mut,
                  fmt("token %d (req %d) was answered with data from forged packet #%d (%s)", t.id, t.req, p->serial, mut));
        continue;
      }
      bool from_cache = t.tx_at_done == t.tx_at_issue;
      if (from_cache) {
        // must have been accepted earlier by a request that did go to the network
        bool earlier = false;
        for (auto &o : w.toks)
          if (o.id != t.id && o.count && o.t_done <= t.t_done && o.tx_at_done > o.tx_at_issue &&
              (std::find(o.markers.begin(), o.markers.end(), m) != o.markers.end() || o.neg_marker == m))
            earlier = true;
        if (!earlier && w.cfg->qcache_max_ttl > 0) {
          // served with zero transmissions from data nobody received before: only legal for hosts/literal answers, which carry no marker
          w.violate("C05:provenance:cache-entry-without-accepted-response", fmt("token %d was served without traffic from packet #%d which no earlier request had been answered with", t.id, m));
        }
        continue;
      }
      // (i) the packet must have arrived on the socket carrying the query's latest transmission
      if (p->for_tx < 0 || p->for_tx >= (int)w.txs.size()) continue;
      const Transmission &tx = w.txs[(size_t)p->for_tx];
      int latest = -1;
      for (int i = 0; i < t.tx_at_done && i < (int)w.txs.size(); i++)
        if (w.txs[(size_t)i].q.ok && w.txs[(size_t)i].q.id == tx.q.id) latest = i;
      if (latest >= 0 && w.txs[(size_t)latest].fd != p->on_fd) {
        w.violate("C05:provenance:reply-on-previous-connection-accepted",
                  fmt("token %d accepted reply packet #%d that arrived on descriptor %d, but the query (id %u) was last transmitted on descriptor %d (tx#%d)", t.id,
                      p->serial, p->on_fd, tx.q.id, w.txs[(size_t)latest].fd, latest));
      }
      if (p->src_server != tx.server) w.violate("C05:provenance:wrong-source-accepted", fmt("token %d accepted packet #%d from a foreign source address", t.id, p->serial));
      w.W("c05_authentic_delivery");
    }
  }
}

static bool looked_at(const World &w, const Packet &p, const Transmission **cur_out); // defined with the C17 oracle

// ---------------------------------------------------------------------------
// C06: bounded retries, timeout window
// ---------------------------------------------------------------------------
void oracle_c06_retry(World &w, const History &h)
{
  int nsrv = w.cfg->nservers;
  for (auto &e : h)
    if (e.k == EV_SETSERVERS && e.a == 4) nsrv = w.cfg->nservers + 1;
  std::map<unsigned, std::vector<int>> byq;
  for (auto &t : w.txs)
    if (t.q.ok) byq[t.q.id].push_back(t.id);
  for (auto &kv : byq) {
    // protocol-mandated resends that really happened for this query: one EDNS downgrade (FORMERR read), one
    // UDP->TCP upgrade (TC read), at most three BADCOOKIE resends
    int n_formerr = 0, n_tc = 0, n_bad = 0;
    for (int txid : kv.second)
      for (auto &p : w.packets) {
        if (p.forged || p.for_tx != txid || p.seq_read < 0) continue;
        if (p.kind == RK_FORMERR_NOOPT || p.kind == RK_FORMERR_OPT) n_formerr++;
        if (p.kind == RK_TC) n_tc++;
        if (p.kind == RK_BADCOOKIE) n_bad++;
      }
    long bound = (long)nsrv * w.cfg->tries + std::min(1, n_formerr) + std::min(1, n_tc) + std::min(3, n_bad);
    if ((long)kv.second.size() > bound)
      w.violate("C06:retry:too-many-transmissions",
                fmt("query id %u was transmitted %zu times; bound is servers(%d) x tries(%d) + %d EDNS downgrade + %d TCP upgrade + %d bad-cookie resends = %ld", kv.first,
                    kv.second.size(), nsrv, w.cfg->tries, std::min(1, n_formerr), std::min(1, n_tc), std::min(3, n_bad), bound));
    if (kv.second.size() > 1) w.W("c06_retransmission");
    if ((long)kv.second.size() == (long)nsrv * w.cfg->tries) w.W("c06_budget_exhausted");
  }
  // protocol-mandated resends must actually happen: a truncated UDP answer the library looked at (truncation not
  // ignored) is followed by a TCP transmission of the same query, whatever the retry policy says about that query.
  // Judged only in histories without injected socket faults and server-list edits (the TCP attempt may then
  // legitimately fail or move).
  {
    bool clean = true;
    for (auto &e : h)
      if (e.k == EV_FAULT || e.k == EV_SETSERVERS || e.k == EV_CANCEL || e.k == EV_DESTROY) clean = false;
    if (clean)
      for (auto &p : w.packets) {
        if (p.forged || (p.kind != RK_TC && p.kind != RK_FORMERR_NOOPT) || p.seq_read < 0 || p.for_tx < 0) continue;
        const Transmission &ptx = w.txs[(size_t)p.for_tx];
        if (!ptx.q.ok || ptx.q.has_cookie) continue; // with a cookie in play a cookie-less answer may be dropped by the RFC 7873 rules (C17)
        if (p.kind == RK_TC && (ptx.tcp || (w.cfg->flags & ARES_FLAG_IGNTC))) continue;
        if (p.kind == RK_FORMERR_NOOPT && !ptx.q.has_opt) continue; // only an EDNS query is downgraded
        const Transmission *cur = nullptr;
        if (!looked_at(w, p, &cur)) continue;
        // a request may consist of several queries (dual-family lookup): whether THIS query was still alive when the
        // packet was read is only certain if nothing else was read for its id before and its budget was not used up
        bool earlier_read = false;
        int  ntx_before   = 0;
        for (auto &o : w.packets)
          if (&o != &p && !o.forged && o.seq_read >= 0 && o.seq_read < p.seq_read && o.for_tx >= 0 && w.txs[(size_t)o.for_tx].q.ok && w.txs[(size_t)o.for_tx].q.id == ptx.q.id) earlier_read = true;
        for (auto &t : w.txs)
          if (t.q.ok && t.q.id == ptx.q.id && t.seq < p.seq_read) ntx_before++;
        if (earlier_read || ntx_before >= nsrv * w.cfg->tries || cur->id != ptx.id) continue;
        // the request this query belongs to: the one request that was outstanding when the id first appeared; it must
        // still be outstanding when the packet is read (otherwise the packet met no query)
        long first_seq = -1;
        for (auto &t : w.txs)
          if (t.q.ok && t.q.id == ptx.q.id && (first_seq < 0 || t.seq < first_seq)) first_seq = t.seq;
        const Token *owner = nullptr;
        int          cands = 0;
        for (auto &tk : w.toks)
          if (tk.seq_issue < first_seq && (tk.count == 0 || tk.seq_done > first_seq)) {
            owner = &tk;
            cands++;
          }
        if (cands != 1 || !(owner->count == 0 || owner->seq_done > p.seq_read)) continue;
        if (p.kind == RK_FORMERR_NOOPT) {
          // one EDNS downgrade: the next transmission of this query carries no OPT record
          const Transmission *nxt = nullptr;
          for (auto &t : w.txs)
            if (t.q.ok && t.q.id == ptx.q.id && t.seq > p.seq_read && (!nxt || t.seq < nxt->seq)) nxt = &t;
          if (!nxt)
            w.violate("C06:mandated:formerr-without-edns-downgrade", fmt("query id %u read FORMERR without OPT (packet #%d) for an EDNS query but was never re-sent", ptx.q.id, p.serial));
          else if (nxt->q.has_opt)
            w.violate("C06:mandated:formerr-without-edns-downgrade", fmt("query id %u read FORMERR without OPT (packet #%d) but its next transmission tx#%d still carries an OPT record", ptx.q.id, p.serial, nxt->id));
          else
            w.W("c06_edns_downgrade_seen");
          continue;
        }
        bool tcp_follows = false;
        for (auto &t : w.txs)
          if (t.q.ok && t.q.id == ptx.q.id && t.tcp && t.seq > p.seq_read) tcp_follows = true;
        // the frame reaches the wire only when the application services the new connection: opening a TCP connection to
        // that server after the truncated answer was read is the library's part
        for (auto &x : w.socks)
          if (x->tcp && x->server == ptx.server && x->connect_seq > p.seq_read) tcp_follows = true;
        if (!tcp_follows)
          w.violate("C06:mandated:truncated-answer-without-tcp-resend", fmt("query id %u read a truncated UDP answer (packet #%d) but was never transmitted over TCP afterwards", ptx.q.id, p.serial));
        else
          w.W("c06_tc_upgrade_seen");
      }
  }
  // an EV_ADVANCE moves the clock without letting the application process timers: a gap that spans one says nothing
  // about the timeout the library chose
  std::vector<int> adv_at;
  for (size_t i = 0; i < h.size(); i++)
    if (h[i].k == EV_ADVANCE) adv_at.push_back((int)i);
  auto spans_advance = [&](const Transmission &a, const Transmission &b) {
    int ea = a.ev_index < 0 ? (int)h.size() : a.ev_index, eb = b.ev_index < 0 ? (int)h.size() : b.ev_index;
    for (int x : adv_at)
      if (x > ea && x <= eb) return true;
    return false;
  };
  // accepted samples per server (a learned timeout needs three)
  int samples[8] = { 0 };
  // every query (also a sub-query of a lookup, which has no callback of its own) that ends with NOERROR or NXDOMAIN adds
  // a latency sample: count the replies read with those rcodes (an over-estimate only relaxes the lower bound)
  for (auto &p : w.packets)
    if ((p.t_accept >= 0 || (p.seq_read >= 0 && !p.forged && !p.tc && (p.rcode == vdns::RC_NOERROR || p.rcode == vdns::RC_NXDOMAIN))) && p.src_server >= 0 && p.src_server < 8)
      samples[p.src_server]++;
  bool learned = false;
  for (int i = 0; i < 8; i++)
    if (samples[i] >= 3) learned = true;
  int64_t cap_ms   = w.cfg->maxtimeout_ms > 0 ? w.cfg->maxtimeout_ms : 5000;
  int64_t lower_ms = std::min<int64_t>(learned ? std::min(250, w.cfg->timeout_ms) : w.cfg->timeout_ms, cap_ms);
  for (auto &kv : byq) {
    for (size_t i = 1; i < kv.second.size(); i++) {
      const Transmission &t2 = w.txs[(size_t)kv.second[i]], &t1 = w.txs[(size_t)kv.second[i - 1]];
      if (!t2.in_timer) continue; // resent for another reason (reply, connection error)
      int64_t gap_ms = (t2.t_us - t1.t_us) / 1000;
      if (gap_ms < lower_ms)
        w.violate("C06:timeout:shorter-than-base", fmt("query id %u was re-sent after only %lld ms; configured base timeout %d ms, cap %lld ms", kv.first, (long long)gap_ms, w.cfg->timeout_ms, (long long)cap_ms));
      if (w.cfg->maxtimeout_ms > 0 && !spans_advance(t1, t2) && gap_ms > w.cfg->maxtimeout_ms)
        w.violate("C06:timeout:longer-than-maximum", fmt("query id %u waited %lld ms for a retry; configured maximum is %d ms", kv.first, (long long)gap_ms, w.cfg->maxtimeout_ms));
      w.W("c06_gap_checked");
    }
  }
}

// ---------------------------------------------------------------------------
// C08: reference cache (only-if direction)
// ---------------------------------------------------------------------------
static void c08_check_token(World &w, const Token &t)
{
  if (t.count == 0 || t.req < 0) return;
  const ReqSpec &r = (*w.reqs)[(size_t)t.req];
  if (r.kind > 7 || r.kind == 6 || r.kind == 7) {
    // addrinfo / hostent consumers are checked for TTLs only (below) when they hit
  }
  bool zero_tx = t.tx_at_done == t.tx_at_issue;
  int  m       = !t.markers.empty() ? t.markers[0] : t.neg_marker;
  const Packet *p = pkt(w, m);
  if (!p) return; // nothing delivered that a packet carries (error status, hosts file, literal)
  int64_t age_s = 0;
  if (zero_tx) {
    w.W("c08_cache_hit");
    if (w.cfg->qcache_max_ttl == 0) {
      w.violate("C08:cache:served-although-disabled", fmt("token %d was answered without traffic although the cache maximum is 0", t.id));
      return;
    }
    if (p->forged || p->t_read < 0 || p->t_read > t.t_done) {
      w.violate("C08:cache:entry-without-accepted-response", fmt("token %d served from packet #%d that was never accepted before", t.id, p->serial));
      return;
    }
    // key: opcode (always QUERY) | RD | CD | type | class | lower-case name
    std::vector<std::string> cands;
    cands.push_back(norm_name(r.name));
    for (auto &d : w.cfg->domains) cands.push_back(norm_name(r.name + "." + d));
    bool name_ok = std::find(cands.begin(), cands.end(), p->qname_lc) != cands.end();
    int  want_type = r.qtype;
    bool type_ok = (r.kind == 6 || r.kind == 7) ? (p->qtype == vdns::T_A || p->qtype == vdns::T_AAAA) : (p->qtype == want_type);
    if (r.kind == 8 || r.kind == 9) {
      type_ok = p->qtype == vdns::T_PTR;
      name_ok = true; // reverse name derived from the address
    }
    if (!name_ok || !type_ok || (r.kind <= 5 && p->qclass != r.qclass))
      w.violate("C08:cache:key-mismatch", fmt("token %d (name %s type %d class %d) was served from the cached answer to %s type %d class %d", t.id, r.name.c_str(), r.qtype, r.qclass, p->qname_lc.c_str(), p->qtype, p->qclass));
    if (r.kind == 0 && (p->rd != r.rd || p->cd != r.cd))
      w.violate("C08:cache:flags-mismatch", fmt("token %d (rd=%d cd=%d) was served from an answer cached for rd=%d cd=%d", t.id, (int)r.rd, (int)r.cd, (int)p->rd, (int)p->cd));
    if (p->tc) w.violate("C08:cache:truncated-response-replayed", fmt("token %d was served from truncated packet #%d", t.id, p->serial));
    if (p->rcode != vdns::RC_NOERROR && p->rcode != vdns::RC_NXDOMAIN) w.violate("C08:cache:error-rcode-replayed", fmt("token %d was served from packet #%d with rcode %d", t.id, p->serial, p->rcode));
    age_s            = t.t_done / 1000000 - p->t_read / 1000000;
    int64_t lifetime = std::min<int64_t>(w.cfg->qcache_max_ttl, p->ttl);
    if (age_s > lifetime)
      w.violate("C08:cache:stale-entry-served", fmt("token %d was served from packet #%d cached %lld s ago; its lifetime is min(max_ttl %d, ttl %u) = %lld s", t.id, p->serial, (long long)age_s, w.cfg->qcache_max_ttl, p->ttl, (long long)lifetime));
    for (int fe : w.flush_evs)
      if (p->ev_read >= 0 && p->ev_read < fe && t.ev_issue > fe)
        w.violate("C08:cache:served-after-flush", fmt("token %d was served from packet #%d accepted before a reinit / server-list change (event %d)", t.id, p->serial, fe));
  }
  // TTLs visible through the API = original - seconds spent cached (age 0 on a fresh answer)
  if (!t.ttls.empty() && !p->forged) {
    std::vector<uint32_t> want;
    // what this reply kind carried (see World::build_reply)
    switch (p->kind) {
      case RK_DATA: case RK_CK_NONE: case RK_CK_VALID: case RK_CK_VALID2: want = { 100 }; break;
      case RK_DATA_TTL5: want = { 5 }; break;
      case RK_DATA_TTL0: want = { 0 }; break;
      case RK_DATA_MULTI: want = { 100, 50, 7 }; break;
      case RK_DATA_SOA: want = { 10, 100 }; break; // authority SOA first (see scan_rr_markers)
      case RK_NODATA: case RK_NXDOMAIN: want = { 60 }; break;
      default: return;
    }
    if (r.kind == 6 || r.kind == 7) return; // addrinfo merges two answers; checked by C13's family
    if (want.size() != t.ttls.size()) return;
    for (size_t i = 0; i < want.size(); i++) {
      uint32_t exp = want[i] > (uint32_t)age_s ? want[i] - (uint32_t)age_s : 0;
      if (t.ttls[i] != exp) {
        w.violate(zero_tx ? "C08:cache:ttl-not-reduced-by-time-cached" : "C08:ttl:fresh-answer-ttl-altered",
                  fmt("token %d (entry point kind %d): record %zu shows TTL %u, expected %u (original %u, %lld s in cache)", t.id, r.kind, i, t.ttls[i], exp, want[i], (long long)age_s));
        break;
      }
    }
    if (zero_tx && age_s > 0) w.W("c08_aged_hit_ttl_checked");
  }
}
void oracle_c08_cache_step(World &, const History &, size_t) {}
void oracle_c08_cache_end(World &w, const History &)
{
  for (auto &t : w.toks) c08_check_token(w, t);
}



// first transmission index of the (single) wire query a simple request token started
static int first_tx_of(const World &w, const Token &t)
{
  if (t.tx_at_issue < (int)w.txs.size() && t.tx_at_issue < t.tx_at_done + 1000000) return t.tx_at_issue;
  return -1;
}

// ---------------------------------------------------------------------------
// C09: failover policy, judged from the public server-state callback stream
// ---------------------------------------------------------------------------
void oracle_c09_failover(World &w, const History &h)
{
  bool servers_changed = false;
  for (auto &e : h)
    if (e.k == EV_SETSERVERS) servers_changed = true;
  // user query ids: the family issues every question at most once, so the first query id seen with a question is the
  // user's query; any other id asking the same question is a probe copy
  std::set<unsigned>         user_q;
  std::map<std::string, unsigned> first_q;
  for (auto &t : w.txs) {
    if (!t.q.ok || t.q.q.empty()) continue;
    std::string k = vdns::lower(vdns::name_text(t.q.q[0].labels)) + "/" + std::to_string(t.q.q[0].qtype);
    if (!first_q.count(k)) {
      first_q[k] = t.q.id;
      user_q.insert(t.q.id);
    }
  }
  std::map<unsigned, int> ntx;
  for (auto &t : w.txs)
    if (t.q.ok) ntx[t.q.id]++;
  int nsrv = w.cfg->nservers;
  std::map<unsigned, int> prev_tx; // qid -> previous tx index
  struct RotSeen {
    std::vector<int> cand;
    int              res, server, tx;
  };
  std::vector<RotSeen> rot_seen;
  int                  last_rot_draws = 0;
  for (auto &t : w.txs) {
    if (!t.q.ok || t.server < 0 || t.server >= 8) continue;
    struct Upd {
      int &dst, v;
      ~Upd() { dst = v; }
    } upd{ last_rot_draws, t.rot_draws };
    bool is_user = user_q.count(t.q.id) > 0;
    int  best = 1 << 30;
    // the configured list (and its order) at the moment the destination was decided: server-list edits in flight
    // are followed by the reference (retained servers keep their health, removed ones are forgotten)
    bool configured = false;
    for (int i = 0; i < t.norder; i++) {
      best = std::min(best, t.ref_fail[t.order[i]]);
      if (t.order[i] == t.server) configured = true;
    }
    if (servers_changed && !t.batched) {
      if (!configured) {
        w.violate("C09:selection:server-not-in-current-list", fmt("tx#%d went to server %d which is not in the server list configured at that moment (%d servers)", t.id, t.server, t.norder));
        continue;
      }
      w.W("c09_selection_after_list_edit");
    }
    if (is_user) {
      // resends that stay on the same server by protocol: EDNS downgrade (FORMERR) and nothing else
      bool same_server_resend = false;
      auto pit = prev_tx.find(t.q.id);
      if (pit != prev_tx.end()) {
        const Transmission &pv = w.txs[(size_t)pit->second];
        for (auto &p : w.packets)
          if (!p.forged && p.for_tx == pv.id && p.t_read >= 0 && (p.kind == RK_FORMERR_NOOPT || p.kind == RK_FORMERR_OPT)) same_server_resend = true;
      }
      if (!same_server_resend && !t.batched) {
        if (t.ref_fail[t.server] != best)
          w.violate("C09:selection:not-a-best-server",
                    fmt("tx#%d of query id %u went to server %d with %d consecutive failures while a server with %d exists (failures by server: %d,%d,%d)", t.id, t.q.id,
                        t.server, t.ref_fail[t.server], best, t.ref_fail[0], t.ref_fail[1], t.ref_fail[2]));
        else if (!w.cfg->rotate) {
          int first_best = -1;
          for (int i = 0; i < t.norder && first_best < 0; i++)
            if (t.ref_fail[t.order[i]] == best) first_best = t.order[i];
          if (t.server != first_best)
            w.violate("C09:selection:not-first-in-configuration-order", fmt("tx#%d went to server %d but server %d is the first with the fewest failures (%d) and rotation is off", t.id, t.server, first_best, best));
        } else {
          w.W("c09_rotate_choice");
          // "a random one among them": with two or more best servers the library must consult its random source for
          // this choice, and two choices among the same candidates made with different random values must differ
          std::vector<int> cand;
          for (int i = 0; i < t.norder; i++)
            if (t.ref_fail[t.order[i]] == best) cand.push_back(t.order[i]);
          if (cand.size() >= 2 && !t.tcp && !servers_changed) {
            if (t.rot_draws == last_rot_draws)
              w.violate("C09:rotation:no-random-draw", fmt("tx#%d chose among %zu equally good servers without consulting the random source (rotation is on)", t.id, cand.size()));
            else {
              w.W("c09_rotate_draw_consulted");
              int res = t.rot_last % (int)cand.size();
              for (auto &pr : rot_seen)
                if (pr.cand == cand && pr.res != res && pr.server == t.server)
                  w.violate("C09:rotation:choice-independent-of-random-value",
                            fmt("tx#%d and tx#%d chose server %d among the same %zu equally good servers although their random values differ (%d vs %d modulo %zu)", pr.tx, t.id, t.server, cand.size(), pr.res, res, cand.size()));
              rot_seen.push_back({ cand, res, t.server, t.id });
            }
          }
        }
        w.W("c09_selection_checked");
        if (t.server != 0) w.W("c09_failed_over");
      }
      prev_tx[t.q.id] = t.id;
    } else {
      // probe copy. A protocol-mandated resend of the copy itself (TC -> TCP, EDNS downgrade, bad cookie) is part of
      // the same probe and is not judged again.
      bool mandated_resend = false;
      for (auto &o : w.txs) {
        if (o.id >= t.id || !o.q.ok || o.q.id != t.q.id) continue;
        for (auto &p : w.packets)
          if (!p.forged && p.for_tx == o.id && p.seq_read >= 0 && p.seq_read < t.seq &&
              (p.kind == RK_FORMERR_NOOPT || p.kind == RK_FORMERR_OPT || p.kind == RK_TC || p.kind == RK_BADCOOKIE))
            mandated_resend = true;
      }
      if (mandated_resend) {
        w.W("c09_probe_mandated_resend");
        continue;
      }
      w.W("c09_probe_seen");
      {
        int plain = 0; // transmissions of this copy that are not mandated resends
        for (auto &o : w.txs)
          if (o.q.ok && o.q.id == t.q.id) {
            bool m = false;
            for (auto &o2 : w.txs)
              if (o2.id < o.id && o2.q.ok && o2.q.id == o.q.id)
                for (auto &p : w.packets)
                  if (!p.forged && p.for_tx == o2.id && p.seq_read >= 0 && p.seq_read < o.seq && (p.kind == RK_FORMERR_NOOPT || p.kind == RK_FORMERR_OPT || p.kind == RK_TC || p.kind == RK_BADCOOKIE)) m = true;
            if (!m) plain++;
          }
        if (plain > 1) w.violate("C09:probe:retried", fmt("probe query id %u was transmitted %d times (not counting protocol-mandated resends)", t.q.id, plain));
      }
      // (server-list edits: the reference forgets removed servers and keeps the health and last-failure time of
      //  retained ones, so both rules apply across edits as well)
      if (t.ref_fail[t.server] == 0) w.violate("C09:probe:to-healthy-server", fmt("probe tx#%d went to server %d which has no failures", t.id, t.server));
      if (w.cfg->retry_chance == 0) w.violate("C09:probe:sent-although-disabled", fmt("probe tx#%d sent although the retry chance is 0", t.id));
      if (t.t_us < t.last_fail_us[t.server] + (int64_t)w.cfg->retry_delay * 1000)
        w.violate("C09:probe:before-retry-delay", fmt("probe tx#%d to server %d sent %lld ms after its last failure; retry delay is %d ms", t.id, t.server, (long long)((t.t_us - t.last_fail_us[t.server]) / 1000), w.cfg->retry_delay));
      bool same_question = false;
      for (auto &u : w.txs)
        if (u.q.ok && user_q.count(u.q.id) && !u.q.q.empty() && !t.q.q.empty() && vdns::lower(vdns::name_text(u.q.q[0].labels)) == vdns::lower(vdns::name_text(t.q.q[0].labels)) && u.q.q[0].qtype == t.q.q[0].qtype)
          same_question = true;
      if (!same_question) w.violate("C09:probe:different-question", fmt("probe tx#%d asks a question no user query asked", t.id));
      // the copy is invisible to the application: whatever answers it reaches no callback, and sending it neither
      // completes nor fails a request within the same library call chain
      for (auto &p : w.packets) {
        if (p.forged || p.for_tx != t.id) continue;
        for (auto &tk : w.toks)
          if (tk.count && (std::find(tk.markers.begin(), tk.markers.end(), p.serial) != tk.markers.end() || tk.neg_marker == p.serial))
            w.violate("C09:probe:answer-delivered-to-application", fmt("packet #%d answers probe tx#%d but its data reached the callback of request token %d", p.serial, t.id, tk.id));
        if (p.seq_read >= 0) w.W("c09_probe_answer_read");
      }
    }
  }
  // ---- the same selection rule judged from what the NETWORK saw (not from the library's own callbacks): every
  // re-send of a user query that is not a protocol-mandated resend means the previous attempt failed at that server
  // (timeout, error reply, connection closed / reset, send failure), so that server must have been demoted.
  // Everything is ordered by the moment the destination was DECIDED (for the first frame of a TCP connection that is
  // when the connection was opened, not when the frame reached the wire).
  {
    struct Evt {
      long seq;
      int  kind; // 0 fail, 1 reset
      int  server;
    };
    std::vector<Evt>        evs;
    std::set<int>           conn_failed;
    std::map<unsigned, int> prev;
    std::map<int, bool>     mandated_tx;
    for (auto &t : w.txs) {
      if (!t.q.ok || t.server < 0 || t.server >= 8 || !user_q.count(t.q.id)) continue;
      auto pit = prev.find(t.q.id);
      bool mandated = false;
      if (pit != prev.end()) {
        const Transmission &pv = w.txs[(size_t)pit->second];
        bool err_reply = false;
        for (auto &p : w.packets) {
          // any reply to a transmission of this query (also a late one to an earlier transmission on the same
          // connection) that the library read since the previous transmission
          if (p.forged || p.for_tx < 0 || p.seq_read < pv.seq || p.seq_read >= t.seq) continue;
          if (!w.txs[(size_t)p.for_tx].q.ok || w.txs[(size_t)p.for_tx].q.id != t.q.id) continue;
          if (!looked_at(w, p, nullptr)) continue; // arrived on a connection the query had left: dropped unseen
          if (p.kind == RK_FORMERR_NOOPT || p.kind == RK_FORMERR_OPT || p.kind == RK_TC || p.kind == RK_BADCOOKIE) mandated = true;
          if (p.kind == RK_SERVFAIL || p.kind == RK_REFUSED || p.kind == RK_NOTIMP) err_reply = true;
        }
        if (!mandated && pv.server >= 0 && pv.server < 8) {
          // its own timeout or an error reply count per query; a connection-level failure is one failure of the
          // server however many queries were waiting on that connection
          // a connection-level cause is known to the harness (it closed / reset that connection itself, or injected
          // a failure on that descriptor); anything else is this query's own timeout or an error reply
          bool conn_level = false;
          for (auto &nf : w.net_fails)
            if (nf.fd == pv.fd && nf.seq < t.seq) conn_level = true;
          if (err_reply || conn_level) {
            // counted when the error reply was read / when the connection failure happened (below)
          } else
            evs.push_back({ t.decision_seq * 2 - 1, 0, pv.server });
        }
      }
      mandated_tx[t.id] = mandated;
      prev[t.q.id]      = t.id;
    }
    for (auto &p : w.packets) {
      if (p.seq_read < 0 || p.forged || p.src_server < 0 || p.src_server >= 8) continue;
      if ((p.kind == RK_SERVFAIL || p.kind == RK_REFUSED || p.kind == RK_NOTIMP) && p.for_tx >= 0 && user_q.count(w.txs[(size_t)p.for_tx].q.id) && looked_at(w, p, nullptr))
        evs.push_back({ p.seq_read * 2, 0, p.src_server }); // an error reply the library looked at is a failure of that server
      bool delivered = false;
      for (auto &tk : w.toks)
        if (tk.count && (std::find(tk.markers.begin(), tk.markers.end(), p.serial) != tk.markers.end() || tk.neg_marker == p.serial)) delivered = true;
      if (delivered) evs.push_back({ p.seq_read * 2, 1, p.src_server });
    }
    // a query that ENDED unsuccessfully: its last attempt failed too (there is no re-send to show it)
    for (auto &tk : w.toks) {
      if (!tk.count || tk.req < 0 || tk.seq_done < 0) continue;
      if (!(tk.status == ARES_ETIMEOUT || tk.status == ARES_ESERVFAIL || tk.status == ARES_EREFUSED || tk.status == ARES_ENOTIMP || tk.status == ARES_ECONNREFUSED)) continue;
      const ReqSpec &rs = (*w.reqs)[(size_t)tk.req];
      std::string    k  = norm_name(rs.name) + "/" + std::to_string(rs.qtype);
      auto           fq = first_q.find(k);
      if (fq == first_q.end()) continue;
      const Transmission *last = nullptr;
      for (auto &t : w.txs)
        if (t.q.ok && t.q.id == fq->second && t.seq < tk.seq_done) last = &t;
      if (!last || last->server < 0 || last->server >= 8) continue;
      bool err_reply = false;
      for (auto &p : w.packets)
        if (!p.forged && p.for_tx == last->id && p.seq_read >= 0 && p.seq_read < tk.seq_done && (p.kind == RK_SERVFAIL || p.kind == RK_REFUSED || p.kind == RK_NOTIMP)) err_reply = true;
      if (err_reply) {
        // counted when the error reply was read
      } else if (tk.status == ARES_ETIMEOUT) evs.push_back({ tk.seq_done * 2 - 1, 0, last->server });
    }
    // injected socket failures: visible to the harness even when they leave no transmission behind
    bool unknown_server_failure = false;
    // a UDP->TCP upgrade moves a query between connections in the middle of an attempt; the bookkeeping of "which
    // attempt failed where" is then ambiguous from outside, so histories with a truncated reply are left to the
    // callback-driven table above
    for (auto &p : w.packets)
      if (p.kind == RK_TC) unknown_server_failure = true;
    // probe copies fail and succeed without any outside trace (no callback, no retransmission): with probing enabled the
    // health table cannot be reconstructed from the network alone
    if (w.cfg->retry_chance != 0) unknown_server_failure = true;
    for (auto &nf : w.net_fails) {
      if (nf.server < 0 || nf.server >= 8) {
        unknown_server_failure = true;
        continue;
      }
      evs.push_back({ nf.seq * 2, 0, nf.server });
    }
    std::sort(evs.begin(), evs.end(), [](const Evt &a, const Evt &b) { return a.seq < b.seq; });
    std::vector<const Transmission *> order;
    for (auto &t : w.txs)
      if (t.q.ok && t.server >= 0 && t.server < 8 && user_q.count(t.q.id)) order.push_back(&t);
    std::sort(order.begin(), order.end(), [](const Transmission *a, const Transmission *b) { return a->decision_seq < b->decision_seq; });
    int    true_fail[8] = { 0 };
    size_t ei = 0;
    for (const Transmission *tp : order) {
      const Transmission &t = *tp;
      while (ei < evs.size() && evs[ei].seq <= t.decision_seq * 2) {
        if (evs[ei].kind == 0) true_fail[evs[ei].server]++;
        else true_fail[evs[ei].server] = 0;
        ei++;
      }
      if (servers_changed || mandated_tx[t.id] || unknown_server_failure || t.batched) continue;
      int best = 1 << 30;
      for (int i = 0; i < nsrv; i++) best = std::min(best, true_fail[i]);
      // Failures that leave no trace on the network (a timeout whose re-send could not even be attempted) are known to
      // the library only, so the network may show FEWER failures than the library announced, never more. The check
      // fires when the chosen server has failures the library never announced and those failures matter for the choice.
      if (true_fail[t.server] > best && true_fail[t.server] > t.ref_fail[t.server])
        w.violate("C09:selection:failed-server-not-demoted",
                  fmt("tx#%d of query id %u went to server %d again although %d of its attempts there failed (network view) and another server has only %d failures", t.id,
                      t.q.id, t.server, true_fail[t.server], best));
      w.W("c09_network_view_checked");
    }
  }
  // success restores, failure demotes: the callback stream itself must be consistent with what the network saw
  int n_succ = 0;
  for (auto &ss : w.server_state)
    if (ss.second) n_succ++;
  int accepted = 0;
  for (auto &p : w.packets)
    if (!p.forged && p.t_read >= 0 && (p.rcode == vdns::RC_NOERROR || p.rcode == vdns::RC_NXDOMAIN) && p.kind != RK_MALFORMED && p.kind != RK_EMPTY &&
        (!p.tc || (p.for_tx >= 0 && w.txs[(size_t)p.for_tx].tcp) || (w.cfg->flags & ARES_FLAG_IGNTC)))
      accepted++;
  if (n_succ > accepted) w.violate("C09:state:success-without-accepted-reply", fmt("%d server successes were announced but only %d acceptable replies were read", n_succ, accepted));
}

// ---------------------------------------------------------------------------
// C12: search list expansion (resolv.conf(5) semantics)
// ---------------------------------------------------------------------------
static size_t label_count(const std::string &n)
{
  size_t c = 1;
  for (char ch : n)
    if (ch == '.') c++;
  if (!n.empty() && n.back() == '.') c--;
  return c;
}
void oracle_c12_search(World &w, const History &)
{
  for (auto &t : w.toks) {
    if (t.req < 0 || t.count == 0) continue;
    const ReqSpec &r = (*w.reqs)[(size_t)t.req];
    if (!(r.kind == 4 || r.kind == 5 || r.kind == 6 || r.kind == 7)) continue;
    // ---- reference candidate list
    std::vector<std::string> cand;
    std::string              name = r.name;
    size_t                   dots = 0;
    for (char c : name)
      if (c == '.') dots++;
    std::string alias;
    if (!w.cfg->hostaliases.empty() && !(w.cfg->flags & ARES_FLAG_NOALIASES) && dots == 0) {
      // "alias target" lines
      size_t pos = 0;
      while (pos < w.cfg->hostaliases.size()) {
        size_t      e    = w.cfg->hostaliases.find('\n', pos);
        std::string line = w.cfg->hostaliases.substr(pos, e == std::string::npos ? std::string::npos : e - pos);
        pos              = e == std::string::npos ? w.cfg->hostaliases.size() : e + 1;
        size_t sp        = line.find(' ');
        if (sp == std::string::npos) continue;
        if (vdns::lower(line.substr(0, sp)) == vdns::lower(name) && alias.empty()) {
          alias = line.substr(sp + 1);
          while (!alias.empty() && alias[0] == ' ') alias.erase(0, 1);
        }
      }
    }
    if (!alias.empty()) cand.push_back(alias);
    else if ((!name.empty() && name.back() == '.') || (w.cfg->flags & ARES_FLAG_NOSEARCH)) cand.push_back(name);
    else {
      // the search configuration in force when the request was issued (it changes with a successful reinit when it
      // comes from the configuration file)
      bool first = dots >= (size_t)t.ndots_at_issue;
      if (first) cand.push_back(name);
      for (auto &d : t.domains_at_issue) cand.push_back(d == "." ? name + "." : name + "." + d);
      if (!first) cand.push_back(name);
    }
    // ---- what the server saw for this request: distinct question names in order of first transmission,
    //      with the outcome of each wire query (reply kind the library read before the request completed, -1 = silence)
    std::vector<std::string>      seen;
    std::vector<std::vector<int>> seen_ocs;
    std::map<unsigned, int>       q_oc; // qid -> outcome
    std::vector<unsigned>         q_order;
    std::map<unsigned, std::string> q_name;
    for (int i = t.tx_at_issue; i < t.tx_at_done && i < (int)w.txs.size(); i++) {
      const Transmission &x = w.txs[(size_t)i];
      if (!x.q.ok || x.q.q.empty()) continue;
      if (!q_oc.count(x.q.id)) {
        q_oc[x.q.id] = -1;
        q_order.push_back(x.q.id);
        q_name[x.q.id] = vdns::lower(vdns::name_text(x.q.q[0].labels));
      }
      for (auto &p : w.packets) {
        if (p.forged || p.for_tx != x.id || p.seq_read < 0 || p.seq_read >= t.seq_done) continue;
        // an answer counts for the wire query's current transmission only: once the query was re-sent on another
        // socket, a late answer on the socket it left is not listened for any more (that is C05's concern)
        bool moved = false;
        for (int j = i + 1; j < t.tx_at_done && j < (int)w.txs.size(); j++) {
          const Transmission &y = w.txs[(size_t)j];
          if (y.q.ok && y.q.id == x.q.id && y.seq < p.seq_read && y.sock_serial != x.sock_serial) moved = true;
        }
        if (moved) {
          w.W("obs_c12_late_answer_on_left_socket");
          continue;
        }
        q_oc[x.q.id] = p.kind;
      }
    }
    size_t per_cand = (r.kind == 6 && r.family == AF_UNSPEC) ? 2 : 1; // getaddrinfo asks A and AAAA per candidate
    for (unsigned q : q_order) {
      if (seen.empty() || seen.back() != q_name[q] || seen_ocs.back().size() >= per_cand) {
        seen.push_back(q_name[q]);
        seen_ocs.push_back({});
      }
      seen_ocs.back().push_back(q_oc[q]);
    }
    // merge the outcomes of the (one or two) wire queries of a candidate; mixed classes are not judged
    std::vector<int> seen_outcome;
    bool             mixed = false;
    auto             cls = [](int oc) {
      if (oc == RK_DATA || oc == RK_DATA_MULTI || oc == RK_CNAME_DATA) return 0;
      if (oc == RK_NODATA || oc == RK_NODATA_NOSOA || oc == RK_NXDOMAIN || oc == RK_NXDOMAIN_NOSOA) return 1;
      if (oc == RK_SERVFAIL || oc == RK_REFUSED) return 2;
      return 3; // silence
    };
    for (auto &v : seen_ocs) {
      int m = v[0];
      for (int oc : v) {
        if (cls(oc) != cls(v[0])) mixed = true;
        if (oc == RK_NODATA || oc == RK_NODATA_NOSOA) m = oc; // nodata on either family counts as nodata
      }
      seen_outcome.push_back(m);
    }
    if (mixed) {
      w.W("obs_c12_mixed_outcomes_per_candidate");
      continue;
    }
    // ---- walk the reference with the observed outcomes
    size_t expect_n = 0;
    int    exp_status = -1;
    bool   nodata = false;
    for (size_t i = 0; i < cand.size(); i++) {
      expect_n = i + 1;
      int oc   = i < seen_outcome.size() ? seen_outcome[i] : -1;
      if (oc == RK_DATA || oc == RK_DATA_MULTI || oc == RK_CNAME_DATA) {
        exp_status = ARES_SUCCESS;
        break;
      }
      if (oc == RK_NODATA || oc == RK_NODATA_NOSOA) {
        nodata     = true;
        exp_status = ARES_ENODATA;
        continue;
      }
      if (oc == RK_NXDOMAIN || oc == RK_NXDOMAIN_NOSOA) {
        exp_status = ARES_ENOTFOUND;
        continue;
      }
      if (oc == RK_SERVFAIL || oc == RK_REFUSED) {
        exp_status = oc == RK_SERVFAIL ? ARES_ESERVFAIL : ARES_EREFUSED;
        // documented exception (issue #852): a single-label candidate may be skipped over instead of ending the
        // search; the statement itself says "stops at a hard error", so for single-label candidates both are accepted
        if (label_count(cand[i]) == 1 && seen.size() > i + 1) continue;
        break;
      }
      exp_status = ARES_ETIMEOUT; // silence: the candidate timed out, a hard error
      break;
    }
    if (exp_status == ARES_ENOTFOUND && nodata) exp_status = ARES_ENODATA;
    if (r.kind == 6 || r.kind == 7) {
      // address lookups consult the hosts file / literals first and map statuses differently: only the name order is judged
      if (w.cfg->lookups != "b") continue;
    }
    // a socket-level failure while the request was in flight (no descriptor for the candidate's connection, say) is a
    // hard error for the candidate being sent: the search ends there with the connection status; the candidate itself
    // may never have reached the wire
    bool net_failed = false;
    for (auto &nf : w.net_fails)
      if (nf.seq >= t.seq_issue && (t.seq_done < 0 || nf.seq <= t.seq_done)) net_failed = true;
    if (net_failed && t.status == ARES_ECONNREFUSED) {
      if (seen.size() + 1 == expect_n && exp_status == ARES_ETIMEOUT) expect_n--; // the last candidate was never sent
      exp_status = ARES_ECONNREFUSED;
      w.W("c12_hard_error_from_socket_failure");
    }
    std::vector<std::string> expect;
    for (size_t i = 0; i < expect_n && i < cand.size(); i++) expect.push_back(norm_name(cand[i]));
    bool order_ok = seen.size() == expect.size();
    for (size_t i = 0; order_ok && i < seen.size(); i++)
      if (seen[i] != expect[i]) order_ok = false;
    if (!order_ok) {
      std::string a, b;
      for (auto &x : seen) a += x + " ";
      for (auto &x : expect) b += x + " ";
      w.violate("C12:search:candidate-sequence", fmt("request '%s' (kind %d, ndots %d): server saw [ %s] but resolv.conf semantics prescribe [ %s]", r.name.c_str(), r.kind, t.ndots_at_issue, a.c_str(), b.c_str()));
    } else
      w.W("c12_sequence_checked");
    if (seen.size() > 1) w.W("c12_multi_candidate");
    if ((r.kind == 4 || r.kind == 5) && exp_status >= 0 && t.status != exp_status && order_ok)
      w.violate("C12:search:final-status", fmt("request '%s' (kind %d): final status %d, expected %d from the per-candidate outcomes", r.name.c_str(), r.kind, t.status, exp_status));
  }
}

// ---------------------------------------------------------------------------
// C13: address lookups return exactly the answered addresses
// ---------------------------------------------------------------------------
static std::string reverse_name(int fam, const std::string &text)
{
  unsigned char a[16];
  char          b[128];
  std::string   s;
  if (fam == AF_INET) {
    inet_pton(AF_INET, text.c_str(), a);
    snprintf(b, sizeof b, "%u.%u.%u.%u.in-addr.arpa.", a[3], a[2], a[1], a[0]);
    return b;
  }
  inet_pton(AF_INET6, text.c_str(), a);
  for (int i = 15; i >= 0; i--) {
    snprintf(b, sizeof b, "%x.%x.", a[i] & 15, a[i] >> 4);
    s += b;
  }
  return s + "ip6.arpa.";
}
void oracle_c13_addrs(World &w, const History &)
{
  for (auto &t : w.toks) {
    if (t.req < 0 || t.count == 0) continue;
    const ReqSpec &r = (*w.reqs)[(size_t)t.req];
    if (r.kind == 8 || r.kind == 9) {
      // reverse lookups: exactly the reverse-map name is asked
      std::string want = reverse_name(r.family, r.name);
      for (int i = t.tx_at_issue; i < t.tx_at_done && i < (int)w.txs.size(); i++) {
        const Transmission &x = w.txs[(size_t)i];
        if (!x.q.ok || x.q.q.empty()) continue;
        std::string qn = vdns::lower(vdns::name_text(x.q.q[0].labels));
        if (qn != want || x.q.q[0].qtype != vdns::T_PTR)
          w.violate("C13:reverse:wrong-question", fmt("reverse lookup of %s asked '%s' type %d, expected '%s' PTR", r.name.c_str(), qn.c_str(), x.q.q[0].qtype, want.c_str()));
        else
          w.W("c13_reverse_question_checked");
      }
      if (t.status == ARES_SUCCESS && !t.markers.empty()) {
        const Packet *p = pkt(w, t.markers[0]);
        if (!p || p->forged || p->t_read < 0) w.violate("C13:reverse:name-not-from-answer", fmt("reverse lookup of %s returned a name no answer carried", r.name.c_str()));
      }
      continue;
    }
    if (r.kind != 6 && r.kind != 7) continue;
    if (t.status != ARES_SUCCESS) {
      // a name the hosts file in force defines for the requested family must be answered from it when the lookup order
      // starts with (or consists of) the file: a failing lookup is not "no result", it is the file being ignored
      if (r.kind == 6 && !w.cfg->lookups.empty() && w.cfg->lookups[0] == 'f') {
        const std::string &ht = ((r.ai_flags & ARES_AI_ENVHOSTS) && !w.cfg->env_hosts.empty()) ? w.cfg->env_hosts : w.cfg->hosts;
        std::string        ln = vdns::lower(r.name);
        bool               defined = false;
        size_t             pos = 0;
        while (pos < ht.size()) {
          size_t      e    = ht.find('\n', pos);
          std::string line = ht.substr(pos, e == std::string::npos ? std::string::npos : e - pos);
          pos              = e == std::string::npos ? ht.size() : e + 1;
          std::vector<std::string> tok;
          std::string              cur;
          for (char ch : line + " ") {
            if (ch == ' ' || ch == '\t') {
              if (!cur.empty()) tok.push_back(cur);
              cur.clear();
            } else
              cur += ch;
          }
          unsigned char a[16];
          for (size_t i = 1; i < tok.size(); i++)
            if (vdns::lower(tok[i]) == ln) {
              bool v4 = inet_pton(AF_INET, tok[0].c_str(), a) == 1, v6 = inet_pton(AF_INET6, tok[0].c_str(), a) == 1;
              if ((v4 && (r.family == AF_UNSPEC || r.family == AF_INET)) || (v6 && (r.family == AF_UNSPEC || r.family == AF_INET6))) defined = true;
            }
        }
        if (defined && w.deviations == 0 && t.status != ARES_ECANCELLED && t.status != ARES_EDESTRUCTION)
          w.violate("C13:non-dns:hosts-entry-not-used", fmt("lookup of %s (family %d, flags %x) failed with status %d although the hosts file in force defines it", r.name.c_str(), r.family, r.ai_flags, t.status));
      }
      continue;
    }
    // ---- expected multiset
    std::multiset<std::string> want, got;
    bool                       from_dns = false;
    // which packets answered this request: read, genuine, success, for transmissions made during the request
    // the winning candidate is the last question name asked
    std::string win;
    for (int i = t.tx_at_issue; i < t.tx_at_done && i < (int)w.txs.size(); i++) {
      if (w.txs[(size_t)i].token_hint >= 0 && w.txs[(size_t)i].token_hint != t.id) continue; // a transmission of another, concurrent request
      if (w.txs[(size_t)i].q.ok && !w.txs[(size_t)i].q.q.empty()) win = vdns::lower(vdns::name_text(w.txs[(size_t)i].q.q[0].labels));
    }
    for (auto &p : w.packets) {
      if (p.forged || p.t_read < 0 || p.for_tx < t.tx_at_issue || p.for_tx >= t.tx_at_done) continue;
      if (w.txs[(size_t)p.for_tx].token_hint >= 0 && w.txs[(size_t)p.for_tx].token_hint != t.id) continue; // a transmission of another, concurrent request
      if (t.seq_done >= 0 && p.seq_read > t.seq_done) continue; // read only after the request had completed
      if (p.rcode != vdns::RC_NOERROR || p.tc || p.qname_lc != win) continue;
      // accepted only if it was the reply to the latest transmission of its query on that socket (C05); the family sends no stale packets
      for (auto &rr : p.rrs) {
        int fam = rr.type == vdns::T_A ? AF_INET : rr.type == vdns::T_AAAA ? AF_INET6 : 0;
        if (!fam || rr.cls != 1) continue;
        if (r.family != AF_UNSPEC && fam != r.family) continue;
        want.insert(fmt("%d/%d/%d/ttl%u", fam, p.serial, rr.idx, rr.ttl));
        from_dns = true;
      }
    }
    {
      // answered (wholly or for one of its two questions) from the query cache: the records are those of the packets
      // the result names that do not answer a transmission of this request, each TTL reduced by the whole seconds the
      // answer has spent in the cache (C08's rule) - at every hit, however many came before. The cache is consulted
      // when the question is asked, i.e. between the issue and the completion of the request: either age is accepted.
      std::set<int> serials;
      for (auto &a : t.addrs)
        if (a.serial) serials.insert(a.serial);
      std::multiset<std::string> at_issue = want, at_done = want, got_now;
      bool                       any = false;
      for (int sn : serials) {
        const Packet *pp = pkt(w, sn);
        if (!pp || pp->forged || pp->t_read < 0) continue;
        if (pp->for_tx >= t.tx_at_issue && pp->for_tx < t.tx_at_done && (w.txs[(size_t)pp->for_tx].token_hint < 0 || w.txs[(size_t)pp->for_tx].token_hint == t.id)) continue; // answered on the network during this request
        int64_t age_i = t.t_issue / 1000000 - pp->t_read / 1000000, age_d = t.t_done / 1000000 - pp->t_read / 1000000;
        for (auto &rr : pp->rrs) {
          int fam = rr.type == vdns::T_A ? AF_INET : rr.type == vdns::T_AAAA ? AF_INET6 : 0;
          if (!fam || rr.cls != 1) continue;
          if (r.family != AF_UNSPEC && fam != r.family) continue;
          at_issue.insert(fmt("%d/%d/%d/ttl%u", fam, pp->serial, rr.idx, (unsigned)(rr.ttl > (uint32_t)age_i ? rr.ttl - (uint32_t)age_i : 0)));
          at_done.insert(fmt("%d/%d/%d/ttl%u", fam, pp->serial, rr.idx, (unsigned)(rr.ttl > (uint32_t)age_d ? rr.ttl - (uint32_t)age_d : 0)));
          from_dns = true;
        }
        any = true;
        w.W("c13_cache_hit_ttl_checked");
      }
      if (any) {
        for (auto &a : t.addrs) got_now.insert(a.serial ? fmt("%d/%d/%d/ttl%d", a.fam, a.serial, a.idx, r.kind == 7 ? -1 : a.ttl) : fmt("%d/raw:%s", a.fam, a.raw.c_str()));
        want = (r.kind != 7 && got_now == at_done) ? at_done : at_issue;
      }
    }
    bool any_marker = false;
    for (auto &a : t.addrs) {
      if (a.serial) any_marker = true;
      got.insert(a.serial ? fmt("%d/%d/%d/ttl%d", a.fam, a.serial, a.idx, r.kind == 7 ? -1 : a.ttl) : fmt("%d/raw:%s", a.fam, a.raw.c_str()));
      if (r.family != AF_UNSPEC && a.fam != r.family)
        w.violate("C13:family:other-family-returned", fmt("lookup of %s restricted to family %d returned an address of family %d (%s)", r.name.c_str(), r.family, a.fam, a.raw.c_str()));
    }
    if (!any_marker) {
      // hosts file, literal or loopback rule
      std::set<std::string> exp, have;
      auto add = [&](const std::string &text) {
        unsigned char a[16];
        if (inet_pton(AF_INET, text.c_str(), a) == 1) {
          if (r.family == AF_UNSPEC || r.family == AF_INET) exp.insert("2/raw:" + text);
        } else if (inet_pton(AF_INET6, text.c_str(), a) == 1) {
          if (r.family == AF_UNSPEC || r.family == AF_INET6) exp.insert("10/raw:" + vf::hex(a, 16));
        }
      };
      unsigned char lit[16];
      std::string   lname = vdns::lower(r.name);
      bool          is_literal = inet_pton(AF_INET, r.name.c_str(), lit) == 1 || inet_pton(AF_INET6, r.name.c_str(), lit) == 1;
      bool          is_localhost = lname == "localhost" || (lname.size() > 10 && lname.compare(lname.size() - 10, 10, ".localhost") == 0);
      if (is_literal) add(r.name);
      else {
        // hosts file lines: "addr name [alias...]"
        // the hosts file this request has to be answered from: the configured one, or the one named by $CARES_HOSTS when
        // the request carries ARES_AI_ENVHOSTS (a per-request choice)
        const std::string &hosts_text = (r.kind == 6 && (r.ai_flags & ARES_AI_ENVHOSTS) && !w.cfg->env_hosts.empty()) ? w.cfg->env_hosts : w.cfg->hosts;
        if (&hosts_text == &w.cfg->env_hosts) w.W("c13_env_hosts_file_used");
        size_t pos = 0;
        while (pos < hosts_text.size()) {
          size_t      e    = hosts_text.find('\n', pos);
          std::string line = hosts_text.substr(pos, e == std::string::npos ? std::string::npos : e - pos);
          pos              = e == std::string::npos ? hosts_text.size() : e + 1;
          std::vector<std::string> tok;
          std::string              cur;
          for (char ch : line + " ") {
            if (ch == ' ' || ch == '\t') {
              if (!cur.empty()) tok.push_back(cur);
              cur.clear();
            } else
              cur += ch;
          }
          for (size_t i = 1; i < tok.size(); i++)
            if (vdns::lower(tok[i]) == lname) add(tok[0]);
        }
        if (exp.empty() && is_localhost) {
          add("127.0.0.1");
          add("::1");
        }
      }
      for (auto &a : t.addrs) have.insert(fmt("%d/raw:%s", a.fam, a.raw.c_str()));
      if (is_localhost && !is_literal && w.cfg->hosts.find("localhost") == std::string::npos) {
        // the loopback rule may return either or both loopback addresses of the requested family, never anything else
        bool ok = !have.empty();
        for (auto &x : have)
          if (!exp.count(x)) ok = false;
        if (!ok) w.violate("C13:loopback:unexpected-address", fmt("lookup of %s returned addresses outside the loopback rule", r.name.c_str()));
        else w.W("c13_loopback_checked");
      } else if (have != exp) {
        std::string a, b;
        for (auto &x : have) a += x + " ";
        for (auto &x : exp) b += x + " ";
        w.violate("C13:non-dns:set-mismatch", fmt("lookup of %s (family %d): returned { %s} but the hosts file / literal rule gives { %s}", r.name.c_str(), r.family, a.c_str(), b.c_str()));
      } else
        w.W("c13_non_dns_checked");
      // the service's port is applied to hosts-file, literal and loopback answers just as to DNS answers
      for (auto &a : t.addrs)
        if (r.kind == 6 && !r.service.empty()) {
          if (a.port != atoi(r.service.c_str()))
            w.violate("C13:port:not-applied", fmt("service %s requested for %s (answered without DNS) but the address carries port %d", r.service.c_str(), r.name.c_str(), a.port));
          else
            w.W("c13_non_dns_port_checked");
        }
      continue;
    }
    if (r.kind == 7) {
      // hostent carries no TTLs
      std::multiset<std::string> w2;
      for (auto &x : want) w2.insert(x.substr(0, x.rfind('/')) + "/ttl-1");
      want = w2;
    }
    (void)from_dns;
    if (want != got) {
      std::string a, b;
      for (auto &x : got) a += x + " ";
      for (auto &x : want) b += x + " ";
      w.violate("C13:addresses:set-mismatch", fmt("lookup of %s (kind %d family %d flags %x): returned { %s} but the accepted answers for %s carry { %s} (family/packet/rr/ttl)", r.name.c_str(), r.kind, r.family, r.ai_flags, a.c_str(), win.c_str(), b.c_str()));
    } else
      w.W("c13_set_checked");
    if (got.size() > 1) w.W("c13_multi_address");
    // port
    for (auto &a : t.addrs)
      if (r.kind == 6 && !r.service.empty() && a.port != atoi(r.service.c_str()))
        w.violate("C13:port:not-applied", fmt("service %s requested but address carries port %d", r.service.c_str(), a.port));
    // NOSORT: order equals answer order (per packet rr index ascending, packets in arrival order of A then AAAA is not fixed: check per family)
    if (r.kind == 6 && (r.ai_flags & ARES_AI_NOSORT)) {
      std::map<std::pair<int, int>, int> last;
      for (auto &a : t.addrs) {
        auto k = std::make_pair(a.fam, a.serial);
        if (last.count(k) && last[k] > a.idx) w.violate("C13:order:nosort-reordered", fmt("NOSORT lookup of %s returned records of packet %d out of answer order", r.name.c_str(), a.serial));
        last[k] = a.idx;
      }
    }
  }
}

// ---------------------------------------------------------------------------
// C17: DNS cookie client automaton (RFC 7873), judged at the virtual network
// ---------------------------------------------------------------------------
// The transmission a packet is judged against: the latest transmission of the
// same query id made before the packet was read. The library only looks at a
// packet if it arrives on that transmission's descriptor (C05) while the query
// is still outstanding; everything else is dropped unseen and teaches nothing.
static const Transmission *current_tx_at_read(const World &w, const Packet &p)
{
  if (p.for_tx < 0 || p.seq_read < 0) return nullptr;
  unsigned            qid = w.txs[(size_t)p.for_tx].q.id;
  const Transmission *cur = nullptr;
  for (auto &t : w.txs)
    if (t.q.ok && t.q.id == qid && t.seq < p.seq_read) cur = &t;
  return cur;
}
static bool query_alive_at(const World &w, unsigned qid, long seq)
{
  // single-query requests: the token whose first transmission carries this id
  for (auto &t : w.toks) {
    if (t.tx_at_issue < (int)w.txs.size() && t.tx_at_issue < t.tx_at_done + (t.count ? 0 : 1 << 30) && w.txs[(size_t)t.tx_at_issue].q.ok && w.txs[(size_t)t.tx_at_issue].q.id == qid)
      return t.count == 0 || t.seq_done > seq;
  }
  return true;
}
static bool looked_at(const World &w, const Packet &p, const Transmission **cur_out)
{
  const Transmission *cur = current_tx_at_read(w, p);
  if (cur_out) *cur_out = cur;
  if (!cur || p.forged) return false;
  if (cur->fd != p.on_fd) return false;
  if (p.kind == RK_MALFORMED || p.kind == RK_EMPTY) return false;
  return query_alive_at(w, cur->q.id, p.seq_read);
}
static bool has_valid_cookie(const Packet &p) { return p.kind == RK_CK_VALID || p.kind == RK_CK_VALID2 || p.kind == RK_BADCOOKIE; }
static vdns::Bytes server_cookie_of(const Packet &p)
{
  return p.kind == RK_CK_VALID ? vdns::Bytes{ 'S', 'R', 'V', 'C', 'O', 'O', 'K', '1' } : vdns::Bytes{ 'S', 'R', 'V', 'C', 'O', 'O', 'K', '2' };
}

void oracle_c17_cookie(World &w, const History &h)
{
  (void)h;
  // One reference automaton per server, driven by everything the outside can see in one global order: the
  // transmissions (what cookie they carry) and the replies the library looked at (and whether their data reached a
  // callback). Sending and accepting are judged by the same automaton, because the regression / re-learn resets of
  // RFC 7873 happen when a request is SENT (the client cookie is seen to change) and decide which later replies
  // may be accepted.
  const int64_t REGRESSION_US = 120LL * 1000000, DAY_US = 86400LL * 1000000;
  struct Srv {
    bool        have = false;      // a UDP transmission with a cookie was seen
    vdns::Bytes client;            // client part of the latest such transmission
    int         src = 0;
    int64_t     client_since = 0;  // first use of this client part
    vdns::Bytes server;            // latest valid server cookie learned for this client part
    long        server_seq = -1;
    bool        proven = false;    // support proven since the last reset
    bool        cookieless_since = false; // a cookie-less reply was looked at since support was proven / ever
    int64_t     cookieless_at = 0; // when the first of those was read
    long        reset_seq = -1;    // order stamp of the last reset of the automaton (server deemed unsupported / regressed)
  } S[8];
  // packets the library looked at, in read order
  std::vector<const Packet *> reads;
  for (auto &p : w.packets)
    if (p.seq_read >= 0) reads.push_back(&p);
  std::sort(reads.begin(), reads.end(), [](const Packet *a, const Packet *b) { return a->seq_read < b->seq_read; });
  size_t ri = 0;
  std::map<unsigned, int> bad_resends;
  std::map<unsigned, int> prev_of;
  auto absorb = [&](const Packet &p) {
    const Transmission *cur = nullptr;
    if (!looked_at(w, p, &cur)) return;
    int s = p.src_server;
    if (s < 0 || s >= 8 || cur->tcp || !cur->q.has_cookie) return; // no cookie in the current transmission: nothing to validate
    bool delivered = false;
    for (auto &t : w.toks)
      if (t.count && (std::find(t.markers.begin(), t.markers.end(), p.serial) != t.markers.end() || t.neg_marker == p.serial) && t.tx_at_done > t.tx_at_issue) delivered = true;
    const Transmission &ptx = w.txs[(size_t)p.for_tx];
    // the cookie option of the reply echoes the client part of the transmission it answers (replies only echo a
    // cookie the request carried)
    bool echoes_current_client = ptx.q.has_cookie && ptx.q.client_cookie == cur->q.client_cookie && p.kind != RK_CK_WRONGCLIENT;
    bool carries_cookie        = (has_valid_cookie(p) || p.kind == RK_CK_WRONGCLIENT) && ptx.q.has_cookie;
    Srv &L = S[s];
    if (carries_cookie && !echoes_current_client) {
      // spoofed or stale: must be dropped, teaches nothing
      if (delivered) w.violate("C17:accept:wrong-client-cookie", fmt("packet #%d whose client cookie does not match the current transmission tx#%d was delivered", p.serial, cur->id));
      else w.W("c17_wrong_client_dropped");
      return;
    }
    if (p.kind == RK_BADCOOKIE || p.kind == RK_BADCOOKIE_BARE) {
      if (delivered) w.violate("C17:accept:badcookie-delivered", fmt("BADCOOKIE packet #%d was delivered to a callback", p.serial));
      if (p.kind == RK_BADCOOKIE_BARE || !carries_cookie) return;
    }
    if (has_valid_cookie(p) && carries_cookie) {
      if (ptx.seq < L.reset_seq) return; // answers a transmission from before the last reset: teaches nothing
      L.proven           = true;
      L.cookieless_since = false;
      if (L.have && L.client == cur->q.client_cookie) {
        L.server     = server_cookie_of(p);
        L.server_seq = p.seq_read;
      }
      if (delivered) w.W("c17_valid_cookie_accept");
      return;
    }
    // cookie-less (but otherwise acceptable) reply to a transmission that carried a cookie
    if (L.proven) {
      if (!L.cookieless_since) {
        L.cookieless_since = true;
        L.cookieless_at    = p.t_read;
        if (delivered)
          w.violate("C17:accept:cookie-less-reply-after-support-proven", fmt("cookie-less packet #%d was delivered although server %d had proven cookie support (first such reply)", p.serial, s));
        else
          w.W("c17_cookieless_dropped");
      } else if (delivered) {
        if (p.t_read - L.cookieless_at < REGRESSION_US)
          w.violate("C17:accept:cookie-less-reply-after-support-proven",
                    fmt("cookie-less packet #%d was delivered %lld ms after the first cookie-less reply of server %d, which had proven cookie support; the regression period is 120 s", p.serial,
                        (long long)((p.t_read - L.cookieless_at) / 1000), s));
        else
          w.W("c17_regression_accept");
      } else
        w.W("c17_cookieless_dropped");
    } else {
      // server never proved support (since the last reset): it must simply be used without cookies
      bool rc_ok = p.rcode == vdns::RC_NOERROR || p.rcode == vdns::RC_NXDOMAIN;
      if (!delivered && rc_ok && !p.tc && p.carries_data)
        w.violate("C17:never-cookie-server:reply-not-delivered", fmt("server %d never returned a cookie, yet its plain reply packet #%d to the current transmission was not delivered", s, p.serial));
      else if (delivered)
        w.W("c17_never_cookie_server_served");
      if (!L.cookieless_since) L.cookieless_at = p.t_read;
      L.cookieless_since = true;
      L.reset_seq        = p.seq_read; // the server is now treated as not supporting cookies
    }
  };
  for (auto &t : w.txs) {
    if (!t.q.ok || t.server < 0 || t.server >= 8) continue;
    int s = t.server;
    while (ri < reads.size() && reads[ri]->seq_read < t.seq) absorb(*reads[ri++]);
    if (t.tcp) {
      if (t.q.has_cookie) w.violate("C17:cookie:sent-over-tcp", fmt("tx#%d over TCP carries a cookie option", t.id));
      else w.W("c17_tcp_without_cookie");
      prev_of[t.q.id] = t.id;
      continue;
    }
    // BADCOOKIE resend accounting: a UDP re-send that directly follows a looked-at BADCOOKIE reply to the previous transmission
    auto pit = prev_of.find(t.q.id);
    if (pit != prev_of.end() && !t.in_timer) {
      bool by_bad = false;
      for (auto &p : w.packets)
        if (p.for_tx == pit->second && p.seq_read >= 0 && p.seq_read < t.seq && p.kind == RK_BADCOOKIE && looked_at(w, p, nullptr)) by_bad = true;
      if (by_bad) {
        int n = ++bad_resends[t.q.id];
        w.W("c17_badcookie_resend");
        if (n > 3) w.violate("C17:badcookie:more-than-three-udp-resends", fmt("query id %u was re-sent over UDP %d times because of BADCOOKIE replies", t.q.id, n));
      }
    }
    prev_of[t.q.id] = t.id;
    if (!t.q.has_opt) continue;
    Srv &L = S[s];
    if (!t.q.has_cookie) {
      w.W("c17_udp_without_cookie");
      if (L.proven && !L.cookieless_since)
        w.violate("C17:cookie:omitted-although-support-proven", fmt("tx#%d to server %d carries no cookie although the server has proven support and never regressed", t.id, s));
      continue;
    }
    int src = w.cfg->no_getsockname ? 0 : t.src_variant; // without agetsockname the library cannot see the local address: one (unknown) source
    if (L.have) {
      bool same_client = L.client == t.q.client_cookie;
      bool src_changed = L.src != src;
      if (src_changed && same_client) w.violate("C17:client-cookie:kept-after-source-address-change", fmt("tx#%d to server %d reuses the client cookie although the source address changed", t.id, s));
      if (src_changed && !t.q.server_cookie.empty()) w.violate("C17:server-cookie:kept-after-source-address-change", fmt("tx#%d echoes a server cookie learned for another source address", t.id));
      bool aged   = t.t_us - L.client_since >= DAY_US;
      // the regression / re-learn period, counted from the first cookie-less reply, has passed
      bool period = L.cookieless_since && t.t_us - L.cookieless_at >= REGRESSION_US;
      if (!src_changed && !same_client) {
        // legal only after a rotation trigger: the client cookie is a day old, or the support state was reset because
        // cookie-less replies were seen and the regression period has passed since the first of them
        bool trigger = aged || L.cookieless_since;
        if (!trigger)
          w.violate("C17:client-cookie:changed-without-rotation-trigger", fmt("tx#%d to server %d carries a new client cookie (previous one first used %lld s ago), same source address, no cookie-less reply seen", t.id, s, (long long)((t.t_us - L.client_since) / 1000000)));
        else if (!aged && L.proven && t.t_us - L.cookieless_at < REGRESSION_US - 1000000)
          w.violate("C17:client-cookie:changed-without-rotation-trigger",
                    fmt("tx#%d to server %d carries a new client cookie only %lld ms after the first cookie-less reply of a server that had proven support (regression period 120 s), same source address, cookie not a day old", t.id,
                        s, (long long)((t.t_us - L.cookieless_at) / 1000)));
        else
          w.W("c17_client_cookie_rotated");
      }
      if (same_client && !src_changed) w.W("c17_client_cookie_constant");
      if (!same_client || src_changed) {
        L.client_since = t.t_us;
        L.server.clear();
        L.server_seq = -1;
        // a rotation caused by a state reset (cookie-less replies, then the regression / re-learn period) starts the
        // automaton over, whether or not the cookie was also a day old; a rotation by age alone or by source address
        // keeps what is known about the server (and a pending cookie-less observation).
        if (!src_changed && L.cookieless_since && (!L.proven || period)) {
          L.proven           = false;
          L.cookieless_since = false;
          L.reset_seq        = t.seq;
          w.W("c17_reset_by_regression");
        }
        if (src_changed) w.W("c17_source_address_changed");
      }
    } else
      L.client_since = t.t_us;
    L.have   = true;
    L.client = t.q.client_cookie;
    L.src    = src;
    // server part: empty or the latest valid one; present once learned for this client part
    if (!t.q.server_cookie.empty() && t.q.server_cookie != L.server)
      w.violate("C17:server-cookie:not-the-latest-valid", fmt("tx#%d echoes server cookie %s but the latest valid one is %s", t.id, vf::hex(t.q.server_cookie).c_str(), vf::hex(L.server).c_str()));
    if (t.q.server_cookie.empty() && !L.server.empty() && !L.cookieless_since)
      w.violate("C17:server-cookie:not-echoed", fmt("tx#%d omits the server cookie %s learned earlier for this client cookie", t.id, vf::hex(L.server).c_str()));
    if (!t.q.server_cookie.empty()) w.W("c17_server_cookie_echoed");
  }
  while (ri < reads.size()) absorb(*reads[ri++]);
}

// ---------------------------------------------------------------------------
// C03 (wire part): the frame a virtual server receives decodes, with the
// harness decoder, to the record the application passed in
// ---------------------------------------------------------------------------
void oracle_c03_wire(World &w, const History &)
{
  for (auto &t : w.txs) {
    if (!t.q.ok) continue; // already reported by record_tx as not decodable
    if (t.q.q.size() != 1) continue;
    std::string qn = vdns::lower(vdns::name_text(t.q.q[0].labels));
    // find the request this question belongs to
    for (auto &r : *w.reqs) {
      if (r.kind != 10 || norm_name(r.name) != qn) continue;
      std::string zone = norm_name(r.name.substr(r.name.find('.') + 1));
      // expected: authority NS zone -> ns1.zone ; additional A ns1.zone (+ OPT when EDNS is on)
      const vdns::Query::RRSeen *ns = nullptr, *a = nullptr;
      for (auto &x : t.q.rrs) {
        if (x.type == vdns::T_NS) ns = &x;
        if (x.type == vdns::T_A) a = &x;
      }
      if (!ns || !a) {
        w.violate("C03:wire:record-lost", fmt("tx#%d for %s lacks the NS or A record the application put into the request", t.id, r.name.c_str()));
        continue;
      }
      if (vdns::lower(ns->owner) != zone || vdns::lower(ns->rdname) != "ns1." + zone || vdns::lower(a->owner) != "ns1." + zone || ns->ttl != 300)
        w.violate(std::string("C03:wire:name-decodes-differently:") + (t.tcp ? "tcp" : "udp"),
                  fmt("tx#%d (%s): server decodes NS owner '%s' target '%s', A owner '%s'; the application passed '%s' -> 'ns1.%s'", t.id, t.tcp ? "tcp" : "udp", ns->owner.c_str(),
                      ns->rdname.c_str(), a->owner.c_str(), zone.c_str(), zone.c_str()));
      else
        w.W(t.tcp ? "c03_wire_tcp_frame_checked" : "c03_wire_udp_frame_checked");
      size_t uncompressed = 12 + (qn.size() + 1 + 4) + (zone.size() + 1 + 10 + zone.size() + 5) + (zone.size() + 5 + 10 + 4) + (t.q.has_opt ? 11 : 0);
      if (t.msg.size() < uncompressed) w.W("c03_wire_compression_used");
    }
  }
}

} // namespace exa
