// Reference-model oracles of the EX-A families. They use only what the
// harness itself recorded (transmissions, packets, tokens, public callback
// streams); none of them reads c-ares internals.
#include "exa_families.h"
#include <algorithm>
#include <stdarg.h>

namespace exa {

static std::string fmt(const char *f, ...)
{
  char    b[1024];
  va_list ap;
  va_start(ap, f);
  vsnprintf(b, sizeof b, f, ap);
  va_end(ap);
  return b;
}

static std::string norm_name(std::string n)
{
  n = vdns::lower(n);
  if (n.empty() || n.back() != '.') n += '.';
  return n;
}

static const Packet *pkt(const World &w, int serial)
{
  if (serial < 1 || serial > (int)w.packets.size()) return nullptr;
  return &w.packets[(size_t)serial - 1];
}

// ---------------------------------------------------------------------------
// C05: only an authentic, matching response may supply data
// ---------------------------------------------------------------------------
void oracle_c05_provenance(World &w, const History &)
{
  for (auto &t : w.toks) {
    if (t.count == 0) continue;
    std::vector<int> ms = t.markers;
    if (t.neg_marker) ms.push_back(t.neg_marker);
    for (int m : ms) {
      const Packet *p = pkt(w, m);
      if (!p) {
        w.violate("C05:provenance:unknown-marker", fmt("token %d delivered data with marker %d that no injected packet carries (invented data)", t.id, m));
        continue;
      }
      if (p->forged) {
        const char *mut = "?";
        for (auto &l : w.obs) {
          std::string key = fmt("inject pkt#%d FORGED", p->serial);
          if (l.find(key) != std::string::npos) {
            for (int i = 0; i < FG_NKINDS; i++)
              if (l.find(std::string(" ") + fg_names[i] + " ") != std::string::npos) mut = fg_names[i];
          }
        }
        w.violate(std::string("C05:provenance:forged-packet-accepted:") + mut,
                  fmt("token %d (req %d) was answered with data from forged packet #%d (%s)", t.id, t.req, p->serial, mut));
        continue;
      }
      bool from_cache = t.tx_at_done == t.tx_at_issue;
      if (from_cache) {
        // must have been accepted earlier by a request that did go to the network
        bool earlier = false;
        for (auto &o : w.toks)
          if (o.id != t.id && o.count && o.t_done <= t.t_done && o.tx_at_done > o.tx_at_issue &&
              (std::find(o.markers.begin(), o.markers.end(), m) != o.markers.end() || o.neg_marker == m))
            earlier = true;
        if (!earlier && w.cfg->qcache_max_ttl > 0) {
          // served with zero transmissions from data nobody received before: only legal for hosts/literal answers, which carry no marker
          w.violate("C05:provenance:cache-entry-without-accepted-response", fmt("token %d was served without traffic from packet #%d which no earlier request had been answered with", t.id, m));
        }
        continue;
      }
      // (i) the packet must have arrived on the socket carrying the query's latest transmission
      if (p->for_tx < 0 || p->for_tx >= (int)w.txs.size()) continue;
      const Transmission &tx = w.txs[(size_t)p->for_tx];
      int latest = -1;
      for (int i = 0; i < t.tx_at_done && i < (int)w.txs.size(); i++)
        if (w.txs[(size_t)i].q.ok && w.txs[(size_t)i].q.id == tx.q.id) latest = i;
      if (latest >= 0 && w.txs[(size_t)latest].fd != p->on_fd) {
        w.violate("C05:provenance:reply-on-previous-connection-accepted",
                  fmt("token %d accepted reply packet #%d that arrived on descriptor %d, but the query (id %u) was last transmitted on descriptor %d (tx#%d)", t.id,
                      p->serial, p->on_fd, tx.q.id, w.txs[(size_t)latest].fd, latest));
      }
      if (p->src_server != tx.server) w.violate("C05:provenance:wrong-source-accepted", fmt("token %d accepted packet #%d from a foreign source address", t.id, p->serial));
      w.W("c05_authentic_delivery");
    }
  }
}

// ---------------------------------------------------------------------------
// C06: bounded retries, timeout window
// ---------------------------------------------------------------------------
void oracle_c06_retry(World &w, const History &h)
{
  int nsrv = w.cfg->nservers;
  for (auto &e : h)
    if (e.k == EV_SETSERVERS && e.a == 4) nsrv = w.cfg->nservers + 1;
  long bound = (long)nsrv * w.cfg->tries + 1 + 1 + 3;
  std::map<unsigned, std::vector<int>> byq;
  for (auto &t : w.txs)
    if (t.q.ok) byq[t.q.id].push_back(t.id);
  for (auto &kv : byq) {
    if ((long)kv.second.size() > bound)
      w.violate("C06:retry:too-many-transmissions", fmt("query id %u was transmitted %zu times; bound is servers(%d) x tries(%d) + 5 = %ld", kv.first, kv.second.size(), nsrv, w.cfg->tries, bound));
    if (kv.second.size() > 1) w.W("c06_retransmission");
    if ((long)kv.second.size() == bound - 5) w.W("c06_budget_exhausted");
  }
  bool advanced = false;
  for (auto &e : h)
    if (e.k == EV_ADVANCE) advanced = true;
  // accepted samples per server (a learned timeout needs three)
  int samples[8] = { 0 };
  for (auto &p : w.packets)
    if (p.t_accept >= 0 && p.src_server >= 0 && p.src_server < 8) samples[p.src_server]++;
  bool learned = false;
  for (int i = 0; i < 8; i++)
    if (samples[i] >= 3) learned = true;
  int64_t cap_ms   = w.cfg->maxtimeout_ms > 0 ? w.cfg->maxtimeout_ms : 5000;
  int64_t lower_ms = std::min<int64_t>(learned ? std::min(250, w.cfg->timeout_ms) : w.cfg->timeout_ms, cap_ms);
  for (auto &kv : byq) {
    for (size_t i = 1; i < kv.second.size(); i++) {
      const Transmission &t2 = w.txs[(size_t)kv.second[i]], &t1 = w.txs[(size_t)kv.second[i - 1]];
      if (!t2.in_timer) continue; // resent for another reason (reply, connection error)
      int64_t gap_ms = (t2.t_us - t1.t_us) / 1000;
      if (gap_ms < lower_ms)
        w.violate("C06:timeout:shorter-than-base", fmt("query id %u was re-sent after only %lld ms; configured base timeout %d ms, cap %lld ms", kv.first, (long long)gap_ms, w.cfg->timeout_ms, (long long)cap_ms));
      if (w.cfg->maxtimeout_ms > 0 && !advanced && gap_ms > w.cfg->maxtimeout_ms)
        w.violate("C06:timeout:longer-than-maximum", fmt("query id %u waited %lld ms for a retry; configured maximum is %d ms", kv.first, (long long)gap_ms, w.cfg->maxtimeout_ms));
      w.W("c06_gap_checked");
    }
  }
}

// ---------------------------------------------------------------------------
// C08: reference cache (only-if direction)
// ---------------------------------------------------------------------------
static void c08_check_token(World &w, const Token &t)
{
  if (t.count == 0 || t.req < 0) return;
  const ReqSpec &r = (*w.reqs)[(size_t)t.req];
  if (r.kind > 7 || r.kind == 6 || r.kind == 7) {
    // addrinfo / hostent consumers are checked for TTLs only (below) when they hit
  }
  bool zero_tx = t.tx_at_done == t.tx_at_issue;
  int  m       = !t.markers.empty() ? t.markers[0] : t.neg_marker;
  const Packet *p = pkt(w, m);
  if (!p) return; // nothing delivered that a packet carries (error status, hosts file, literal)
  int64_t age_s = 0;
  if (zero_tx) {
    w.W("c08_cache_hit");
    if (w.cfg->qcache_max_ttl == 0) {
      w.violate("C08:cache:served-although-disabled", fmt("token %d was answered without traffic although the cache maximum is 0", t.id));
      return;
    }
    if (p->forged || p->t_read < 0 || p->t_read > t.t_done) {
      w.violate("C08:cache:entry-without-accepted-response", fmt("token %d served from packet #%d that was never accepted before", t.id, p->serial));
      return;
    }
    // key: opcode (always QUERY) | RD | CD | type | class | lower-case name
    std::vector<std::string> cands;
    cands.push_back(norm_name(r.name));
    for (auto &d : w.cfg->domains) cands.push_back(norm_name(r.name + "." + d));
    bool name_ok = std::find(cands.begin(), cands.end(), p->qname_lc) != cands.end();
    int  want_type = r.qtype;
    bool type_ok = (r.kind == 6 || r.kind == 7) ? (p->qtype == vdns::T_A || p->qtype == vdns::T_AAAA) : (p->qtype == want_type);
    if (r.kind == 8 || r.kind == 9) {
      type_ok = p->qtype == vdns::T_PTR;
      name_ok = true; // reverse name derived from the address
    }
    if (!name_ok || !type_ok || (r.kind <= 5 && p->qclass != r.qclass))
      w.violate("C08:cache:key-mismatch", fmt("token %d (name %s type %d class %d) was served from the cached answer to %s type %d class %d", t.id, r.name.c_str(), r.qtype, r.qclass, p->qname_lc.c_str(), p->qtype, p->qclass));
    if (r.kind == 0 && (p->rd != r.rd || p->cd != r.cd))
      w.violate("C08:cache:flags-mismatch", fmt("token %d (rd=%d cd=%d) was served from an answer cached for rd=%d cd=%d", t.id, (int)r.rd, (int)r.cd, (int)p->rd, (int)p->cd));
    if (p->tc) w.violate("C08:cache:truncated-response-replayed", fmt("token %d was served from truncated packet #%d", t.id, p->serial));
    if (p->rcode != vdns::RC_NOERROR && p->rcode != vdns::RC_NXDOMAIN) w.violate("C08:cache:error-rcode-replayed", fmt("token %d was served from packet #%d with rcode %d", t.id, p->serial, p->rcode));
    age_s            = t.t_done / 1000000 - p->t_read / 1000000;
    int64_t lifetime = std::min<int64_t>(w.cfg->qcache_max_ttl, p->ttl);
    if (age_s > lifetime)
      w.violate("C08:cache:stale-entry-served", fmt("token %d was served from packet #%d cached %lld s ago; its lifetime is min(max_ttl %d, ttl %u) = %lld s", t.id, p->serial, (long long)age_s, w.cfg->qcache_max_ttl, p->ttl, (long long)lifetime));
    for (int fe : w.flush_evs)
      if (p->ev_read >= 0 && p->ev_read < fe && t.ev_issue > fe)
        w.violate("C08:cache:served-after-flush", fmt("token %d was served from packet #%d accepted before a reinit / server-list change (event %d)", t.id, p->serial, fe));
  }
  // TTLs visible through the API = original - seconds spent cached (age 0 on a fresh answer)
  if (!t.ttls.empty() && !p->forged) {
    std::vector<uint32_t> want;
    // what this reply kind carried (see World::build_reply)
    switch (p->kind) {
      case RK_DATA: case RK_CK_NONE: case RK_CK_VALID: case RK_CK_VALID2: want = { 100 }; break;
      case RK_DATA_TTL5: want = { 5 }; break;
      case RK_DATA_TTL0: want = { 0 }; break;
      case RK_DATA_MULTI: want = { 100, 50, 7 }; break;
      case RK_NODATA: case RK_NXDOMAIN: want = { 60 }; break;
      default: return;
    }
    if (r.kind == 6 || r.kind == 7) return; // addrinfo merges two answers; checked by C13's family
    if (want.size() != t.ttls.size()) return;
    for (size_t i = 0; i < want.size(); i++) {
      uint32_t exp = want[i] > (uint32_t)age_s ? want[i] - (uint32_t)age_s : 0;
      if (t.ttls[i] != exp) {
        w.violate(zero_tx ? "C08:cache:ttl-not-reduced-by-time-cached" : "C08:ttl:fresh-answer-ttl-altered",
                  fmt("token %d (entry point kind %d): record %zu shows TTL %u, expected %u (original %u, %lld s in cache)", t.id, r.kind, i, t.ttls[i], exp, want[i], (long long)age_s));
        break;
      }
    }
    if (zero_tx && age_s > 0) w.W("c08_aged_hit_ttl_checked");
  }
}
void oracle_c08_cache_step(World &, const History &, size_t) {}
void oracle_c08_cache_end(World &w, const History &)
{
  for (auto &t : w.toks) c08_check_token(w, t);
}

void oracle_c09_failover(World &, const History &) {}
void oracle_c12_search(World &, const History &) {}
void oracle_c13_addrs(World &, const History &) {}
void oracle_c17_cookie(World &, const History &) {}
void oracle_c03_wire(World &, const History &) {}

} // namespace exa
