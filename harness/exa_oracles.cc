// Reference-model oracles of EX-A families.
#include "exa_families.h"
namespace exa {
void oracle_c05_provenance(World &, const History &) {}
void oracle_c06_retry(World &, const History &) {}
void oracle_c08_cache_step(World &, const History &, size_t) {}
void oracle_c08_cache_end(World &, const History &) {}
void oracle_c09_failover(World &, const History &) {}
void oracle_c12_search(World &, const History &) {}
void oracle_c13_addrs(World &, const History &) {}
void oracle_c17_cookie(World &, const History &) {}
void oracle_c03_wire(World &, const History &) {}
}
