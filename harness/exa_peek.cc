#include "exa_peek.h"
#include <map>
#include <vector>
#include <cstdio>
#include <cstring>
extern "C" {
#include "ares_private.h"
size_t verif_qcache_dump(const ares_channel_t *channel, long long now_sec, char *buf, size_t buflen);
size_t verif_qcache_count(const ares_channel_t *channel);
}

namespace exa {

static int64_t rel(const ares_timeval_t &t, int64_t now_us)
{
  if (t.sec == 0 && t.usec == 0) return -1; // unset
  return (int64_t)t.sec * 1000000 + (int64_t)t.usec - now_us;
}

int peek_conns(const ares_channel_t *ch, PeekConn *out, int max)
{
  int n = 0;
  if (!ch || !ch->servers) return 0;
  for (ares_slist_node_t *sn = ares_slist_node_first(ch->servers); sn; sn = ares_slist_node_next(sn)) {
    ares_server_t *srv = (ares_server_t *)ares_slist_node_val(sn);
    for (ares_llist_node_t *cn = ares_llist_node_first(srv->connections); cn; cn = ares_llist_node_next(cn)) {
      ares_conn_t *c = (ares_conn_t *)ares_llist_node_val(cn);
      if (n >= max) return n;
      out[n].fd            = (int)c->fd;
      out[n].tcp           = (c->flags & ARES_CONN_FLAG_TCP) ? 1 : 0;
      out[n].nqueries      = (int)ares_llist_len(c->queries_to_conn);
      out[n].out_len       = (int)ares_buf_len(c->out_buf);
      out[n].in_len        = (int)ares_buf_len(c->in_buf);
      out[n].tfo_initial   = (c->flags & ARES_CONN_FLAG_TFO_INITIAL) ? 1 : 0;
      out[n].flags         = (int)c->flags;
      out[n].state_flags   = (int)c->state_flags;
      out[n].total_queries = (int)c->total_queries;
      out[n].server_idx    = (int)srv->idx;
      n++;
    }
  }
  return n;
}

int peek_deadlines(const ares_channel_t *ch, int64_t now_us, int64_t *first, int64_t *min)
{
  int n  = 0;
  *first = 0;
  *min   = 0;
  if (!ch) return 0;
  ares_slist_node_t *h = ares_slist_node_first(ch->queries_by_timeout);
  if (h) {
    ares_query_t *q = (ares_query_t *)ares_slist_node_val(h);
    int64_t       d = rel(q->timeout, now_us);
    *first          = d < 0 ? 0 : d;
  }
  bool have = false;
  for (ares_llist_node_t *qn = ares_llist_node_first(ch->all_queries); qn; qn = ares_llist_node_next(qn)) {
    ares_query_t *q = (ares_query_t *)ares_llist_node_val(qn);
    if (q->conn == NULL || q->node_queries_by_timeout == NULL) continue; // not in flight (no deadline yet)
    int64_t d = (int64_t)q->timeout.sec * 1000000 + (int64_t)q->timeout.usec - now_us;
    if (d < 0) d = 0;
    if (!have || d < *min) *min = d;
    have = true;
    n++;
  }
  return n;
}

int peek_server_failures(const ares_channel_t *ch, int *fails, int max)
{
  int n = 0;
  if (!ch || !ch->servers) return 0;
  for (ares_slist_node_t *sn = ares_slist_node_first(ch->servers); sn && n < max; sn = ares_slist_node_next(sn)) {
    ares_server_t *srv = (ares_server_t *)ares_slist_node_val(sn);
    fails[n++]         = (int)(srv->idx * 1000 + srv->consec_failures);
  }
  return n;
}

int peek_qids(const ares_channel_t *ch, unsigned *ids, int max)
{
  int n = 0;
  if (!ch) return 0;
  for (ares_llist_node_t *qn = ares_llist_node_first(ch->all_queries); qn && n < max; qn = ares_llist_node_next(qn))
    ids[n++] = ((ares_query_t *)ares_llist_node_val(qn))->qid;
  return n;
}

int peek_qcache_count(const ares_channel_t *ch) { return (int)verif_qcache_count(ch); }

static void app(std::string &s, const char *f, ...) __attribute__((format(printf, 2, 3)));
static void app(std::string &s, const char *f, ...)
{
  char    b[2048];
  va_list ap;
  va_start(ap, f);
  vsnprintf(b, sizeof b, f, ap);
  va_end(ap);
  s += b;
}

std::string peek_state(const ares_channel_t *ch, int64_t now_us, const std::map<int, int> &fdmap)
{
  auto fdo = [&](int fd) { auto it = fdmap.find(fd); return it == fdmap.end() ? -fd : it->second; };
  std::string s;
  if (!ch) return "nochannel";
  // canonical ordinals for query ids (nonces): order of all_queries
  std::map<unsigned, int> qord;
  for (ares_llist_node_t *qn = ares_llist_node_first(ch->all_queries); qn; qn = ares_llist_node_next(qn)) {
    ares_query_t *q = (ares_query_t *)ares_llist_node_val(qn);
    int           o = (int)qord.size();
    qord[q->qid]    = o;
  }
  app(s, "CH fl=%x to=%zu tr=%zu nd=%zu mt=%zu rot=%d umq=%zu npw=%d reinit=%d nsrv=%zu dom=", ch->flags, ch->timeout, ch->tries, ch->ndots,
      ch->maxtimeout, (int)ch->rotate, ch->udp_max_queries, (int)ch->notify_pending_write, (int)ch->reinit_pending,
      ch->servers ? ares_slist_len(ch->servers) : 0);
  for (size_t i = 0; i < ch->ndomains; i++) app(s, "%s,", ch->domains[i]);
  app(s, " lookups=%s\n", ch->lookups ? ch->lookups : "-");
  long long now_sec = now_us / 1000000;
  if (ch->servers) {
    for (ares_slist_node_t *sn = ares_slist_node_first(ch->servers); sn; sn = ares_slist_node_next(sn)) {
      ares_server_t *srv = (ares_server_t *)ares_slist_node_val(sn);
      char           ab[64] = "";
      ares_inet_ntop(srv->addr.family, &srv->addr.addr, ab, sizeof ab);
      app(s, "SRV idx=%zu %s:%u/%u fail=%zu probe=%d retry=%lld", srv->idx, ab, srv->udp_port, srv->tcp_port, srv->consec_failures,
          (int)srv->probe_pending, (long long)rel(srv->next_retry_time, now_us));
      // cookie state: client cookie is a nonce (only equality with packets in flight matters, and those are
      // canonicalised by the harness through has-cookie/echo flags), so dump presence, server cookie bytes, timers
      app(s, " ck=%d cts=%lld cip=%d/%02x%02x%02x%02x srv=%zu:", (int)srv->cookie.state, (long long)rel(srv->cookie.client_ts, now_us),
          srv->cookie.client_ip.family, ((unsigned char *)&srv->cookie.client_ip.addr)[0], ((unsigned char *)&srv->cookie.client_ip.addr)[1],
          ((unsigned char *)&srv->cookie.client_ip.addr)[2], ((unsigned char *)&srv->cookie.client_ip.addr)[3], srv->cookie.server_len);
      for (size_t i = 0; i < srv->cookie.server_len && i < 32; i++) app(s, "%02x", srv->cookie.server[i]);
      app(s, " uts=%lld", (long long)rel(srv->cookie.unsupported_ts, now_us));
      // metrics are bucketed by absolute time: keep absolute bucket stamps relative to the current bucket
      for (int b = 0; b < ARES_METRIC_COUNT; b++) {
        const ares_server_metrics_t *m = &srv->metrics[b];
        if (m->total_count == 0 && m->prev_total_count == 0) continue;
        app(s, " M%d(ts=%lld,%u,%u,%llu,%llu|pts=%lld,%llu,%llu)", b, (long long)m->ts, m->latency_min_ms, m->latency_max_ms,
            (unsigned long long)m->total_ms, (unsigned long long)m->total_count, (long long)m->prev_ts, (unsigned long long)m->prev_total_ms,
            (unsigned long long)m->prev_total_count);
      }
      app(s, "\n");
      for (ares_llist_node_t *cn = ares_llist_node_first(srv->connections); cn; cn = ares_llist_node_next(cn)) {
        ares_conn_t *c = (ares_conn_t *)ares_llist_node_val(cn);
        app(s, " CONN fd=%d fl=%x st=%x tq=%zu out=%zu in=%zu self=%d q=", fdo((int)c->fd), (unsigned)c->flags, (unsigned)c->state_flags, c->total_queries,
            ares_buf_len(c->out_buf), ares_buf_len(c->in_buf), c->self_ip.family);
        for (ares_llist_node_t *qn = ares_llist_node_first(c->queries_to_conn); qn; qn = ares_llist_node_next(qn)) {
          ares_query_t *q = (ares_query_t *)ares_llist_node_val(qn);
          app(s, "%d,", qord.count(q->qid) ? qord[q->qid] : -1);
        }
        app(s, "%s\n", srv->tcp_conn == c ? " (tcp_conn)" : "");
      }
    }
  }
  for (ares_llist_node_t *qn = ares_llist_node_first(ch->all_queries); qn; qn = ares_llist_node_next(qn)) {
    ares_query_t       *q = (ares_query_t *)ares_llist_node_val(qn);
    const char         *name = "-";
    ares_dns_rec_type_t qt = (ares_dns_rec_type_t)0;
    ares_dns_class_t    qc = (ares_dns_class_t)0;
    if (ares_dns_record_query_cnt(q->query) > 0) ares_dns_record_query_get(q->query, 0, &name, &qt, &qc);
    app(s, "Q#%d %s/%d/%d try=%zu ck=%zu tcp=%d err=%d to=%zu nr=%d fd=%d dl=%lld ts=%lld opt=%d fl=%x\n", qord[q->qid], name, (int)qt, (int)qc, q->try_count,
        q->cookie_try_count, (int)q->using_tcp, (int)q->error_status, q->timeouts, (int)q->no_retries, q->conn ? fdo((int)q->conn->fd) : -1,
        q->node_queries_by_timeout ? (long long)rel(q->timeout, now_us) : -1LL, q->conn ? (long long)rel(q->ts, now_us) : -1LL,
        ares_dns_get_opt_rr_const(q->query) ? 1 : 0, (unsigned)ares_dns_record_get_flags(q->query));
  }
  // timeout index order
  app(s, "TO:");
  for (ares_slist_node_t *n = ares_slist_node_first(ch->queries_by_timeout); n; n = ares_slist_node_next(n)) {
    ares_query_t *q = (ares_query_t *)ares_slist_node_val(n);
    app(s, "%d,", qord.count(q->qid) ? qord[q->qid] : -1);
  }
  char qc[8192];
  verif_qcache_dump(ch, now_sec, qc, sizeof qc);
  app(s, "\nQC:%s\n", qc);
  return s;
}

} // namespace exa
