// Read-only access to c-ares private state for (a) the state key of EX-A and
// (b) the two oracles that need to know what the channel itself holds
// (C07 earliest deadline, C10 interest sets). Implemented in exa_peek.cc which
// is the ONLY harness file that includes c-ares private headers; a renamed
// field makes the harness fail to compile (internal error), never a verdict.
#pragma once
#include <cstdint>
#include <string>
#include <map>
extern "C" {
#include "ares.h"
}
namespace exa {
struct PeekConn {
  int fd, tcp, nqueries, out_len, in_len, tfo_initial, flags, state_flags, total_queries, server_idx;
};
int peek_conns(const ares_channel_t *ch, PeekConn *out, int max);
// number of queries that have a deadline; *first = deadline of the head of the
// timeout index, *min = minimum over ALL queries (both relative to now, clamped at 0)
int peek_deadlines(const ares_channel_t *ch, int64_t now_us, int64_t *first, int64_t *min);
// canonical dump of everything in the channel that can influence future behaviour
std::string peek_state(const ares_channel_t *ch, int64_t now_us, const std::map<int, int> &fdmap);
int         peek_server_failures(const ares_channel_t *ch, int *fails, int max); // in list (priority) order: idx*1000+failures
int         peek_qids(const ares_channel_t *ch, unsigned *ids, int max); // live query ids in all_queries order
int         peek_qcache_count(const ares_channel_t *ch);
}
