/* Compiles c-ares' ares_qcache.c into this translation unit so that the private
 * struct ares_qcache can be dumped for the state key. Because this TU defines
 * every symbol of ares_qcache.c the archive member is never linked: there is
 * still exactly one copy of the code, built from the repository. */
#include "ares_qcache.c"
#include <stdio.h>

size_t verif_qcache_dump(const ares_channel_t *channel, long long now_sec, char *buf, size_t buflen)
{
  size_t             n = 0;
  ares_slist_node_t *node;
  if (buflen) buf[0] = 0;
  if (channel == NULL || channel->qcache == NULL) return 0;
  n += (size_t)snprintf(buf + n, buflen > n ? buflen - n : 0, "maxttl=%u;", channel->qcache->max_ttl);
  for (node = ares_slist_node_first(channel->qcache->expire); node != NULL; node = ares_slist_node_next(node)) {
    const ares_qcache_entry_t *e = ares_slist_node_val(node);
    size_t an = ares_dns_record_rr_cnt(e->dnsrec, ARES_SECTION_ANSWER);
    n += (size_t)snprintf(buf + n, buflen > n ? buflen - n : 0, "[%s exp=%lld age=%lld rcode=%d an=%zu]", e->key,
                          (long long)e->expire_ts - now_sec, now_sec - (long long)e->insert_ts,
                          (int)ares_dns_record_get_rcode(e->dnsrec), an);
    if (n >= buflen) break;
  }
  return n;
}

size_t verif_qcache_count(const ares_channel_t *channel)
{
  if (channel == NULL || channel->qcache == NULL) return 0;
  return ares_slist_len(channel->qcache->expire);
}
