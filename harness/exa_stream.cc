// C20: outcome independent of how the transport chops bytes. Enumerates every
// split of the inbound reply stream into 2 and 3 reads (+ the one-byte plan)
// and every "accept k bytes, would-block, rest" pattern of the outbound stream
// (+ the one-byte plan), with and without the deferred-write notification, for
// 1..3 queries queued on one TCP connection (USEVC and UDP->TC->TCP upgrade),
// and compares each run with the unsegmented run of the same scenario.
#include "exa_world.h"
#include <stdarg.h>
#include "exa_families.h"

namespace exa {

struct StreamScenario {
  int  nq = 2;
  bool tc_upgrade = false; // start over UDP, server answers TC, library upgrades to TCP
  bool pending_write_cb = false;
  bool connect_inprogress = false;
  int  umq = 0; // ARES_OPT_UDP_MAX_QUERIES (a limit for UDP sockets; the TCP connection must be unaffected by it)
  bool staggered = false; // first query alone until its frame reached the server, then the others (exercises the deferred-write notification)
};
struct StreamPlan {
  std::vector<size_t> read_segs;  // lengths of the successive segments of the reply stream (rest delivered whole)
  std::vector<int>    write_plan; // see World::write_plan
  bool                one_byte_reads = false;
  bool                close_after = false; // the server closes the connection right behind the last byte of its reply stream
};
struct StreamOutcome {
  std::string              tokens;  // per token status + results
  std::string              server;  // hex of everything the server received over TCP
  std::vector<std::string> frames;  // decoded frames in order
  std::vector<Viol>        viols;
  std::vector<std::string> log;
  size_t                   reply_len = 0, request_len = 0;
  std::map<std::string, uint64_t> wit;
  int                      io_rounds = 0;
};

static std::string fmt0(const char *f, ...)
{
  char    b[512];
  va_list ap;
  va_start(ap, f);
  vsnprintf(b, sizeof b, f, ap);
  va_end(ap);
  return b;
}
static Cfg stream_cfg(const StreamScenario &sc)
{
  Cfg c;
  c.name             = "stream";
  c.nservers         = 1;
  c.tries            = 2;
  c.flags            = sc.tc_upgrade ? 0u : (unsigned)ARES_FLAG_USEVC;
  c.pending_write_cb = sc.pending_write_cb;
  c.connect_mode     = sc.connect_inprogress ? 1 : 0;
  c.udp_max_queries  = sc.umq;
  c.domains          = {};
  return c;
}

static StreamOutcome run_stream(const StreamScenario &sc, const StreamPlan &pl, bool want_log)
{
  StreamOutcome        out;
  Cfg                  c = stream_cfg(sc);
  std::vector<ReqSpec> reqs;
  for (int i = 0; i < sc.nq; i++) {
    ReqSpec r;
    r.kind  = 2;
    r.name  = std::string("q") + std::to_string(i) + ".stream.example.com";
    r.qtype = i == 1 ? 28 : 1;
    reqs.push_back(r);
  }
  World w(&c, &reqs);
  if (!w.init()) {
    out.viols.push_back({ "HARNESS:init", "init failed" });
    w.teardown();
    return out;
  }
  w.write_plan = pl.write_plan;
  int issued = 0;
  for (int i = 0; i < (sc.staggered ? 1 : sc.nq); i++, issued++) w.issue(i, false);
  vdns::Bytes X;          // reply stream the server wants to send
  size_t      xpos = 0;   // delivered so far
  size_t      seg  = 0;
  bool        replied = false;
  std::set<int> tc_answered;
  int           tcp_fd = -1;
  for (int round = 0; round < 5000 && w.ch; round++) {
    if (w.pending_write_notified) {
      w.pending_write_notified = false;
      w.in_lib                 = true;
      ares_process_pending_write(w.ch);
      w.in_lib = false;
      continue;
    }
    bool acted = false;
    for (auto &s : w.socks)
      if (s->open && s->connect_pending) {
        s->connect_pending = false;
        s->connected       = true;
        acted              = true;
      }
    // UDP phase of the upgrade scenario: every UDP transmission is answered with a truncated reply
    if (sc.tc_upgrade)
      for (auto &t : w.txs)
        if (!t.tcp && !tc_answered.count(t.id) && w.sock_of(t) && w.sock_of(t)->open) {
          tc_answered.insert(t.id);
          w.inject(t.id, RK_TC, false, 0);
          acted = true;
        }
    // server side of the TCP connection: answer once all frames have arrived, in order
    int ntcp = 0;
    for (auto &t : w.txs)
      if (t.tcp) {
        ntcp++;
        tcp_fd = t.fd;
      }
    if (issued < sc.nq && ntcp >= 1) {
      for (; issued < sc.nq; issued++) w.issue(issued, false);
      acted = true;
      continue;
    }
    if (!replied && ntcp >= sc.nq) {
      replied = true;
      for (auto &t : w.txs) {
        if (!t.tcp) continue;
        Packet pk;
        pk.serial     = (int)w.packets.size() + 1;
        pk.for_tx     = t.id;
        pk.kind       = RK_DATA;
        pk.src_server = t.server;
        pk.on_fd      = t.fd;
        pk.data       = w.build_reply(t, RK_DATA, pk);
        w.packets.push_back(pk);
        X.push_back((unsigned char)(pk.data.size() >> 8));
        X.push_back((unsigned char)(pk.data.size() & 0xff));
        X.insert(X.end(), pk.data.begin(), pk.data.end());
      }
      out.reply_len = X.size();
    }
    VSock *ts = tcp_fd >= 0 ? w.sock(tcp_fd) : nullptr;
    if (replied && ts && ts->open && xpos < X.size() && ts->inpos == ts->instream.size()) {
      size_t n = X.size() - xpos;
      if (pl.one_byte_reads) n = 1;
      else if (seg < pl.read_segs.size()) n = std::min(n, pl.read_segs[seg++]);
      ts->instream.insert(ts->instream.end(), X.begin() + (long)xpos, X.begin() + (long)(xpos + n));
      xpos += n;
      acted = true;
      // the FIN is already pending behind the data when the library gets to read
      if (pl.close_after && xpos == X.size()) {
        ts->peer_closed = true;
        w.W("close_behind_last_reply_byte");
      }
    }
    if (!w.ready_fds(false).empty()) {
      w.do_io(false);
      out.io_rounds++;
      w.check_invariants();
      continue;
    }
    if (!acted) break;
  }
  // mark the reply packets as read for the other oracles
  w.closure();
  // the server answers every query as soon as all of them have arrived: each one completes with its answer and without
  // a single timeout (absolute, not relative to the unsegmented run, which would share a defect of the transport)
  for (auto &t : w.toks)
    if (t.count == 1 && (t.status != ARES_SUCCESS || t.timeouts > 0))
      w.violate("C20:stream:query-not-completed-by-its-answer", fmt0("token %d ended with status %d after %d timeout(s) although the server answered every query", t.id, t.status, t.timeouts));
  for (auto &t : w.toks) {
    std::string res = t.result;
    out.tokens += "tok" + std::to_string(t.id) + ":st" + std::to_string(t.status) + ":to" + std::to_string(t.timeouts) + ":" + res + ";";
  }
  for (auto &s : w.socks)
    if (s->tcp) {
      out.server += vf::hex(s->outstream) + "|";
      out.request_len += s->outstream.size();
      if (s->outparsed != s->outstream.size()) w.violate("C20:stream:partial-frame-left-at-server", "the server holds an incomplete frame at the end of the run");
    }
  for (auto &t : w.txs)
    if (t.tcp) out.frames.push_back(std::to_string(t.q.id) + "/" + (t.q.q.empty() ? "-" : vdns::name_text(t.q.q[0].labels)) + "/" + std::to_string(t.q.ok));
  w.teardown();
  out.viols = w.viols;
  out.wit   = w.wit;
  if (want_log) out.log = w.obs;
  return out;
}

static std::string plan_json(const StreamScenario &sc, const StreamPlan &pl, long index)
{
  std::string s = "{\"index\":" + std::to_string(index) + ",\"nq\":" + std::to_string(sc.nq) + ",\"tc_upgrade\":" + (sc.tc_upgrade ? "1" : "0") +
                  ",\"pending_write_cb\":" + (sc.pending_write_cb ? "1" : "0") + ",\"connect_inprogress\":" + (sc.connect_inprogress ? "1" : "0") + ",\"staggered\":" + (sc.staggered ? "1" : "0") + ",\"umq\":" + std::to_string(sc.umq) +
                  ",\"one_byte_reads\":" + (pl.one_byte_reads ? "1" : "0") + ",\"close_after\":" + (pl.close_after ? "1" : "0") + ",\"read_segs\":[";
  for (size_t i = 0; i < pl.read_segs.size(); i++) s += (i ? "," : "") + std::to_string(pl.read_segs[i]);
  s += "],\"write_plan\":[";
  for (size_t i = 0; i < pl.write_plan.size() && i < 400; i++) s += (i ? "," : "") + std::to_string(pl.write_plan[i]);
  return s + "]}";
}

static void compare(const StreamOutcome &base, const StreamOutcome &o, std::vector<Viol> &v)
{
  for (auto &x : o.viols) v.push_back(x);
  if (o.tokens != base.tokens) v.push_back({ "C20:stream:delivered-results-differ", "results delivered to the callbacks differ from the unsegmented run: " + o.tokens + " vs " + base.tokens });
  if (o.server != base.server) v.push_back({ "C20:stream:bytes-at-server-differ", "the byte stream the server received differs from the unsegmented run" });
  if (o.frames != base.frames) v.push_back({ "C20:stream:frames-differ", "frames at the server are not the same whole messages in the same order" });
  for (auto &f : o.frames)
    if (f.size() < 2 || f.substr(f.size() - 2) != "/1") v.push_back({ "C20:stream:frame-not-decodable", "a frame at the server does not decode: " + f });
}

static std::string fmt(const char *f, ...)
{
  char    b[1024];
  va_list ap;
  va_start(ap, f);
  vsnprintf(b, sizeof b, f, ap);
  va_end(ap);
  return b;
}

// UDP side of the property: TC is retried over TCP unless ignored; zero-length datagrams are harmless.
// Enumerated over tries x servers x number of attempts already lost to timeouts when the truncated answer arrives
// (0 .. tries*servers-1, so also on the last permitted attempt) x IGNTC x an empty datagram before the answer.
struct UdpCase {
  int  tries, nsrv, timeouts;
  bool igntc;
  int  zero; // 0: none, 1: a zero-length datagram precedes the answer, 2: plain answer preceded by one (no truncation)
  int  gai = 0; // 1/2: the request is a dual-family getaddrinfo; the A (1) / AAAA (2) question is answered first, the
                // other question's answer is truncated: it must still be retried over TCP and both families delivered
};
static std::vector<UdpCase> udp_case_list()
{
  std::vector<UdpCase> v;
  for (int tries = 1; tries <= 3; tries++)
    for (int nsrv = 1; nsrv <= 2; nsrv++)
      for (int to = 0; to < tries * nsrv; to++)
        for (int ig = 0; ig < 2; ig++)
          for (int z = 0; z < 2; z++) v.push_back({ tries, nsrv, to, ig != 0, z });
  v.push_back({ 2, 1, 0, false, 2 });
  v.push_back({ 1, 1, 0, false, 2 });
  for (int tries = 1; tries <= 2; tries++)
    for (int g = 1; g <= 2; g++) {
      UdpCase u = { tries, 1, 0, false, 0 };
      u.gai     = g;
      v.push_back(u);
    }
  return v;
}
static void udp_cases(vf::Report &rep, bool replay_only, int which, std::vector<std::pair<Viol, int>> &v, std::vector<std::string> *log)
{
  std::vector<UdpCase> cases = udp_case_list();
  for (int cs = 0; cs < (int)cases.size(); cs++) {
    if (replay_only && cs != which) continue; // every case builds its own world: a replay runs just the recorded one
    const UdpCase &u = cases[(size_t)cs];
    Cfg            c;
    c.name     = fmt("udp-tries%d-srv%d-after%dtimeouts%s%s", u.tries, u.nsrv, u.timeouts, u.igntc ? "-igntc" : "", u.zero ? "-zerolen" : "");
    c.nservers = u.nsrv;
    c.tries    = u.tries;
    c.flags    = u.igntc ? (unsigned)ARES_FLAG_IGNTC : 0u;
    c.domains  = {};
    c.auto_io  = true;
    std::vector<ReqSpec> reqs(1);
    reqs[0].kind = 2;
    reqs[0].name = "u.stream.example.com";
    if (u.gai) {
      reqs[0].kind   = 6;
      reqs[0].family = AF_UNSPEC;
      c.name += u.gai == 1 ? "-getaddrinfo-A-first" : "-getaddrinfo-AAAA-first";
    }
    World w(&c, &reqs);
    if (!w.init()) {
      w.teardown();
      continue;
    }
    vf::set_current_case("{\"index\":-" + std::to_string(cs + 1) + ",\"udp_case\":" + std::to_string(cs) + "}", "C20:crash");
    w.issue(0, false);
    if (u.gai) {
      auto drain2 = [&]() {
        for (int k = 0; k < 8 && w.ch && !w.ready_fds(false).empty(); k++) w.do_io(false);
      };
      int first = -1, second = -1;
      for (auto &t : w.txs) {
        if (!t.q.ok || t.q.q.empty()) continue;
        bool is_a = t.q.q[0].qtype == vdns::T_A;
        if ((u.gai == 1) == is_a) first = t.id;
        else second = t.id;
      }
      if (first < 0 || second < 0) w.violate("C20:udp:getaddrinfo-questions-missing", fmt("[%s] the dual-family lookup did not send both questions", c.name.c_str()));
      else {
        w.apply(mk(EV_REPLY, first, RK_DATA));
        drain2();
        size_t ntx = w.txs.size();
        w.apply(mk(EV_REPLY, second, RK_TC));
        drain2();
        int ttx = -1;
        for (size_t i = ntx; i < w.txs.size(); i++)
          if (w.txs[i].tcp) ttx = w.txs[i].id;
        if (ttx < 0)
          w.violate("C20:udp:truncated-answer-not-retried-over-tcp",
                    fmt("[%s] the truncated answer to the second question of a dual-family lookup was not followed by a TCP transmission%s", c.name.c_str(),
                        w.toks[0].count ? fmt("; the request ended with status %d", w.toks[0].status).c_str() : ""));
        else {
          w.apply(mk(EV_REPLY, ttx, RK_DATA));
          drain2();
          bool v4 = false, v6 = false;
          for (auto &a : w.toks[0].addrs) {
            if (a.fam == AF_INET) v4 = true;
            if (a.fam == AF_INET6) v6 = true;
          }
          if (w.toks[0].count != 1 || w.toks[0].status != ARES_SUCCESS || !v4 || !v6)
            w.violate("C20:udp:tcp-retry-not-delivered", fmt("[%s] after the TCP retry the lookup must deliver both families (count %d status %d v4 %d v6 %d)", c.name.c_str(), w.toks[0].count, w.toks[0].status, (int)v4, (int)v6));
          rep.witness("tc_retried_over_tcp_in_dual_lookup");
        }
      }
      w.closure();
      w.teardown();
      for (auto &x : w.viols) v.push_back({ x, cs });
      if (log) *log = w.obs;
      rep.executions++;
      continue;
    }
    auto drain = [&]() {
      for (int k = 0; k < 8 && w.ch && !w.ready_fds(false).empty(); k++) w.do_io(false);
    };
    for (int k = 0; k < u.timeouts && w.toks[0].count == 0; k++) w.apply(mk(EV_TIMER));
    if (w.toks[0].count) {
      w.violate("C20:udp:completed-before-budget-exhausted", fmt("[%s] the query ended after %d timeouts although tries x servers = %d", c.name.c_str(), u.timeouts, u.tries * u.nsrv));
    } else {
      int last = (int)w.txs.size() - 1;
      if (u.zero) {
        w.apply(mk(EV_REPLY, last, RK_EMPTY));
        drain();
        if (w.toks[0].count) w.violate("C20:udp:zero-length-datagram-completed-query", fmt("[%s] a zero-length datagram completed the query", c.name.c_str()));
        w.txs[(size_t)last].answered = 0;
        rep.witness("zero_length_datagram");
      }
      if (u.zero == 2) {
        w.apply(mk(EV_REPLY, last, RK_DATA));
        drain();
        if (w.toks[0].count != 1 || w.toks[0].status != ARES_SUCCESS) w.violate("C20:udp:answer-after-zero-length-datagram-lost", fmt("[%s] the real answer was not delivered", c.name.c_str()));
      } else if (w.toks[0].count == 0) {
        size_t ntx = w.txs.size();
        w.apply(mk(EV_REPLY, last, RK_TC));
        drain();
        int ttx = -1;
        for (size_t i = ntx; i < w.txs.size(); i++)
          if (w.txs[i].tcp) ttx = w.txs[i].id;
        if (!u.igntc) {
          if (ttx < 0 || w.toks[0].count)
            w.violate("C20:udp:truncated-answer-not-retried-over-tcp",
                      fmt("[%s] a truncated UDP answer (to attempt %d of %d) was not followed by a TCP transmission of the query%s", c.name.c_str(), u.timeouts + 1, u.tries * u.nsrv,
                          w.toks[0].count ? fmt("; the request ended with status %d", w.toks[0].status).c_str() : ""));
          else {
            if (w.txs[(size_t)ttx].server != w.txs[(size_t)last].server)
              w.violate("C20:udp:tcp-retry-to-another-server", fmt("[%s] the TCP retry went to server %d, the truncated answer came from server %d", c.name.c_str(), w.txs[(size_t)ttx].server, w.txs[(size_t)last].server));
            w.apply(mk(EV_REPLY, ttx, RK_DATA));
            drain();
            if (w.toks[0].count != 1 || w.toks[0].status != ARES_SUCCESS) w.violate("C20:udp:tcp-retry-not-delivered", fmt("[%s] the answer to the TCP retry was not delivered", c.name.c_str()));
            rep.witness("tc_retried_over_tcp");
            if (u.timeouts + 1 == u.tries * u.nsrv) rep.witness("tc_on_last_attempt_retried");
          }
        } else {
          if (ttx >= 0 || w.toks[0].count != 1) w.violate("C20:udp:igntc-not-honoured", fmt("[%s] with truncation ignored the truncated answer must be delivered and no TCP transmission made", c.name.c_str()));
          rep.witness("igntc_delivered");
        }
      }
    }
    w.closure();
    w.teardown();
    for (auto &x : w.viols) v.push_back({ x, cs });
    if (log) *log = w.obs;
    rep.executions++;
  }
}

int stream_main(const vf::Args &a)
{
  vf::Report rep;
  rep.engine = "exa";
  rep.family = "stream";
  rep.tier   = a.tier;
  bool   quick = a.tier == "quick";
  double t_end = vf::now_s() + a.deadline - 3;
  // ---- replay
  if (!a.replay.empty()) {
    FILE *f = fopen(a.replay.c_str(), "r");
    if (!f) return 3;
    std::string s;
    char        buf[4096];
    size_t      n;
    while ((n = fread(buf, 1, sizeof buf, f)) > 0) s.append(buf, n);
    fclose(f);
    auto geti = [&](const char *k) {
      size_t p = s.find(std::string("\"") + k + "\":");
      return p == std::string::npos ? 0L : atol(s.c_str() + p + strlen(k) + 3);
    };
    auto getv = [&](const char *k) {
      std::vector<long> v;
      size_t            p = s.find(std::string("\"") + k + "\":[");
      if (p == std::string::npos) return v;
      p += strlen(k) + 4;
      while (p < s.size() && s[p] != ']') {
        v.push_back(atol(s.c_str() + p));
        while (p < s.size() && s[p] != ',' && s[p] != ']') p++;
        if (s[p] == ',') p++;
      }
      return v;
    };
    std::vector<Viol> v;
    if (s.find("\"udp_case\"") != std::string::npos) {
      std::vector<std::string>          log;
      std::vector<std::pair<Viol, int>> uv;
      udp_cases(rep, true, (int)geti("udp_case"), uv, &log);
      for (auto &x : uv) v.push_back(x.first);
      for (auto &l : log) printf("  %s\n", l.c_str());
    } else {
      StreamScenario sc;
      sc.nq                 = (int)geti("nq");
      sc.tc_upgrade         = geti("tc_upgrade");
      sc.pending_write_cb   = geti("pending_write_cb");
      sc.connect_inprogress = geti("connect_inprogress");
      sc.staggered          = geti("staggered");
      sc.umq                = (int)geti("umq");
      StreamPlan pl;
      pl.one_byte_reads = geti("one_byte_reads");
      pl.close_after    = geti("close_after");
      for (long x : getv("read_segs")) pl.read_segs.push_back((size_t)x);
      for (long x : getv("write_plan")) pl.write_plan.push_back((int)x);
      StreamOutcome base = run_stream(sc, StreamPlan(), false);
      StreamOutcome o    = run_stream(sc, pl, true);
      for (auto &l : o.log) printf("  %s\n", l.c_str());
      compare(base, o, v);
    }
    for (auto &x : v) printf("VIOLATED %s: %s\n", x.key.c_str(), x.desc.c_str());
    if (v.empty()) printf("property held on this plan\n");
    return v.empty() ? 0 : 1;
  }
  vf::install_crash_handler(a.out + ".crash");
  vf::enable_partial_report(&rep, a.out);
  long index = 0;
  std::set<std::string> outcomes;
  std::vector<StreamScenario> scs;
  for (int nq = 1; nq <= (quick ? 2 : 3); nq++)
    for (int tc = 0; tc < 2; tc++)
      for (int pw = 0; pw < 2; pw++)
        for (int cp = 0; cp < 2; cp++)
          for (int sg = 0; sg < 2; sg++) {
            if (quick && cp && (tc || pw)) continue;
            if (sg && nq < 2) continue;
            StreamScenario sc;
            sc.nq                 = nq;
            sc.tc_upgrade         = tc;
            sc.pending_write_cb   = pw;
            sc.connect_inprogress = cp;
            sc.staggered          = sg;
            scs.push_back(sc);
            if (!tc && !cp) {
              // the same with a per-socket query limit for UDP configured: it must not touch the TCP connection
              sc.umq = 1;
              scs.push_back(sc);
            }
          }
  if (a.shard == 0) {
    std::vector<std::pair<Viol, int>> v;
    udp_cases(rep, false, 0, v, nullptr);
    for (auto &x : v) rep.violation(x.first.key, x.first.desc, "{\"index\":-" + std::to_string(x.second + 1) + ",\"udp_case\":" + std::to_string(x.second) + "}");
  }
  for (auto &sc : scs) {
    StreamOutcome base = run_stream(sc, StreamPlan(), false);
    rep.executions++;
    if (!base.viols.empty() || base.reply_len == 0) {
      for (auto &x : base.viols) rep.violation(x.key, "[baseline] " + x.desc, plan_json(sc, StreamPlan(), -100));
      if (base.reply_len == 0 && base.viols.empty())
        rep.violation("C20:stream:queries-never-all-reached-the-server", "[baseline] the server never received all " + std::to_string(sc.nq) + " queued queries over TCP", plan_json(sc, StreamPlan(), -100));
      continue;
    }
    size_t RL = base.reply_len, QL = base.request_len;
    // enumerate plans
    std::vector<StreamPlan> plans;
    for (size_t i = 1; i < RL; i++) {
      StreamPlan p;
      p.read_segs = { i };
      plans.push_back(p);
    }
    size_t step3 = quick ? 2 : 1; // quick: every second position for the 3-way splits
      for (size_t i = 1; i < RL; i += step3)
        for (size_t j = i + 1; j < RL; j += step3) {
          StreamPlan p;
          p.read_segs = { i, j - i };
          plans.push_back(p);
        }
    {
      StreamPlan p;
      p.one_byte_reads = true;
      plans.push_back(p);
    }
    {
      // the same inbound plans once more with the server closing the connection right behind its last byte: whole
      // reply in one read, every 2-way split, one byte per read
      StreamPlan p;
      p.close_after = true;
      plans.push_back(p);
      for (size_t i = 1; i < RL; i++) {
        StreamPlan q;
        q.read_segs   = { i };
        q.close_after = true;
        plans.push_back(q);
      }
      StreamPlan r;
      r.one_byte_reads = true;
      r.close_after    = true;
      plans.push_back(r);
    }
    for (size_t k = 1; k < QL; k++) {
      StreamPlan p;
      p.write_plan = { (int)k, 0 };
      plans.push_back(p);
      StreamPlan p2;
      p2.write_plan = { (int)k }; // short write, next one accepted
      plans.push_back(p2);
    }
    {
      StreamPlan p; // one byte per send
      p.write_plan.assign(QL + 8, 1);
      plans.push_back(p);
      StreamPlan p2 = p; // both directions one byte at a time
      p2.one_byte_reads = true;
      plans.push_back(p2);
      StreamPlan p3; // would-block first, then everything
      p3.write_plan = { 0 };
      plans.push_back(p3);
      // the same with EINPROGRESS instead of would-block (a send while the handshake is still in flight), also after a
      // few accepted bytes
      for (int k : { 0, 1, 5, 17 }) {
        StreamPlan p5;
        if (k) p5.write_plan.push_back(k);
        p5.write_plan.push_back(-2);
        plans.push_back(p5);
      }
      StreamPlan p4; // one byte, would-block, one byte, would-block ...
      for (size_t k = 0; k < QL + 4; k++) {
        p4.write_plan.push_back(1);
        p4.write_plan.push_back(0);
      }
      plans.push_back(p4);
    }
    for (auto &pl : plans) {
      long my = index++;
      if (my % a.nshards != a.shard || my < a.resume) continue;
      if (vf::now_s() > t_end) {
        rep.exhaustive = false;
        break;
      }
      std::string pj = plan_json(sc, pl, my);
      vf::set_current_case(pj, "C20:crash");
      vf::watchdog(30);
      StreamOutcome o = run_stream(sc, pl, false);
      vf::watchdog(0);
      rep.executions++;
      rep.states++;
      rep.transitions += (uint64_t)o.io_rounds;
      for (auto &kv : o.wit) rep.witnesses[kv.first] += kv.second;
      rep.outcome(std::to_string(o.io_rounds) + "/" + std::to_string(o.tokens.size()));
      if ((my % 997) == 0) rep.sample(pj);
      std::vector<Viol> v;
      compare(base, o, v);
      for (auto &x : v) rep.violation(x.key, x.desc + " | plan " + pj, pj);
    }
    rep.count("scenarios");
  }
  rep.bound = std::string("scenarios: 1..") + (quick ? "2" : "3") + " queued queries x {USEVC, UDP->TC->TCP} x pending-write cb x in-progress connect; inbound: all 2-way splits, " +
              (quick ? "every second position of the 3-way splits" : "all 3-way splits") + ", one byte per read; outbound: accept k then would-block / short write for every k, one byte per send, alternating";
  if (a.out.empty()) return 3;
  rep.write(a.out);
  return rep.internal_errors.empty() ? 0 : 3;
}

} // namespace exa
