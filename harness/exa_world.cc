// EX-A virtual world implementation. See exa_world.h.
#include "exa_world.h"
#include "exa_peek.h"
#include <dlfcn.h>
#include <sys/stat.h>
#include <time.h>
#include <stdarg.h>
#include <set>

namespace exa {

World *g_world = nullptr;

const char *rk_names[] = { "data", "data_ttl5", "data_ttl0", "nodata", "nodata_nosoa", "nxdomain", "nxdomain_nosoa", "servfail",
                           "refused", "notimp", "formerr_noopt", "formerr_opt", "tc", "malformed", "empty", "ck_none", "ck_valid",
                           "ck_valid2", "ck_wrongclient", "badcookie", "badcookie_bare", "cname_data", "data_mixed", "data_multi", "data_soa", "notauth" };
const char *fg_names[] = { "wrongid", "wrongname", "wrongtype", "wrongclass", "caseflip", "wrongsrc", "othersock", "nocookie", "badclientcookie", "wrongsrc-framed", "nocookie-truncated" };
const char *fs_names[] = { "socket", "setsockopt", "bind", "connect", "getsockname", "send_refused", "send_wouldblock", "send_short", "recv_reset", "send_eintr", "recv_eintr", "send_enobufs", "socket_eagain", "sockcfgcb", "sockcb" };

static std::string fmt(const char *f, ...)
{
  char    b[1024];
  va_list ap;
  va_start(ap, f);
  vsnprintf(b, sizeof b, f, ap);
  va_end(ap);
  return b;
}

// --------------------------------------------------------------- JSON parse
bool hist_parse(const std::string &s, History &out)
{
  out.clear();
  size_t i = 0;
  auto   ws = [&]() {
    while (i < s.size() && (s[i] == ' ' || s[i] == '\n' || s[i] == '\t' || s[i] == '\r')) i++;
  };
  ws();
  if (i >= s.size() || s[i] != '[') return false;
  i++;
  for (;;) {
    ws();
    if (i < s.size() && s[i] == ']') return true;
    if (i < s.size() && s[i] == ',') {
      i++;
      continue;
    }
    if (i >= s.size() || s[i] != '[') return false;
    i++;
    ws();
    if (s[i] != '"') return false;
    size_t e = s.find('"', i + 1);
    if (e == std::string::npos) return false;
    std::string nm = s.substr(i + 1, e - i - 1);
    i              = e + 1;
    Ev ev;
    int kk = -1;
    for (int k = 0; k < EV_NKINDS; k++)
      if (nm == ev_names[k]) kk = k;
    if (kk < 0) return false;
    ev.k = (unsigned char)kk;
    std::vector<int> nums;
    for (;;) {
      ws();
      if (s[i] == ',') {
        i++;
        ws();
        char *endp;
        long  v = strtol(s.c_str() + i, &endp, 10);
        i       = (size_t)(endp - s.c_str());
        nums.push_back((int)v);
      } else if (s[i] == ']') {
        i++;
        break;
      } else
        return false;
    }
    if (nums.size() > 0) ev.a = nums[0];
    if (nums.size() > 1) ev.b = nums[1];
    for (size_t k = 2; k < nums.size() && ev.npol < 4; k++) ev.pol[ev.npol++] = (unsigned char)nums[k];
    out.push_back(ev);
  }
}

// ------------------------------------------------------------------- hooks
static void h_tvnow(long long *sec, unsigned int *usec)
{
  World *w = g_world;
  int64_t t = w ? w->now_us : 1000000000001LL;
  *sec      = t / 1000000;
  *usec     = (unsigned int)(t % 1000000);
}
static uint64_t splitmix(uint64_t x)
{
  x += 0x9e3779b97f4a7c15ULL;
  x = (x ^ (x >> 30)) * 0xbf58476d1ce4e5b9ULL;
  x = (x ^ (x >> 27)) * 0x94d049bb133111ebULL;
  return x ^ (x >> 31);
}
static int policy_draw(World *w, int purpose, int menu)
{
  int v = 0;
  if (w->pol_pos < w->pol_in.size()) v = w->pol_in[w->pol_pos];
  w->pol_pos++;
  if (v < 0 || v >= menu) v = 0;
  w->draws.push_back({ purpose, menu, v });
  return v;
}
static void h_rand(int purpose, unsigned char *buf, size_t len)
{
  World *w = g_world;
  memset(buf, 0, len);
  if (!w) return;
  switch (purpose) {
    case ARES_VERIF_RAND_QID: {
      unsigned short id = (unsigned short)(0x1001 + (w->nonce++ & 0x7fff));
      memcpy(buf, &id, len < 2 ? len : 2);
      break;
    }
    case ARES_VERIF_RAND_DNS0X20:
      memset(buf, 0xA5, len);
      break;
    case ARES_VERIF_RAND_COOKIE: {
      uint64_t c = 0xC00C1E0000000000ULL | (++w->nonce);
      memcpy(buf, &c, len < 8 ? len : 8);
      break;
    }
    case ARES_VERIF_RAND_ROTATE: {
      int v  = policy_draw(w, purpose, w->cfg->nservers);
      buf[0] = (unsigned char)v;
      w->rot_draws++;
      w->rot_last = v;
      break;
    }
    case ARES_VERIF_RAND_PROBE: {
      int            v = policy_draw(w, purpose, 2);
      unsigned short r = v ? 0 : 1;
      memcpy(buf, &r, len < 2 ? len : 2);
      break;
    }
    case ARES_VERIF_RAND_JITTER: {
      int            v = policy_draw(w, purpose, 2);
      unsigned short r = v ? 65535 : 0;
      memcpy(buf, &r, len < 2 ? len : 2);
      break;
    }
    default: {
      for (size_t i = 0; i < len; i += 8) {
        uint64_t x = splitmix(0x5115700000000000ULL + w->nonce++);
        memcpy(buf + i, &x, len - i < 8 ? len - i : 8);
      }
    }
  }
}
static int h_seed(unsigned int *seed)
{
  *seed = 0x00c0ffee;
  return 1;
}
static int h_true1(void *) { return 1; }
static int h_condwait(void *, void *, size_t, int *timedout)
{
  *timedout = 1;
  return 1;
}
static int h_thread_create(void *(*func)(void *), void *arg, void **handle)
{
  func(arg); // EX-A is single threaded: the reinit "thread" runs synchronously
  *handle = (void *)1;
  return 1;
}
static int h_thread_join(void *, void **rv)
{
  if (rv) *rv = nullptr;
  return 1;
}
void install_hooks()
{
  ares_verif_hooks.tvnow          = h_tvnow;
  ares_verif_hooks.rand_bytes     = h_rand;
  ares_verif_hooks.htable_seed    = h_seed;
  ares_verif_hooks.mutex_lock     = h_true1;
  ares_verif_hooks.mutex_unlock   = h_true1;
  ares_verif_hooks.cond_signal    = h_true1;
  ares_verif_hooks.cond_broadcast = h_true1;
  ares_verif_hooks.cond_wait      = h_condwait;
  ares_verif_hooks.thread_create  = h_thread_create;
  ares_verif_hooks.thread_join    = h_thread_join;
}

// ------------------------------------------------------- addresses / helpers
static uint32_t server_ip4(int idx) { return 0x0a000001u + (uint32_t)idx; } // 10.0.0.(1+idx)
static void     fill_server_sa(const World *w, int idx, struct sockaddr_storage *ss, socklen_t *len)
{
  memset(ss, 0, sizeof *ss);
  if (idx >= 0 && w->cfg->server6 && idx == 1) {
    struct sockaddr_in6 *s6 = (struct sockaddr_in6 *)ss;
    s6->sin6_family         = AF_INET6;
    s6->sin6_port           = htons(53);
    inet_pton(AF_INET6, "fd00::2", &s6->sin6_addr);
    *len = sizeof *s6;
    return;
  }
  struct sockaddr_in *s4 = (struct sockaddr_in *)ss;
  s4->sin_family         = AF_INET;
  s4->sin_port           = htons(53);
  s4->sin_addr.s_addr    = htonl(idx >= 0 ? server_ip4(idx) : 0x0a000063u); // foreign: 10.0.0.99
  *len                   = sizeof *s4;
}
static int server_of_sa(const World *w, const struct sockaddr *sa)
{
  if (sa->sa_family == AF_INET) {
    uint32_t ip = ntohl(((const struct sockaddr_in *)sa)->sin_addr.s_addr);
    for (int i = 0; i < 8; i++)
      if (ip == server_ip4(i)) return i;
    return -1;
  }
  if (sa->sa_family == AF_INET6) {
    struct in6_addr a;
    inet_pton(AF_INET6, "fd00::2", &a);
    if (memcmp(&a, &((const struct sockaddr_in6 *)sa)->sin6_addr, 16) == 0) return 1;
  }
  (void)w;
  return -1;
}

// ------------------------------------------------------ socket function set
static VSock *live_sock(World *w, int fd, const char *call)
{
  VSock *s = w->sock(fd);
  if (!s) {
    w->violate(fmt("C10:sock:%s-on-unknown-fd", call), fmt("%s called on descriptor %d never returned by asocket", call, fd));
    return nullptr;
  }
  if (!s->open) {
    w->violate(fmt("C10:sock:%s-after-close", call), fmt("%s called on descriptor %d after it was closed", call, fd));
    return nullptr;
  }
  return s;
}
static bool take_fault(World *w, int site)
{
  if (w->fault[site]) {
    if (w->fault_skip[site] > 0) {
      w->fault_skip[site]--;
      return false;
    }
    w->fault[site]--;
    w->W("fault_fired");
    return true;
  }
  return false;
}

static ares_socket_t s_socket(int domain, int type, int, void *ud)
{
  World *w = (World *)ud;
  if (take_fault(w, FS_SOCKET_EAGAIN)) {
    // a transient resource shortage: an error like any other for the caller (the attempt on this server failed)
    w->net_fails.push_back({ ++w->seq, -1, -1 });
    w->log("socket() -> EAGAIN");
    errno = EAGAIN;
    return ARES_SOCKET_BAD;
  }
  if (take_fault(w, FS_SOCKET)) {
    w->net_fails.push_back({ ++w->seq, -1, -1 });
    w->log("socket() -> EMFILE");
    errno = EMFILE;
    return ARES_SOCKET_BAD;
  }
  auto s         = std::make_unique<VSock>();
  s->fd          = w->next_fd++;
  if (w->cfg->reuse_fds) {
    // lowest descriptor number that is not open right now
    int fd = 10;
    for (bool taken = true; taken; fd += taken ? 1 : 0) {
      taken = false;
      for (auto &x : w->socks)
        if (x->open && x->fd == fd) taken = true;
    }
    s->fd = fd;
    w->next_fd--;
  }
  s->family      = domain;
  s->tcp         = type == SOCK_STREAM;
  s->created_seq = (int)w->socks.size();
  w->log(fmt("socket(%s,%s) -> %d", domain == AF_INET ? "inet" : "inet6", s->tcp ? "tcp" : "udp", s->fd));
  int fd = s->fd;
  w->socks.push_back(std::move(s));
  if (fd >= FD_SETSIZE - 1) w->violate("HARNESS:fd-exhausted", "virtual descriptor space exhausted");
  return fd;
}
static int s_close(ares_socket_t fd, void *ud)
{
  World *w = (World *)ud;
  VSock *s = w->sock(fd);
  if (!s) {
    w->violate("C10:sock:close-on-unknown-fd", fmt("close(%d) on a descriptor never returned by asocket", fd));
    errno = EBADF;
    return -1;
  }
  s->nclose++;
  w->last_close_seq = ++w->seq;
  if (!s->open) {
    w->violate("C10:sock:double-close", fmt("descriptor %d closed twice", fd));
    errno = EBADF;
    return -1;
  }
  s->open = false;
  if (s->ever_announced && !s->stopped && w->cfg->sock_state_cb)
    w->violate("C10:sockstate:closed-without-stop", fmt("descriptor %d closed while the application was still told to watch it (no (0,0) notification)", fd));
  w->log(fmt("close(%d)", fd));
  return 0;
}
static int s_setsockopt(ares_socket_t fd, ares_socket_opt_t opt, const void *, ares_socklen_t, void *ud)
{
  World *w = (World *)ud;
  VSock *s = live_sock(w, fd, "setsockopt");
  if (!s) {
    errno = EBADF;
    return -1;
  }
  if (opt == ARES_SOCKET_OPT_TCP_FASTOPEN) {
    if (!w->cfg->tfo) {
      errno = ENOSYS;
      return -1;
    }
    s->tfo_ok = true;
    w->log(fmt("setsockopt(%d,TFO) ok", fd));
    return 0;
  }
  if (take_fault(w, FS_SETSOCKOPT)) {
    w->log(fmt("setsockopt(%d,%d) -> EINVAL", fd, (int)opt));
    errno = EINVAL;
    return -1;
  }
  w->log(fmt("setsockopt(%d,%d)", fd, (int)opt));
  return 0;
}
static int s_bind(ares_socket_t fd, unsigned int, const struct sockaddr *, socklen_t, void *ud)
{
  World *w = (World *)ud;
  VSock *s = live_sock(w, fd, "bind");
  if (!s) {
    errno = EBADF;
    return -1;
  }
  if (take_fault(w, FS_BIND)) {
    w->log(fmt("bind(%d) -> EADDRNOTAVAIL", fd));
    errno = EADDRNOTAVAIL;
    return -1;
  }
  w->log(fmt("bind(%d)", fd));
  return 0;
}
static int s_connect(ares_socket_t fd, const struct sockaddr *sa, ares_socklen_t, unsigned int flags, void *ud)
{
  World *w = (World *)ud;
  VSock *s = live_sock(w, fd, "connect");
  if (!s) {
    errno = EBADF;
    return -1;
  }
  s->server         = server_of_sa(w, sa);
  s->connect_called = true;
  s->local_variant  = w->src_variant; // the kernel picks the source address when the socket is connected
  s->connect_seq = ++w->seq;
  memcpy(s->ref_fail_at_connect, w->ref_fail, sizeof w->ref_fail);
  memcpy(s->order_at_connect, w->cfg_order, sizeof w->cfg_order);
  s->norder_at_connect = w->cfg_norder;
  memcpy(s->last_fail_at_connect, w->ref_last_fail_us, sizeof w->ref_last_fail_us);
  if (take_fault(w, FS_CONNECT)) {
    w->log(fmt("connect(%d,srv%d) -> ECONNREFUSED", fd, s->server));
    w->net_fails.push_back({ ++w->seq, s->server, fd });
    errno = ECONNREFUSED;
    return -1;
  }
  if (!s->tcp) {
    s->connected = true;
    w->log(fmt("connect(%d,srv%d) udp", fd, s->server));
    return 0;
  }
  if ((flags & ARES_SOCKET_CONN_TCP_FASTOPEN) && s->tfo_ok) {
    s->tfo_connect = true; // connection is established by the first sendto()
    w->log(fmt("connect(%d,srv%d) tfo-deferred", fd, s->server));
    w->W("tfo_connect");
    return 0;
  }
  if (w->cfg->connect_mode == 0) {
    s->connected = true;
    w->log(fmt("connect(%d,srv%d) tcp established", fd, s->server));
    return 0;
  }
  s->connect_pending = true;
  w->log(fmt("connect(%d,srv%d) tcp EINPROGRESS", fd, s->server));
  errno = EINPROGRESS;
  return -1;
}
static ares_ssize_t s_recvfrom(ares_socket_t fd, void *buf, size_t len, int, struct sockaddr *addr, ares_socklen_t *alen, void *ud)
{
  World *w = (World *)ud;
  VSock *s = live_sock(w, fd, "recvfrom");
  if (!s) {
    errno = EBADF;
    return -1;
  }
  if (take_fault(w, FS_RECV_RESET)) {
    w->net_fails.push_back({ ++w->seq, s->server, fd });
    w->log(fmt("recv(%d) -> ECONNRESET", fd));
    errno = ECONNRESET;
    return -1;
  }
  if (take_fault(w, FS_RECV_EINTR)) {
    // an interrupted system call: the library has no retry loop for it and treats it like any other read error
    w->net_fails.push_back({ ++w->seq, s->server, fd });
    w->log(fmt("recv(%d) -> EINTR", fd));
    errno = EINTR;
    return -1;
  }
  if (!s->tcp) {
    if (s->inq.empty()) {
      errno = EWOULDBLOCK;
      return -1;
    }
    Packet p = s->inq.front();
    s->inq.pop_front();
    size_t n = p.data.size() < len ? p.data.size() : len;
    if (n) memcpy(buf, p.data.data(), n);
    if (addr && alen) {
      struct sockaddr_storage ss;
      socklen_t               sl;
      fill_server_sa(w, p.src_server, &ss, &sl);
      if (*alen >= sl) {
        memcpy(addr, &ss, sl);
        *alen = sl;
      }
    }
    w->log(fmt("recv(%d) udp pkt#%d len=%zu", fd, p.serial, n));
    if (p.forged) w->W("forged_packet_read");
    if (p.serial >= 1 && p.serial <= (int)w->packets.size()) {
      w->packets[(size_t)p.serial - 1].t_read  = w->now_us;
      w->packets[(size_t)p.serial - 1].ev_read = w->cur_ev;
      w->packets[(size_t)p.serial - 1].seq_read = ++w->seq;
    }
    return (ares_ssize_t)n;
  }
  if (s->reset) {
    if (!s->conn_fail_logged) {
      s->conn_fail_logged = true;
      w->net_fails.push_back({ ++w->seq, s->server, fd });
    }
    w->log(fmt("recv(%d) -> ECONNRESET", fd));
    errno = ECONNRESET;
    return -1;
  }
  size_t avail = s->instream.size() - s->inpos;
  if (avail == 0) {
    if (s->peer_closed) {
      if (!s->conn_fail_logged) {
        s->conn_fail_logged = true;
        w->net_fails.push_back({ ++w->seq, s->server, fd });
      }
      w->log(fmt("recv(%d) -> 0 (peer closed)", fd));
      return 0;
    }
    errno = EWOULDBLOCK;
    return -1;
  }
  size_t n = avail < len ? avail : len;
  if (w->cfg->tcp_read_chunk > 0 && n > (size_t)w->cfg->tcp_read_chunk) n = (size_t)w->cfg->tcp_read_chunk;
  memcpy(buf, s->instream.data() + s->inpos, n);
  s->inpos += n;
  for (auto &tp : s->tcp_pkts)
    if (tp.first <= s->inpos && w->packets[(size_t)tp.second - 1].t_read < 0) {
      w->packets[(size_t)tp.second - 1].t_read  = w->now_us;
      w->packets[(size_t)tp.second - 1].ev_read = w->cur_ev;
      w->packets[(size_t)tp.second - 1].seq_read = ++w->seq;
    }
  w->log(fmt("recv(%d) tcp %zu bytes", fd, n));
  return (ares_ssize_t)n;
}
static ares_ssize_t s_sendto(ares_socket_t fd, const void *buf, size_t len, int, const struct sockaddr *sa, ares_socklen_t, void *ud)
{
  World *w = (World *)ud;
  VSock *s = live_sock(w, fd, "sendto");
  if (!s) {
    errno = EBADF;
    return -1;
  }
  s->send_calls++;
  if (take_fault(w, FS_SEND_REFUSED)) {
    w->log(fmt("send(%d) -> ECONNREFUSED", fd));
    w->net_fails.push_back({ ++w->seq, s->server, fd });
    errno = ECONNREFUSED;
    return -1;
  }
  if (take_fault(w, FS_SEND_EINTR)) {
    w->log(fmt("send(%d) -> EINTR", fd));
    w->net_fails.push_back({ ++w->seq, s->server, fd });
    errno = EINTR;
    return -1;
  }
  if (take_fault(w, FS_SEND_ENOBUFS)) {
    // the kernel is out of buffer space: a hard send error like any other as far as the server's health is concerned
    w->log(fmt("send(%d) -> ENOBUFS", fd));
    w->net_fails.push_back({ ++w->seq, s->server, fd });
    errno = ENOBUFS;
    return -1;
  }
  if (take_fault(w, FS_SEND_WOULDBLOCK)) {
    w->log(fmt("send(%d) -> EWOULDBLOCK", fd));
    s->out_blocked = 1;
    errno          = EWOULDBLOCK;
    return -1;
  }
  s->out_blocked = 0;
  if (!s->tcp) {
    Bytes m((const unsigned char *)buf, (const unsigned char *)buf + len);
    w->record_tx(*s, m);
    return (ares_ssize_t)len;
  }
  if (s->tfo_connect && !s->connected) {
    if (!sa) w->W("obs_tfo_send_without_address"); // observation only: not part of the C10 statement (see DESIGN.md section 7)
    s->connected = true; // SYN+data
  } else if (!s->connected) {
    w->violate("C10:sock:send-before-connected", fmt("send on TCP descriptor %d before the connection was established", fd));
    errno = ENOTCONN;
    return -1;
  }
  size_t n = len;
  if (w->write_pos < w->write_plan.size()) {
    int k = w->write_plan[w->write_pos++];
    if (k == -2) {
      // a write on a connection whose handshake is still in flight: not an error, the caller has to wait
      w->log(fmt("send(%d) -> EINPROGRESS (plan)", fd));
      w->W("plan_einprogress");
      errno = EINPROGRESS;
      return -1;
    }
    if (k <= 0) {
      w->log(fmt("send(%d) -> EWOULDBLOCK (plan)", fd));
      w->W("plan_wouldblock");
      errno = EWOULDBLOCK;
      return -1;
    }
    if ((size_t)k < n) n = (size_t)k;
  }
  if (take_fault(w, FS_SEND_SHORT) && n > 1) n = n / 2;
  if (w->cfg->tcp_write_chunk > 0 && n > (size_t)w->cfg->tcp_write_chunk) n = (size_t)w->cfg->tcp_write_chunk;
  s->outstream.insert(s->outstream.end(), (const unsigned char *)buf, (const unsigned char *)buf + n);
  w->log(fmt("send(%d) tcp %zu/%zu bytes", fd, n, len));
  if (n < len) w->W("short_write");
  w->on_tcp_output(*s);
  return (ares_ssize_t)n;
}
static int s_getsockname(ares_socket_t fd, struct sockaddr *addr, ares_socklen_t *alen, void *ud)
{
  World *w = (World *)ud;
  VSock *s = live_sock(w, fd, "getsockname");
  if (!s) {
    errno = EBADF;
    return -1;
  }
  if (take_fault(w, FS_GETSOCKNAME)) {
    w->log(fmt("getsockname(%d) -> ENOBUFS", fd));
    errno = ENOBUFS;
    return -1;
  }
  if (s->tcp && s->tfo_connect && !s->connected) {
    errno = ENOTCONN; // not bound before the first fast-open send
    return -1;
  }
  if (s->family == AF_INET6) {
    struct sockaddr_in6 a;
    memset(&a, 0, sizeof a);
    a.sin6_family = AF_INET6;
    a.sin6_port   = htons(40000);
    inet_pton(AF_INET6, s->local_variant ? "fd00::101" : "fd00::100", &a.sin6_addr);
    if (*alen < sizeof a) {
      errno = EINVAL;
      return -1;
    }
    memcpy(addr, &a, sizeof a);
    *alen = sizeof a;
    return 0;
  }
  struct sockaddr_in a;
  memset(&a, 0, sizeof a);
  a.sin_family      = AF_INET;
  a.sin_port        = htons(40000);
  a.sin_addr.s_addr = htonl(0x0a010001u + (uint32_t)s->local_variant); // 10.1.0.1 / 10.1.0.2
  if (*alen < sizeof a) {
    errno = EINVAL;
    return -1;
  }
  memcpy(addr, &a, sizeof a);
  *alen = sizeof a;
  return 0;
}

void World::record_tx(VSock &s, const Bytes &msg)
{
  Transmission t;
  t.id     = (int)txs.size();
  t.fd     = s.fd;
  t.sock_serial = s.created_seq;
  // which request this transmission belongs to: the one whose entry point is running, else that of an earlier
  // transmission of the same query id (re-sends), else unknown (-1: e.g. a later search candidate)
  t.token_hint = issuing_tok;
  if (t.token_hint < 0 && t.q.ok)
    for (auto &o : txs)
      if (o.q.ok && o.q.id == t.q.id && o.token_hint >= 0) t.token_hint = o.token_hint;
  t.rot_draws   = rot_draws;
  t.rot_last    = rot_last;
  t.server = s.server;
  t.tcp    = s.tcp;
  t.msg    = msg;
  t.q      = vdns::parse_query(msg);
  t.t_us   = now_us;
  t.src_variant = s.local_variant;
  t.seq         = ++seq;
  t.decision_seq = (s.tcp && s.ntx == 0) ? s.connect_seq : t.seq;
  memcpy(t.ref_fail, ref_fail, sizeof ref_fail);
  memcpy(t.order, cfg_order, sizeof cfg_order);
  t.norder = cfg_norder;
  memcpy(t.last_fail_us, ref_last_fail_us, sizeof ref_last_fail_us);
  if (s.tcp && s.ntx == 0) {
    // the first frame on a TCP connection reaches the wire only once the connection is established: the server was
    // chosen when the connection was opened
    memcpy(t.ref_fail, s.ref_fail_at_connect, sizeof t.ref_fail);
    memcpy(t.order, s.order_at_connect, sizeof t.order);
    t.norder = s.norder_at_connect;
    memcpy(t.last_fail_us, s.last_fail_at_connect, sizeof t.last_fail_us);
  }
  if (cfg->pending_write_cb && s.tcp && s.ntx > 0) {
    // deferred-write mode: the frame was queued (and its server decided) when the library announced pending data, and
    // reaches the wire at a later flush. One frame per announcement has a known decision moment; further ones do not.
    if (pw_valid && pw_tx < 0 && pw_seq > last_close_seq) {
      pw_tx          = t.id;
      t.decision_seq = pw_seq;
      memcpy(t.ref_fail, pw_ref_fail, sizeof t.ref_fail);
      memcpy(t.order, pw_order, sizeof t.order);
      t.norder = pw_norder;
      memcpy(t.last_fail_us, pw_last_fail, sizeof t.last_fail_us);
    } else {
      t.batched = true;
      if (pw_tx >= 0 && pw_tx < (int)txs.size()) txs[(size_t)pw_tx].batched = true;
    }
  }
  t.ev_index   = in_closure ? -1 : cur_ev;
  t.in_timer   = in_timer;
  t.in_closure = in_closure;
  s.ntx++;
  if (!t.q.ok) violate("C03:wire:query-not-decodable", "a frame handed to the socket does not decode as a DNS query: " + t.q.err + " " + vf::hex(msg));
  log(fmt("tx#%d fd=%d srv=%d %s id=%u q=%s type=%d opt=%d cookie=%d/%zu", t.id, s.fd, s.server, s.tcp ? "tcp" : "udp", t.q.id,
          t.q.q.empty() ? "-" : vdns::name_text(t.q.q[0].labels).c_str(), t.q.q.empty() ? 0 : t.q.q[0].qtype, (int)t.q.has_opt,
          (int)t.q.has_cookie, t.q.server_cookie.size()));
  if (!s.tcp && cfg->udp_max_queries > 0 && s.ntx > cfg->udp_max_queries)
    violate("C10:udp-max-queries-exceeded", fmt("UDP descriptor carried %d queries, limit is %d", s.ntx, cfg->udp_max_queries));
  txs.push_back(t);
  W(s.tcp ? "tx_tcp" : "tx_udp");
}

void World::on_tcp_output(VSock &s)
{
  // extract complete frames
  int in_this_call = 0;
  while (s.outstream.size() - s.outparsed >= 2) {
    size_t l = (size_t)(s.outstream[s.outparsed] << 8 | s.outstream[s.outparsed + 1]);
    if (s.outstream.size() - s.outparsed - 2 < l) break;
    Bytes m(s.outstream.begin() + (long)s.outparsed + 2, s.outstream.begin() + (long)(s.outparsed + 2 + l));
    s.outparsed += 2 + l;
    record_tx(s, m);
    if (in_this_call++ > 0) txs.back().batched = true;
  }
}

// sock state callback
static void sock_state_cb(void *data, ares_socket_t fd, int r, int wr)
{
  World *w = (World *)data;
  VSock *s = w->sock(fd);
  w->sockstate_log.push_back(fmt("%d:%d%d", fd, r, wr));
  w->log(fmt("sockstate(%d,%d,%d)", fd, r, wr));
  if (!s) {
    w->violate("C10:sockstate:unknown-fd", fmt("sock_state_cb for descriptor %d never returned by asocket", fd));
    return;
  }
  if (s->stopped) {
    w->violate("C10:sockstate:after-stop", fmt("sock_state_cb(%d,%d,%d) after the application was already told to stop watching it", fd, r, wr));
  }
  if (!s->open) w->violate("C10:sockstate:on-closed-fd", fmt("sock_state_cb(%d,%d,%d) for a closed descriptor", fd, r, wr));
  if (!r && !wr) {
    if (!s->ever_announced) w->violate("C10:sockstate:stop-without-watch", fmt("(0,0) for descriptor %d that was never announced", fd));
    s->stopped = true;
  } else {
    s->ever_announced = true;
  }
  s->ann_r = r;
  s->ann_w = wr;
}
static void server_state_cb(const char *server, ares_bool_t ok, int flags, void *data)
{
  World *w = (World *)data;
  w->server_state.push_back({ server, ok ? 1 : 0 });
  {
    // "10.0.0.k:53" or "[fd00::2]:53"
    int idx = -1;
    if (strncmp(server, "10.0.0.", 7) == 0) idx = atoi(server + 7) - 1;
    else if (strncmp(server, "[fd00::2]", 9) == 0) idx = 1;
    if (idx >= 0 && idx < 8) {
      if (ok) w->ref_fail[idx] = 0;
      else {
        w->ref_fail[idx]++;
        w->ref_last_fail_us[idx] = w->now_us;
      }
    }
  }
  w->log(fmt("serverstate(%s,%d,%d)", server, (int)ok, flags));
}
// application callbacks on new sockets: either may reject the socket (the library must then close it, tell the
// application to stop watching it if it ever told it to watch, and count the attempt as failed)
static int sock_config_cb(ares_socket_t fd, int type, void *data)
{
  World *w = (World *)data;
  (void)type;
  w->log(fmt("socket_configure_cb(%d)", fd));
  if (take_fault(w, FS_SOCKCFGCB)) {
    VSock *s = w->sock(fd);
    w->net_fails.push_back({ ++w->seq, s ? s->server : -1, fd });
    w->log("socket_configure_cb -> -1");
    return -1;
  }
  return 0;
}
static int sock_create_cb(ares_socket_t fd, int type, void *data)
{
  World *w = (World *)data;
  (void)type;
  w->log(fmt("socket_cb(%d)", fd));
  w->W("socket_cb_called");
  if (take_fault(w, FS_SOCKCB)) {
    VSock *s = w->sock(fd);
    w->net_fails.push_back({ ++w->seq, s ? s->server : -1, fd });
    w->log("socket_cb -> -1");
    return -1;
  }
  return 0;
}
static void pending_write_cb(void *data)
{
  World *w                  = (World *)data;
  w->pending_write_notified = true;
  w->pw_valid               = true;
  w->pw_tx                  = -1;
  w->pw_seq                 = ++w->seq;
  memcpy(w->pw_ref_fail, w->ref_fail, sizeof w->pw_ref_fail);
  memcpy(w->pw_order, w->cfg_order, sizeof w->pw_order);
  w->pw_norder = w->cfg_norder;
  memcpy(w->pw_last_fail, w->ref_last_fail_us, sizeof w->pw_last_fail);
  w->log("pending_write_cb");
  w->W("pending_write_cb");
}

// --------------------------------------------------------------- init/exit
static std::map<std::string, std::string> &vfs()
{
  static std::map<std::string, std::string> m;
  return m;
}
// paths that exist but cannot be read right now (fopen fails with EIO)
static std::set<std::string> &vfs_unreadable()
{
  static std::set<std::string> m;
  return m;
}
static std::string resolv_text(const std::vector<std::string> &doms, int ndots)
{
  std::string t;
  if (!doms.empty()) {
    t += "search";
    for (auto &d : doms) t += " " + d;
    t += "\n";
  }
  t += "options ndots:" + std::to_string(ndots) + "\n";
  return t;
}

bool World::init()
{
  g_world = this;
  vf::ledger().reset();
  vf::ledger().fail_at = fail_at;
  if (cfg->whole_second_clock) now_us = 1000000000000LL;
  vfs().clear();
  vfs_unreadable().clear();
  eff_domains = cfg->domains;
  eff_ndots   = cfg->ndots;
  if (cfg->sysconf_search) vfs()["/vfs/resolv.conf"] = resolv_text(cfg->domains, cfg->ndots);
  else if (!cfg->sys_resolv.empty()) vfs()["/vfs/resolv.conf"] = cfg->sys_resolv;
  if (!cfg->hosts.empty()) vfs()["/vfs/hosts"] = cfg->hosts;
  if (!cfg->hostaliases.empty()) {
    vfs()["/vfs/hostaliases"] = cfg->hostaliases;
    setenv("HOSTALIASES", "/vfs/hostaliases", 1);
  } else
    unsetenv("HOSTALIASES");
  unsetenv("LOCALDOMAIN");
  unsetenv("RES_OPTIONS");
  if (!cfg->env_hosts.empty()) {
    vfs()["/vfs/hosts.env"] = cfg->env_hosts;
    setenv("CARES_HOSTS", "/vfs/hosts.env", 1);
  } else
    unsetenv("CARES_HOSTS");
  if (ares_library_init_mem(ARES_LIB_INIT_ALL, vf::l_malloc, vf::l_free, vf::l_realloc) != ARES_SUCCESS) return false;
  struct ares_options o;
  memset(&o, 0, sizeof o);
  int mask  = ARES_OPT_FLAGS | ARES_OPT_TIMEOUTMS | ARES_OPT_TRIES | ARES_OPT_NDOTS | ARES_OPT_LOOKUPS | ARES_OPT_DOMAINS | ARES_OPT_QUERY_CACHE |
             ARES_OPT_HOSTS_FILE | ARES_OPT_RESOLVCONF;
  o.flags   = (int)cfg->flags;
  o.timeout = cfg->timeout_ms;
  o.tries   = cfg->tries;
  o.ndots   = cfg->ndots;
  o.lookups = (char *)cfg->lookups.c_str();
  std::vector<char *> doms;
  for (auto &d : cfg->domains) doms.push_back((char *)d.c_str());
  o.domains         = doms.empty() ? nullptr : doms.data();
  o.ndomains        = (int)doms.size();
  o.qcache_max_ttl  = (unsigned)cfg->qcache_max_ttl;
  o.hosts_path      = (char *)"/vfs/hosts";
  o.resolvconf_path = (char *)"/vfs/resolv.conf";
  if (cfg->sysconf_search) mask &= ~(ARES_OPT_NDOTS | ARES_OPT_DOMAINS);
  if (cfg->rotate) mask |= ARES_OPT_ROTATE;
  else mask |= ARES_OPT_NOROTATE;
  if (cfg->udp_max_queries > 0) {
    mask |= ARES_OPT_UDP_MAX_QUERIES;
    o.udp_max_queries = cfg->udp_max_queries;
  }
  if (cfg->maxtimeout_ms > 0) {
    mask |= ARES_OPT_MAXTIMEOUTMS;
    o.maxtimeout = cfg->maxtimeout_ms;
  }
  if (cfg->set_failover) {
    mask |= ARES_OPT_SERVER_FAILOVER;
    o.server_failover_opts.retry_chance = (unsigned short)cfg->retry_chance;
    o.server_failover_opts.retry_delay  = (size_t)cfg->retry_delay;
  }
  if (cfg->sock_state_cb) {
    mask |= ARES_OPT_SOCK_STATE_CB;
    o.sock_state_cb      = sock_state_cb;
    o.sock_state_cb_data = this;
  }
  if (cfg->ednspsz) {
    mask |= ARES_OPT_EDNSPSZ;
    o.ednspsz = cfg->ednspsz;
  }
  in_lib = true;
  int rc = ares_init_options(&ch, &o, mask);
  in_lib = false;
  if (rc != ARES_SUCCESS) {
    ch = nullptr;
    log(fmt("init failed %d", rc));
    return false;
  }
  struct ares_socket_functions_ex f;
  memset(&f, 0, sizeof f);
  f.version      = 1;
  f.flags        = ARES_SOCKFUNC_FLAG_NONBLOCKING;
  f.asocket      = s_socket;
  f.aclose       = s_close;
  f.asetsockopt  = s_setsockopt;
  f.aconnect     = s_connect;
  f.arecvfrom    = s_recvfrom;
  f.asendto      = s_sendto;
  f.agetsockname = cfg->no_getsockname ? nullptr : s_getsockname;
  f.abind        = s_bind;
  if (ares_set_socket_functions_ex(ch, &f, this) != ARES_SUCCESS) return false;
  ares_set_server_state_callback(ch, server_state_cb, this);
  if (cfg->pending_write_cb) ares_set_pending_write_cb(ch, pending_write_cb, this);
  if (cfg->local_bind) ares_set_local_ip4(ch, 0x0a010001u);
  if (cfg->socket_cbs) {
    ares_set_socket_configure_callback(ch, sock_config_cb, this);
    ares_set_socket_callback(ch, sock_create_cb, this);
  }
  if (!cfg->sortlist.empty()) ares_set_sortlist(ch, cfg->sortlist.c_str());
  std::string csv;
  for (int i = 0; i < cfg->nservers; i++) {
    if (i) csv += ",";
    if (cfg->server6 && i == 1) csv += "[fd00::2]:53";
    else csv += fmt("10.0.0.%d:53", 1 + i);
  }
  servers_csv = csv;
  cfg_norder  = cfg->nservers;
  for (int i = 0; i < cfg->nservers && i < 8; i++) cfg_order[i] = i;
  if ((cfg->flags & ARES_FLAG_PRIMARY) && cfg_norder > 1) cfg_norder = 1; // only the first configured server is used
  in_lib      = true;
  rc          = ares_set_servers_ports_csv(ch, csv.c_str());
  in_lib      = false;
  if (rc != ARES_SUCCESS) return false;
  obs.clear(); // observations start after set-up
  server_state.clear();
  return true;
}

World::~World()
{
  if (g_world == this) g_world = nullptr;
}

void World::do_destroy()
{
  if (!ch || destroyed) return;
  std::vector<int> pending;
  for (auto &t : toks)
    if (t.count == 0) pending.push_back(t.id);
  in_destroy = true;
  in_lib     = true;
  log("destroy");
  ares_destroy(ch);
  in_lib     = false;
  in_destroy = false;
  destroyed  = true;
  ch         = nullptr;
  for (int id : pending)
    if (toks[(size_t)id].count == 0)
      violate("C01:token:not-completed-by-destroy", fmt("request token %d (req %d kind %d) had no callback when ares_destroy returned", id, toks[(size_t)id].req, toks[(size_t)id].kind));
  for (auto &s : socks)
    if (s->open) violate("C10:sock:open-after-destroy", fmt("descriptor %d still open after ares_destroy", s->fd));
  if (cfg->sock_state_cb)
    for (auto &s : socks)
      if (s->ever_announced && !s->stopped)
        violate("C10:sockstate:never-stopped", fmt("descriptor %d was announced to the application but never followed by (0,0)", s->fd));
}

void World::teardown()
{
  do_destroy();
  ares_library_cleanup();
  auto &L = vf::ledger();
  if (!L.live.empty()) {
    size_t bytes = 0;
    for (auto &kv : L.live) bytes += kv.second;
    std::set<std::string> sites;
    if (L.trace)
      for (auto &kv : L.live) sites.insert(vf::ledger_site(kv.first));
    std::string sl;
    for (auto &x : sites) sl += (sl.empty() ? "" : ",") + x;
    leak_sites = sl;
    violate("C01:leak:blocks-live-after-destroy", fmt("%zu blocks / %zu bytes still allocated after ares_destroy + ares_library_cleanup%s%s", L.live.size(), bytes, sl.empty() ? "" : "; allocated in ", sl.c_str()));
    for (auto &kv : L.live) free(kv.first);
    L.live.clear();
  }
  g_world = nullptr;
}

// ------------------------------------------------------------ result dumps
static void scan_rr_markers(const ares_dns_record_t *rec, Token &t, std::string &out)
{
  size_t n = ares_dns_record_rr_cnt(rec, ARES_SECTION_AUTHORITY);
  for (size_t i = 0; i < n; i++) {
    const ares_dns_rr_t *rr = ares_dns_record_rr_get_const(rec, ARES_SECTION_AUTHORITY, i);
    if (ares_dns_rr_get_type(rr) == ARES_REC_TYPE_SOA) {
      t.neg_marker = (int)ares_dns_rr_get_u32(rr, ARES_RR_SOA_SERIAL);
      out += fmt(" soa(ttl=%u,min=%u)", ares_dns_rr_get_ttl(rr), ares_dns_rr_get_u32(rr, ARES_RR_SOA_MINIMUM));
      t.ttls.push_back(ares_dns_rr_get_ttl(rr));
    }
  }
  n = ares_dns_record_rr_cnt(rec, ARES_SECTION_ANSWER);
  for (size_t i = 0; i < n; i++) {
    const ares_dns_rr_t *rr   = ares_dns_record_rr_get_const(rec, ARES_SECTION_ANSWER, i);
    ares_dns_rec_type_t  type = ares_dns_rr_get_type(rr);
    unsigned int         ttl  = ares_dns_rr_get_ttl(rr);
    t.ttls.push_back(ttl);
    out += fmt(" rr(%d,ttl=%u", (int)type, ttl);
    if (type == ARES_REC_TYPE_A) {
      const struct in_addr *a = ares_dns_rr_get_addr(rr, ARES_RR_A_ADDR);
      if (a) {
        uint32_t ip = ntohl(a->s_addr);
        out += fmt(",%u.%u.%u.%u", ip >> 24, (ip >> 16) & 255, (ip >> 8) & 255, ip & 255);
        if ((ip >> 24) == 10 && ((ip >> 16) & 255) >= 9 && ((ip >> 16) & 255) <= 15) t.markers.push_back((int)(ip & 0xffff));
      }
    } else if (type == ARES_REC_TYPE_AAAA) {
      const struct ares_in6_addr *a = ares_dns_rr_get_addr6(rr, ARES_RR_AAAA_ADDR);
      if (a) {
        const unsigned char *p = (const unsigned char *)a;
        out += "," + vf::hex(p, 16);
        t.markers.push_back((int)(p[12] << 24 | p[13] << 16 | p[14] << 8 | p[15]));
      }
    } else if (type == ARES_REC_TYPE_TXT) {
      size_t               len = 0;
      const unsigned char *p   = ares_dns_rr_get_abin(rr, ARES_RR_TXT_DATA, 0, &len);
      if (p) {
        std::string s((const char *)p, len);
        out += "," + s;
        if (s.rfind("pk", 0) == 0) t.markers.push_back(atoi(s.c_str() + 2));
      }
    } else if (type == ARES_REC_TYPE_PTR || type == ARES_REC_TYPE_CNAME) {
      const char *nm = ares_dns_rr_get_str(rr, type == ARES_REC_TYPE_PTR ? ARES_RR_PTR_DNAME : ARES_RR_CNAME_CNAME);
      if (nm) {
        out += std::string(",") + nm;
        if (nm[0] == 'p' && isdigit((unsigned char)nm[1])) t.markers.push_back(atoi(nm + 1));
      }
    }
    out += ")";
  }
}

static void complete(CbCtx *c, int status, int timeouts, const std::string &res)
{
  World *w = c->w;
  Token &t = w->toks[(size_t)c->tok];
  t.count++;
  w->log(fmt("cb tok=%d status=%d timeouts=%d %s", t.id, status, timeouts, res.c_str()));
  if (w->destroyed) w->violate("C01:token:callback-after-destroy", fmt("callback for token %d after ares_destroy returned", t.id));
  if (t.count > 1) {
    w->violate("C01:token:double-callback", fmt("request token %d (req %d kind %d) completed %d times (status %d then %d)", t.id, t.req, t.kind, t.count, t.status, status));
    return;
  }
  if (status < 0 || status > ARES_ENOSERVER) w->violate("C01:token:undefined-status", fmt("token %d completed with undefined status %d", t.id, status));
  for (int m : t.markers)
    if (m >= 1 && m <= (int)w->packets.size() && w->packets[(size_t)m - 1].t_accept < 0) {
      w->packets[(size_t)m - 1].t_accept  = w->now_us;
      w->packets[(size_t)m - 1].ev_accept = w->cur_ev;
    }
  if (t.neg_marker >= 1 && t.neg_marker <= (int)w->packets.size() && w->packets[(size_t)t.neg_marker - 1].t_accept < 0)
    w->packets[(size_t)t.neg_marker - 1].t_accept = w->now_us, w->packets[(size_t)t.neg_marker - 1].ev_accept = w->cur_ev;
  t.status              = status;
  t.timeouts            = timeouts;
  t.result              = res;
  t.t_done              = w->now_us;
  t.ev_done             = w->cur_ev;
  t.seq_done            = ++w->seq;
  t.tx_at_done          = (int)w->txs.size();
  t.done_during_destroy = w->in_destroy;
  if (!w->in_lib) w->violate("HARNESS:callback-outside-library", "callback while not inside a library call");
  if (status == ARES_EDESTRUCTION || w->in_destroy) return; // documented: no new requests from callbacks during destroy
  if (w->cb_depth > 3) return;
  w->cb_depth++;
  if (t.cbmode == 1) {
    w->W("reentrant_request");
    w->issue(t.cbarg, true);
  } else if (t.cbmode == 2 && w->ch) {
    w->W("reentrant_cancel");
    w->log("cancel (from callback)");
    std::vector<int> pending;
    for (auto &x : w->toks)
      if (x.count == 0 && x.accepted) pending.push_back(x.id); // a request whose entry point is still running is not yet accepted
    bool nested = w->in_cancel; // an outer ares_cancel (event or callback) is still walking its list: it completes the rest
    w->in_cancel = true;
    ares_cancel(w->ch);
    w->in_cancel = nested;
    for (int id : pending)
      if (w->toks[(size_t)id].count == 0 && !nested)
        w->violate("C01:token:not-completed-by-cancel", fmt("token %d had no callback when ares_cancel (called from a callback) returned", id));
  } else if (t.cbmode == 3 && w->ch) {
    // the application reacts to a completion by changing its server list (from inside the callback)
    w->W("reentrant_set_servers");
    w->do_setservers(t.cbarg);
  }
  w->cb_depth--;
}

static void cb_dnsrec(void *arg, ares_status_t status, size_t timeouts, const ares_dns_record_t *rec)
{
  CbCtx      *c = (CbCtx *)arg;
  std::string r;
  if (rec) {
    Token &t = c->w->toks[(size_t)c->tok];
    if (t.count == 0) {
      r = fmt("rcode=%d fl=%x an=%zu", (int)ares_dns_record_get_rcode(rec), ares_dns_record_get_flags(rec), ares_dns_record_rr_cnt(rec, ARES_SECTION_ANSWER));
      scan_rr_markers(rec, t, r);
    }
  }
  World *w = c->w;
  complete(c, (int)status, (int)timeouts, r);
  // the record belongs to the callback until it returns, whatever the callback did in between (started requests,
  // cancelled, changed the servers): reading it again must be safe
  if (rec && w->ch && !w->in_destroy) {
    volatile size_t n = ares_dns_record_rr_cnt(rec, ARES_SECTION_ANSWER) + ares_dns_record_get_id(rec);
    (void)n;
  }
}
static void cb_legacy(void *arg, int status, int timeouts, unsigned char *abuf, int alen)
{
  CbCtx      *c = (CbCtx *)arg;
  std::string r;
  if (abuf && alen > 0) {
    Token &t = c->w->toks[(size_t)c->tok];
    if (t.count == 0) {
      ares_dns_record_t *rec = nullptr;
      if (ares_dns_parse(abuf, (size_t)alen, 0, &rec) == ARES_SUCCESS) {
        r = fmt("rcode=%d fl=%x an=%zu", (int)ares_dns_record_get_rcode(rec), ares_dns_record_get_flags(rec), ares_dns_record_rr_cnt(rec, ARES_SECTION_ANSWER));
        scan_rr_markers(rec, t, r);
        ares_dns_record_destroy(rec);
      } else
        r = "unparseable-buffer";
    }
  }
  complete(c, status, timeouts, r);
}
static bool marker_v4(uint32_t ip, int *serial, int *idx)
{
  unsigned o2 = (ip >> 16) & 255;
  if ((ip >> 24) == 10 && o2 >= 9 && o2 <= 15) {
    *serial = (int)(ip & 0xffff);
    *idx    = (int)o2 - 9;
    return true;
  }
  return false;
}
static bool marker_v6(const unsigned char *p, int *serial, int *idx)
{
  if (p[0] == 0x20 && p[1] == 0x01 && p[2] == 0x0d && p[3] == 0xb8) {
    *serial = (int)(p[12] << 24 | p[13] << 16 | p[14] << 8 | p[15]);
    *idx    = p[11];
    return true;
  }
  return false;
}
static void cb_addrinfo(void *arg, int status, int timeouts, struct ares_addrinfo *ai)
{
  CbCtx      *c = (CbCtx *)arg;
  std::string r;
  if (ai) {
    Token &t = c->w->toks[(size_t)c->tok];
    bool   first = t.count == 0;
    r            = std::string("name=") + (ai->name ? ai->name : "-");
    if (first && ai->name) t.names.push_back(std::string("name:") + ai->name);
    for (struct ares_addrinfo_cname *cn = ai->cnames; cn; cn = cn->next) {
      r += fmt(" cname(%s->%s,ttl=%d)", cn->alias ? cn->alias : "-", cn->name ? cn->name : "-", cn->ttl);
      if (first) t.names.push_back(std::string("cname:") + (cn->alias ? cn->alias : "-") + ">" + (cn->name ? cn->name : "-"));
    }
    for (struct ares_addrinfo_node *n = ai->nodes; n; n = n->ai_next) {
      Token::Addr a;
      a.fam = n->ai_family;
      a.serial = 0;
      a.idx = 0;
      a.ttl = n->ai_ttl;
      a.port = 0;
      if (n->ai_family == AF_INET) {
        struct sockaddr_in *sa = (struct sockaddr_in *)n->ai_addr;
        uint32_t            ip = ntohl(sa->sin_addr.s_addr);
        a.port                 = ntohs(sa->sin_port);
        a.raw                  = fmt("%u.%u.%u.%u", ip >> 24, (ip >> 16) & 255, (ip >> 8) & 255, ip & 255);
        r += " a(" + a.raw + fmt(":%u,ttl=%d)", a.port, n->ai_ttl);
        if (marker_v4(ip, &a.serial, &a.idx) && first) t.markers.push_back(a.serial);
      } else if (n->ai_family == AF_INET6) {
        struct sockaddr_in6 *sa = (struct sockaddr_in6 *)n->ai_addr;
        const unsigned char *p  = (const unsigned char *)&sa->sin6_addr;
        a.port                  = ntohs(sa->sin6_port);
        a.raw                   = vf::hex(p, 16);
        r += " aaaa(" + a.raw + fmt(":%u,ttl=%d)", a.port, n->ai_ttl);
        if (marker_v6(p, &a.serial, &a.idx) && first) t.markers.push_back(a.serial);
      }
      if (first) {
        t.ttls.push_back((uint32_t)n->ai_ttl);
        t.addrs.push_back(a);
      }
    }
    ares_freeaddrinfo(ai);
  }
  complete(c, status, timeouts, r);
}
static void cb_host(void *arg, int status, int timeouts, struct hostent *h)
{
  CbCtx      *c = (CbCtx *)arg;
  std::string r;
  if (h) {
    Token &t = c->w->toks[(size_t)c->tok];
    bool   first = t.count == 0;
    r            = std::string("h_name=") + (h->h_name ? h->h_name : "-");
    if (first && h->h_name) t.names.push_back(std::string("name:") + h->h_name);
    for (char **a = h->h_aliases; a && *a; a++) {
      r += std::string(" alias=") + *a;
      if (first) t.names.push_back(std::string("alias:") + *a);
    }
    if (first && h->h_name && h->h_name[0] == 'p' && isdigit((unsigned char)h->h_name[1])) t.markers.push_back(atoi(h->h_name + 1));
    for (char **al = h->h_addr_list; al && *al; al++) {
      const unsigned char *p = (const unsigned char *)*al;
      Token::Addr          a;
      a.fam = h->h_addrtype;
      a.serial = 0;
      a.idx = 0;
      a.ttl = -1;
      a.port = 0;
      a.raw = vf::hex(p, (size_t)h->h_length);
      r += " addr=" + a.raw;
      if (h->h_addrtype == AF_INET) {
        uint32_t ip = (uint32_t)p[0] << 24 | (uint32_t)p[1] << 16 | (uint32_t)p[2] << 8 | p[3];
        a.raw       = fmt("%u.%u.%u.%u", p[0], p[1], p[2], p[3]);
        if (marker_v4(ip, &a.serial, &a.idx) && first) t.markers.push_back(a.serial);
      } else if (h->h_addrtype == AF_INET6) {
        if (marker_v6(p, &a.serial, &a.idx) && first) t.markers.push_back(a.serial);
      }
      if (first) t.addrs.push_back(a);
    }
  }
  complete(c, status, timeouts, r);
}
static void cb_nameinfo(void *arg, int status, int timeouts, char *node, char *service)
{
  CbCtx      *c = (CbCtx *)arg;
  std::string r = fmt("node=%s service=%s", node ? node : "-", service ? service : "-");
  if (node) {
    Token &t = c->w->toks[(size_t)c->tok];
    if (t.count == 0) t.names.push_back(std::string("name:") + node);
    if (t.count == 0 && node[0] == 'p' && isdigit((unsigned char)node[1])) t.markers.push_back(atoi(node + 1));
  }
  complete(c, status, timeouts, r);
}

// -------------------------------------------------------------- requests
int World::issue(int reqidx, bool from_cb)
{
  if (!ch || reqidx < 0 || reqidx >= (int)reqs->size()) return -1;
  const ReqSpec &r = (*reqs)[(size_t)reqidx];
  Token          t;
  t.id           = (int)toks.size();
  t.req          = reqidx;
  t.kind         = r.kind;
  t.issued_in_cb = from_cb;
  t.t_issue      = now_us;
  t.ev_issue     = cur_ev;
  t.seq_issue    = ++seq;
  t.tx_at_issue  = (int)txs.size();
  t.cbmode       = from_cb ? 0 : r.cbmode;
  t.cbarg        = r.cbarg;
  t.domains_at_issue = eff_domains;
  t.ndots_at_issue   = eff_ndots;
  toks.push_back(t);
  ctxs.push_back(std::make_unique<CbCtx>(CbCtx{ this, t.id }));
  CbCtx *c = ctxs.back().get();
  nreq++;
  log(fmt("req tok=%d kind=%d name=%s type=%d%s", t.id, r.kind, r.name.c_str(), r.qtype, from_cb ? " (from callback)" : ""));
  bool was_in = in_lib;
  in_lib      = true;
  int prev_issuing = issuing_tok;
  issuing_tok      = t.id;
  switch (r.kind) {
    case 0:
    case 4: {
      ares_dns_record_t *rec = nullptr;
      unsigned short     fl  = (unsigned short)((r.rd ? ARES_FLAG_RD : 0) | (r.cd ? ARES_FLAG_CD : 0));
      if (ares_dns_record_create(&rec, 0, fl, ARES_OPCODE_QUERY, ARES_RCODE_NOERROR) == ARES_SUCCESS &&
          ares_dns_record_query_add(rec, r.name.c_str(), (ares_dns_rec_type_t)r.qtype, (ares_dns_class_t)r.qclass) == ARES_SUCCESS) {
        if (r.kind == 0) ares_send_dnsrec(ch, rec, cb_dnsrec, c, nullptr);
        else ares_search_dnsrec(ch, rec, cb_dnsrec, c);
      } else {
        // the record could not even be built: complete the token ourselves so
        // the ledger stays meaningful (not a library request)
        toks[(size_t)c->tok].count  = 1;
        toks[(size_t)c->tok].status = -2;
        log("req not accepted by record builder");
      }
      ares_dns_record_destroy(rec);
      break;
    }
    case 10: {
      // hand-built record with compressible names: question + an authority NS record below the question's zone
      // and an additional A record for the name server (three names sharing suffixes)
      ares_dns_record_t *rec = nullptr;
      ares_dns_rr_t     *rr  = nullptr;
      bool               ok  = ares_dns_record_create(&rec, 0, ARES_FLAG_RD, ARES_OPCODE_QUERY, ARES_RCODE_NOERROR) == ARES_SUCCESS &&
                ares_dns_record_query_add(rec, r.name.c_str(), (ares_dns_rec_type_t)r.qtype, ARES_CLASS_IN) == ARES_SUCCESS;
      std::string zone = r.name.substr(r.name.find('.') + 1);
      if (ok) ok = ares_dns_record_rr_add(&rr, rec, ARES_SECTION_AUTHORITY, zone.c_str(), ARES_REC_TYPE_NS, ARES_CLASS_IN, 300) == ARES_SUCCESS &&
                   ares_dns_rr_set_str(rr, ARES_RR_NS_NSDNAME, ("ns1." + zone).c_str()) == ARES_SUCCESS;
      if (ok) ok = ares_dns_record_rr_add(&rr, rec, ARES_SECTION_ADDITIONAL, ("ns1." + zone).c_str(), ARES_REC_TYPE_A, ARES_CLASS_IN, 300) == ARES_SUCCESS;
      if (ok) {
        struct in_addr a;
        a.s_addr = htonl(0x0a000035);
        ok       = ares_dns_rr_set_addr(rr, ARES_RR_A_ADDR, &a) == ARES_SUCCESS;
      }
      if (ok) ares_send_dnsrec(ch, rec, cb_dnsrec, c, nullptr);
      else {
        toks[(size_t)c->tok].count  = 1;
        toks[(size_t)c->tok].status = -2;
      }
      ares_dns_record_destroy(rec);
      break;
    }
    case 1: {
      unsigned char *buf = nullptr;
      int            len = 0;
      if (ares_create_query(r.name.c_str(), r.qclass, r.qtype, 0, r.rd ? 1 : 0, &buf, &len, (cfg->flags & ARES_FLAG_EDNS) ? 1232 : 0) == ARES_SUCCESS) {
        ares_send(ch, buf, len, cb_legacy, c);
        ares_free_string(buf);
      } else {
        toks[(size_t)c->tok].count  = 1;
        toks[(size_t)c->tok].status = -2;
      }
      break;
    }
    case 2:
      ares_query_dnsrec(ch, r.name.c_str(), (ares_dns_class_t)r.qclass, (ares_dns_rec_type_t)r.qtype, cb_dnsrec, c, nullptr);
      break;
    case 3:
      ares_query(ch, r.name.c_str(), r.qclass, r.qtype, cb_legacy, c);
      break;
    case 5:
      ares_search(ch, r.name.c_str(), r.qclass, r.qtype, cb_legacy, c);
      break;
    case 6: {
      struct ares_addrinfo_hints h;
      memset(&h, 0, sizeof h);
      h.ai_family = r.family;
      h.ai_flags  = r.ai_flags;
      ares_getaddrinfo(ch, r.name.c_str(), r.service.empty() ? nullptr : r.service.c_str(), &h, cb_addrinfo, c);
      break;
    }
    case 7:
      ares_gethostbyname(ch, r.name.c_str(), r.family, cb_host, c);
      break;
    case 8: {
      unsigned char a[16];
      if (inet_pton(r.family, r.name.c_str(), a) == 1) ares_gethostbyaddr(ch, a, r.family == AF_INET ? 4 : 16, r.family, cb_host, c);
      else {
        toks[(size_t)c->tok].count  = 1;
        toks[(size_t)c->tok].status = -2;
      }
      break;
    }
    case 9: {
      struct sockaddr_storage ss;
      memset(&ss, 0, sizeof ss);
      socklen_t sl = 0;
      if (r.family == AF_INET) {
        struct sockaddr_in *s4 = (struct sockaddr_in *)&ss;
        s4->sin_family         = AF_INET;
        s4->sin_port           = htons(80);
        inet_pton(AF_INET, r.name.c_str(), &s4->sin_addr);
        sl = sizeof *s4;
      } else {
        struct sockaddr_in6 *s6 = (struct sockaddr_in6 *)&ss;
        s6->sin6_family         = AF_INET6;
        s6->sin6_port           = htons(80);
        inet_pton(AF_INET6, r.name.c_str(), &s6->sin6_addr);
        sl = sizeof *s6;
      }
      ares_getnameinfo(ch, (struct sockaddr *)&ss, sl, r.ai_flags ? r.ai_flags : (ARES_NI_LOOKUPHOST | ARES_NI_NUMERICSERV), cb_nameinfo, c);
      break;
    }
  }
  issuing_tok = prev_issuing;
  in_lib = was_in;
  toks[(size_t)c->tok].accepted = true;
  if (toks[(size_t)c->tok].count > 0 && toks[(size_t)c->tok].t_done == toks[(size_t)c->tok].t_issue && (int)txs.size() == toks[(size_t)c->tok].tx_at_issue)
    toks[(size_t)c->tok].completed_sync = true;
  return c->tok;
}

// ------------------------------------------------------------ application
bool World::readable(const VSock &s) const
{
  if (!s.open) return false;
  if (!s.tcp) return !s.inq.empty();
  return s.reset || s.peer_closed || s.inpos < s.instream.size();
}
bool World::writable(const VSock &s) const
{
  if (!s.open) return false;
  if (!s.tcp) return true;
  if (s.connect_pending) return false;
  return s.connected || s.tfo_connect;
}

std::vector<int> World::ready_fds(bool)
{
  std::vector<int> v;
  if (!ch) return v;
  if (cfg->sock_state_cb) {
    for (auto &s : socks) {
      int e = 0;
      if (s->ann_r && readable(*s)) e |= 1;
      if (s->ann_w && writable(*s)) e |= 2;
      if (e) {
        v.push_back(s->fd);
        v.push_back(e);
      }
    }
    return v;
  }
  // legacy application: asks the library what to watch
  fd_set r, wset;
  FD_ZERO(&r);
  FD_ZERO(&wset);
  bool rs[FD_SETSIZE], ws[FD_SETSIZE];
  memset(rs, 0, sizeof rs);
  memset(ws, 0, sizeof ws);
  if (cfg->use_getsock) {
    ares_socket_t sk[ARES_GETSOCK_MAXNUM];
    int           bits = ares_getsock(ch, sk, ARES_GETSOCK_MAXNUM);
    for (int i = 0; i < ARES_GETSOCK_MAXNUM; i++) {
      if (ARES_GETSOCK_READABLE(bits, i) && sk[i] >= 0 && sk[i] < FD_SETSIZE) rs[sk[i]] = true;
      if (ARES_GETSOCK_WRITABLE(bits, i) && sk[i] >= 0 && sk[i] < FD_SETSIZE) ws[sk[i]] = true;
    }
  } else {
    int nfds = ares_fds(ch, &r, &wset);
    for (int fd = 0; fd < nfds && fd < FD_SETSIZE; fd++) {
      rs[fd] = FD_ISSET(fd, &r);
      ws[fd] = FD_ISSET(fd, &wset);
    }
  }
  for (int fd = 0; fd < FD_SETSIZE; fd++) {
    if (!rs[fd] && !ws[fd]) continue;
    VSock *s = sock(fd);
    if (!s || !s->open) {
      violate("C10:fds:reports-closed-or-unknown-fd", fmt("ares_fds/ares_getsock reported descriptor %d which is not an open socket", fd));
      continue;
    }
    s->ever_announced = true;
    s->ann_r          = rs[fd];
    s->ann_w          = ws[fd];
    int e             = 0;
    if (rs[fd] && readable(*s)) e |= 1;
    if (ws[fd] && writable(*s)) e |= 2;
    if (e) {
      v.push_back(fd);
      v.push_back(e);
    }
  }
  return v;
}

void World::do_io(bool one)
{
  std::vector<int> rd = ready_fds(false);
  if (rd.empty() || !ch) return;
  // sockets about to be serviced for writability: what was on the wire before
  struct WSnap {
    int serial, send_calls;
  };
  std::vector<WSnap> wsnap;
  for (size_t i = 0; i + 1 < rd.size(); i += 2)
    if (rd[i + 1] & 2) {
      VSock *x = sock(rd[i]);
      if (x) wsnap.push_back({ x->created_seq, x->send_calls });
      if (one) break;
    }
  in_lib = true;
  if (cfg->sock_state_cb) {
    if (one) {
      log(fmt("process_fd(%d,%s%s)", rd[0], rd[1] & 1 ? "r" : "", rd[1] & 2 ? "w" : ""));
      ares_process_fd(ch, rd[1] & 1 ? rd[0] : ARES_SOCKET_BAD, rd[1] & 2 ? rd[0] : ARES_SOCKET_BAD);
    } else {
      std::vector<ares_fd_events_t> ev;
      std::string                   d;
      for (size_t i = 0; i < rd.size(); i += 2) {
        ares_fd_events_t e;
        e.fd     = rd[i];
        e.events = (rd[i + 1] & 1 ? ARES_FD_EVENT_READ : 0) | (rd[i + 1] & 2 ? ARES_FD_EVENT_WRITE : 0);
        ev.push_back(e);
        d += fmt(" %d:%s%s", rd[i], rd[i + 1] & 1 ? "r" : "", rd[i + 1] & 2 ? "w" : "");
      }
      log("process_fds" + d);
      ares_process_fds(ch, ev.data(), ev.size(), ARES_PROCESS_FLAG_NONE);
    }
  } else {
    fd_set r, wset;
    FD_ZERO(&r);
    FD_ZERO(&wset);
    std::string d;
    for (size_t i = 0; i < rd.size(); i += 2) {
      if (rd[i + 1] & 1) FD_SET(rd[i], &r);
      if (rd[i + 1] & 2) FD_SET(rd[i], &wset);
      d += fmt(" %d:%d", rd[i], rd[i + 1]);
      if (one) break;
    }
    log("process(legacy)" + d);
    ares_process(ch, &r, &wset);
  }
  in_lib = false;
  // C10: a write event that was serviced either makes the library send (successfully or not) or ends its interest in
  // writability. Interest that survives a service during which the library did not even attempt a send makes an event
  // loop spin on that socket.
  if (ch && !cfg->pending_write_cb) {
    (void)ready_fds(false); // legacy applications: refresh what the library asks to watch
    for (auto &ws : wsnap) {
      VSock *x = socks[(size_t)ws.serial].get();
      if (!x->open || !x->ann_w || !writable(*x)) continue;
      if (x->send_calls != ws.send_calls) continue;
      violate("C10:interest:write-kept-with-nothing-to-write",
              fmt("descriptor %d (%s) was serviced as writable, the library attempted no send, yet it still asks to be told when the descriptor is writable", x->fd, x->tcp ? "tcp" : "udp"));
    }
  }
}

bool World::timer_enabled()
{
  if (!ch) return false;
  struct timeval tv;
  return ares_timeout(ch, nullptr, &tv) != nullptr;
}

void World::do_timer()
{
  if (!ch) return;
  struct timeval tv, *p;
  p = ares_timeout(ch, nullptr, &tv);
  if (!p) return;
  int64_t d = (int64_t)p->tv_sec * 1000000 + p->tv_usec;
  if (d < 0) {
    violate("C07:hint:negative", fmt("ares_timeout returned a negative interval %lld us", (long long)d));
    d = 0;
  }
  // C07: processing one microsecond early must change nothing; processing at the hint must make progress
  size_t tx0 = txs.size();
  int    out0 = outstanding();
  if (d > 1) {
    now_us += d - 1;
    in_lib = true;
    ares_process_fds(ch, nullptr, 0, ARES_PROCESS_FLAG_NONE);
    in_lib = false;
    if (txs.size() != tx0 || outstanding() != out0)
      violate("C07:timer:fired-early", "processing one microsecond before the hinted instant already retried or completed a query");
    if (!ch) return;
    now_us += 1;
  } else
    now_us += d;
  log(fmt("timer +%lldus", (long long)d));
  size_t obs0 = obs.size();
  in_lib      = true;
  in_timer    = true;
  ares_process_fds(ch, nullptr, 0, ARES_PROCESS_FLAG_NONE);
  in_timer = false;
  in_lib   = false;
  if (txs.size() == tx0 && outstanding() == out0 && obs.size() == obs0)
    violate("C07:timer:no-progress", "processing at the hinted instant neither re-sent nor completed any query (no observable action)");
  W("timer_fired");
}

void World::do_setservers(int variant)
{
  if (!ch) return;
  std::string csv;
  switch (variant) {
    case 0: csv = servers_csv; break;                                // same list again
    case 1: csv = ""; break;                                         // no servers
    case 2: csv = cfg->nservers > 1 ? "10.0.0.2:53,10.0.0.1:53" : "10.0.0.2:53"; break; // swap / replace
    case 3: csv = "10.0.0.2:53"; break;                              // remove first
    case 4: csv = servers_csv + ",10.0.0.3:53"; break;               // add one
  }
  log(fmt("set_servers(%d,'%s')", variant, csv.c_str()));
  // reference view of the configured list: retained servers keep their health, removed ones are forgotten. The new
  // list is in force while the call runs (queries of removed servers are re-sent from inside it).
  int     old_order[8], old_n = cfg_norder, old_fail[8];
  int64_t old_last[8];
  memcpy(old_order, cfg_order, sizeof old_order);
  memcpy(old_fail, ref_fail, sizeof old_fail);
  memcpy(old_last, ref_last_fail_us, sizeof old_last);
  {
    bool kept[8] = { false };
    cfg_norder   = 0;
    size_t pos   = 0;
    while (pos < csv.size()) {
      size_t      e    = csv.find(',', pos);
      std::string item = csv.substr(pos, e == std::string::npos ? std::string::npos : e - pos);
      int         idx  = -1;
      if (item.compare(0, 7, "10.0.0.") == 0) idx = atoi(item.c_str() + 7) - 1;
      else if (item.compare(0, 9, "[fd00::2]") == 0) idx = 1;
      if (idx >= 0 && idx < 8 && !kept[idx]) {
        kept[idx]               = true;
        cfg_order[cfg_norder++] = idx;
      }
      if (e == std::string::npos) break;
      pos = e + 1;
    }
    if ((cfg->flags & ARES_FLAG_PRIMARY) && cfg_norder > 1) {
      // ARES_FLAG_PRIMARY: only the first server of the list is used
      for (int i = 1; i < cfg_norder; i++) kept[cfg_order[i]] = false;
      cfg_norder = 1;
    }
    for (int i = 0; i < 8; i++)
      if (!kept[i]) {
        ref_fail[i]         = 0;
        ref_last_fail_us[i] = 0;
      }
  }
  bool was_in_lib = in_lib; // the call may come from inside a completion callback
  in_lib          = true;
  int rc = ares_set_servers_ports_csv(ch, csv.c_str());
  in_lib = was_in_lib;
  log(fmt("set_servers -> %d", rc));
  if (rc != ARES_SUCCESS) {
    memcpy(cfg_order, old_order, sizeof old_order);
    cfg_norder = old_n;
    memcpy(ref_fail, old_fail, sizeof old_fail);
    memcpy(ref_last_fail_us, old_last, sizeof old_last);
  }
  if ((variant != 0 && variant != 2) || (variant == 2 && cfg->nservers == 1)) flush_evs.push_back(cur_ev); // membership changed (0: same list, 2 with >1 servers: pure re-ordering)
  setservers_variant = variant;
}

std::vector<int> World::answerable_txs() const
{
  std::vector<int> v;
  for (auto &t : txs) {
    if (t.answered) continue;
    const VSock *s = nullptr;
    s = const_cast<World *>(this)->sock_of(t);
    if (!s || !s->open || !t.q.ok || t.q.q.empty()) continue;
    if (s->tcp && (s->peer_closed || s->reset)) continue;
    v.push_back(t.id);
  }
  return v;
}

Bytes World::build_reply(const Transmission &tx, int kind, Packet &pk)
{
  vdns::Reply r;
  r.id = tx.q.id;
  r.q  = tx.q.q;
  r.rd = (tx.q.flags & 0x0100) != 0;
  r.opt = tx.q.has_opt;
  const vdns::Question &qq = tx.q.q[0];
  auto                  owner = qq.labels;
  uint32_t              m = (uint32_t)pk.serial;
  pk.qname_lc               = vdns::lower(vdns::name_text(qq.labels));
  pk.qtype                  = qq.qtype;
  auto add_data = [&](uint32_t ttl, unsigned type, std::vector<std::string> own) {
    vdns::Reply::RR rr;
    rr.owner = own;
    rr.type  = type;
    rr.cls   = qq.qclass;
    rr.ttl   = ttl;
    int ridx = (int)pk.rrs.size();
    switch (type) {
      case vdns::T_A: rr.rdata = vdns::rdata_a(0x0a090000u + ((uint32_t)ridx << 16) | (m & 0xffff)); break;
      case vdns::T_AAAA:
        rr.rdata     = vdns::rdata_aaaa(m);
        rr.rdata[11] = (unsigned char)ridx;
        break;
      case vdns::T_PTR: rr.rdata = vdns::rdata_name(vdns::labels_of("p" + std::to_string(m) + ".example")); break;
      case vdns::T_TXT: rr.rdata = vdns::rdata_txt("pk" + std::to_string(m)); break;
      default: rr.rdata = vdns::rdata_txt("pk" + std::to_string(m)); rr.type = vdns::T_TXT; break;
    }
    r.an.push_back(rr);
    pk.rrs.push_back({ (int)rr.type, (int)rr.cls, ridx, ttl });
    pk.carries_data = true;
    pk.ttl          = ttl;
  };
  auto soa = [&](uint32_t ttl, uint32_t minimum) {
    vdns::Reply::RR rr;
    rr.owner = vdns::labels_of("example");
    rr.type  = vdns::T_SOA;
    rr.cls   = 1;
    rr.ttl   = ttl;
    rr.rdata = vdns::rdata_soa(minimum, m);
    r.ns.push_back(rr);
    pk.has_soa = true;
    pk.ttl     = ttl < minimum ? ttl : minimum;
  };
  Bytes ck_ok = tx.q.client_cookie;
  Bytes s1    = { 'S', 'R', 'V', 'C', 'O', 'O', 'K', '1' }, s2 = { 'S', 'R', 'V', 'C', 'O', 'O', 'K', '2' };
  switch (kind) {
    case RK_DATA: add_data(100, qq.qtype, owner); break;
    case RK_DATA_TTL5: add_data(5, qq.qtype, owner); break;
    case RK_DATA_TTL0: add_data(0, qq.qtype, owner); break;
    case RK_NODATA: soa(60, 30); break;
    case RK_NODATA_NOSOA: break;
    case RK_NXDOMAIN:
      r.rcode = vdns::RC_NXDOMAIN;
      soa(60, 30);
      break;
    case RK_NXDOMAIN_NOSOA: r.rcode = vdns::RC_NXDOMAIN; break;
    case RK_SERVFAIL: r.rcode = vdns::RC_SERVFAIL; break;
    case RK_REFUSED: r.rcode = vdns::RC_REFUSED; break;
    case RK_NOTIMP: r.rcode = vdns::RC_NOTIMP; break;
    case RK_FORMERR_NOOPT:
      r.rcode = vdns::RC_FORMERR;
      r.opt   = false;
      break;
    case RK_FORMERR_OPT: r.rcode = vdns::RC_FORMERR; break;
    case RK_TC:
      r.tc = true;
      add_data(100, qq.qtype, owner); // a truncated answer usually still carries what fitted: gives it a provenance marker
      break;
    case RK_CK_NONE: add_data(100, qq.qtype, owner); break;
    case RK_CK_VALID:
      add_data(100, qq.qtype, owner);
      if (tx.q.has_cookie) {
        r.cookie = ck_ok;
        r.cookie.insert(r.cookie.end(), s1.begin(), s1.end());
      }
      break;
    case RK_CK_VALID2:
      add_data(100, qq.qtype, owner);
      if (tx.q.has_cookie) {
        r.cookie = ck_ok;
        r.cookie.insert(r.cookie.end(), s2.begin(), s2.end());
      }
      break;
    case RK_CK_WRONGCLIENT:
      add_data(100, qq.qtype, owner);
      if (tx.q.has_cookie) {
        r.cookie = ck_ok;
        r.cookie[0] ^= 0xff;
        r.cookie.insert(r.cookie.end(), s1.begin(), s1.end());
      }
      break;
    case RK_BADCOOKIE:
      r.rcode = vdns::RC_BADCOOKIE;
      if (tx.q.has_cookie) {
        r.cookie = ck_ok;
        r.cookie.insert(r.cookie.end(), s2.begin(), s2.end());
      }
      break;
    case RK_BADCOOKIE_BARE: r.rcode = vdns::RC_BADCOOKIE; break;
    case RK_CNAME_DATA: {
      vdns::Reply::RR cn;
      cn.owner = owner;
      cn.type  = vdns::T_CNAME;
      cn.cls   = qq.qclass;
      cn.ttl   = 40;
      auto tgt = vdns::labels_of("alias.example.net");
      cn.rdata = vdns::rdata_name(tgt);
      r.an.push_back(cn);
      add_data(100, qq.qtype, tgt);
      break;
    }
    case RK_DATA_MIXED: {
      add_data(100, vdns::T_A, owner);
      add_data(100, vdns::T_AAAA, owner);
      vdns::Reply::RR x;
      x.owner = owner;
      x.type  = vdns::T_TXT;
      x.cls   = 3; // CHAOS class, unrelated
      x.ttl   = 100;
      x.rdata = vdns::rdata_txt("unrelated");
      r.an.push_back(x);
      break;
    }
    case RK_DATA_MULTI:
      add_data(100, qq.qtype, owner);
      add_data(50, qq.qtype, owner);
      add_data(7, qq.qtype, owner);
      pk.ttl = 7;
      break;
    case RK_NOTAUTH:
      r.rcode = 9;
      add_data(100, qq.qtype, owner);
      break;
    case RK_DATA_SOA:
      soa(10, 5);
      add_data(100, qq.qtype, owner); // the entry lives as long as its answer records; the SOA's TTL runs out first
      break;
    default: break;
  }
  pk.rcode  = (int)r.rcode;
  pk.tc     = r.tc;
  pk.qclass = qq.qclass;
  pk.rd     = r.rd;
  pk.cd     = (tx.q.flags & 0x0010) != 0;
  if (kind == RK_MALFORMED) {
    Bytes b = r.encode();
    b.resize(b.size() > 14 ? 14 : b.size());
    b.push_back(0xc0);
    b.push_back(0xff);
    return b;
  }
  if (kind == RK_EMPTY) return Bytes();
  return r.encode();
}

void World::inject(int txid, int kind, bool forged, int mutation)
{
  if (txid < 0 || txid >= (int)txs.size()) return;
  Transmission &tx = txs[(size_t)txid];
  VSock        *s  = sock_of(tx);
  if (!s || !s->open) return;
  Packet pk;
  pk.serial     = (int)packets.size() + 1;
  pk.forged     = forged;
  pk.for_tx     = txid;
  pk.kind       = kind;
  pk.src_server = tx.server;
  Transmission use = tx;
  if (forged) {
    switch (mutation) {
      case FG_WRONGID: use.q.id ^= 0x5555; break;
      case FG_WRONGNAME:
        if (!use.q.q.empty() && !use.q.q[0].labels.empty()) use.q.q[0].labels[0] += "x";
        break;
      case FG_WRONGTYPE:
        if (!use.q.q.empty()) use.q.q[0].qtype = use.q.q[0].qtype == vdns::T_A ? vdns::T_AAAA : vdns::T_A;
        break;
      case FG_WRONGCLASS:
        if (!use.q.q.empty()) use.q.q[0].qclass = 3;
        break;
      case FG_CASEFLIP:
        if (!use.q.q.empty())
          for (auto &l : use.q.q[0].labels) {
            bool done = false;
            for (auto &c : l)
              if (isalpha((unsigned char)c)) {
                c ^= 0x20;
                done = true;
                break;
              }
            if (done) break;
          }
        break;
      case FG_WRONGSRC:
      case FG_WRONGSRC_FRAMED: pk.src_server = -1; break;
      case FG_OTHERSOCK: {
        VSock *o = nullptr;
        for (auto &x : socks)
          if (x->open && !x->tcp && x->fd != tx.fd) o = x.get();
        if (!o) return;
        s = o;
        break;
      }
      case FG_NOCOOKIE: break;
      case FG_BADCLIENTCOOKIE: break;
      case FG_NOCOOKIE_TC: break;
    }
  }
  int rk = kind;
  if (forged && (mutation == FG_NOCOOKIE || mutation == FG_NOCOOKIE_TC)) rk = RK_CK_NONE;
  if (forged && mutation == FG_BADCLIENTCOOKIE) rk = RK_CK_WRONGCLIENT;
  pk.data = build_reply(use, rk, pk);
  if (forged && mutation == FG_NOCOOKIE_TC && pk.data.size() > 3) {
    // the cookie-less forgery marked truncated: with ARES_FLAG_IGNTC a truncated UDP answer is delivered as it is
    pk.data[2] |= 0x02;
    pk.tc = true;
  }
  if (forged && mutation == FG_WRONGSRC_FRAMED) {
    // a datagram from a foreign address whose payload is a TCP-style frame: two length octets, then a response that
    // would match the query
    Bytes framed;
    framed.push_back((unsigned char)(pk.data.size() >> 8));
    framed.push_back((unsigned char)(pk.data.size() & 0xff));
    framed.insert(framed.end(), pk.data.begin(), pk.data.end());
    pk.data = framed;
  }
  if (!forged) tx.answered++;
  else tx.forged++;
  pk.on_fd    = s->fd;
  pk.t_inject = now_us;
  log(fmt("inject pkt#%d %s tx#%d %s -> fd %d", pk.serial, forged ? "FORGED" : "reply", txid, forged ? fg_names[mutation] : rk_names[kind], s->fd));
  if (s->tcp) {
    s->instream.push_back((unsigned char)(pk.data.size() >> 8));
    s->instream.push_back((unsigned char)(pk.data.size() & 0xff));
    s->instream.insert(s->instream.end(), pk.data.begin(), pk.data.end());
    s->tcp_pkts.push_back({ s->instream.size(), pk.serial });
  } else
    s->inq.push_back(pk);
  packets.push_back(pk);
}

void World::apply(const Ev &e)
{
  pol_in.assign(e.pol, e.pol + e.npol);
  pol_pos = 0;
  draws.clear();
  cur_ev++;
  log("ev " + ev_json(e));
  switch (e.k) {
    case EV_REQ: issue(e.a, false); break;
    case EV_REPLY:
      inject(e.a, e.b, false, 0);
      if (cfg->auto_io) do_io(false);
      break;
    case EV_FORGE:
      inject(e.a, RK_DATA, true, e.b);
      nforge++;
      deviations++;
      break;
    case EV_IO: do_io(e.a == 1); break;
    case EV_TIMER: do_timer(); break;
    case EV_ADVANCE: now_us += (int64_t)e.a * 1000; break;
    case EV_PROCESS0:
      if (ch) {
        in_lib = true;
        ares_process_fds(ch, nullptr, 0, ARES_PROCESS_FLAG_NONE);
        in_lib = false;
      }
      break;
    case EV_CANCEL:
      if (ch) {
        std::vector<int> pending;
        for (auto &t : toks)
          if (t.count == 0) pending.push_back(t.id);
        in_lib    = true;
        in_cancel = true;
        ares_cancel(ch);
        in_cancel = false;
        in_lib    = false;
        for (int id : pending)
          if (toks[(size_t)id].count == 0) violate("C01:token:not-completed-by-cancel", fmt("token %d had no callback when ares_cancel returned", id));
      }
      break;
    case EV_DESTROY: do_destroy(); break;
    case EV_SETSERVERS: do_setservers(e.a); break;
    case EV_REINIT:
      if (ch) {
        // variants (only meaningful when the search configuration comes from the file): 1 = the file cannot be read
        // while this reinit runs (it must leave the configuration alone and must not block later reinits), 2 = the file
        // now holds another search list and ndots
        static const std::vector<std::string> alt = { "alt.test" };
        if (cfg->sysconf_search && e.a == 1) vfs_unreadable().insert("/vfs/resolv.conf");
        if (cfg->sysconf_search && e.a == 2) vfs()["/vfs/resolv.conf"] = resolv_text(alt, 2);
        in_lib = true;
        int rc = ares_reinit(ch);
        in_lib = false;
        log(fmt("reinit(variant %d) -> %d", e.a, rc));
        vfs_unreadable().clear();
        if (cfg->sysconf_search && e.a == 2 && rc == ARES_SUCCESS) {
          eff_domains = alt;
          eff_ndots   = 2;
          W("c12_reinit_changed_search_list");
        }
        flush_evs.push_back(cur_ev);
      }
      break;
    case EV_TCP: {
      VSock *s = sock(e.a);
      if (s && s->open && s->tcp) {
        if (e.b == 0 && s->connect_pending) {
          s->connect_pending = false;
          s->connected       = true;
        } else if (e.b == 1)
          s->peer_closed = true;
        else if (e.b == 2)
          s->reset = true;
      }
      break;
    }
    case EV_FAULT:
      if (e.a >= 0 && e.a < FS_NSITES) {
        fault[e.a]++;
        fault_skip[e.a] = e.b; // the fault hits the (b+1)-th call of that site from now
      }
      deviations++;
      break;
    case EV_SRCADDR: src_variant = e.a; break;
    case EV_WRITECB:
      if (ch) {
        pending_write_notified = false;
        in_lib                 = true;
        ares_process_pending_write(ch);
        in_lib = false;
      }
      break;
  }
  pol_in.clear();
  if (cfg->eager_io && ch && !destroyed)
    for (int k = 0; k < 6 && (!ready_fds(false).empty() || (cfg->pending_write_cb && pending_write_notified)); k++) {
      // an eager application also reacts to the pending-write announcement before anything else happens
      if (cfg->pending_write_cb && pending_write_notified && e.k != EV_WRITECB && e.k != EV_FAULT) {
        pending_write_notified = false;
        in_lib                 = true;
        ares_process_pending_write(ch);
        in_lib = false;
      }
      if (!ready_fds(false).empty()) do_io(false);
    }
  // a decision snapshot taken at a pending-write announcement is only good within the event that took it
  pw_valid = false;
}

void World::closure()
{
  // faults that were armed but never hit are disarmed: the servers and the OS go quiet
  for (int i = 0; i < FS_NSITES; i++) fault[i] = 0;
  in_closure = true;
  int guard = 0;
  int limit = (cfg->nservers * cfg->tries + 12) * ((int)toks.size() + 2) * 4 + 64;
  while (ch && guard++ < limit) {
    if (pending_write_notified) {
      pending_write_notified = false;
      in_lib                 = true;
      ares_process_pending_write(ch);
      in_lib = false;
      continue;
    }
    // pending connects complete (the network is not broken, the servers are just silent)
    bool any = false;
    for (auto &s : socks)
      if (s->open && s->connect_pending) {
        s->connect_pending = false;
        s->connected       = true;
        any                = true;
      }
    if (!ready_fds(false).empty()) {
      size_t o0 = obs.size();
      do_io(false);
      check_invariants();
      if (obs.size() == o0 + 1 && !any) {
        // the library did nothing observable with a ready descriptor: avoid spinning on a level-triggered event
        bool progressed = false;
        (void)progressed;
      }
      continue;
    }
    if (timer_enabled()) {
      do_timer();
      check_invariants();
      continue;
    }
    break;
  }
  if (guard >= limit) violate("C06:closure:does-not-terminate", fmt("with all servers silent the channel was still retrying after %d timer/io rounds", limit));
  for (auto &t : toks)
    if (t.count == 0 && !destroyed && ch) {
      // nothing left to fire and still outstanding: the request can only end at destroy
      violate("C07:liveness:request-stuck", fmt("token %d (req %d) is outstanding but the library offers no timeout hint and no watched descriptor is ready", t.id, t.req));
      break;
    }
  do_destroy();
  for (auto &t : toks)
    if (t.count != 1) violate(t.count == 0 ? "C01:token:never-completed" : "C01:token:double-callback", fmt("token %d (req %d kind %d) completed %d times over the whole life of the channel", t.id, t.req, t.kind, t.count));
}

std::string World::obs_hash() const
{
  uint64_t h = 1469598103934665603ULL;
  for (auto &s : obs) h = vf::fnv64(s.data(), s.size(), h) * 31 + 7;
  char b[32];
  snprintf(b, sizeof b, "%016llx", (unsigned long long)h);
  return b;
}

void World::check_invariants()
{
  for (auto &t : toks)
    if (t.count > 1) violate("C01:token:double-callback", fmt("token %d completed %d times", t.id, t.count));
  if (!ch || destroyed) return;
  // ---- C07: the hint
  {
    int64_t dl_first = 0, dl_min = 0;
    int     nq = peek_deadlines(ch, now_us, &dl_first, &dl_min);
    struct timeval tv, mx, *p;
    p = ares_timeout(ch, nullptr, &tv);
    if (nq > 0) {
      if (!p) violate("C07:hint:none-with-queries-outstanding", "ares_timeout(NULL max) returned no interval although queries with deadlines are outstanding");
      else {
        int64_t d = (int64_t)p->tv_sec * 1000000 + p->tv_usec;
        if (p->tv_sec < 0 || p->tv_usec < 0 || d < 0) violate("C07:hint:negative", fmt("hint %lld us", (long long)d));
        if (d > dl_min) violate("C07:hint:later-than-earliest-deadline", fmt("hint %lld us but the earliest pending deadline is in %lld us", (long long)d, (long long)dl_min));
        // independent of the library's own bookkeeping: no attempt may wait longer than the configured maximum, so
        // while a query is outstanding its deadline - and with it the hint - is never further away than that
        if (cfg->maxtimeout_ms > 0 && d > (int64_t)cfg->maxtimeout_ms * 1000)
          violate("C07:hint:later-than-configured-maximum", fmt("hint %lld us while a query is outstanding, but no attempt may wait longer than the configured maximum of %d ms", (long long)d, cfg->maxtimeout_ms));
        W("hint_checked");
      }
      static const int64_t maxes[] = { 0, 1000, 10000000 };
      for (int64_t m : maxes) {
        mx.tv_sec  = (time_t)(m / 1000000);
        mx.tv_usec = (suseconds_t)(m % 1000000);
        p          = ares_timeout(ch, &mx, &tv);
        if (!p) {
          violate("C07:hint:null-with-max", "ares_timeout returned NULL although a maximum was supplied");
          continue;
        }
        int64_t d = (int64_t)p->tv_sec * 1000000 + p->tv_usec;
        if (d < 0) violate("C07:hint:negative", fmt("hint %lld us with max %lld", (long long)d, (long long)m));
        if (d > m) violate("C07:hint:exceeds-caller-max", fmt("hint %lld us exceeds the caller's maximum %lld us", (long long)d, (long long)m));
        if (d > dl_min) violate("C07:hint:later-than-earliest-deadline", fmt("hint %lld us (max %lld) but earliest deadline in %lld us", (long long)d, (long long)m, (long long)dl_min));
      }
    }
  }
  // ---- C10: interest sets at return to the application
  {
    PeekConn pc[64];
    int      n = peek_conns(ch, pc, 64);
    fd_set   r, wset;
    int      nfds = 0;
    bool     legacy = !cfg->sock_state_cb;
    if (legacy) {
      FD_ZERO(&r);
      FD_ZERO(&wset);
      nfds = ares_fds(ch, &r, &wset);
      for (int fd = 0; fd < nfds; fd++)
        if (FD_ISSET(fd, &r) || FD_ISSET(fd, &wset)) {
          VSock *s = sock(fd);
          if (!s || !s->open) violate("C10:fds:reports-closed-or-unknown-fd", fmt("ares_fds reported descriptor %d which is not an open socket", fd));
        }
    }
    for (int i = 0; i < n; i++) {
      VSock *s = sock(pc[i].fd);
      if (!s || !s->open) {
        violate("C10:conn:references-closed-fd", fmt("the channel still holds descriptor %d which is closed", pc[i].fd));
        continue;
      }
      // an established TCP connection the channel keeps matters even when idle: only by watching it does the
      // application learn that the server closed it
      bool want_r = pc[i].nqueries > 0 || (pc[i].tcp && s->connected);
      // unsent bytes need a write event whatever the transport: a datagram the kernel refused for now (would-block) waits
      // in the connection's buffer just like the rest of a TCP frame
      bool want_w = (pc[i].tcp ? (pc[i].out_len > 0 || s->connect_pending) : pc[i].out_len > 0) && pc[i].nqueries > 0;
      if (pc[i].tfo_initial) continue; // nothing announced before the first fast-open write (documented)
      bool ar = legacy ? (pc[i].fd < nfds && FD_ISSET(pc[i].fd, &r)) : s->ann_r;
      bool aw = legacy ? (pc[i].fd < nfds && FD_ISSET(pc[i].fd, &wset)) : s->ann_w;
      if (want_r && !ar)
        violate("C10:interest:read-not-announced", pc[i].nqueries > 0 ? fmt("descriptor %d carries %d outstanding queries but the application was not told to watch it for reading", pc[i].fd, pc[i].nqueries)
                                                                      : fmt("the channel keeps the idle TCP connection on descriptor %d open but the application was not told to watch it for reading", pc[i].fd));
      if (want_r && pc[i].nqueries == 0) W("idle_tcp_connection_watched");
      if (want_w && !aw && !(cfg->pending_write_cb && pending_write_notified))
        violate("C10:interest:write-not-announced", fmt("%s descriptor %d has %d unsent bytes / unfinished connect but write interest was not announced", pc[i].tcp ? "TCP" : "UDP", pc[i].fd, pc[i].out_len));
      if (want_w) W("write_interest_needed");
    }
    if (legacy) {
      // every reported descriptor must be an open socket known to the channel
      for (int fd = 0; fd < nfds; fd++) {
        if (!FD_ISSET(fd, &r) && !FD_ISSET(fd, &wset)) continue;
        bool known = false;
        for (int i = 0; i < n; i++)
          if (pc[i].fd == fd) known = true;
        if (!known) violate("C10:fds:reports-fd-not-held", fmt("ares_fds reported descriptor %d the channel does not hold", fd));
      }
    }
  }
}

} // namespace exa

// ---------------------------------------------------------------------------
// libc interposition (the library archive is linked statically into the
// harness executable, so these definitions win over libc's)
// ---------------------------------------------------------------------------
extern "C" {

typedef FILE *(*fopen_t)(const char *, const char *);
FILE *fopen(const char *path, const char *mode)
{
  static fopen_t real = (fopen_t)dlsym(RTLD_NEXT, "fopen");
  if (path && (strncmp(path, "/vfs/", 5) == 0 || strncmp(path, "/etc/", 5) == 0)) {
    auto &m  = exa::vfs();
    auto  it = m.find(path);
    if (it == m.end()) {
      errno = ENOENT;
      return nullptr;
    }
    if (exa::vfs_unreadable().count(path)) {
      errno = EIO;
      return nullptr;
    }
    if (it->second.empty()) return fmemopen((void *)"", 0, "r") ?: real("/dev/null", "r");
    return fmemopen((void *)it->second.data(), it->second.size(), "r");
  }
  return real(path, mode);
}

typedef int (*stat_t)(const char *, struct stat *);
int stat(const char *path, struct stat *st)
{
  static stat_t real = (stat_t)dlsym(RTLD_NEXT, "stat");
  if (path && (strncmp(path, "/vfs/", 5) == 0 || strncmp(path, "/etc/", 5) == 0)) {
    auto &m  = exa::vfs();
    auto  it = m.find(path);
    if (it == m.end()) {
      errno = ENOENT;
      return -1;
    }
    memset(st, 0, sizeof *st);
    st->st_mode  = S_IFREG | 0644;
    st->st_size  = (off_t)it->second.size();
    st->st_mtime = 1000;
    return 0;
  }
  return real(path, st);
}

time_t time(time_t *t)
{
  time_t v;
  if (exa::g_world) v = (time_t)(exa::g_world->now_us / 1000000);
  else {
    struct timespec ts;
    clock_gettime(CLOCK_REALTIME, &ts);
    v = ts.tv_sec;
  }
  if (t) *t = v;
  return v;
}

int gethostname(char *name, size_t len)
{
  snprintf(name, len, "vhost");
  return 0;
}
}

// ---------------------------------------------------------------------------
// canonical state key
// ---------------------------------------------------------------------------
namespace exa {
std::string World::state_key()
{
  std::string      s;
  std::map<int, int> fdmap;
  for (auto &x : socks)
    if (x->open) {
      int o        = (int)fdmap.size();
      fdmap[x->fd] = o;
    }
  // packet serial (provenance marker) ordinals: order of first appearance below
  std::map<int, int> pko;
  auto               pk = [&](int serial) {
    auto it = pko.find(serial);
    if (it != pko.end()) return it->second;
    int o       = (int)pko.size();
    pko[serial] = o;
    return o;
  };
  // query id ordinals: order of first appearance among answerable transmissions
  std::map<unsigned, int> qo;
  if (ch) {
    unsigned ids[256];
    int      n = peek_qids(ch, ids, 256);
    for (int i = 0; i < n; i++) qo[ids[i]] = i;
  }
  auto qid = [&](unsigned id) {
    auto it = qo.find(id);
    return it != qo.end() ? it->second : -1; // -1: transmission of a query that no longer exists
  };
  char b[512];
  // the absolute clock is part of the state: metric buckets (1 min .. 1 day) are aligned to absolute time, so two
  // states that differ only in "now" do not have the same future (found by the de-duplication audit)
  snprintf(b, sizeof b, "W now=%lld destroyed=%d src=%d pw=%d dev=%d nreq=%d faults=", (long long)now_us, (int)destroyed, src_variant, (int)pending_write_notified, deviations, nreq);
  s += b;
  for (int i = 0; i < FS_NSITES; i++) s += std::to_string(fault[i]) + (fault[i] ? "+" + std::to_string(fault_skip[i]) : "");
  // harness-side expectations that decide the future: the search configuration the reference currently assumes and the
  // content of the configuration file a later reinit would read
  s += " ndots=" + std::to_string(eff_ndots) + " doms=";
  for (auto &d : eff_domains) s += d + ",";
  {
    auto it = vfs().find("/vfs/resolv.conf");
    if (it != vfs().end()) {
      snprintf(b, sizeof b, " conf=%llx", (unsigned long long)vf::fnv64((const unsigned char *)it->second.data(), it->second.size()));
      s += b;
    }
  }
  s += "\n";
  for (auto &x : socks) {
    if (!x->open) continue;
    snprintf(b, sizeof b, "S%d %s srv=%d conn=%d pend=%d tfo=%d/%d ann=%d%d ea=%d st=%d pc=%d rst=%d ntx=%d in=%zu inq=", fdmap[x->fd], x->tcp ? "tcp" : "udp", x->server,
             (int)x->connected, (int)x->connect_pending, (int)x->tfo_ok, (int)x->tfo_connect, (int)x->ann_r, (int)x->ann_w, (int)x->ever_announced, (int)x->stopped,
             (int)x->peer_closed, (int)x->reset, cfg->udp_max_queries ? x->ntx : 0, x->instream.size() - x->inpos);
    s += b;
    for (auto &p : x->inq) {
      snprintf(b, sizeof b, "(%d,%d,%d,src%d,pk%d)", p.kind, (int)p.forged, (int)p.data.size(), p.src_server, pk(p.serial));
      s += b;
    }
    if (x->tcp && x->inpos < x->instream.size()) {
      snprintf(b, sizeof b, " h=%llx", (unsigned long long)vf::fnv64(x->instream.data() + x->inpos, x->instream.size() - x->inpos));
      s += b;
    }
    snprintf(b, sizeof b, " outpend=%zu\n", x->outstream.size() - x->outparsed);
    s += b;
  }
  for (auto &t : txs) {
    if (t.answered) continue;
    auto it = fdmap.find(t.fd);
    if (it == fdmap.end() || !t.q.ok || t.q.q.empty()) continue;
    snprintf(b, sizeof b, "T fd=%d q=%d %s/%d opt=%d ck=%d/%zu forged=%d\n", it->second, qid(t.q.id), vdns::name_text(t.q.q[0].labels).c_str(), t.q.q[0].qtype,
             (int)t.q.has_opt, (int)t.q.has_cookie, t.q.server_cookie.size(), t.forged);
    s += b;
  }
  for (auto &t : toks) {
    // results mention provenance markers; canonicalise them through the delivered marker list
    std::string res = t.result;
    snprintf(b, sizeof b, "K req=%d n=%d st=%d to=%d cb=%d/%d mk=", t.req, t.count, t.status, t.timeouts, t.cbmode, t.cbarg);
    s += b;
    for (int m : t.markers) s += std::to_string(pk(m)) + ",";
    s += " ttl=";
    for (auto v : t.ttls) s += std::to_string(v) + ",";
    s += "\n";
  }
  // Multi-step requests (search, getaddrinfo, gethostby*, getnameinfo) keep private progress state (candidate index,
  // no-data counters, partial results) that no header exposes. That state is a function of the sub-query outcomes seen
  // since the request was issued, so the log of those outcomes goes into the key (found by the de-duplication audit).
  {
    long oldest = -1;
    int  oldest_tx = 0;
    for (auto &t : toks)
      if (t.count == 0 && t.kind >= 4 && (oldest < 0 || t.seq_issue < oldest)) {
        oldest    = t.seq_issue;
        oldest_tx = t.tx_at_issue;
      }
    if (oldest >= 0) {
      s += "L:";
      for (size_t i = (size_t)oldest_tx; i < txs.size(); i++) {
        const Transmission &x = txs[i];
        int                 oc = -1;
        for (auto &p : packets)
          if (p.for_tx == x.id && p.seq_read >= 0) oc = p.kind * 2 + (p.forged ? 1 : 0);
        snprintf(b, sizeof b, "(%s/%d,%s,%d,%d)", x.q.q.empty() ? "-" : vdns::lower(vdns::name_text(x.q.q[0].labels)).c_str(), x.q.q.empty() ? 0 : x.q.q[0].qtype, x.tcp ? "t" : "u",
                 (int)x.in_timer, oc);
        s += b;
      }
      s += "\n";
    }
  }
  if (ch) s += peek_state(ch, now_us, fdmap);
  // what the public callbacks revealed about server health is part of the observable state for C09's reference
  return s;
}
} // namespace exa
