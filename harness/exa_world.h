// EX-A virtual world: clock, random tape, sockets, name servers, application
// model, ledgers.  One World = one execution of a history against a fresh
// c-ares channel.  Everything c-ares can observe comes from here.
#pragma once
#include "common.h"
#include "exa_dns.h"
#include <array>
#include <deque>
#include <memory>
#include <functional>
#include <sys/socket.h>
#include <netinet/in.h>
#include <arpa/inet.h>
#include <netdb.h>
#include <errno.h>

extern "C" {
#include "ares.h"
#include "ares_dns_record.h"
#include "ares_verif_hooks.h"
}

namespace exa {

using vdns::Bytes;

// ------------------------------------------------------------- configuration
struct ReqSpec {
  // kind: 0 send_dnsrec 1 ares_send 2 query_dnsrec 3 ares_query 4 search_dnsrec
  //       5 ares_search 6 getaddrinfo 7 gethostbyname 8 gethostbyaddr 9 getnameinfo
  int         kind = 2;
  std::string name = "www.example.com";
  int         qtype = 1, qclass = 1;
  int         family = AF_INET; // gai/ghbn family; ghba/gni address family
  int         ai_flags = 0;
  std::string service;
  int         cbmode = 0; // 0 none, 1 start request cbarg, 2 ares_cancel
  int         cbarg = 0;
  bool        rd = true, cd = false; // send_dnsrec flags
};

struct Cfg {
  std::string name;
  std::string sys_resolv; // content of the system configuration file when the search settings come from OPTIONS: whatever it says about search/ndots must lose
  bool        sysconf_search = false; // search domains and ndots come from the system configuration file (not from options), so ares_reinit() can change them
  bool        reuse_fds = false; // hand out the lowest free descriptor number like POSIX does (default: numbers are never reused)
  // events {kind,a,b} applied before the search starts: the search then explores from a non-initial state (they are
  // part of every history and of every replay, but do not count against the depth and per-kind budgets)
  std::vector<std::array<int, 3>> preamble;
  int         depth_cut = 0; // explored to (family depth - depth_cut): for scripted starts that already lie deep
  int         nservers = 1;
  int         tries = 2;
  int         timeout_ms = 2000;
  int         maxtimeout_ms = 0;
  unsigned    flags = 0; // ARES_FLAG_*; ARES_OPT_FLAGS always passed
  bool        rotate = false;
  int         udp_max_queries = 0;
  int         qcache_max_ttl = 0; // 0 = disabled (option still passed)
  std::string lookups = "b";
  int         ndots = 1;
  std::vector<std::string> domains;
  bool        set_failover = true;
  int         retry_chance = 0, retry_delay = 5000;
  bool        sock_state_cb = true; // false: legacy ares_fds()/ares_process() application
  bool        use_getsock = false;  // legacy variant with ares_getsock
  bool        tfo = false;          // setsockopt(TCP_FASTOPEN) succeeds
  int         connect_mode = 0;     // 0: TCP connect() succeeds at once, 1: EINPROGRESS, later tcp-connected event
  bool        pending_write_cb = false;
  std::string hosts;     // hosts file content ("" = none)
  std::string env_hosts; // content of a second hosts file named by $CARES_HOSTS ("" = variable unset); used by requests with ARES_AI_ENVHOSTS
  std::string sortlist;  // ares_set_sortlist string
  std::string hostaliases; // HOSTALIASES file content
  bool        local_bind = false;
  bool        no_getsockname = false; // the application's socket functions have no agetsockname (it is optional): the local address is unknown to the library
  bool        socket_cbs = false;   // the application installs ares_set_socket_configure_callback() and ares_set_socket_callback() (either may reject a socket)
  int         ednspsz = 0;
  bool        whole_second_clock = false;
  int         tcp_read_chunk = 0;   // >0: every TCP read returns at most this many bytes
  int         tcp_write_chunk = 0;  // >0: every TCP send accepts at most this many bytes
  bool        server6 = false;      // second server is IPv6
  bool        eager_io = false;     // the application services ready descriptors after EVERY event (not only after replies)
  bool        auto_io = false;      // the application services the descriptor right after each reply is queued (reply+io is one event)
};

// ------------------------------------------------------------------- events
enum EvKind {
  EV_REQ = 0,   // a = request table index
  EV_REPLY,     // a = transmission id, b = reply kind
  EV_IO,        // service all watched+ready descriptors   (a=1: one at a time, lowest fd first)
  EV_TIMER,     // clock := now + ares_timeout(); process
  EV_ADVANCE,   // a = milliseconds; clock += a (no processing)
  EV_CANCEL,
  EV_DESTROY,   // terminal
  EV_SETSERVERS,// a = variant
  EV_REINIT,
  EV_TCP,       // a = fd, b = 0 connected / 1 peer close / 2 reset
  EV_FAULT,     // a = site, b = mode ; arms the next call of that site
  EV_FORGE,     // a = transmission id, b = mutation
  EV_SRCADDR,   // a = variant: local address reported by getsockname changes
  EV_PROCESS0,  // ares_process_fds(NULL,0) without moving the clock
  EV_WRITECB,   // application reacts to pending-write notification: ares_process_pending_write()
  EV_NKINDS
};
static const char *ev_names[] = { "req", "reply", "io", "timer", "advance", "cancel", "destroy", "setservers", "reinit",
                                  "tcp", "fault", "forge", "srcaddr", "process0", "writecb" };

struct Ev {
  unsigned char k = 0;
  unsigned char npol = 0;
  unsigned char pol[4] = { 0, 0, 0, 0 }; // answers to policy random draws made inside this event
  int           a = 0, b = 0;
  bool          operator==(const Ev &o) const { return k == o.k && a == o.a && b == o.b && npol == o.npol && memcmp(pol, o.pol, 4) == 0; }
};
inline Ev mk(int k, int a = 0, int b = 0)
{
  Ev e;
  e.k = (unsigned char)k;
  e.a = a;
  e.b = b;
  return e;
}
typedef std::vector<Ev> History;

inline std::string ev_json(const Ev &e)
{
  std::string s = "[\"" + std::string(ev_names[e.k]) + "\"," + std::to_string(e.a) + "," + std::to_string(e.b);
  for (int i = 0; i < e.npol; i++) s += "," + std::to_string((int)e.pol[i]);
  return s + "]";
}
inline std::string hist_json(const History &h)
{
  std::string s = "[";
  for (size_t i = 0; i < h.size(); i++) s += (i ? "," : "") + ev_json(h[i]);
  return s + "]";
}
bool hist_parse(const std::string &json, History &out); // exa_world.cc

// reply kinds
enum RK {
  RK_DATA = 0,    // NOERROR + answer(s) of the asked type, ttl 100
  RK_DATA_TTL5,   // same, ttl 5
  RK_DATA_TTL0,   // same, ttl 0
  RK_NODATA,      // NOERROR, no answers, SOA minimum 30 / ttl 60
  RK_NODATA_NOSOA,
  RK_NXDOMAIN,    // with SOA
  RK_NXDOMAIN_NOSOA,
  RK_SERVFAIL,
  RK_REFUSED,
  RK_NOTIMP,
  RK_FORMERR_NOOPT,
  RK_FORMERR_OPT,
  RK_TC,
  RK_MALFORMED,
  RK_EMPTY, // zero-length datagram
  // cookie behaviours (success answers unless stated)
  RK_CK_NONE,         // answer, OPT without cookie
  RK_CK_VALID,        // answer, client cookie echoed + server cookie S1
  RK_CK_VALID2,       // answer, client cookie echoed + different server cookie S2
  RK_CK_WRONGCLIENT,  // answer, client part altered
  RK_BADCOOKIE,       // rcode BADCOOKIE + valid client part + server cookie
  RK_BADCOOKIE_BARE,  // rcode BADCOOKIE without cookie option
  RK_CNAME_DATA,      // CNAME chain then data
  RK_DATA_MIXED,      // answer carries both A and AAAA + unrelated RR
  RK_DATA_MULTI,      // three records of the asked type with ttls 100,50,7
  RK_DATA_SOA,        // one record of the asked type, ttl 100, plus an authority SOA with ttl 10 (a TTL shorter than the entry's lifetime)
  RK_NOTAUTH,         // rcode 9 (an error rcode beyond the classic 0..5) carrying one record of the asked type, ttl 100
  RK_NKINDS
};
extern const char *rk_names[];

enum Forge { FG_WRONGID = 0, FG_WRONGNAME, FG_WRONGTYPE, FG_WRONGCLASS, FG_CASEFLIP, FG_WRONGSRC, FG_OTHERSOCK, FG_NOCOOKIE, FG_BADCLIENTCOOKIE, FG_WRONGSRC_FRAMED, FG_NOCOOKIE_TC, FG_NKINDS };
extern const char *fg_names[];

enum FaultSite { FS_SOCKET = 0, FS_SETSOCKOPT, FS_BIND, FS_CONNECT, FS_GETSOCKNAME, FS_SEND_REFUSED, FS_SEND_WOULDBLOCK, FS_SEND_SHORT, FS_RECV_RESET, FS_SEND_EINTR, FS_RECV_EINTR, FS_SEND_ENOBUFS, FS_SOCKET_EAGAIN, FS_SOCKCFGCB, FS_SOCKCB, FS_NSITES };
extern const char *fs_names[];

// ------------------------------------------------------------------ records
struct Packet {
  int         serial = 0;
  bool        forged = false;
  int         for_tx = -1;
  int         kind = 0;
  int         src_server = -1; // -1: foreign address
  Bytes       data;
  uint32_t    ttl = 0;       // smallest TTL among the answer RRs (negative answers: min(SOA ttl, SOA minimum))
  bool        carries_data = false;
  int         on_fd = -1;    // descriptor it was queued on
  int64_t     t_inject = 0;
  int64_t     t_accept = -1; // virtual time at which its content first reached a callback
  int         ev_accept = -1;
  int64_t     t_read = -1;   // virtual time at which the library read it from the socket
  int         ev_read = -1;
  long        seq_read = -1; // global order stamp (shared with transmissions and completions)
  int         rcode = 0;
  bool        tc = false, has_soa = false;
  uint16_t    qclass = 1;
  bool        rd = true, cd = false;
  struct RRInfo {
    int      type, cls, idx; // idx: position among the marker-carrying RRs of this packet
    uint32_t ttl;
  };
  std::vector<RRInfo> rrs; // answer RRs that carry address/name data, in answer order
  std::string         cname_target;
  std::string qname_lc; int qtype = 0;
};

struct Transmission {
  int         id = 0, fd = -1, server = -1;
  bool        tcp = false;
  Bytes       msg;
  vdns::Query q;
  int64_t     t_us = 0;
  int         answered = 0, forged = 0;
  int         token_hint = -1;
  int         ev_index = -1;   // index of the event during which it was sent (-1: closure)
  bool        in_timer = false; // sent while the application was processing a timer expiry
  bool        in_closure = false;
  int         src_variant = 0;     // local address variant of the socket it was sent from
  int         rot_draws = 0, rot_last = -1; // number of rotation draws the library had made when this went out, and the latest value
  int         sock_serial = -1; // which socket object (index into World::socks) it was sent on; descriptor numbers may be reused
  long        seq = 0;
  bool        batched = false;  // TCP frame flushed together with earlier frames in one send(): queued at an unknown earlier moment
  long        decision_seq = 0; // when the server for this transmission was chosen (TCP: when the connection was opened)
  int         ref_fail[8] = { 0 }; // reference health table (from the public server-state callbacks) at send time
  int         order[8] = { 0 }, norder = 0; // configured servers in configuration order when the destination was decided
  int64_t     last_fail_us[8] = { 0 };
};

struct VSock {
  int  fd = -1, family = 0;
  bool tcp = false, open = true, connected = false, connect_pending = false, connect_called = false;
  bool tfo_ok = false, tfo_connect = false;
  int  server = -1;
  bool ann_r = false, ann_w = false, ever_announced = false, stopped = false;
  std::deque<Packet> inq; // UDP datagrams
  Bytes              instream;
  size_t             inpos = 0;
  bool               peer_closed = false, reset = false;
  Bytes              outstream;
  size_t             outparsed = 0;
  int                ntx = 0, nclose = 0;
  int                send_calls = 0; // every sendto() the library attempted on it, whatever the outcome
  int                created_seq = 0;
  int64_t            out_blocked = 0;
  int                local_variant = 0; // local address the socket was bound to at connect() time
  long               connect_seq = 0;
  bool               conn_fail_logged = false;
  int                ref_fail_at_connect[8] = { 0 };
  int                order_at_connect[8] = { 0 }, norder_at_connect = 0;
  int64_t            last_fail_at_connect[8] = { 0 };
  std::vector<std::pair<size_t, int>> tcp_pkts; // (end offset in instream, packet serial) // FS_SEND_WOULDBLOCK happened and nothing was written since
};

struct Token {
  int         id = 0, req = -1, kind = 0, count = 0, status = -1, timeouts = -1;
  std::string result;      // canonical dump of what was delivered
  std::vector<int> markers; // packet serials the delivered data came from
  int              neg_marker = 0; // SOA serial of a delivered negative answer (packet serial)
  struct Addr {
    int fam, serial, idx, ttl, port;
    std::string raw;
  };
  std::vector<Addr>        addrs;  // addresses delivered (getaddrinfo / hostent), in result order
  std::vector<std::string> names;  // names delivered (canonical name, aliases, PTR targets)
  std::vector<uint32_t> ttls;
  bool        issued_in_cb = false, completed_sync = false;
  bool        accepted = false; // the entry point that issued it has returned
  int64_t     t_issue = 0, t_done = 0;
  int         ev_issue = -1, ev_done = -1;
  long        seq_issue = 0, seq_done = -1;
  int         tx_at_issue = 0, tx_at_done = 0; // transmission counter snapshots
  bool        done_during_destroy = false;
  int         cbmode = 0, cbarg = 0;
  std::vector<std::string> domains_at_issue; // search configuration in force when the request was issued
  int                      ndots_at_issue = 1;
};

struct Viol {
  std::string key, desc;
};

struct World;
struct CbCtx {
  World *w;
  int    tok;
};

// ------------------------------------------------------------------- world
struct World {
  const Cfg                  *cfg = nullptr;
  const std::vector<ReqSpec> *reqs = nullptr;
  ares_channel_t             *ch = nullptr;
  bool                        destroyed = false, in_destroy = false, in_cancel = false, in_lib = false;
  int64_t                     now_us = 1000000000001LL; // 1 000 000.000001 s
  uint64_t                    nonce = 0;
  std::vector<int>            pol_in;   // policy answers for the running event
  size_t                      pol_pos = 0;
  struct Draw {
    int purpose, menu, given;
  };
  std::vector<Draw>           draws; // policy draws requested during the running event
  std::vector<std::unique_ptr<VSock>> socks;
  std::vector<Transmission>           txs;
  std::vector<Packet>                 packets; // every packet ever injected (by serial)
  std::vector<Token>                  toks;
  std::vector<std::unique_ptr<CbCtx>> ctxs;
  std::vector<std::string>            obs; // observation log
  std::vector<Viol>                   viols;
  int         fault[FS_NSITES] = { 0 };
  std::vector<std::string> eff_domains; // search configuration currently in force (changes with a successful reinit when it comes from the file)
  int                      eff_ndots = 1;
  int         issuing_tok = -1; // the request whose entry point is executing right now (its first transmissions happen inside it)
  int         rot_draws = 0, rot_last = -1;
  int         fault_skip[FS_NSITES] = { 0 }; // calls of that site that still succeed before the armed fault fires
  int         next_fd = 10;
  int         src_variant = 0;
  bool        pending_write_notified = false;
  int         deviations = 0, nreq = 0, nforge = 0;
  std::vector<std::pair<std::string, int>> server_state; // (server string, success)
  int         ref_fail[8] = { 0 };
  int         cfg_order[8] = { 0 }, cfg_norder = 0; // current server list (indices k of 10.0.0.(k+1)) in configuration order
  int64_t     ref_last_fail_us[8] = { 0 };
  std::vector<std::string> sockstate_log;
  int         cur_ev = -1;
  long        seq = 0; // global order stamp
  bool        in_timer = false, in_closure = false;
  uint64_t         fail_at = 0;  // C14: 1-based index of the allocation (counted from channel set-up) that fails; 0 = none
  std::vector<int> write_plan; // C20: bytes each successive TCP send() accepts (0 = would-block); exhausted => accept everything
  size_t           write_pos = 0;
  struct NetFail {
    long seq;
    int  server, fd;
  };
  // deferred-write mode: the state of the reference tables when the library announced pending data (= when the frame's
  // server was decided); consumed by the first frame flushed afterwards
  long    last_close_seq = 0;
  bool    pw_valid = false;
  int     pw_tx = -1;
  long    pw_seq = 0;
  int     pw_ref_fail[8] = { 0 }, pw_order[8] = { 0 }, pw_norder = 0;
  int64_t pw_last_fail[8] = { 0 };
  std::vector<NetFail> net_fails; // injected socket failures the library must count against a server (-1: server unknown)
  std::vector<int> flush_evs; // event indexes of reinit / server membership changes (the cache must be empty after each)
  bool        nested_cb = false;
  int         cb_depth = 0;
  int         setservers_variant = -1; // last applied
  std::string servers_csv;
  std::string leak_sites; // allocation sites of leaked blocks (only when the ledger traces)
  // counters for witnesses
  std::map<std::string, uint64_t> wit;

  explicit World(const Cfg *c, const std::vector<ReqSpec> *r) : cfg(c), reqs(r) {}
  ~World();

  void log(const std::string &s) { obs.push_back(s); }
  void violate(const std::string &key, const std::string &desc)
  {
    for (auto &v : viols)
      if (v.key == key) return;
    viols.push_back({ key, desc });
  }
  void W(const char *w) { wit[w]++; }

  // life cycle
  bool init();           // library init + channel init + servers; false on (unexpected) failure
  void teardown();       // destroy if needed + library cleanup + ledger check
  void apply(const Ev &e);
  void closure();        // silence + timers until quiescent + destroy + end-of-life oracles

  // helpers used by events
  int  issue(int reqidx, bool from_cb);
  void do_io(bool one_at_a_time);
  bool timer_enabled();
  void do_timer();
  void do_destroy();
  void do_setservers(int variant);
  // the socket currently (or, if none is open, most recently) known under this descriptor number
  VSock *sock(int fd)
  {
    VSock *last = nullptr;
    for (auto &s : socks)
      if (s->fd == fd) {
        if (s->open) return s.get();
        last = s.get();
      }
    return last;
  }
  VSock *sock_of(const Transmission &t) { return t.sock_serial >= 0 && t.sock_serial < (int)socks.size() ? socks[(size_t)t.sock_serial].get() : sock(t.fd); }
  bool readable(const VSock &s) const;
  bool writable(const VSock &s) const;
  std::vector<int> ready_fds(bool legacy_sets);
  void inject(int txid, int kind, bool forged, int mutation);
  Bytes build_reply(const Transmission &tx, int kind, Packet &pk);
  void on_tcp_output(VSock &s);
  void record_tx(VSock &s, const Bytes &msg);
  int  outstanding() const
  {
    int n = 0;
    for (auto &t : toks)
      if (t.count == 0) n++;
    return n;
  }
  // enabled-event enumeration support
  std::vector<int> answerable_txs() const;
  // invariants evaluated after every event (by oracle group)
  void check_invariants();
  // canonical state key (exa_key.cc)
  std::string state_key();
  std::string obs_hash() const;
};

extern World *g_world; // the world hooks talk to (single-threaded engine)

void install_hooks();

} // namespace exa
