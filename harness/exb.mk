# EX-B: preemption-bounded schedule explorer. The scheduler core is compiled WITHOUT sanitizers (raw futex
# hand-off must stay invisible to ThreadSanitizer); the glue/driver TU and the library are instrumented.
EXB_HDRS := $(HSRC)/common.h $(HSRC)/exa_dns.h $(HSRC)/exb_sched.h
$(B)/plain/h/exb_sched.o: $(HSRC)/exb_sched.c $(HSRC)/exb_sched.h
	@mkdir -p $(dir $@)
	@$(CC) -O1 -g -fno-omit-frame-pointer -I$(HSRC) -c $< -o $@
$(B)/tsan/h/exb_main.o: $(HSRC)/exb_main.cc $(EXB_HDRS) $(CFG)/ares_config.h
	@mkdir -p $(dir $@)
	@$(HXX_TSAN) -I$(REPO)/src/lib/include -c $< -o $@
$(B)/asan/h/exb_main.o: $(HSRC)/exb_main.cc $(EXB_HDRS) $(CFG)/ares_config.h
	@mkdir -p $(dir $@)
	@$(HXX_ASAN) -I$(REPO)/src/lib/include -c $< -o $@
$(BIN)/exb_tsan: $(B)/tsan/h/exb_main.o $(B)/plain/h/exb_sched.o $(B)/tsan/libcares.a | $(BIN)
	@$(CXX) $(TSANF) -o $@ $(B)/tsan/h/exb_main.o $(B)/plain/h/exb_sched.o $(B)/tsan/libcares.a -ldl -lpthread
$(BIN)/exb_asan: $(B)/asan/h/exb_main.o $(B)/plain/h/exb_sched.o $(B)/asan/libcares.a | $(BIN)
	@$(CXX) $(ASANF) -o $@ $(B)/asan/h/exb_main.o $(B)/plain/h/exb_sched.o $(B)/asan/libcares.a -ldl -lpthread
