// EX-B: preemption-bounded exhaustive schedule exploration of the real
// threads of a c-ares channel with its event thread, under the cooperative
// scheduler of exb_sched.c.  Built in two flavours: tsan (data races reported
// by ThreadSanitizer on every explored schedule) and asan.
//
//   exb <group> --tier quick|thorough --shard i/n --out f.json --deadline s [--bound k] [--replay f]
//   groups: "c11" (concurrency programs), "c07" (event-thread timer liveness programs)
#include "common.h"
#include "exa_dns.h"
#include "exb_sched.h"
#include <atomic>
#include <functional>
#include <pthread.h>
#include <poll.h>
#include <sys/epoll.h>
#include <sys/select.h>
#include <sys/socket.h>
#include <sys/mman.h>
#include <sys/wait.h>
#include <sys/inotify.h>
#include <sys/syscall.h>
#include <netinet/in.h>
#include <arpa/inet.h>
#include <fcntl.h>
#include <dlfcn.h>
#include <errno.h>
#include <stdarg.h>

extern "C" {
#include "ares.h"
#include "ares_dns_record.h"
#include "ares_verif_hooks.h"
void exb_set_trace_buffer(struct exb_trace *t);
}

#if defined(__has_feature)
#  if __has_feature(thread_sanitizer)
#    define EXB_TSAN 1
#  endif
#endif
#ifdef EXB_TSAN
extern "C" void __tsan_acquire(void *addr);
extern "C" void __tsan_release(void *addr);
#  define TSAN_ACQ(a) __tsan_acquire(a)
#  define TSAN_REL(a) __tsan_release(a)
#  define NO_TSAN __attribute__((no_sanitize("thread")))
#else
#  define TSAN_ACQ(a) ((void)0)
#  define TSAN_REL(a) ((void)0)
#  define NO_TSAN
#endif

static bool g_active = false; // scheduler installed (child process running a program)

static std::string fmt(const char *f, ...)
{
  char    b[1024];
  va_list ap;
  va_start(ap, f);
  vsnprintf(b, sizeof b, f, ap);
  va_end(ap);
  return b;
}

// ------------------------------------------------------------------ results
struct Shared { // lives in shared memory between explorer (parent) and one execution (child)
  struct exb_trace trace;
  int              finished;      // program ran to its end
  int              nviol;
  char             vkey[8][160];
  char             vdesc[8][400];
  int64_t          end_us;
  int              ntokens, ncompleted;
  uint64_t         sig;           // outcome signature
  char             log[8192];
  int              loglen;
};
static Shared *S;

NO_TSAN static void viol(const std::string &key, const std::string &desc)
{
  for (int i = 0; i < S->nviol; i++)
    if (key == S->vkey[i]) return;
  if (S->nviol >= 8) return;
  snprintf(S->vkey[S->nviol], sizeof S->vkey[0], "%s", key.c_str());
  snprintf(S->vdesc[S->nviol], sizeof S->vdesc[0], "%s", desc.c_str());
  S->nviol++;
}
NO_TSAN static void slog(const std::string &s)
{
  int n = snprintf(S->log + S->loglen, sizeof S->log - (size_t)S->loglen, "[T%d %lld] %s\n", exb_self(), (long long)(exb_now_us() / 1000), s.c_str());
  if (n > 0 && S->loglen + n < (int)sizeof S->log) S->loglen += n;
}

// ---------------------------------------------------------- allocator ledger
// Not protected by a lock on purpose (a lock would give ThreadSanitizer happens-before edges between all
// threads); threads are serialised by the scheduler, and these functions are not instrumented.
#define LEDGER_CAP (1u << 16)
struct LSlot {
  void  *p;
  size_t n;
};
static LSlot  g_led[LEDGER_CAP];
static size_t g_led_live = 0, g_led_bytes = 0;
static bool   g_led_on   = false;
NO_TSAN static void led_add(void *p, size_t n)
{
  size_t h = ((uintptr_t)p >> 4) & (LEDGER_CAP - 1);
  for (size_t k = 0; k < LEDGER_CAP; k++, h = (h + 1) & (LEDGER_CAP - 1))
    if (g_led[h].p == nullptr || g_led[h].p == (void *)1) {
      g_led[h].p = p;
      g_led[h].n = n;
      g_led_live++;
      g_led_bytes += n;
      return;
    }
}
NO_TSAN static void led_del(void *p)
{
  size_t h = ((uintptr_t)p >> 4) & (LEDGER_CAP - 1);
  for (size_t k = 0; k < LEDGER_CAP && g_led[h].p != nullptr; k++, h = (h + 1) & (LEDGER_CAP - 1))
    if (g_led[h].p == p) {
      g_led[h].p = (void *)1; // tombstone
      g_led_live--;
      g_led_bytes -= g_led[h].n;
      return;
    }
}
NO_TSAN static void *m_malloc(size_t n)
{
  void *p = malloc(n ? n : 1);
  if (p && g_led_on) led_add(p, n);
  return p;
}
NO_TSAN static void m_free(void *p)
{
  if (!p) return;
  if (g_led_on) led_del(p);
  free(p);
}
NO_TSAN static void *m_realloc(void *p, size_t n)
{
  if (!p) return m_malloc(n);
  void *q = realloc(p, n ? n : 1);
  if (q && g_led_on) {
    led_del(p);
    led_add(q, n);
  }
  return q;
}

// -------------------------------------------------------------------- hooks
static void h_tvnow(long long *sec, unsigned int *usec)
{
  int64_t t = exb_now_us();
  *sec      = t / 1000000;
  *usec     = (unsigned int)(t % 1000000);
}
static std::atomic<uint64_t> g_nonce{ 0 };
static void                  h_rand(int purpose, unsigned char *buf, size_t len)
{
  memset(buf, 0, len);
  uint64_t n = g_nonce.fetch_add(1, std::memory_order_relaxed);
  if (purpose == ARES_VERIF_RAND_QID) {
    unsigned short id = (unsigned short)(0x2001 + (n & 0x3fff));
    memcpy(buf, &id, len < 2 ? len : 2);
  } else if (purpose == ARES_VERIF_RAND_COOKIE || purpose == ARES_VERIF_RAND_SLIST || purpose == ARES_VERIF_RAND_UNTAGGED) {
    uint64_t x = (n + 1) * 0x9e3779b97f4a7c15ULL;
    for (size_t i = 0; i < len; i++) buf[i] = (unsigned char)(x >> ((i & 7) * 8));
  } else if (purpose == ARES_VERIF_RAND_PROBE) {
    unsigned short r = 1;
    memcpy(buf, &r, len < 2 ? len : 2);
  }
}
static int h_seed(unsigned int *seed)
{
  *seed = 0x00c0ffee;
  return 1;
}
static int h_lock(void *m)
{
  exb_mutex_lock(m);
  TSAN_ACQ(m);
  return 1;
}
static int h_unlock(void *m)
{
  TSAN_REL(m);
  exb_mutex_unlock(m);
  return 1;
}
static int h_signal(void *c)
{
  TSAN_REL(c);
  exb_cond_signal(c, 0);
  return 1;
}
static int h_broadcast(void *c)
{
  TSAN_REL(c);
  exb_cond_signal(c, 1);
  return 1;
}
static int h_condwait(void *c, void *m, size_t timeout_ms, int *timedout)
{
  TSAN_REL(m);
  int to = exb_cond_wait(c, m, timeout_ms == (size_t)-1 ? -1 : (int64_t)timeout_ms);
  TSAN_ACQ(m);
  if (!to) TSAN_ACQ(c);
  *timedout = to;
  return 1;
}
struct TInfo {
  void *(*f)(void *);
  void     *arg;
  int       slot;
  pthread_t pt;
};
static void *trampoline(void *p)
{
  TInfo *ti = (TInfo *)p;
  exb_thread_enter(ti->slot);
  void *rv = ti->f(ti->arg);
  exb_thread_exit();
  return rv;
}
static std::atomic<int> g_threads_created{ 0 }, g_threads_joined{ 0 };
static int              h_create(void *(*func)(void *), void *arg, void **handle)
{
  TInfo *ti = new TInfo{ func, arg, exb_thread_reserve(), {} };
  if (pthread_create(&ti->pt, nullptr, trampoline, ti) != 0) {
    viol("HARNESS:pthread_create", "pthread_create failed");
    return 0;
  }
  g_threads_created++;
  *handle = ti;
  exb_yield(EXB_P_CREATE);
  return 1;
}
static int h_join(void *handle, void **rv)
{
  TInfo *ti = (TInfo *)handle;
  exb_thread_join(ti->slot);
  void *r = nullptr;
  pthread_join(ti->pt, &r);
  g_threads_joined++;
  if (rv) *rv = r;
  delete ti;
  return 1;
}
static void install_hooks()
{
  ares_verif_hooks.tvnow          = h_tvnow;
  ares_verif_hooks.rand_bytes     = h_rand;
  ares_verif_hooks.htable_seed    = h_seed;
  ares_verif_hooks.mutex_lock     = h_lock;
  ares_verif_hooks.mutex_unlock   = h_unlock;
  ares_verif_hooks.cond_signal    = h_signal;
  ares_verif_hooks.cond_broadcast = h_broadcast;
  ares_verif_hooks.cond_wait      = h_condwait;
  ares_verif_hooks.thread_create  = h_create;
  ares_verif_hooks.thread_join    = h_join;
}

// ------------------------------------------------ interposed blocking waits
extern "C" {
int epoll_wait(int epfd, struct epoll_event *events, int maxevents, int timeout)
{
  if (!g_active || exb_self() < 0) return (int)syscall(SYS_epoll_pwait, epfd, events, maxevents, timeout, NULL, 0);
  exb_wait_epoll(epfd, timeout);
  return exb_raw_epoll(epfd, events, maxevents);
}
int poll(struct pollfd *fds, nfds_t nfds, int timeout)
{
  if (!g_active || exb_self() < 0) {
    struct timespec ts = { timeout / 1000, (timeout % 1000) * 1000000L };
    return (int)syscall(SYS_ppoll, fds, nfds, timeout < 0 ? NULL : &ts, NULL, 0);
  }
  exb_wait_poll(fds, nfds, timeout);
  return exb_raw_poll(fds, nfds);
}
int select(int nfds, fd_set *r, fd_set *w, fd_set *e, struct timeval *tv)
{
  if (!g_active || exb_self() < 0) {
    struct timespec ts;
    if (tv) {
      ts.tv_sec  = tv->tv_sec;
      ts.tv_nsec = tv->tv_usec * 1000;
    }
    return (int)syscall(SYS_pselect6, nfds, r, w, e, tv ? &ts : NULL, NULL);
  }
  int64_t ms = tv ? (int64_t)tv->tv_sec * 1000 + (tv->tv_usec + 999) / 1000 : -1;
  exb_wait_select(nfds, r, w, e, ms);
  return exb_raw_select(nfds, r, w, e);
}
// configuration change notifications: a pipe the harness can write fake inotify events into
static int g_inotify_wr = -1;
int        inotify_init1(int)
{
  int fds[2];
  if (pipe2(fds, O_NONBLOCK | O_CLOEXEC) != 0) return -1;
  g_inotify_wr = fds[1];
  return fds[0];
}
int inotify_add_watch(int, const char *, uint32_t) { return 1; }
// system configuration: a virtual /etc/resolv.conf only (the channel's own settings come from options)
typedef FILE *(*fopen_t)(const char *, const char *);
FILE *fopen(const char *path, const char *mode)
{
  static fopen_t real = (fopen_t)dlsym(RTLD_NEXT, "fopen");
  if (path && strcmp(path, "/etc/resolv.conf") == 0) {
    // a small system configuration, so that a reload (ares_reinit, configuration-change event) really parses something
    // on the reload thread while other threads use the channel
    static const char conf[] = "nameserver 10.0.0.1\nnameserver 10.0.0.2\nsearch sys.example\noptions ndots:2 timeout:1 attempts:2\n";
    return fmemopen((void *)conf, sizeof conf - 1, "r");
  }
  if (path && strncmp(path, "/etc/", 5) == 0) {
    errno = ENOENT;
    return nullptr;
  }
  return real(path, mode);
}
int gethostname(char *name, size_t len)
{
  snprintf(name, len, "vhost");
  return 0;
}
}

// ----------------------------------------------------------- virtual sockets
struct VS {
  int  fd = -1, peer = -1, server = -1;
  bool tcp = false, open = false;
  int  nclose = 0;
};
static VS  g_socks[64];
static int g_nsocks = 0;
static int g_reply_mode[4]; // per server: 0 silent, 1 answer at once, 2 answer SERVFAIL at once
static std::atomic<int> g_fail_send[4]; // per server: the next send towards it fails with ECONNRESET (counted down)
static std::atomic<int> g_tx{ 0 };

NO_TSAN static VS *vs_of(int fd)
{
  for (int i = 0; i < g_nsocks; i++)
    if (g_socks[i].fd == fd) return &g_socks[i];
  return nullptr;
}
static ares_socket_t s_socket(int, int type, int, void *)
{
  int fds[2];
  // raw system call, like the close: descriptor numbers are reused and ThreadSanitizer's descriptor tracking would report
  // the event thread's (harmless, ENOENT) epoll_ctl(DEL) for the previous owner of a number against this creation
  if (exb_raw_socketpair(AF_UNIX, (type == SOCK_STREAM ? SOCK_STREAM : SOCK_DGRAM) | SOCK_NONBLOCK | SOCK_CLOEXEC, 0, fds) != 0) return ARES_SOCKET_BAD;
  if (g_nsocks >= 64) {
    viol("HARNESS:sockets", "too many sockets");
    return ARES_SOCKET_BAD;
  }
  VS &s  = g_socks[g_nsocks++];
  s.fd   = fds[0];
  s.peer = fds[1];
  s.tcp  = type == SOCK_STREAM;
  s.open = true;
  return fds[0];
}
static int s_close(ares_socket_t fd, void *)
{
  VS *s = vs_of(fd);
  if (!s || !s->open) {
    viol("C11:sock:double-or-unknown-close", fmt("close(%d) of a descriptor that is not open", fd));
    return -1;
  }
  s->open = false;
  s->nclose++;
  // closed with raw system calls: ThreadSanitizer also tracks descriptors, and by design the library closes a socket
  // right after queueing its removal for the event thread, whose later epoll_ctl(DEL) on that (closed, possibly reused)
  // number is answered ENOENT by the kernel - an ordering between kernel objects, not a data race of the program
  exb_raw_close(s->fd);
  exb_raw_close(s->peer);
  s->fd = -1000 - fd; // never matches again (the OS may reuse the number)
  return 0;
}
static int s_setsockopt(ares_socket_t, ares_socket_opt_t opt, const void *, ares_socklen_t, void *)
{
  if (opt == ARES_SOCKET_OPT_TCP_FASTOPEN) {
    errno = ENOSYS;
    return -1;
  }
  return 0;
}
static bool g_tcp_blackhole = false; // TCP connects never complete (the handshake is never answered)
static int s_connect(ares_socket_t fd, const struct sockaddr *sa, ares_socklen_t, unsigned int, void *)
{
  VS *s = vs_of(fd);
  if (!s) return -1;
  uint32_t ip = ntohl(((const struct sockaddr_in *)sa)->sin_addr.s_addr);
  s->server   = (int)(ip - 0x0a000001u);
  if (g_tcp_blackhole && s->tcp) {
    // the descriptor never becomes writable: its send buffer is filled and the peer never reads
    static char junk[4096];
    while (exb_raw_write(fd, junk, sizeof junk) > 0) {
    }
    errno = EINPROGRESS;
    return -1;
  }
  return 0;
}
static ares_ssize_t s_recvfrom(ares_socket_t fd, void *buf, size_t len, int, struct sockaddr *addr, ares_socklen_t *alen, void *)
{
  VS *s = vs_of(fd);
  if (!s || !s->open) {
    errno = EBADF;
    return -1;
  }
  ssize_t n = exb_raw_read(fd, buf, len);
  if (n < 0) {
    errno = EWOULDBLOCK;
    return -1;
  }
  if (addr && alen && *alen >= sizeof(struct sockaddr_in)) {
    struct sockaddr_in a;
    memset(&a, 0, sizeof a);
    a.sin_family      = AF_INET;
    a.sin_port        = htons(53);
    a.sin_addr.s_addr = htonl(0x0a000001u + (uint32_t)s->server);
    memcpy(addr, &a, sizeof a);
    *alen = sizeof a;
  }
  return n;
}
static vdns::Bytes make_reply(const vdns::Query &q)
{
  vdns::Reply r;
  r.id  = q.id;
  r.q   = q.q;
  r.rd  = (q.flags & 0x0100) != 0;
  r.opt = q.has_opt;
  vdns::Reply::RR rr;
  rr.owner = q.q[0].labels;
  rr.type  = q.q[0].qtype == vdns::T_AAAA ? vdns::T_AAAA : vdns::T_A;
  rr.cls   = 1;
  rr.ttl   = 100;
  rr.rdata = rr.type == vdns::T_A ? vdns::rdata_a(0x0a090001) : vdns::rdata_aaaa(1);
  if (q.q[0].qtype == vdns::T_A || q.q[0].qtype == vdns::T_AAAA) r.an.push_back(rr);
  return r.encode();
}
static ares_ssize_t s_sendto(ares_socket_t fd, const void *buf, size_t len, int, const struct sockaddr *, ares_socklen_t, void *)
{
  VS *s = vs_of(fd);
  if (!s || !s->open) {
    errno = EBADF;
    return -1;
  }
  if (s->server >= 0 && s->server < 4 && g_fail_send[s->server] > 0) {
    g_fail_send[s->server]--;
    errno = ECONNRESET;
    return -1;
  }
  g_tx++;
  vdns::Bytes m((const unsigned char *)buf, (const unsigned char *)buf + len);
  if (s->tcp) {
    if (m.size() < 2) return (ares_ssize_t)len;
    m.erase(m.begin(), m.begin() + 2); // one whole frame per send in these programs
  }
  vdns::Query q = vdns::parse_query(m);
  if (q.ok && !q.q.empty() && s->server >= 0 && s->server < 4 && g_reply_mode[s->server] >= 1) {
    vdns::Bytes r = make_reply(q);
    if (g_reply_mode[s->server] == 2 && r.size() > 3) {
      r[3] = (unsigned char)((r[3] & 0xf0) | 2); // SERVFAIL
    }
    if (s->tcp) {
      unsigned char l[2] = { (unsigned char)(r.size() >> 8), (unsigned char)(r.size() & 0xff) };
      exb_raw_write(s->peer, l, 2);
    }
    // written with a raw system call: the harness must not hand ThreadSanitizer a happens-before edge a real
    // network would not provide
    exb_raw_write(s->peer, r.data(), r.size());
  }
  return (ares_ssize_t)len;
}
static int s_getsockname(ares_socket_t, struct sockaddr *addr, ares_socklen_t *alen, void *)
{
  struct sockaddr_in a;
  memset(&a, 0, sizeof a);
  a.sin_family      = AF_INET;
  a.sin_port        = htons(40000);
  a.sin_addr.s_addr = htonl(0x0a010001u);
  if (*alen < sizeof a) return -1;
  memcpy(addr, &a, sizeof a);
  *alen = sizeof a;
  return 0;
}

// ------------------------------------------------------------------ tokens
struct Tok {
  std::atomic<int>     count{ 0 }, status{ -1 };
  std::atomic<int64_t> t_issue{ 0 }, t_done{ 0 };
};
static Tok              g_toks[16];
static std::atomic<int> g_ntoks{ 0 }, g_outstanding{ 0 };
static std::atomic<bool> g_destroyed{ false };
static void              done_tok(int t, int status)
{
  int c = ++g_toks[t].count;
  if (c > 1) viol("C11:token:double-callback", fmt("token %d completed %d times", t, c));
  if (g_destroyed) viol("C11:token:callback-after-destroy", fmt("token %d completed after ares_destroy returned", t));
  g_toks[t].status = status;
  g_toks[t].t_done = exb_now_us();
  if (c == 1) g_outstanding--;
}
static void cb_rec(void *arg, ares_status_t st, size_t, const ares_dns_record_t *) { done_tok((int)(intptr_t)arg, (int)st); }
static void cb_ai(void *arg, int st, int, struct ares_addrinfo *ai)
{
  if (ai) ares_freeaddrinfo(ai);
  done_tok((int)(intptr_t)arg, st);
}
static int new_tok();
static void q_query(ares_channel_t *ch, const char *name);
static ares_channel_t  *g_chain_ch = nullptr;
// completion callback that, still inside the library call that completed it, cancels the channel (the queue is empty at
// that moment, waiters are notified) and at once issues the next request, to a server that no longer answers: at no
// point outside the library's critical section is the queue empty
static void cb_rec_cancel_and_reissue(void *arg, ares_status_t st, size_t, const ares_dns_record_t *)
{
  done_tok((int)(intptr_t)arg, (int)st);
  if (st != ARES_SUCCESS || !g_chain_ch) return;
  g_reply_mode[0] = 0;
  ares_cancel(g_chain_ch);
  q_query(g_chain_ch, "b.example.com");
}
// completion callback that takes (virtual) time: other deadlines may pass while the event thread is inside it
static int64_t g_callback_time_us = 0;
static void cb_rec_slow(void *arg, ares_status_t st, size_t, const ares_dns_record_t *)
{
  done_tok((int)(intptr_t)arg, (int)st);
  int64_t t0 = exb_now_us();
  exb_event_wait(nullptr, nullptr, 200);
  g_callback_time_us += exb_now_us() - t0;
}
static int new_tok()
{
  int t               = g_ntoks++;
  g_toks[t].t_issue   = exb_now_us();
  g_outstanding++;
  return t;
}
static void q_query(ares_channel_t *ch, const char *name)
{
  int t = new_tok();
  ares_query_dnsrec(ch, name, ARES_CLASS_IN, ARES_REC_TYPE_A, cb_rec, (void *)(intptr_t)t, nullptr);
}
static void q_gai(ares_channel_t *ch, const char *name)
{
  int                        t = new_tok();
  struct ares_addrinfo_hints h;
  memset(&h, 0, sizeof h);
  h.ai_family = AF_UNSPEC;
  ares_getaddrinfo(ch, name, nullptr, &h, cb_ai, (void *)(intptr_t)t);
}

// --------------------------------------------------------- client threads
struct Client {
  std::function<void()> fn;
  int                   slot;
  pthread_t             pt;
};
static void *client_tramp(void *p)
{
  Client *c = (Client *)p;
  exb_thread_enter(c->slot);
  c->fn();
  exb_thread_exit();
  return nullptr;
}
static Client *spawn(std::function<void()> fn)
{
  Client *c = new Client{ fn, exb_thread_reserve(), {} };
  pthread_create(&c->pt, nullptr, client_tramp, c);
  exb_yield(EXB_P_CREATE);
  return c;
}
static void join(Client *c)
{
  exb_thread_join(c->slot);
  pthread_join(c->pt, nullptr);
  delete c;
}

// virtual sleep of a client/main thread: a timed wait that nothing but time can end
static void vsleep(int ms) { exb_event_wait(nullptr, nullptr, ms); }
static void wait_for_tx(int n, int max_ms)
{
  for (int waited = 0; g_tx.load() < n && waited < max_ms; waited += 25) vsleep(25);
}

// ---------------------------------------------------------------- programs
struct Prog {
  const char *name;
  const char *group;          // "c11" or "c07"
  unsigned    flags;          // ARES_FLAG_*
  int         reply0, reply1; // server behaviour
  int         nservers;
  std::function<void(ares_channel_t *)> body; // runs in T0 after the channel exists; must leave the channel to be destroyed by the caller unless it sets g_self_destroyed
};
static const int TIMEOUT_MS = 300, TRIES = 2;
static bool      g_self_destroyed = false;

static void wait_all(ares_channel_t *ch, const char *what)
{
  // legal single waiter: returns success only when nothing is outstanding
  ares_status_t st = ares_queue_wait_empty(ch, -1);
  if (st == ARES_SUCCESS && g_outstanding.load() != 0)
    viol("C11:wait-empty:returned-with-requests-outstanding", fmt("ares_queue_wait_empty returned success in %s while %d requests had no callback yet", what, g_outstanding.load()));
  if (st != ARES_SUCCESS) viol("C11:wait-empty:failed", fmt("ares_queue_wait_empty(-1) returned %d", (int)st));
}

static std::vector<Prog> programs()
{
  std::vector<Prog> v;
  // ---- C11 programs
  v.push_back({ "P1-query-vs-cancel", "c11", 0, 0, 0, 1, [](ares_channel_t *ch) {
                 Client *a = spawn([ch] { q_query(ch, "a.example.com"); });
                 Client *b = spawn([ch] { ares_cancel(ch); });
                 join(a);
                 join(b);
                 wait_all(ch, "P1");
               } });
  v.push_back({ "P2-query-vs-set-servers", "c11", 0, 1, 1, 2, [](ares_channel_t *ch) {
                 Client *a = spawn([ch] { q_query(ch, "a.example.com"); });
                 Client *b = spawn([ch] { ares_set_servers_ports_csv(ch, "10.0.0.2:53"); });
                 join(a);
                 join(b);
                 wait_all(ch, "P2");
               } });
  v.push_back({ "P3-reinit-vs-reinit", "c11", 0, 1, 1, 1, [](ares_channel_t *ch) {
                 Client *a = spawn([ch] { ares_reinit(ch); });
                 Client *b = spawn([ch] { ares_reinit(ch); });
                 join(a);
                 join(b);
               } });
  v.push_back({ "P3b-configchange-vs-reinit", "c11", 0, 1, 1, 1, [](ares_channel_t *ch) {
                 // a configuration-change event makes the EVENT THREAD call ares_reinit(), exactly as in production
                 struct {
                   struct inotify_event e;
                   char                 name[16];
                 } ev;
                 memset(&ev, 0, sizeof ev);
                 ev.e.mask = IN_MODIFY;
                 ev.e.len  = 16;
                 snprintf(ev.name, sizeof ev.name, "resolv.conf");
                 if (g_inotify_wr >= 0) exb_raw_write(g_inotify_wr, &ev, sizeof ev);
                 Client *a = spawn([ch] { ares_reinit(ch); });
                 join(a);
                 q_query(ch, "a.example.com");
                 wait_all(ch, "P3b");
               } });
  v.push_back({ "P4-two-queries-then-wait-empty", "c11", 0, 1, 1, 1, [](ares_channel_t *ch) {
                 q_query(ch, "a.example.com");
                 q_query(ch, "b.example.com");
                 Client *w = spawn([ch] { wait_all(ch, "P4 waiter"); });
                 join(w);
               } });
  v.push_back({ "P5-getaddrinfo-vs-reinit", "c11", 0, 1, 1, 1, [](ares_channel_t *ch) {
                 Client *a = spawn([ch] { q_gai(ch, "www.example.com"); });
                 Client *b = spawn([ch] { ares_reinit(ch); });
                 join(a);
                 join(b);
                 wait_all(ch, "P5");
               } });
  v.push_back({ "P6-query-vs-readers", "c11", 0, 1, 1, 1, [](ares_channel_t *ch) {
                 Client *a = spawn([ch] { q_query(ch, "a.example.com"); });
                 Client *b = spawn([ch] {
                   struct timeval tv;
                   (void)ares_timeout(ch, nullptr, &tv);
                   (void)ares_queue_active_queries(ch);
                   char *csv = ares_get_servers_csv(ch);
                   ares_free_string(csv);
                 });
                 join(a);
                 join(b);
                 wait_all(ch, "P6");
               } });
  v.push_back({ "P8-wait-empty-vs-callback-that-cancels-and-reissues", "c11", 0, 1, 1, 1, [](ares_channel_t *ch) {
                 g_chain_ch = ch;
                 int t      = new_tok();
                 ares_query_dnsrec(ch, "a.example.com", ARES_CLASS_IN, ARES_REC_TYPE_A, cb_rec_cancel_and_reissue, (void *)(intptr_t)t, nullptr);
                 Client *w = spawn([ch] { wait_all(ch, "P8 waiter"); });
                 join(w);
                 g_chain_ch = nullptr;
               } });
  v.push_back({ "P9-set-servers-vs-reinit", "c11", 0, 1, 1, 2, [](ares_channel_t *ch) {
                 // the configuration-reload thread reads the system configuration while the application sets its servers
                 Client *a = spawn([ch] { ares_set_servers_ports_csv(ch, "10.0.0.2:53"); });
                 Client *b = spawn([ch] { ares_reinit(ch); });
                 join(a);
                 join(b);
                 // whatever the order, servers the application set are never replaced by the system's
                 char *csv = ares_get_servers_csv(ch);
                 if (!csv || strcmp(csv, "10.0.0.2:53") != 0)
                   viol("C11:reinit:application-servers-overridden", fmt("after ares_set_servers_ports_csv(\"10.0.0.2:53\") || ares_reinit the channel's servers are \"%s\"", csv ? csv : "(null)"));
                 ares_free_string(csv);
               } });
  v.push_back({ "P12-save-options-and-dup-vs-set-servers", "c11", 0, 1, 1, 2, [](ares_channel_t *ch) {
                 // one thread snapshots the configuration (ares_save_options, ares_dup) while another replaces the
                 // server list and the sortlist: both are documented as safe on a channel shared between threads
                 Client *a = spawn([ch] {
                   struct ares_options o;
                   int                 mask = 0;
                   memset(&o, 0, sizeof o);
                   if (ares_save_options(ch, &o, &mask) == ARES_SUCCESS) ares_destroy_options(&o);
                   ares_channel_t *d = nullptr;
                   if (ares_dup(&d, ch) == ARES_SUCCESS) ares_destroy(d);
                 });
                 Client *b = spawn([ch] {
                   ares_set_servers_ports_csv(ch, "10.0.0.2:53");
                   ares_set_sortlist(ch, "10.9.0.0/255.255.0.0");
                   ares_set_servers_ports_csv(ch, "10.0.0.1:53,10.0.0.2:53,10.0.0.3:53");
                 });
                 join(a);
                 join(b);
               } });
  v.push_back({ "P10-two-sockets-replaced-at-once-one-query-per-socket", "c11", 0, 0, 1, 1, [](ares_channel_t *ch) {
                 // two queries, each on its own socket, towards a silent server; a client thread then switches the channel
                 // to a server that answers: both connections are closed and replaced under one hold of the channel
                 // lock, the new sockets get the descriptor numbers just freed, and the event thread - which has not yet
                 // seen the removals - must end up watching the NEW sockets (their answers arrive at once)
                 q_query(ch, "a.example.com");
                 q_query(ch, "b.example.com");
                 Client *a = spawn([ch] { ares_set_servers_ports_csv(ch, "10.0.0.2:53"); });
                 join(a);
                 wait_all(ch, "P10");
                 for (int t = 0; t < g_ntoks; t++)
                   if (g_toks[t].count == 1 && g_toks[t].status != ARES_SUCCESS)
                     viol("C11:event-thread:answer-on-replaced-socket-not-seen", fmt("token %d ended with status %d although the new server answers every query at once", t, (int)g_toks[t].status));
               } });
  v.push_back({ "P11-flush-fails-on-the-event-thread-failover-to-an-established-connection", "c11", ARES_FLAG_USEVC | ARES_FLAG_STAYOPEN, 0, 1, 1, [](ares_channel_t *ch) {
                 // TCP, connections kept open. The first server holds an established connection that is busy with an
                 // unanswered query; a second server is then put in front of it and warmed up (established, idle,
                 // healthy). One send towards that preferred server then fails: the event thread, while serving the
                 // deferred write, fails the query over to the first server's established connection, which announces
                 // pending data to the event thread itself from inside ares_process_pending_write() - that
                 // announcement must not be lost (the first server now answers at once)
                 q_query(ch, "busy.example.com");
                 wait_for_tx(1, 500);
                 ares_set_servers_ports_csv(ch, "10.0.0.2:53,10.0.0.1:53");
                 q_query(ch, "warm.example.com");
                 wait_for_tx(2, 500);
                 vsleep(25);
                 g_reply_mode[0] = 1;
                 g_fail_send[1]  = 1;
                 int64_t t0      = exb_now_us();
                 int     t       = g_ntoks;
                 Client *a       = spawn([ch] { q_query(ch, "a.example.com"); });
                 join(a);
                 wait_all(ch, "P11");
                 if (t < g_ntoks && g_toks[t].count == 1 && (g_toks[t].status != ARES_SUCCESS || g_toks[t].t_done - t0 >= (int64_t)TIMEOUT_MS * 1000))
                   viol("C11:event-thread:pending-write-announcement-lost", fmt("the query failed over to a server that answers at once, yet it ended with status %d after %lld ms (a timeout was needed)",
                                                                                  (int)g_toks[t].status, (long long)((g_toks[t].t_done - t0) / 1000)));
               } });
  v.push_back({ "P7-destroy-while-busy", "c11", 0, 1, 0, 1, [](ares_channel_t *ch) {
                 q_query(ch, "a.example.com");
                 q_query(ch, "b.example.com");
                 ares_destroy(ch); // single caller, legal
                 g_destroyed      = true;
                 g_self_destroyed = true;
               } });
  // ---- C07 programs: no application call after the request; everything must complete by itself
  v.push_back({ "L1-fresh-socket-silent-server", "c07", 0, 0, 0, 1, [](ares_channel_t *ch) {
                 Client *a = spawn([ch] { q_query(ch, "a.example.com"); });
                 join(a);
                 wait_all(ch, "L1");
               } });
  v.push_back({ "L2-idle-kept-open-connection-then-silent", "c07", ARES_FLAG_STAYOPEN, 1, 0, 1, [](ares_channel_t *ch) {
                 q_query(ch, "warm.example.com"); // answered: leaves an idle connection open
                 wait_all(ch, "L2 warm-up");
                 g_reply_mode[0] = 0;             // the server goes silent
                 Client *a       = spawn([ch] { q_query(ch, "a.example.com"); });
                 join(a);
                 wait_all(ch, "L2");
               } });
  v.push_back({ "L3-busy-connection-second-query", "c07", ARES_FLAG_STAYOPEN, 0, 0, 1, [](ares_channel_t *ch) {
                 q_query(ch, "first.example.com"); // outstanding, server silent
                 Client *a = spawn([ch] { q_query(ch, "second.example.com"); });
                 join(a);
                 wait_all(ch, "L3");
               } });
  v.push_back({ "L5-second-query-while-first-is-in-a-back-off-round", "c07", 0, 0, 0, 1, [](ares_channel_t *ch) {
                 // the first query has been re-sent once (its current timeout is doubled); a second query then arrives
                 // on the same busy socket with an EARLIER deadline than anything the sleeping event thread knows about
                 q_query(ch, "first.example.com");
                 wait_for_tx(2, 2000);
                 vsleep(50);
                 Client *a = spawn([ch] { q_query(ch, "second.example.com"); });
                 join(a);
                 wait_all(ch, "L5");
               } });
  v.push_back({ "L6-deadline-passes-while-a-callback-runs", "c07", 0, 0, 0, 1, [](ares_channel_t *ch) {
                 // both queries go unanswered; the first one's completion callback (final timeout) takes 200 ms, during
                 // which the second one's final deadline passes: when the event thread asks for its next wait the
                 // remaining time is zero, which must not be mistaken for "no timeout"
                 int t = new_tok();
                 ares_query_dnsrec(ch, "slow.example.com", ARES_CLASS_IN, ARES_REC_TYPE_A, cb_rec_slow, (void *)(intptr_t)t, nullptr);
                 vsleep(100);
                 q_query(ch, "second.example.com");
                 wait_all(ch, "L6");
               } });
  {
    // property C06 ("every query terminates") under the event thread: the two programs in which nothing but the
    // library's own timers can end the queries
    std::vector<Prog> add;
    for (auto &pr : v)
      if (!strcmp(pr.name, "L1-fresh-socket-silent-server") || !strcmp(pr.name, "L6-deadline-passes-while-a-callback-runs")) {
        Prog c  = pr;
        c.group = "c06";
        add.push_back(c);
      }
    for (auto &c : add) v.push_back(c);
  }
  v.push_back({ "L7-tcp-connect-never-completes-second-query-on-the-half-open-connection", "c07", ARES_FLAG_USEVC, 0, 0, 1, [](ares_channel_t *ch) {
                 // the server never answers the TCP handshake: the first query times out and leaves the half-open
                 // connection behind; the second one is queued on it from a client thread while the event thread
                 // sleeps - nothing but its own deadline can end it
                 q_query(ch, "first.example.com");
                 wait_all(ch, "L7 first");
                 Client *a = spawn([ch] { q_query(ch, "second.example.com"); });
                 join(a);
                 wait_all(ch, "L7");
               } });
  v.push_back({ "L4-tcp-idle-kept-open-then-silent", "c07", ARES_FLAG_STAYOPEN | ARES_FLAG_USEVC, 1, 0, 1, [](ares_channel_t *ch) {
                 q_query(ch, "warm.example.com");
                 wait_all(ch, "L4 warm-up");
                 g_reply_mode[0] = 0;
                 Client *a       = spawn([ch] { q_query(ch, "a.example.com"); });
                 join(a);
                 wait_all(ch, "L4");
               } });
  return v;
}

// ------------------------------------------------------------ one execution
static const char *evsys_name(int e) { return e == ARES_EVSYS_EPOLL ? "epoll" : e == ARES_EVSYS_POLL ? "poll" : "select"; }

static void fatal_from_sched(int outcome)
{
  // the scheduler decided the execution cannot continue (deadlock / horizon / divergence): record and leave
  S->end_us = exb_now_us();
  (void)outcome;
  _exit(0);
}

static void run_program(const Prog &p, int evsys, const unsigned char *prefix, int plen)
{
  g_led_on = true;
  install_hooks();
  exb_set_trace_buffer(&S->trace);
  exb_set_fatal_handler(fatal_from_sched);
  int64_t horizon = 1000000000001LL + (int64_t)TIMEOUT_MS * 1000 * TRIES * p.nservers * 8 + 60LL * 1000000;
  exb_init(prefix, plen, 1000000000001LL, horizon);
  g_active        = true;
  g_reply_mode[0] = p.reply0;
  g_reply_mode[1] = p.reply1;
  g_tcp_blackhole = strstr(p.name, "connect-never-completes") != nullptr;
  for (auto &x : g_fail_send) x = 0;
  ares_library_init_mem(ARES_LIB_INIT_ALL, m_malloc, m_free, m_realloc);
  struct ares_options o;
  memset(&o, 0, sizeof o);
  o.flags   = (int)p.flags;
  o.timeout = TIMEOUT_MS;
  o.tries   = TRIES;
  o.evsys   = (ares_evsys_t)evsys;
  o.lookups = (char *)"b";
  o.ndots   = 1;
  int             mask = ARES_OPT_FLAGS | ARES_OPT_TIMEOUTMS | ARES_OPT_TRIES | ARES_OPT_EVENT_THREAD | ARES_OPT_LOOKUPS | ARES_OPT_NDOTS;
  if (strstr(p.name, "one-query-per-socket")) {
    // every query gets its own UDP socket (several descriptors are open, closed and re-opened together)
    o.udp_max_queries = 1;
    mask |= ARES_OPT_UDP_MAX_QUERIES;
  }
  ares_channel_t *ch   = nullptr;
  int             rc   = ares_init_options(&ch, &o, mask);
  if (rc != ARES_SUCCESS) {
    viol("HARNESS:init", fmt("ares_init_options failed: %d", rc));
    S->finished = 1;
    _exit(0);
  }
  struct ares_socket_functions_ex f;
  memset(&f, 0, sizeof f);
  f.version      = 1;
  f.flags        = ARES_SOCKFUNC_FLAG_NONBLOCKING;
  f.asocket      = s_socket;
  f.aclose       = s_close;
  f.asetsockopt  = s_setsockopt;
  f.aconnect     = s_connect;
  f.arecvfrom    = s_recvfrom;
  f.asendto      = s_sendto;
  f.agetsockname = s_getsockname;
  ares_set_socket_functions_ex(ch, &f, nullptr);
  ares_set_servers_ports_csv(ch, p.nservers == 2 ? "10.0.0.1:53,10.0.0.2:53" : "10.0.0.1:53");
  p.body(ch);
  if (!g_self_destroyed) {
    ares_destroy(ch);
    g_destroyed = true;
  }
  ares_library_cleanup();
  // ---- end-of-execution oracles
  // retry budget of one query: the sum of the per-attempt timeouts (doubling once per trip through the server list,
  // no jitter in this harness) plus a small slack for the +1 ms rounding of the event thread per wait
  int64_t budget_us = 0;
  for (int i = 0; i < TRIES * p.nservers; i++) budget_us += (int64_t)TIMEOUT_MS * 1000 * (1LL << (i / p.nservers));
  budget_us += 60000;
  budget_us += g_callback_time_us; // time the application itself spent inside completion callbacks on the event thread
  for (int t = 0; t < g_ntoks; t++) {
    if (g_toks[t].count != 1) viol("C11:token:not-exactly-once", fmt("token %d completed %d times over the life of the channel", t, g_toks[t].count.load()));
    else if (g_toks[t].t_done - g_toks[t].t_issue > budget_us)
      viol("C07:event-thread:completion-after-retry-budget", fmt("token %d completed %lld ms after it was issued; retry budget is %lld ms", t,
                                                                 (long long)((g_toks[t].t_done - g_toks[t].t_issue) / 1000), (long long)(budget_us / 1000)));
  }
  for (int i = 0; i < g_nsocks; i++)
    if (g_socks[i].open) viol("C11:sock:open-after-destroy", "a socket is still open after ares_destroy");
  if (g_threads_created != g_threads_joined) viol("C11:thread:not-joined", fmt("%d library threads created, %d joined", g_threads_created.load(), g_threads_joined.load()));
  if (g_led_live != 0) viol("C11:leak:blocks-live-after-destroy", fmt("%zu blocks / %zu bytes still allocated after destroy + library cleanup", g_led_live, g_led_bytes));
  S->ntokens    = g_ntoks;
  S->ncompleted = 0;
  uint64_t sig  = 1469598103934665603ULL;
  for (int t = 0; t < g_ntoks; t++) {
    if (g_toks[t].count) S->ncompleted++;
    sig = (sig ^ (uint64_t)(g_toks[t].status + 7)) * 1099511628211ULL;
  }
  sig = (sig ^ (uint64_t)g_tx.load()) * 1099511628211ULL;
  S->sig      = sig;
  S->end_us   = exb_now_us();
  S->finished = 1;
  S->trace.outcome = EXB_DONE;
  (void)evsys_name;
}

// ---------------------------------------------------------------- explorer
struct ExecResult {
  std::vector<exb_point> pts;
  int                    outcome = 0;
  bool                   finished = false;
  int                    exitcode = 0, sig = 0;
  std::vector<std::pair<std::string, std::string>> viols;
  std::string            sanitizer, log, detail;
  uint64_t               osig = 0;
  int64_t                end_us = 0;
};

static std::string g_outdir;

static ExecResult execute(const Prog &p, int evsys, const std::vector<unsigned char> &prefix)
{
  memset(S, 0, sizeof *S);
  fflush(nullptr);
  pid_t pid = fork();
  if (pid == 0) {
    alarm(60);
    run_program(p, evsys, prefix.data(), (int)prefix.size());
    fflush(nullptr);
    _exit(0);
  }
  int st = 0;
  waitpid(pid, &st, 0);
  ExecResult r;
  r.pts.assign(S->trace.p, S->trace.p + S->trace.npoints);
  r.outcome  = S->trace.outcome;
  r.detail   = S->trace.detail;
  r.finished = S->finished;
  r.osig     = S->sig;
  r.end_us   = S->end_us;
  r.log.assign(S->log, (size_t)S->loglen);
  for (int i = 0; i < S->nviol; i++) r.viols.push_back({ S->vkey[i], S->vdesc[i] });
  if (WIFEXITED(st)) r.exitcode = WEXITSTATUS(st);
  if (WIFSIGNALED(st)) r.sig = WTERMSIG(st);
  // sanitizer log of the child (log_path=<outdir>/san -> san.<pid>)
  if (r.exitcode != 0 || r.sig != 0) {
    for (const char *pre : { "tsan", "asan" }) {
      std::string path = g_outdir + "/" + pre + "." + std::to_string(pid);
      FILE       *f    = fopen(path.c_str(), "r");
      if (!f) continue;
      char   buf[4096];
      size_t n;
      while ((n = fread(buf, 1, sizeof buf, f)) > 0 && r.sanitizer.size() < 20000) r.sanitizer.append(buf, n);
      fclose(f);
      unlink(path.c_str());
    }
  }
  return r;
}

static std::string frames_of(const std::string &txt, int max)
{
  // TSan: "    #0 func /path/src/lib/x.c:12:3 (bin+0x..)"; ASan: "    #0 0x.. in func /path/src/lib/x.c:12"
  std::string out;
  int         n = 0;
  size_t      pos = 0;
  while (n < max && pos < txt.size()) {
    size_t le = txt.find('\n', pos);
    if (le == std::string::npos) le = txt.size();
    std::string line = txt.substr(pos, le - pos);
    pos              = le + 1;
    size_t h = line.find('#');
    if (h == std::string::npos || line.find("/src/lib/") == std::string::npos) continue;
    size_t sp = line.find(' ', h);
    if (sp == std::string::npos) continue;
    std::string rest = line.substr(sp + 1);
    if (rest.rfind("0x", 0) == 0) {
      size_t in = rest.find(" in ");
      if (in == std::string::npos) continue;
      rest = rest.substr(in + 4);
    }
    std::string fn = rest.substr(0, rest.find(' '));
    if (fn.empty() || out.find(fn) != std::string::npos) continue;
    out += (n ? "," : "") + fn;
    n++;
  }
  return out;
}

int main(int argc, char **argv)
{
  vf::Args a = vf::parse_args(argc, argv);
  S          = (Shared *)mmap(nullptr, sizeof(Shared), PROT_READ | PROT_WRITE, MAP_SHARED | MAP_ANONYMOUS, -1, 0);
  if (S == MAP_FAILED) return 3;
  std::vector<Prog> progs = programs();
  int               bound = (int)a.geti("bound", a.tier == "quick" ? 1 : 2);
  double            t_end = vf::now_s() + a.deadline - 5;
  static const int  evs[] = { ARES_EVSYS_EPOLL, ARES_EVSYS_POLL, ARES_EVSYS_SELECT };
  g_outdir                = a.out.empty() ? "/tmp" : a.out.substr(0, a.out.rfind('/'));
  // ---- replay one schedule
  if (!a.replay.empty()) {
    FILE *f = fopen(a.replay.c_str(), "r");
    if (!f) return 3;
    std::string s;
    char        buf[4096];
    size_t      n;
    while ((n = fread(buf, 1, sizeof buf, f)) > 0) s.append(buf, n);
    fclose(f);
    auto gets = [&](const char *k) {
      size_t p = s.find(std::string("\"") + k + "\":\"");
      if (p == std::string::npos) return std::string();
      p += strlen(k) + 4;
      return s.substr(p, s.find('"', p) - p);
    };
    std::string pn = gets("program"), en = gets("backend");
    std::vector<unsigned char> prefix;
    size_t                     p = s.find("\"schedule\":[");
    if (p != std::string::npos) {
      p += 12;
      while (p < s.size() && s[p] != ']') {
        prefix.push_back((unsigned char)atoi(s.c_str() + p));
        while (p < s.size() && s[p] != ',' && s[p] != ']') p++;
        if (s[p] == ',') p++;
      }
    }
    for (auto &pr : progs)
      if (pn == pr.name)
        for (int e : evs)
          if (en == evsys_name(e)) {
            ExecResult r = execute(pr, e, prefix);
            printf("program %s backend %s schedule of %zu choices: outcome=%d finished=%d exit=%d signal=%d %s\n", pn.c_str(), en.c_str(), prefix.size(), r.outcome, (int)r.finished,
                   r.exitcode, r.sig, r.detail.c_str());
            for (auto &v : r.viols) printf("VIOLATED %s: %s\n", v.first.c_str(), v.second.c_str());
            if (!r.sanitizer.empty()) printf("%s\n", r.sanitizer.substr(0, 3000).c_str());
            bool bad = !r.viols.empty() || r.outcome == EXB_DEADLOCK || r.outcome == EXB_HORIZON || r.exitcode != 0 || r.sig != 0;
            if (!bad) printf("property held on this schedule\n");
            return bad ? 1 : 0;
          }
    fprintf(stderr, "unknown program/backend\n");
    return 3;
  }
  vf::Report rep;
  rep.engine = "exb";
  rep.family = a.family;
  rep.tier   = a.tier;
  const int SPLIT = 4;
  long      unit = 0;
  std::set<uint64_t> sigs;
  for (auto &pr : progs) {
    if (a.family != pr.group) continue;
    for (int e : evs) {
      for (int part = 0; part < SPLIT; part++, unit++) {
        if (unit % a.nshards != a.shard) continue;
        // iterative context bounding, depth-first over choice sequences
        struct Item {
          std::vector<unsigned char> prefix;
          int                        cost;
        };
        std::vector<Item> stack;
        stack.push_back({ {}, 0 });
        uint64_t nsched = 0;
        while (!stack.empty()) {
          if (vf::now_s() > t_end) {
            rep.exhaustive = false;
            break;
          }
          Item it = stack.back();
          stack.pop_back();
          bool is_root = it.prefix.empty();
          ExecResult r = execute(pr, e, it.prefix);
          nsched++;
          rep.executions++;
          rep.transitions += r.pts.size();
          std::string sched = "[";
          for (size_t i = 0; i < r.pts.size(); i++) sched += (i ? "," : "") + std::to_string((int)r.pts[i].chosen);
          sched += "]";
          std::string rj = "{\"program\":\"" + std::string(pr.name) + "\",\"backend\":\"" + evsys_name(e) + "\",\"schedule\":" + sched + "}";
          if (rep.samples.size() < 3 && r.pts.size() > 4 && (nsched % 37) == 5) rep.sample(rj);
          // ---- verdict for this schedule
          std::string grp = pr.group;
          // group c06 runs event-thread programs for property C06 (every query terminates): same verdicts, C06 keys
          const bool is6 = grp == "c06";
          auto       k6  = [&](std::string k) {
            if (is6 && k.rfind("C07:", 0) == 0) k = "C06:" + k.substr(4);
            return k;
          };
          if (is6) grp = "c07";
          if (r.outcome == EXB_DIVERGED) rep.internal_errors.push_back("replay divergence: " + r.detail + " " + rj);
          else if (r.outcome == EXB_TOO_MANY_POINTS) rep.internal_errors.push_back("scheduler limit: " + r.detail + " " + rj);
          else if (r.outcome == EXB_DEADLOCK)
            rep.violation(k6(std::string(grp == "c07" ? "C07:event-thread:lost-wakeup:" : "C11:deadlock:")) + pr.name, "[" + std::string(evsys_name(e)) + "] " + r.detail + " | " + rj, rj);
          else if (r.outcome == EXB_HORIZON)
            rep.violation(k6(std::string(grp == "c07" ? "C07:event-thread:no-completion-within-horizon:" : "C11:livelock:")) + pr.name, "[" + std::string(evsys_name(e)) + "] " + r.detail, rj);
          else if (r.exitcode != 0 || r.sig != 0) {
            std::string kind = "crash";
            size_t      q;
            if ((q = r.sanitizer.find("WARNING: ThreadSanitizer: ")) != std::string::npos) kind = "tsan:" + r.sanitizer.substr(q + 26, r.sanitizer.find_first_of("(\n", q + 26) - q - 26);
            else if ((q = r.sanitizer.find("ERROR: AddressSanitizer: ")) != std::string::npos) kind = "asan:" + r.sanitizer.substr(q + 25, r.sanitizer.find_first_of(" \n", q + 25) - q - 25);
            else if (r.sig == SIGALRM) kind = "watchdog";
            while (!kind.empty() && kind.back() == ' ') kind.pop_back();
            rep.violation("C11:" + kind + "@" + frames_of(r.sanitizer, 2), "[" + std::string(pr.name) + "/" + evsys_name(e) + "] " + kind + " exit=" + std::to_string(r.exitcode) + " signal=" +
                                                                              std::to_string(r.sig) + "\n" + r.sanitizer.substr(0, 1500) + " | " + rj,
                          rj);
          } else if (!r.finished)
            rep.internal_errors.push_back("execution neither finished nor reported an outcome: " + rj);
          for (auto &v : r.viols) {
            if (v.first.rfind("HARNESS:", 0) == 0) rep.internal_errors.push_back(v.first + ": " + v.second);
            else rep.violation(k6(v.first) + ":" + pr.name, "[" + std::string(evsys_name(e)) + "] " + v.second + " | " + rj, rj);
          }
          if (r.finished) {
            sigs.insert(r.osig ^ ((uint64_t)r.pts.size() << 48));
            rep.outcome(std::to_string(r.osig % 100000) + "/" + std::to_string(r.end_us / 100000));
            rep.witness("schedule_completed");
            if (r.end_us > 1000000000001LL + 1000) rep.witness("virtual_time_advanced");
          }
          for (auto &pt : r.pts)
            if (pt.kind == EXB_P_LOCK && __builtin_popcount(pt.enabled) >= 2) {
              rep.witness("lock_contention_point");
              break;
            }
          // ---- children: alternatives at every point beyond the prefix
          int cost = it.cost;
          // preemptions inside the already fixed prefix are in it.cost; recompute along the trace
          std::vector<int> cum(r.pts.size() + 1, 0);
          for (size_t i = 0; i < r.pts.size(); i++) cum[i + 1] = cum[i] + ((r.pts[i].running_enabled && r.pts[i].chosen != r.pts[i].running) ? 1 : 0);
          (void)cost;
          size_t branch_index = 0;
          for (size_t i = it.prefix.size(); i < r.pts.size(); i++) {
            const exb_point &pt = r.pts[i];
            for (int t = 0; t < EXB_MAX_THREADS; t++) {
              if (!((pt.enabled >> t) & 1) || t == pt.chosen) continue;
              int c = cum[i] + ((pt.running_enabled && t != pt.running) ? 1 : 0);
              if (c > bound) continue;
              bool mine = true;
              if (is_root) {
                mine = (int)(branch_index % SPLIT) == part;
                branch_index++;
              }
              if (!mine) continue;
              Item ch;
              ch.prefix.reserve(i + 1);
              for (size_t k = 0; k < i; k++) ch.prefix.push_back(r.pts[k].chosen);
              ch.prefix.push_back((unsigned char)t);
              ch.cost = c;
              stack.push_back(std::move(ch));
            }
          }
          if (is_root && part != 0) {
            // the default schedule itself is accounted by part 0
            rep.executions--;
          }
        }
        rep.states += nsched;
        rep.count("units");
      }
    }
  }
  rep.closed = false;
  rep.bound  = "group " + a.family + ": every schedule with at most " + std::to_string(bound) + " preemption(s) of each driver program on epoll, poll and select" + (rep.exhaustive ? "" : " DEADLINE-HIT");
  rep.counters["distinct_schedule_signatures"] = sigs.size();
  if (a.out.empty()) return 3;
  rep.write(a.out);
  return rep.internal_errors.empty() ? 0 : 3;
}
