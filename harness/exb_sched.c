/* EX-B scheduler core. Compiled WITHOUT sanitizer instrumentation (see exb.mk):
 * hand-offs are raw futex system calls, invisible to ThreadSanitizer. */
#define _GNU_SOURCE
#include "exb_sched.h"
#include <linux/futex.h>
#include <sys/syscall.h>
#include <sys/epoll.h>
#include <sys/select.h>
#include <poll.h>
#include <unistd.h>
#include <string.h>
#include <stdio.h>
#include <signal.h>
#include <time.h>

enum tstate { T_UNUSED = 0, T_RUNNABLE, T_WANT_MUTEX, T_COND, T_EVENT, T_JOIN, T_DONE };

struct thr {
  int          state;
  volatile int go;
  void        *mutex;      /* mutex wanted (WANT_MUTEX) or to re-acquire after a condition wait */
  int          saved_count;/* recursion count to restore after a condition wait */
  void        *cond;
  int64_t      deadline;   /* absolute virtual time in us, -1 = none */
  int          timed_out;
  int        (*probe)(void *);
  void        *probe_arg;
  int          join_target;
};

struct mtx {
  void *addr;
  int   owner; /* -1 free */
  int   count;
};

static struct thr        T[EXB_MAX_THREADS];
static struct mtx        M[128];
static int               nmtx;
static int               nthreads;
static volatile int      current;
static int64_t           now_us, horizon_us;
static const unsigned char *prefix;
static int               prefix_len;
static struct exb_trace  local_trace;
static struct exb_trace *trace = &local_trace;
static void            (*fatal_handler)(int);
static __thread int      self_id = -1;

void exb_set_trace_buffer(struct exb_trace *t) { trace = t ? t : &local_trace; }
struct exb_trace *exb_trace(void) { return trace; }
int64_t exb_now_us(void) { return now_us; }
int     exb_self(void) { return self_id; }
int     exb_nthreads(void) { return nthreads; }
void    exb_set_fatal_handler(void (*fn)(int)) { fatal_handler = fn; }

static void futex_wait(volatile int *addr, int val) { syscall(SYS_futex, addr, FUTEX_WAIT, val, NULL, NULL, 0); }
static void futex_wake(volatile int *addr) { syscall(SYS_futex, addr, FUTEX_WAKE, 1, NULL, NULL, 0); }

long exb_raw_write(int fd, const void *buf, size_t len) { return syscall(SYS_write, fd, buf, len); }
long exb_raw_read(int fd, void *buf, size_t len) { return syscall(SYS_read, fd, buf, len); }
long exb_raw_close(int fd) { return syscall(SYS_close, fd); }
long exb_raw_socketpair(int domain, int type, int protocol, int *fds) { return syscall(SYS_socketpair, domain, type, protocol, fds); }
int  exb_raw_poll(void *fds, unsigned long nfds)
{
  struct timespec ts = { 0, 0 };
  return (int)syscall(SYS_ppoll, fds, nfds, &ts, NULL, 0);
}
int exb_raw_epoll(int epfd, void *events, int maxevents) { return (int)syscall(SYS_epoll_pwait, epfd, events, maxevents, 0, NULL, 0); }
int exb_raw_select(int nfds, void *r, void *w, void *e)
{
  struct timespec ts = { 0, 0 };
  return (int)syscall(SYS_pselect6, nfds, r, w, e, &ts, NULL);
}

static void fatal(int outcome, const char *detail)
{
  trace->outcome     = outcome;
  trace->end_time_us = now_us;
  snprintf(trace->detail, sizeof trace->detail, "%s", detail);
  if (fatal_handler) fatal_handler(outcome);
  _exit(70 + outcome);
}

void exb_init(const unsigned char *pfx, int pfx_len, int64_t start_us, int64_t horizon)
{
  memset(T, 0, sizeof T);
  memset(M, 0, sizeof M);
  nmtx           = 0;
  prefix         = pfx;
  prefix_len     = pfx_len;
  now_us         = start_us;
  horizon_us     = horizon;
  nthreads       = 1;
  T[0].state     = T_RUNNABLE;
  T[0].deadline  = -1;
  current        = 0;
  self_id        = 0;
  trace->npoints = 0;
  trace->outcome = EXB_RUNNING;
  trace->detail[0] = 0;
}

static struct mtx *mtx_of(void *addr)
{
  int i;
  for (i = 0; i < nmtx; i++)
    if (M[i].addr == addr) return &M[i];
  if (nmtx >= (int)(sizeof M / sizeof M[0])) fatal(EXB_TOO_MANY_POINTS, "too many mutexes");
  M[nmtx].addr  = addr;
  M[nmtx].owner = -1;
  M[nmtx].count = 0;
  return &M[nmtx++];
}

static int mutex_available(void *addr, int t)
{
  struct mtx *m = mtx_of(addr);
  return m->owner < 0 || m->owner == t;
}

static int thread_enabled(int t)
{
  struct thr *x = &T[t];
  switch (x->state) {
    case T_RUNNABLE: return 1;
    case T_WANT_MUTEX: return mutex_available(x->mutex, t);
    case T_COND: return x->deadline >= 0 && now_us >= x->deadline && mutex_available(x->mutex, t);
    case T_EVENT:
      if (x->deadline >= 0 && now_us >= x->deadline) return 1;
      return x->probe ? (x->probe(x->probe_arg) != 0) : 0;
    case T_JOIN: return T[x->join_target].state == T_DONE;
    default: return 0;
  }
}

/* The running thread `self` reached a decision point (its own state already says whether it can continue).
 * Picks the next thread, hands over, and returns when `self` is scheduled again (immediately if chosen). */
static void decide(int self, int kind)
{
  unsigned mask;
  int      t, chosen, n;
  for (;;) {
    mask = 0;
    n    = 0;
    for (t = 0; t < nthreads; t++)
      if (thread_enabled(t)) {
        mask |= 1u << t;
        n++;
      }
    if (n > 0) break;
    /* nobody can run: advance virtual time to the earliest deadline, or report a deadlock */
    {
      int64_t best = -1;
      int     unfinished = 0;
      for (t = 0; t < nthreads; t++) {
        if (T[t].state != T_DONE && T[t].state != T_UNUSED) unfinished++;
        if ((T[t].state == T_COND || T[t].state == T_EVENT) && T[t].deadline >= 0 && (best < 0 || T[t].deadline < best)) best = T[t].deadline;
      }
      if (best < 0 || best <= now_us) {
        char d[400];
        int  off = 0;
        if (!unfinished) return; /* everything finished (only possible for the last exiting thread) */
        off += snprintf(d + off, sizeof d - (size_t)off, "no thread can run and no timed wait is pending:");
        for (t = 0; t < nthreads && off < (int)sizeof d - 40; t++) {
          static const char *nm[] = { "-", "runnable", "wants-mutex", "cond-wait", "event-wait", "join", "done" };
          off += snprintf(d + off, sizeof d - (size_t)off, " T%d=%s%s", t, nm[T[t].state], (T[t].state == T_COND || T[t].state == T_EVENT) && T[t].deadline < 0 ? "(forever)" : "");
        }
        fatal(EXB_DEADLOCK, d);
      }
      now_us = best;
      if (now_us > horizon_us) fatal(EXB_HORIZON, "virtual time horizon exceeded with threads still waiting");
    }
  }
  if (n == 1) {
    for (chosen = 0; !(mask & (1u << chosen)); chosen++)
      ;
  } else {
    int idx = trace->npoints;
    int self_enabled = (mask >> self) & 1;
    if (idx >= EXB_MAX_POINTS) fatal(EXB_TOO_MANY_POINTS, "too many decision points");
    if (idx < prefix_len) {
      chosen = prefix[idx];
      if (chosen >= nthreads || !(mask & (1u << chosen))) {
        char d[160];
        snprintf(d, sizeof d, "replay divergence at point %d: choice T%d not in enabled set 0x%x", idx, chosen, mask);
        fatal(EXB_DIVERGED, d);
      }
    } else if (self_enabled) {
      chosen = self;
    } else {
      for (chosen = 0; !(mask & (1u << chosen)); chosen++)
        ;
    }
    trace->p[idx].enabled         = (unsigned short)mask;
    trace->p[idx].running         = (unsigned char)self;
    trace->p[idx].running_enabled = (unsigned char)self_enabled;
    trace->p[idx].chosen          = (unsigned char)chosen;
    trace->p[idx].kind            = (unsigned char)kind;
    trace->npoints                = idx + 1;
  }
  if (chosen == self) return;
  current       = chosen;
  T[chosen].go  = 1;
  futex_wake(&T[chosen].go);
  if (T[self].state == T_DONE) return; /* exiting thread does not wait to be rescheduled */
  while (!T[self].go) futex_wait(&T[self].go, 0);
  T[self].go = 0;
}

void exb_yield(int kind) { decide(self_id, kind); }

void exb_mutex_lock(void *addr)
{
  int         self = self_id;
  struct mtx *m;
  T[self].state = T_WANT_MUTEX;
  T[self].mutex = addr;
  decide(self, EXB_P_LOCK);
  m = mtx_of(addr);
  m->owner = self;
  m->count++;
  T[self].state = T_RUNNABLE;
}

void exb_mutex_unlock(void *addr)
{
  struct mtx *m = mtx_of(addr);
  if (m->owner != self_id || m->count <= 0) return; /* misuse: ignored (the library never does this) */
  if (--m->count == 0) m->owner = -1;
}

int exb_cond_wait(void *c, void *addr, int64_t timeout_ms)
{
  int         self = self_id;
  struct mtx *m    = mtx_of(addr);
  int         saved = m->count;
  if (m->owner == self) {
    m->owner = -1;
    m->count = 0;
  }
  T[self].state       = T_COND;
  T[self].cond        = c;
  T[self].mutex       = addr;
  T[self].saved_count = saved;
  T[self].timed_out   = 0;
  T[self].deadline    = timeout_ms < 0 ? -1 : now_us + timeout_ms * 1000;
  decide(self, EXB_P_CONDWAIT);
  /* scheduled again: either signalled (state WANT_MUTEX) or timed out (state COND, deadline reached) */
  if (T[self].state == T_COND) T[self].timed_out = 1;
  m        = mtx_of(addr);
  m->owner = self;
  m->count = saved > 0 ? saved : 1;
  T[self].state    = T_RUNNABLE;
  T[self].deadline = -1;
  T[self].cond     = NULL;
  return T[self].timed_out;
}

void exb_cond_signal(void *c, int broadcast)
{
  int t;
  for (t = 0; t < nthreads; t++)
    if (T[t].state == T_COND && T[t].cond == c) {
      T[t].state    = T_WANT_MUTEX;
      T[t].deadline = -1;
      if (!broadcast) break;
    }
  decide(self_id, EXB_P_SIGNAL);
}

int exb_thread_reserve(void)
{
  int slot = nthreads;
  if (slot >= EXB_MAX_THREADS) fatal(EXB_TOO_MANY_POINTS, "too many threads");
  memset(&T[slot], 0, sizeof T[slot]);
  T[slot].state    = T_RUNNABLE;
  T[slot].deadline = -1;
  nthreads         = slot + 1;
  return slot;
}

void exb_thread_enter(int slot)
{
  self_id = slot;
  while (!T[slot].go) futex_wait(&T[slot].go, 0);
  T[slot].go = 0;
}

void exb_thread_exit(void)
{
  int self      = self_id;
  T[self].state = T_DONE;
  decide(self, EXB_P_EXIT);
}

void exb_thread_join(int slot)
{
  int self            = self_id;
  T[self].state       = T_JOIN;
  T[self].join_target = slot;
  decide(self, EXB_P_JOIN);
  T[self].state = T_RUNNABLE;
}

int exb_event_wait(int (*probe)(void *), void *arg, int64_t timeout_ms)
{
  int self           = self_id;
  int ready;
  T[self].state      = T_EVENT;
  T[self].probe      = probe;
  T[self].probe_arg  = arg;
  T[self].deadline   = timeout_ms < 0 ? -1 : now_us + timeout_ms * 1000;
  decide(self, EXB_P_EVWAIT);
  ready              = probe ? probe(arg) != 0 : 0;
  T[self].state      = T_RUNNABLE;
  T[self].deadline   = -1;
  T[self].probe      = NULL;
  return ready;
}

/* ---- event waits of the three back ends: the readiness probes run in whichever thread executes the
 * scheduler, so they live here, outside sanitizer instrumentation */
struct epoll_probe { int epfd; };
static int probe_epoll(void *a)
{
  struct epoll_event tmp[8];
  return exb_raw_epoll(((struct epoll_probe *)a)->epfd, tmp, 8) != 0;
}
int exb_wait_epoll(int epfd, int64_t timeout_ms)
{
  struct epoll_probe p;
  p.epfd = epfd;
  return exb_event_wait(probe_epoll, &p, timeout_ms);
}
struct poll_probe { struct pollfd *fds; unsigned long n; };
static int probe_poll(void *a)
{
  struct poll_probe *p = (struct poll_probe *)a;
  struct pollfd      tmp[64];
  unsigned long      n = p->n < 64 ? p->n : 64, i;
  for (i = 0; i < n; i++) tmp[i] = p->fds[i];
  return exb_raw_poll(tmp, n) != 0;
}
int exb_wait_poll(void *fds, unsigned long n, int64_t timeout_ms)
{
  struct poll_probe p;
  p.fds = (struct pollfd *)fds;
  p.n   = n;
  return exb_event_wait(probe_poll, &p, timeout_ms);
}
struct select_probe { int nfds; fd_set *r, *w, *e; };
static int probe_select(void *a)
{
  struct select_probe *p = (struct select_probe *)a;
  fd_set               r, w, e;
  FD_ZERO(&r);
  FD_ZERO(&w);
  FD_ZERO(&e);
  if (p->r) r = *p->r;
  if (p->w) w = *p->w;
  if (p->e) e = *p->e;
  /* an error (a watched descriptor was closed meanwhile) also ends the wait: a blocked select() keeps the file
   * alive and still sees the wake pipe; a fresh call fails at once; either way the waiter returns */
  return exb_raw_select(p->nfds, p->r ? &r : NULL, p->w ? &w : NULL, p->e ? &e : NULL) != 0;
}
int exb_wait_select(int nfds, void *r, void *w, void *e, int64_t timeout_ms)
{
  struct select_probe p;
  p.nfds = nfds;
  p.r    = (fd_set *)r;
  p.w    = (fd_set *)w;
  p.e    = (fd_set *)e;
  return exb_event_wait(probe_select, &p, timeout_ms);
}
