/* EX-B cooperative scheduler: serialises the real threads of a driver program
 * (client threads, c-ares' event thread, its reinit thread) and lets an
 * explorer choose which runnable thread continues at every synchronisation
 * point.  This file's implementation (exb_sched.c) is compiled WITHOUT any
 * sanitizer and hands threads over with raw futex system calls only, so it
 * creates no happens-before edge ThreadSanitizer could see: accesses ordered
 * only by the scheduler are still reported as races.
 */
#ifndef EXB_SCHED_H
#define EXB_SCHED_H
#include <stddef.h>
#include <stdint.h>
#ifdef __cplusplus
extern "C" {
#endif

#define EXB_MAX_THREADS 12
#define EXB_MAX_POINTS  4096

enum exb_outcome {
  EXB_RUNNING = 0,
  EXB_DONE,          /* program finished */
  EXB_DEADLOCK,      /* no enabled thread, no timed wait, unfinished threads */
  EXB_HORIZON,       /* virtual time horizon exceeded */
  EXB_DIVERGED,      /* replay of the prefix met a different enabled set */
  EXB_TOO_MANY_POINTS
};

enum exb_point_kind {
  EXB_P_LOCK = 1, EXB_P_CONDWAIT, EXB_P_WAKEUP, EXB_P_SIGNAL, EXB_P_EVWAIT, EXB_P_CREATE, EXB_P_JOIN, EXB_P_EXIT, EXB_P_YIELD, EXB_P_START
};

struct exb_point {
  unsigned short enabled;  /* bit mask of enabled thread ids at this decision */
  unsigned char  running;  /* thread that reached the point */
  unsigned char  running_enabled;
  unsigned char  chosen;
  unsigned char  kind;
};

struct exb_trace {
  int              npoints;
  struct exb_point p[EXB_MAX_POINTS];
  int              outcome;
  int64_t          end_time_us;
  char             detail[512];
};

/* ---- set-up (single threaded, before the program starts) */
void exb_init(const unsigned char *prefix, int prefix_len, int64_t start_us, int64_t horizon_us);
struct exb_trace *exb_trace(void);
int64_t exb_now_us(void);
int     exb_self(void);
int     exb_nthreads(void);

/* ---- hooks (called from the instrumented glue) */
void exb_mutex_lock(void *m);
void exb_mutex_unlock(void *m);
int  exb_cond_wait(void *c, void *m, int64_t timeout_ms); /* returns 1 on timeout */
void exb_cond_signal(void *c, int broadcast);
/* thread life cycle: the creator reserves a slot, the new OS thread calls exb_thread_enter(slot) first
 * and exb_thread_exit() last */
int  exb_thread_reserve(void);
void exb_thread_enter(int slot);
void exb_thread_exit(void);
void exb_thread_join(int slot);
void exb_yield(int kind);

/* event wait: `probe` is called (possibly many times, from whichever thread runs the scheduler) with `arg` and
 * must return non-zero iff the descriptors the waiter watches are ready right now (zero-timeout system call).
 * timeout_ms < 0 = forever. Returns 1 if woken by readiness, 0 on (virtual) timeout. */
int  exb_event_wait(int (*probe)(void *), void *arg, int64_t timeout_ms);

int  exb_wait_epoll(int epfd, int64_t timeout_ms);
int  exb_wait_poll(void *fds, unsigned long n, int64_t timeout_ms);
int  exb_wait_select(int nfds, void *r, void *w, void *e, int64_t timeout_ms);

/* raw write (no interceptor, no happens-before edge): used by the virtual name server to answer */
long exb_raw_write(int fd, const void *buf, size_t len);
long exb_raw_read(int fd, void *buf, size_t len);
long exb_raw_close(int fd);
long exb_raw_socketpair(int domain, int type, int protocol, int *fds);
int  exb_raw_poll(void *fds, unsigned long nfds);                       /* ppoll with zero timeout */
int  exb_raw_epoll(int epfd, void *events, int maxevents);              /* epoll_pwait with zero timeout */
int  exb_raw_select(int nfds, void *r, void *w, void *e);               /* pselect6 with zero timeout */

/* fatal outcome decided by the scheduler: the glue installs a handler that writes the trace and _exit()s */
void exb_set_fatal_handler(void (*fn)(int outcome));

#ifdef __cplusplus
}
#endif
#endif
