// EX-C (wire codec) shared declarations: context, c-ares side dumper, oracles,
// enumerators.  Decides C02, C03 (codec part), C04, C18.
#pragma once
#include "common.h"
#include "exc_ref.h"
#include <functional>
#include <unordered_set>
#include <setjmp.h>

extern "C" {
#include "ares_setup.h"
#include "ares.h"
#include "ares_private.h"
#include "ares_data.h"
}

// Place directly after Ctx::begin_case() inside a family loop: if a call under test does not return
// within the per-case time limit, SIGALRM jumps back here, the case becomes a violation and the loop
// continues with the next case (after three hangs the family is abandoned as not exhaustive).
#define EXC_GUARD(c)                 \
  (c).armed = true;                  \
  if (sigsetjmp((c).jb, 1) != 0) {   \
    (c).on_hang();                   \
    if ((c).abort_family) return;    \
    continue;                        \
  }

namespace exc {

typedef std::vector<uint8_t> Bytes;

// ------------------------------------------------------------------ context
struct Ctx {
  vf::Report  rep;
  vf::Args    args;
  std::string oracle;        // "C02" | "C03" | "C04" | "C18" | "all"
  bool        thorough = false;
  bool        replaying = false;
  int         replay_violations = 0;
  long long   index = -1;    // global case index being executed
  long long   only_index = -1; // replay: execute exactly this case
  bool        take(long long idx) const
  {
    if (only_index >= 0) return idx == only_index;
    if (idx < args.resume) return false;
    return idx % args.nshards == args.shard;
  }
  void begin_case(long long idx, const std::string &extra_json); // sets index, case_json, crash context, arms the per-case timer
  // in-process recovery from a call that does not return (C02 "the call terminates"): see EXC_GUARD
  sigjmp_buf  jb;
  volatile bool armed = false;
  int         hangs = 0;
  bool        abort_family = false;
  void        on_hang();
  std::string case_json;     // replay object of the case being executed
  double      t_end = 1e18;
  bool        want(const char *o) const { return oracle == "all" || oracle == o; }
  void        viol(const std::string &key, const std::string &desc);
  void        obs(const std::string &name, uint64_t n = 1) { rep.counters["obs_" + name] += n; }
};

void        init_library();              // ares_library_init_mem with the ledger allocator
bool        ledger_clean(std::string *what = nullptr); // true if no block is live; forgets leaked blocks
std::string status_name(int st);

// a record kept alive across calls lives in the ledger: temporarily hide its blocks so that the leak
// checks inside the scope see only what the calls under test allocate
struct LedgerScope {
  std::unordered_map<void *, size_t> saved;
  LedgerScope() { saved.swap(vf::ledger().live); }
  ~LedgerScope()
  {
    for (auto &e : vf::ledger().live) saved.insert(e);
    vf::ledger().live.swap(saved);
  }
};

// exact-size heap copy of an input so that ASan sees a 1-byte over-read
struct HeapBuf {
  uint8_t *p;
  size_t   n;
  HeapBuf(const uint8_t *src, size_t len) : n(len)
  {
    p = (uint8_t *)malloc(len);
    if (len) memcpy(p, src, len);
  }
  ~HeapBuf() { free(p); }
  HeapBuf(const HeapBuf &) = delete;
};

// ------------------------------------------------------- c-ares side dumper
// Canonical dump through PUBLIC getters only.  max_name_text receives the
// longest presentation-format name seen.
ref::Dump ares_dump(const ares_dns_record_t *rec, size_t *max_name_text = nullptr, std::string *problems = nullptr);

// ------------------------------------------------------------------ oracles
struct CaseInfo {
  const uint8_t      *p;
  size_t              len;
  bool                is_base       = false; // unmutated base: all 64 flag combinations
  bool                gen_valid     = false; // generator claims RFC-valid within the supported subset
  std::vector<size_t> name_offsets;          // offsets for expand_name / expand_string probes
  bool                all_offsets   = false; // probe every offset
};
void run_c02(Ctx &c, const CaseInfo &ci);
void run_c04(Ctx &c, const CaseInfo &ci);
void run_c18(Ctx &c, const CaseInfo &ci);
void run_legacy_alen(Ctx &c, const uint8_t *p, size_t real_len, int alen);
// name-graph case: decode at `off` with expand_name & reference, C02 pointer rule + C04 agreement
void run_name_at(Ctx &c, const uint8_t *p, size_t len, size_t off);

// C03
void run_roundtrip_wire(Ctx &c, const uint8_t *p, size_t len, const char *src); // (a): r = parse(m)
bool roundtrip_record(Ctx &c, const ares_dns_record_t *r, const std::string &shape, bool expect_write_ok); // (a)/(b)
void run_tcpframe(Ctx &c, const ares_dns_record_t *r1, const ares_dns_record_t *r2, size_t prefill, size_t consumed,
                  const std::string &shape);

// ---------------------------------------------------------------- generator
struct Base {
  Bytes               m;
  bool                valid = false;
  bool                closure = true; // enumerate the single-fault closure of this base
  std::string         desc; // e.g. "rr=SRV shape=1 rdlen=exact owner=2 sect=an"
  std::vector<size_t> name_offsets;
};
void gen_rr_bases(std::vector<Base> &out, bool thorough);     // sub-space 2 (RR grammar)
void gen_corpus_bases(std::vector<Base> &out, const std::string &repo, std::vector<std::string> *names);
// single-fault closure of one base: mutant k of n_mutants(len); returns false if the mutant equals the base
size_t n_mutants(size_t len, size_t subst_limit, size_t trunc_step);
bool   make_mutant(const Bytes &base, size_t k, size_t subst_limit, size_t trunc_step, Bytes &out, std::string &desc);

// families (exc_main.cc / exc_fam_*.cc)
void fam_names(Ctx &c);
void fam_closure(Ctx &c, bool corpus); // rrfault / corpus
void fam_sizes(Ctx &c);
void fam_roundtrip(Ctx &c);
void fam_builders(Ctx &c);

// replay helpers
std::string json_get(const std::string &obj, const char *key); // string or number value of a flat JSON object
bool        time_up(Ctx &c);

} // namespace exc
