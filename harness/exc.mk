# EX-C (wire codec): one binary $(BIN)/exc, families names / rrfault / corpus /
# sizes / roundtrip / builders.  Decides C02, C03 (codec part), C04, C18.
EXC_SRC  := $(dir $(lastword $(MAKEFILE_LIST)))
EXC_OBJD := $(B)/exc
EXC_OBJS := $(EXC_OBJD)/exc_ref.o $(EXC_OBJD)/exc_ares.o $(EXC_OBJD)/exc_gen.o $(EXC_OBJD)/exc_rt.o $(EXC_OBJD)/exc_main.o

# the reference decoder is compiled WITHOUT any c-ares include path: it cannot use library code
$(EXC_OBJD)/exc_ref.o: $(EXC_SRC)exc_ref.cc $(EXC_SRC)exc_ref.h
	@mkdir -p $(EXC_OBJD)
	@$(CXX) -std=c++17 $(ASANF) -I$(EXC_SRC) -c $< -o $@

$(EXC_OBJD)/%.o: $(EXC_SRC)%.cc $(EXC_SRC)exc.h $(EXC_SRC)exc_ref.h $(EXC_SRC)common.h $(B)/cfg/ares_config.h
	@mkdir -p $(EXC_OBJD)
	@$(HXX_ASAN) -MMD -MP -c $< -o $@

$(BIN)/exc: $(EXC_OBJS) $(B)/asan/libcares.a | $(BIN)
	@$(HXX_ASAN) $(EXC_OBJS) $(B)/asan/libcares.a -o $@ -lpthread

-include $(EXC_OBJS:.o=.d)
