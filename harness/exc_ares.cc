// EX-C: c-ares side - dumper over the public getters, entry-point drivers and
// the C02 / C04 / C18 oracles.
#include "exc.h"
#include <arpa/inet.h>
#include <netdb.h>
#include <climits>

namespace exc {

// ------------------------------------------------------------------ helpers
void Ctx::viol(const std::string &key, const std::string &desc)
{
  if (replaying) {
    printf("VIOLATION %s\n  %s\n", key.c_str(), desc.c_str());
    replay_violations++;
    return;
  }
  rep.violation(key, desc, case_json);
}

// Allocator handed to c-ares = the shared ledger allocator, except that blocks
// of >= 128 KiB (the RR arrays c-ares pre-sizes from the header counts: a
// mutated count byte asks for up to 3 x 65535 x sizeof(RR)) are served from a
// small pool of recycled blocks.  Without it every such parse costs a fresh
// mmap + page faults + shadow poisoning (~3 ms).  Pooled blocks stay in the
// ledger (leaks are still seen), are poisoned beyond the requested size and
// while free (overruns / use-after-free are still seen by ASan).
extern "C" void __asan_poison_memory_region(void const volatile *addr, size_t size);
extern "C" void __asan_unpoison_memory_region(void const volatile *addr, size_t size);
static const size_t                     BIG = 128 * 1024;
static std::unordered_map<void *, size_t> big_cap;  // live pooled blocks -> capacity
static std::vector<std::pair<void *, size_t>> big_free;
static void *lm(size_t n)
{
  if (n < BIG) return vf::l_malloc(n);
  if (vf::ledger_should_fail()) return nullptr;
  size_t best = big_free.size();
  for (size_t i = 0; i < big_free.size(); i++)
    if (big_free[i].second >= n && (best == big_free.size() || big_free[i].second < big_free[best].second)) best = i;
  void  *p;
  size_t cap;
  if (best != big_free.size()) {
    p   = big_free[best].first;
    cap = big_free[best].second;
    big_free.erase(big_free.begin() + (long)best);
  } else {
    cap = (n + (1u << 20) - 1) & ~(size_t)((1u << 20) - 1);
    p   = malloc(cap);
    if (!p) return nullptr;
    if (big_free.size() > 8) { // keep the pool small
      free(big_free[0].first);
      big_free.erase(big_free.begin());
    }
  }
  __asan_unpoison_memory_region(p, n);
  __asan_poison_memory_region((char *)p + n, cap - n);
  vf::ledger().live[p] = n;
  big_cap[p]           = cap;
  return p;
}
static void lf(void *p)
{
  if (!p) return;
  auto it = big_cap.find(p);
  if (it == big_cap.end()) {
    vf::l_free(p);
    return;
  }
  vf::ledger().live.erase(p);
  __asan_poison_memory_region(p, it->second);
  big_free.push_back({ p, it->second });
  big_cap.erase(it);
}
static void *lr(void *p, size_t n)
{
  if (!p) return lm(n);
  bool pooled = big_cap.count(p) != 0;
  if (!pooled && n < BIG) return vf::l_realloc(p, n);
  auto   lit = vf::ledger().live.find(p);
  size_t old = lit == vf::ledger().live.end() ? 0 : lit->second;
  void  *q   = lm(n);
  if (!q) return nullptr;
  memcpy(q, p, old < n ? old : n);
  lf(p);
  return q;
}

void init_library()
{
  int rc = ares_library_init_mem(ARES_LIB_INIT_ALL, lm, lf, lr);
  if (rc != ARES_SUCCESS) {
    fprintf(stderr, "ares_library_init_mem failed: %d\n", rc);
    exit(3);
  }
  vf::ledger().reset();
}

bool ledger_clean(std::string *what)
{
  auto &l = vf::ledger();
  if (l.live.empty()) return true;
  if (what) {
    size_t tot = 0;
    for (auto &e : l.live) tot += e.second;
    *what = std::to_string(l.live.size()) + " block(s), " + std::to_string(tot) + " byte(s) still allocated";
  }
  l.live.clear(); // forget them (they stay allocated) so that the next case starts clean
  return false;
}

std::string status_name(int st)
{
  switch (st) {
    case ARES_SUCCESS: return "SUCCESS";
    case ARES_ENODATA: return "ENODATA";
    case ARES_EFORMERR: return "EFORMERR";
    case ARES_ESERVFAIL: return "ESERVFAIL";
    case ARES_ENOTFOUND: return "ENOTFOUND";
    case ARES_ENOTIMP: return "ENOTIMP";
    case ARES_EREFUSED: return "EREFUSED";
    case ARES_EBADQUERY: return "EBADQUERY";
    case ARES_EBADNAME: return "EBADNAME";
    case ARES_EBADFAMILY: return "EBADFAMILY";
    case ARES_EBADRESP: return "EBADRESP";
    case ARES_ENOMEM: return "ENOMEM";
    case ARES_EBADSTR: return "EBADSTR";
    default: return "status" + std::to_string(st);
  }
}
static bool malformed_class(int st) { return st == ARES_EBADRESP || st == ARES_EBADNAME || st == ARES_EFORMERR || st == ARES_EBADSTR; }

bool time_up(Ctx &c) { return vf::now_s() > c.t_end; }

std::string json_get(const std::string &o, const char *key)
{
  std::string k = std::string("\"") + key + "\"";
  size_t      p = o.find(k);
  if (p == std::string::npos) return "";
  p = o.find(':', p + k.size());
  if (p == std::string::npos) return "";
  p++;
  while (p < o.size() && (o[p] == ' ' || o[p] == '\n')) p++;
  if (p < o.size() && o[p] == '"') {
    std::string v;
    for (p++; p < o.size() && o[p] != '"'; p++) {
      if (o[p] == '\\' && p + 1 < o.size()) p++;
      v += o[p];
    }
    return v;
  }
  std::string v;
  while (p < o.size() && o[p] != ',' && o[p] != '}' && o[p] != ' ' && o[p] != '\n') v += o[p++];
  return v;
}

// ------------------------------------------------------------------- dumper
static std::string name_canon(const char *text, size_t *maxlen, std::string *problems, const char *where)
{
  if (text == nullptr) {
    if (problems) *problems += std::string(where) + ": NULL name; ";
    return "!null";
  }
  size_t n = strlen(text);
  if (maxlen && n > *maxlen) *maxlen = n;
  ref::Labels l;
  if (!ref::unescape_name(text, l)) {
    if (problems) *problems += std::string(where) + ": name text is not valid presentation format; ";
    return "!badpresentation:" + ref::hexs((const uint8_t *)text, n);
  }
  return ref::labels_text(l);
}

ref::Dump ares_dump(const ares_dns_record_t *rec, size_t *maxname, std::string *problems)
{
  ref::Dump      d;
  unsigned short fl = ares_dns_record_get_flags(rec);
  d.addu("hdr.id", ares_dns_record_get_id(rec));
  d.addu("hdr.qr", (fl & ARES_FLAG_QR) ? 1 : 0);
  d.addu("hdr.opcode", (unsigned)ares_dns_record_get_opcode(rec));
  d.addu("hdr.aa", (fl & ARES_FLAG_AA) ? 1 : 0);
  d.addu("hdr.tc", (fl & ARES_FLAG_TC) ? 1 : 0);
  d.addu("hdr.rd", (fl & ARES_FLAG_RD) ? 1 : 0);
  d.addu("hdr.ra", (fl & ARES_FLAG_RA) ? 1 : 0);
  d.addu("hdr.ad", (fl & ARES_FLAG_AD) ? 1 : 0);
  d.addu("hdr.cd", (fl & ARES_FLAG_CD) ? 1 : 0);
  d.addu("hdr.rcode", (unsigned)ares_dns_record_get_rcode(rec));
  d.addu("count.qd", ares_dns_record_query_cnt(rec));
  d.addu("count.an", ares_dns_record_rr_cnt(rec, ARES_SECTION_ANSWER));
  d.addu("count.ns", ares_dns_record_rr_cnt(rec, ARES_SECTION_AUTHORITY));
  d.addu("count.ar", ares_dns_record_rr_cnt(rec, ARES_SECTION_ADDITIONAL));
  char pfx[64];
  for (size_t i = 0; i < ares_dns_record_query_cnt(rec); i++) {
    const char         *name = nullptr;
    ares_dns_rec_type_t qt   = (ares_dns_rec_type_t)0;
    ares_dns_class_t    qc   = (ares_dns_class_t)0;
    snprintf(pfx, sizeof pfx, "q[%zu]", i);
    if (ares_dns_record_query_get(rec, i, &name, &qt, &qc) != ARES_SUCCESS) {
      if (problems) *problems += "query_get failed; ";
      continue;
    }
    d.add(std::string(pfx) + ".name", name_canon(name, maxname, problems, pfx));
    d.addu(std::string(pfx) + ".type", (unsigned)qt);
    d.addu(std::string(pfx) + ".class", (unsigned)qc);
  }
  static const ares_dns_section_t sects[3] = { ARES_SECTION_ANSWER, ARES_SECTION_AUTHORITY, ARES_SECTION_ADDITIONAL };
  static const char              *sn[3]    = { "an", "ns", "ar" };
  for (int s = 0; s < 3; s++) {
    size_t n = ares_dns_record_rr_cnt(rec, sects[s]);
    for (size_t i = 0; i < n; i++) {
      snprintf(pfx, sizeof pfx, "%s[%zu]", sn[s], i);
      std::string          P  = pfx;
      const ares_dns_rr_t *rr = ares_dns_record_rr_get_const(rec, sects[s], i);
      if (rr == nullptr) {
        if (problems) *problems += P + ": rr_get returned NULL; ";
        d.add(P + ".name", "!null-rr");
        continue;
      }
      ares_dns_rec_type_t t = ares_dns_rr_get_type(rr);
      d.add(P + ".name", name_canon(ares_dns_rr_get_name(rr), maxname, problems, pfx));
      if (t == ARES_REC_TYPE_RAW_RR) d.addu(P + ".type", ares_dns_rr_get_u16(rr, ARES_RR_RAW_RR_TYPE));
      else d.addu(P + ".type", (unsigned)t);
      if (t != ARES_REC_TYPE_OPT) {
        d.addu(P + ".class", (unsigned)ares_dns_rr_get_class(rr));
        d.addu(P + ".ttl", ares_dns_rr_get_ttl(rr));
      }
      std::string              T    = P + "." + ares_dns_rec_type_tostr(t) + ".";
      size_t                   nk   = 0;
      const ares_dns_rr_key_t *keys = ares_dns_rr_get_keys(t, &nk);
      for (size_t k = 0; k < nk; k++) {
        ares_dns_rr_key_t key = keys[k];
        if (key == ARES_RR_RAW_RR_TYPE) continue; // folded into .type
        std::string K = T + ares_dns_rr_key_tostr(key);
        switch (ares_dns_rr_key_datatype(key)) {
          case ARES_DATATYPE_INADDR: {
            const struct in_addr *a = ares_dns_rr_get_addr(rr, key);
            d.add(K, a ? ref::hexs((const uint8_t *)a, 4) : "!null");
            break;
          }
          case ARES_DATATYPE_INADDR6: {
            const struct ares_in6_addr *a = ares_dns_rr_get_addr6(rr, key);
            d.add(K, a ? ref::hexs((const uint8_t *)a, 16) : "!null");
            break;
          }
          case ARES_DATATYPE_U8: d.addu(K, ares_dns_rr_get_u8(rr, key)); break;
          case ARES_DATATYPE_U16: d.addu(K, ares_dns_rr_get_u16(rr, key)); break;
          case ARES_DATATYPE_U32: d.addu(K, ares_dns_rr_get_u32(rr, key)); break;
          case ARES_DATATYPE_NAME:
            if (key == ARES_RR_URI_TARGET) { // declared NAME, but is the URI text (RFC 7553), not a domain name
              const char *s2 = ares_dns_rr_get_str(rr, key);
              d.add(K, s2 ? ref::hexs((const uint8_t *)s2, strlen(s2)) : "!null");
              if (!s2 && problems) *problems += K + " NULL; ";
            } else d.add(K, name_canon(ares_dns_rr_get_str(rr, key), maxname, problems, K.c_str()));
            break;
          case ARES_DATATYPE_STR: {
            const char *s2 = ares_dns_rr_get_str(rr, key);
            d.add(K, s2 ? ref::hexs((const uint8_t *)s2, strlen(s2)) : "!null");
            if (!s2 && problems) *problems += K + " NULL; ";
            break;
          }
          case ARES_DATATYPE_BIN:
          case ARES_DATATYPE_BINP: {
            size_t               l = 0;
            const unsigned char *b = ares_dns_rr_get_bin(rr, key, &l);
            if (b == nullptr && l != 0) {
              d.add(K, "!null");
              if (problems) *problems += K + " NULL with length; ";
            } else {
              d.add(K, b ? ref::hexs(b, l) : "");
              if (b && ares_dns_rr_key_datatype(key) == ARES_DATATYPE_BINP && b[l] != 0 && problems) *problems += K + " BINP not NUL terminated; ";
            }
            break;
          }
          case ARES_DATATYPE_ABINP: {
            size_t cnt = ares_dns_rr_get_abin_cnt(rr, key);
            d.addu(K + ".cnt", cnt);
            std::string cat;
            char        ib[32];
            for (size_t j = 0; j < cnt; j++) {
              size_t               l = 0;
              const unsigned char *b = ares_dns_rr_get_abin(rr, key, j, &l);
              snprintf(ib, sizeof ib, "[%zu]", j);
              if (b == nullptr) {
                d.add(K + ib, "!null");
                if (problems) *problems += K + ib + " NULL; ";
                continue;
              }
              if (b[l] != 0 && problems) *problems += K + ib + " not NUL terminated; ";
              d.add(K + ib, ref::hexs(b, l));
              cat.append((const char *)b, l);
            }
            size_t               tl = 0;
            const unsigned char *tb = ares_dns_rr_get_bin(rr, key, &tl);
            if (cnt && (tb == nullptr || std::string((const char *)tb, tl) != cat) && problems) *problems += K + " concatenation differs from chunks; ";
            break;
          }
          case ARES_DATATYPE_OPT: {
            size_t cnt = ares_dns_rr_get_opt_cnt(rr, key);
            d.addu(K + ".cnt", cnt);
            char ib[32];
            for (size_t j = 0; j < cnt; j++) {
              const unsigned char *v  = nullptr;
              size_t               vl = 0;
              unsigned short       oc = ares_dns_rr_get_opt(rr, key, j, &v, &vl);
              snprintf(ib, sizeof ib, "[%zu]", j);
              d.addu(K + ib + ".code", oc);
              if (v == nullptr && vl != 0) {
                d.add(K + ib + ".val", "!null");
                if (problems) *problems += K + ib + " NULL value with length; ";
              } else {
                d.add(K + ib + ".val", v ? ref::hexs(v, vl) : "");
                if (v && v[vl] != 0 && problems) *problems += K + ib + " value not NUL terminated; ";
                const unsigned char *v2  = nullptr;
                size_t               vl2 = 0;
                if (!ares_dns_rr_get_opt_byid(rr, key, oc, &v2, &vl2) && problems) *problems += K + ib + " not found by id; ";
              }
            }
            break;
          }
        }
      }
    }
  }
  return d;
}

// --------------------------------------------------- legacy parser driver
enum LP { LP_A, LP_AAAA, LP_CAA, LP_MX, LP_NAPTR, LP_NS, LP_PTR, LP_SOA, LP_SRV, LP_TXT, LP_TXT_EXT, LP_URI, LP_N };
static const char *LPN[LP_N] = { "ares_parse_a_reply",   "ares_parse_aaaa_reply", "ares_parse_caa_reply", "ares_parse_mx_reply",
                                 "ares_parse_naptr_reply", "ares_parse_ns_reply",   "ares_parse_ptr_reply", "ares_parse_soa_reply",
                                 "ares_parse_srv_reply",  "ares_parse_txt_reply",  "ares_parse_txt_reply_ext", "ares_parse_uri_reply" };

struct LRes {
  int                      st        = 0;
  bool                     have      = false; // non-NULL result object
  bool                     is_host   = false;
  std::vector<std::string> items;             // list parsers: one canonical string per element
  // hostent
  bool                     h_name_null = false;
  std::string              h_name;
  std::vector<std::string> aliases, addrs;
  int                      addrtype = 0, length = 0;
  // addrttls
  int                                      nttl = -1;
  std::vector<std::pair<std::string, int>> ttls;
  std::string                              problems; // shape problems (C02: result not fully formed)
  bool                                     leak = false;
  std::string                              leakwhat;
};

static std::string S(const char *s) { return s ? ref::hexs((const uint8_t *)s, strlen(s)) : std::string("!null"); }
static std::string S(const unsigned char *s) { return S((const char *)s); }

static void walk_hostent(struct hostent *h, LRes &r)
{
  r.have    = true;
  r.is_host = true;
  if (h->h_name == nullptr) {
    r.h_name_null = true;
    r.problems += "h_name NULL; ";
  } else r.h_name = h->h_name;
  r.addrtype = h->h_addrtype;
  r.length   = h->h_length;
  if (h->h_aliases == nullptr) r.problems += "h_aliases NULL; ";
  else
    for (size_t i = 0; h->h_aliases[i]; i++) r.aliases.push_back(h->h_aliases[i]);
  if (h->h_addr_list == nullptr) r.problems += "h_addr_list NULL; ";
  else
    for (size_t i = 0; h->h_addr_list[i]; i++) r.addrs.push_back(ref::hexs((const uint8_t *)h->h_addr_list[i], h->h_length > 0 ? (size_t)h->h_length : 0));
}

// variant: A/AAAA: want_host, cap (<0: no addrttl array); PTR: pv 0 none, 1 v4, 2 v6
static LRes call_legacy(LP w, const uint8_t *p, size_t len, bool want_host = true, int cap = -1, int pv = 0)
{
  LRes r;
  int  alen = (int)len;
  switch (w) {
    case LP_A:
    case LP_AAAA: {
      struct hostent *h   = nullptr;
      size_t          esz = w == LP_A ? sizeof(struct ares_addrttl) : sizeof(struct ares_addr6ttl);
      void           *arr = cap >= 0 ? malloc((size_t)cap * esz) : nullptr;
      int             n   = cap;
      if (w == LP_A) r.st = ares_parse_a_reply(p, alen, want_host ? &h : nullptr, (struct ares_addrttl *)arr, cap >= 0 ? &n : nullptr);
      else r.st = ares_parse_aaaa_reply(p, alen, want_host ? &h : nullptr, (struct ares_addr6ttl *)arr, cap >= 0 ? &n : nullptr);
      if (cap >= 0) {
        r.nttl = n;
        if (n < 0 || n > cap) r.problems += "naddrttls " + std::to_string(n) + " outside 0.." + std::to_string(cap) + "; ";
        else
          for (int i = 0; i < n; i++) {
            if (w == LP_A) {
              struct ares_addrttl *a = (struct ares_addrttl *)arr + i;
              r.ttls.push_back({ ref::hexs((const uint8_t *)&a->ipaddr, 4), a->ttl });
            } else {
              struct ares_addr6ttl *a = (struct ares_addr6ttl *)arr + i;
              r.ttls.push_back({ ref::hexs((const uint8_t *)&a->ip6addr, 16), a->ttl });
            }
          }
      }
      free(arr);
      if (h) {
        walk_hostent(h, r);
        ares_free_hostent(h);
      }
      break;
    }
    case LP_NS: {
      struct hostent *h = nullptr;
      r.st              = ares_parse_ns_reply(p, alen, &h);
      if (h) {
        walk_hostent(h, r);
        ares_free_hostent(h);
      }
      break;
    }
    case LP_PTR: {
      struct hostent *h    = nullptr;
      size_t          al   = pv == 1 ? 4 : pv == 2 ? 16 : 0;
      uint8_t        *addr = al ? (uint8_t *)malloc(al) : nullptr;
      for (size_t i = 0; i < al; i++) addr[i] = (uint8_t)(0xA0 + i);
      r.st = ares_parse_ptr_reply(p, alen, addr, (int)al, pv == 2 ? AF_INET6 : AF_INET, &h);
      free(addr);
      if (h) {
        walk_hostent(h, r);
        ares_free_hostent(h);
      }
      break;
    }
    case LP_CAA: {
      struct ares_caa_reply *o = nullptr;
      r.st                     = ares_parse_caa_reply(p, alen, &o);
      r.have                   = o != nullptr;
      for (auto *e = o; e; e = e->next) {
        if (!e->property || !e->value) {
          r.problems += "CAA element with NULL member; ";
          continue;
        }
        if (e->property[e->plength] != 0 || e->value[e->length] != 0) r.problems += "CAA member not NUL terminated; ";
        r.items.push_back("critical=" + std::to_string(e->critical) + " property=" + ref::hexs(e->property, e->plength) + " value=" + ref::hexs(e->value, e->length));
      }
      if (o) ares_free_data(o);
      break;
    }
    case LP_MX: {
      struct ares_mx_reply *o = nullptr;
      r.st                    = ares_parse_mx_reply(p, alen, &o);
      r.have                  = o != nullptr;
      for (auto *e = o; e; e = e->next) {
        if (!e->host) r.problems += "MX host NULL; ";
        r.items.push_back("priority=" + std::to_string(e->priority) + " host=" + S(e->host));
      }
      if (o) ares_free_data(o);
      break;
    }
    case LP_NAPTR: {
      struct ares_naptr_reply *o = nullptr;
      r.st                       = ares_parse_naptr_reply(p, alen, &o);
      r.have                     = o != nullptr;
      for (auto *e = o; e; e = e->next) {
        if (!e->flags || !e->service || !e->regexp || !e->replacement) r.problems += "NAPTR member NULL; ";
        r.items.push_back("order=" + std::to_string(e->order) + " preference=" + std::to_string(e->preference) + " flags=" + S(e->flags) + " service=" + S(e->service) + " regexp=" + S(e->regexp) + " replacement=" + S(e->replacement));
      }
      if (o) ares_free_data(o);
      break;
    }
    case LP_SOA: {
      struct ares_soa_reply *o = nullptr;
      r.st                     = ares_parse_soa_reply(p, alen, &o);
      r.have                   = o != nullptr;
      if (o) {
        if (!o->nsname || !o->hostmaster) r.problems += "SOA member NULL; ";
        r.items.push_back("nsname=" + S(o->nsname) + " hostmaster=" + S(o->hostmaster) + " serial=" + std::to_string(o->serial) + " refresh=" + std::to_string(o->refresh) + " retry=" + std::to_string(o->retry) + " expire=" + std::to_string(o->expire) + " minttl=" + std::to_string(o->minttl));
        ares_free_data(o);
      }
      break;
    }
    case LP_SRV: {
      struct ares_srv_reply *o = nullptr;
      r.st                     = ares_parse_srv_reply(p, alen, &o);
      r.have                   = o != nullptr;
      for (auto *e = o; e; e = e->next) {
        if (!e->host) r.problems += "SRV host NULL; ";
        r.items.push_back("priority=" + std::to_string(e->priority) + " weight=" + std::to_string(e->weight) + " port=" + std::to_string(e->port) + " host=" + S(e->host));
      }
      if (o) ares_free_data(o);
      break;
    }
    case LP_TXT: {
      struct ares_txt_reply *o = nullptr;
      r.st                     = ares_parse_txt_reply(p, alen, &o);
      r.have                   = o != nullptr;
      for (auto *e = o; e; e = e->next) {
        if (!e->txt) {
          r.problems += "TXT txt NULL; ";
          continue;
        }
        if (e->txt[e->length] != 0) r.problems += "TXT chunk not NUL terminated; ";
        r.items.push_back("txt=" + ref::hexs(e->txt, e->length));
      }
      if (o) ares_free_data(o);
      break;
    }
    case LP_TXT_EXT: {
      struct ares_txt_ext *o = nullptr;
      r.st                   = ares_parse_txt_reply_ext(p, alen, &o);
      r.have                 = o != nullptr;
      for (auto *e = o; e; e = e->next) {
        if (!e->txt) {
          r.problems += "TXT txt NULL; ";
          continue;
        }
        if (e->txt[e->length] != 0) r.problems += "TXT chunk not NUL terminated; ";
        r.items.push_back("start=" + std::to_string((int)e->record_start) + " txt=" + ref::hexs(e->txt, e->length));
      }
      if (o) ares_free_data(o);
      break;
    }
    case LP_URI: {
      struct ares_uri_reply *o = nullptr;
      r.st                     = ares_parse_uri_reply(p, alen, &o);
      r.have                   = o != nullptr;
      for (auto *e = o; e; e = e->next) {
        if (!e->uri) r.problems += "URI uri NULL; ";
        r.items.push_back("priority=" + std::to_string(e->priority) + " weight=" + std::to_string(e->weight) + " uri=" + S(e->uri) + " ttl=" + std::to_string(e->ttl));
      }
      if (o) ares_free_data(o);
      break;
    }
    default: break;
  }
  r.leak = !ledger_clean(&r.leakwhat);
  return r;
}

static bool lp_is_list(LP w) { return !(w == LP_A || w == LP_AAAA || w == LP_NS || w == LP_PTR); }

// C02 shape rules for one legacy call
static void c02_check_legacy(Ctx &c, LP w, const LRes &r, bool host_requested)
{
  c.rep.executions++;
  std::string fn = LPN[w];
  if (r.leak) c.viol("C02:leak:" + fn, fn + " leaves " + r.leakwhat + " after its free function (status " + status_name(r.st) + ")");
  if (!r.problems.empty()) c.viol("C02:result:" + fn + ":incomplete", fn + " status " + status_name(r.st) + ": " + r.problems);
  if (r.st != ARES_SUCCESS && r.have) c.viol("C02:result:" + fn + ":failure-with-result", fn + " returned " + status_name(r.st) + " but stored a result");
  if (r.st == ARES_SUCCESS && !lp_is_list(w) && host_requested && !r.have) c.viol("C02:result:" + fn + ":success-null", fn + " returned SUCCESS but no hostent");
  if (r.st == ARES_SUCCESS && w == LP_SOA && !r.have) c.viol("C02:result:" + fn + ":success-null", fn + " returned SUCCESS but no result");
  c.rep.outcome(fn + ":" + status_name(r.st) + ":" + (r.have ? "result" : "none"));
}

// ---------------------------------------------------------------------- C02
static void c02_expand(Ctx &c, const uint8_t *p, size_t len, size_t off)
{
  char *s      = nullptr;
  long  enclen = -7;
  int   st     = ares_expand_name(p + off, p, (int)len, &s, &enclen);
  c.rep.executions++;
  if (st == ARES_SUCCESS) {
    if (s == nullptr) c.viol("C02:result:ares_expand_name:success-null", "SUCCESS with NULL string");
    else {
      size_t n = strlen(s);
      if (n > 1024) c.obs("name_text_over_1024");
      if (enclen < 1 || (size_t)enclen > len - off) c.viol("C02:result:ares_expand_name:enclen", "enclen " + std::to_string(enclen) + " outside the buffer at offset " + std::to_string(off));
      ares_free_string(s);
    }
  } else {
    if (s != nullptr) {
      c.viol("C02:result:ares_expand_name:failure-with-result", "status " + status_name(st) + " with non-NULL string");
      ares_free_string(s);
    }
    if (st != ARES_EBADNAME && st != ARES_ENOMEM) c.obs("expand_name_status_" + status_name(st));
  }
  std::string what;
  if (!ledger_clean(&what)) c.viol("C02:leak:ares_expand_name", what);
  c.rep.outcome("ares_expand_name:" + status_name(st));

  unsigned char *us = nullptr;
  enclen            = -7;
  st                = ares_expand_string(p + off, p, (int)len, &us, &enclen);
  c.rep.executions++;
  if (st == ARES_SUCCESS) {
    if (us == nullptr) c.viol("C02:result:ares_expand_string:success-null", "SUCCESS with NULL string");
    else {
      if (enclen < 1 || (size_t)enclen > len - off || (size_t)enclen != (size_t)p[off] + 1) c.viol("C02:result:ares_expand_string:enclen", "enclen " + std::to_string(enclen) + " at offset " + std::to_string(off));
      else if (us[p[off]] != 0 || memcmp(us, p + off + 1, p[off]) != 0) c.viol("C02:result:ares_expand_string:content", "returned string differs from the encoded bytes");
      ares_free_string(us);
    }
  } else if (us != nullptr) {
    c.viol("C02:result:ares_expand_string:failure-with-result", "status " + status_name(st) + " with non-NULL string");
    ares_free_string(us);
  }
  if (!ledger_clean(&what)) c.viol("C02:leak:ares_expand_string", what);
  c.rep.outcome("ares_expand_string:" + status_name(st));
  // the same call in its documented "skip" form (no output string wanted): same status, same length, nothing kept
  {
    long el2 = -7;
    int  st2 = ares_expand_string(p + off, p, (int)len, nullptr, &el2);
    c.rep.executions++;
    if (st2 != st) c.viol("C02:result:ares_expand_string:skip-form-status", "status " + status_name(st2) + " without an output string, " + status_name(st) + " with one");
    else if (st == ARES_SUCCESS && el2 != enclen) c.viol("C02:result:ares_expand_string:skip-form-enclen", "enclen " + std::to_string(el2) + " without an output string, " + std::to_string(enclen) + " with one");
    if (!ledger_clean(&what)) c.viol("C02:leak:ares_expand_string:skip-form", what);
    if (st2 == ARES_SUCCESS) c.rep.witness("expand_string_skip_form_ok");
  }
}

void run_c02(Ctx &c, const CaseInfo &ci)
{
  const uint8_t *p = ci.p;
  size_t         len = ci.len;
  std::string    what;
  bool           ok0 = false;
  for (unsigned f = 0; f < 64; f++) {
    if (!ci.is_base && f != 0 && f != 63) continue;
    ares_dns_record_t *rec = nullptr;
    ares_status_t      st  = ares_dns_parse(p, len, f, &rec);
    c.rep.executions++;
    if (st == ARES_SUCCESS) {
      if (f == 0) ok0 = true;
      c.rep.witness("parse_ok");
      if (rec == nullptr) c.viol("C02:result:ares_dns_parse:success-null", "SUCCESS with NULL record, flags " + std::to_string(f));
      else {
        std::string problems;
        size_t      maxname = 0;
        ref::Dump   d       = ares_dump(rec, &maxname, &problems);
        if (!problems.empty()) c.viol("C02:result:ares_dns_parse:incomplete", "flags " + std::to_string(f) + ": " + problems);
        if (maxname > 1024) c.obs("name_text_over_1024");
        if (f == 0) {
          // addrinfo conversion paths (internal symbols), both cname policies
          for (int pol = 0; pol < 2; pol++) {
            struct ares_addrinfo ai;
            memset(&ai, 0, sizeof ai);
            ares_status_t s2 = ares_parse_into_addrinfo(rec, pol ? ARES_TRUE : ARES_FALSE, 53, &ai);
            c.rep.executions++;
            c.rep.outcome(std::string("ares_parse_into_addrinfo:") + status_name(s2));
            if (s2 == ARES_SUCCESS) {
              struct hostent *h  = nullptr;
              ares_status_t   s3 = ares_addrinfo2hostent(&ai, AF_UNSPEC, &h);
              c.rep.outcome(std::string("ares_addrinfo2hostent:") + status_name(s3));
              if (s3 == ARES_SUCCESS && h == nullptr) c.viol("C02:result:ares_addrinfo2hostent:success-null", "SUCCESS without hostent");
              if (s3 != ARES_SUCCESS && h != nullptr) c.viol("C02:result:ares_addrinfo2hostent:failure-with-result", status_name(s3));
              if (h) {
                LRes lr;
                walk_hostent(h, lr);
                if (!lr.problems.empty()) c.viol("C02:result:ares_addrinfo2hostent:incomplete", lr.problems);
                ares_free_hostent(h);
              }
            } else if (ai.nodes != nullptr || ai.cnames != nullptr) c.viol("C02:result:ares_parse_into_addrinfo:failure-with-result", status_name(s2));
            ares_freeaddrinfo_cnames(ai.cnames);
            ares_freeaddrinfo_nodes(ai.nodes);
            ares_free(ai.name);
          }
        }
        ares_dns_record_destroy(rec);
      }
    } else {
      c.rep.witness("parse_fail");
      if (rec != nullptr) {
        c.viol("C02:result:ares_dns_parse:failure-with-result", status_name(st) + " with non-NULL record");
        ares_dns_record_destroy(rec);
      }
    }
    if (!ledger_clean(&what)) c.viol("C02:leak:ares_dns_parse", "flags " + std::to_string(f) + " status " + status_name(st) + ": " + what);
    if (f == 0 || f == 63) c.rep.outcome("ares_dns_parse:flags=" + std::to_string(f) + ":" + status_name(st));
  }
  if (ok0) { // last sentence of C02: an accepted message never needs a forward / self / looping pointer
    ref::Decoded rd = ref::decode_message(p, len, 0);
    c.rep.executions++;
    if (rd.st != ref::OK && ref::namefail_is_pointer_rule(rd.first_name_fail))
      c.viol(std::string("C02:pointer-rule:accepted-") + ref::namefail_str(rd.first_name_fail) + ":ares_dns_parse", "ares_dns_parse accepted a message whose name decoding needs a " + std::string(ref::namefail_str(rd.first_name_fail)) + " (" + rd.why + ")");
    if (rd.pointers_followed) c.rep.witness("pointer_followed");
  } else {
    ref::Decoded rd = ref::decode_message(p, len, 0);
    c.rep.executions++;
    if (ref::namefail_is_pointer_rule(rd.first_name_fail)) c.rep.witness("forward_pointer_rejected");
  }
  for (int w = 0; w < LP_N; w++) {
    // argument variants only matter once the message parses; a rejected message takes the same
    // early-exit path whatever the output arguments are, so one variant per entry point is run
    if (w == LP_A || w == LP_AAAA) {
      c02_check_legacy(c, (LP)w, call_legacy((LP)w, p, len, true, 1), true);
      if (ok0 || ci.is_base) {
        c02_check_legacy(c, (LP)w, call_legacy((LP)w, p, len, true, -1), true);
        c02_check_legacy(c, (LP)w, call_legacy((LP)w, p, len, false, 3), false);
      }
    } else if (w == LP_PTR) {
      for (int pv = 0; pv < ((ok0 || ci.is_base) ? 3 : 1); pv++) c02_check_legacy(c, LP_PTR, call_legacy(LP_PTR, p, len, true, -1, pv), true);
    } else c02_check_legacy(c, (LP)w, call_legacy((LP)w, p, len), true);
  }
  if (ci.all_offsets) {
    for (size_t o = 0; o < len; o++) c02_expand(c, p, len, o);
  } else {
    for (size_t o : ci.name_offsets)
      if (o < len) c02_expand(c, p, len, o);
  }
}

// legacy int-length entry points with a length that is not the buffer length
void run_legacy_alen(Ctx &c, const uint8_t *p, size_t real_len, int alen)
{
  (void)real_len;
  std::string what;
#define CHK(fn, st, res)                                                                                                     \
  do {                                                                                                                       \
    c.rep.executions++;                                                                                                      \
    c.rep.outcome(std::string(fn) + ":alen<=0:" + status_name(st));                                                          \
    if ((st) == ARES_SUCCESS) c.viol(std::string("C02:alen:") + fn + ":success-with-nonpositive-length", "alen " + std::to_string(alen)); \
    if ((res) != nullptr) c.viol(std::string("C02:result:") + fn + ":failure-with-result", "alen " + std::to_string(alen));   \
    if (!ledger_clean(&what)) c.viol(std::string("C02:leak:") + fn, what);                                                   \
  } while (0)
  {
    struct hostent     *h = nullptr;
    struct ares_addrttl t[2];
    int                 n = 2;
    int                 st = ares_parse_a_reply(p, alen, &h, t, &n);
    CHK("ares_parse_a_reply", st, h);
    struct ares_addr6ttl t6[2];
    n  = 2;
    st = ares_parse_aaaa_reply(p, alen, &h, t6, &n);
    CHK("ares_parse_aaaa_reply", st, h);
    st = ares_parse_ns_reply(p, alen, &h);
    CHK("ares_parse_ns_reply", st, h);
    st = ares_parse_ptr_reply(p, alen, nullptr, 0, AF_INET, &h);
    CHK("ares_parse_ptr_reply", st, h);
  }
  {
    struct ares_caa_reply *o = nullptr;
    int                    st = ares_parse_caa_reply(p, alen, &o);
    CHK("ares_parse_caa_reply", st, o);
  }
  {
    struct ares_mx_reply *o = nullptr;
    int                   st = ares_parse_mx_reply(p, alen, &o);
    CHK("ares_parse_mx_reply", st, o);
  }
  {
    struct ares_naptr_reply *o = nullptr;
    int                      st = ares_parse_naptr_reply(p, alen, &o);
    CHK("ares_parse_naptr_reply", st, o);
  }
  {
    struct ares_soa_reply *o = nullptr;
    int                    st = ares_parse_soa_reply(p, alen, &o);
    CHK("ares_parse_soa_reply", st, o);
  }
  {
    struct ares_srv_reply *o = nullptr;
    int                    st = ares_parse_srv_reply(p, alen, &o);
    CHK("ares_parse_srv_reply", st, o);
  }
  {
    struct ares_txt_reply *o = nullptr;
    int                    st = ares_parse_txt_reply(p, alen, &o);
    CHK("ares_parse_txt_reply", st, o);
    struct ares_txt_ext *e = nullptr;
    st                     = ares_parse_txt_reply_ext(p, alen, &e);
    CHK("ares_parse_txt_reply_ext", st, e);
  }
  {
    struct ares_uri_reply *o = nullptr;
    int                    st = ares_parse_uri_reply(p, alen, &o);
    CHK("ares_parse_uri_reply", st, o);
  }
  {
    char *s  = nullptr;
    long  el = 0;
    int   st = ares_expand_name(p, p, alen, &s, &el);
    CHK("ares_expand_name", st, s);
    unsigned char *us = nullptr;
    st                = ares_expand_string(p, p, alen, &us, &el);
    CHK("ares_expand_string", st, us);
  }
#undef CHK
}

// ---------------------------------------------------------------------- C04
// Adjust the reference dump for the two documented representation limits of
// the record API so that the remaining fields can still be compared.
static void apply_notes(Ctx &c, ref::Decoded &d)
{
  if (d.notes.count("rcode_unassigned")) {
    c.obs("rcode_unassigned_reported_as_servfail");
    for (auto &e : d.dump.kv)
      if (e.k == "hdr.rcode") e.v = "2";
  }
  if (d.notes.count("duplicate_option")) {
    // c-ares stores options as a map code -> value (last value wins, first position kept)
    c.obs("duplicate_edns_option_collapsed");
    ref::Dump                                                   nd;
    size_t                                                      i = 0;
    while (i < d.dump.kv.size()) {
      const std::string &k = d.dump.kv[i].k;
      size_t             q = k.rfind(".OPTIONS.cnt");
      if (q == std::string::npos || q + 12 != k.size()) {
        nd.kv.push_back(d.dump.kv[i++]);
        continue;
      }
      std::string                                   base = k.substr(0, q + 8); // ...OPTIONS
      size_t                                        n    = (size_t)atoll(d.dump.kv[i].v.c_str());
      std::vector<std::pair<std::string, std::string>> o;
      for (size_t j = 0; j < n; j++) {
        std::string code = d.dump.kv[i + 1 + 2 * j].v, val = d.dump.kv[i + 2 + 2 * j].v;
        bool        f = false;
        for (auto &e : o)
          if (e.first == code) {
            e.second = val;
            f        = true;
          }
        if (!f) o.push_back({ code, val });
      }
      nd.addu(base + ".cnt", o.size());
      for (size_t j = 0; j < o.size(); j++) {
        nd.add(base + "[" + std::to_string(j) + "].code", o[j].first);
        nd.add(base + "[" + std::to_string(j) + "].val", o[j].second);
      }
      i += 1 + 2 * n;
    }
    d.dump = nd;
  }
}

void run_c04(Ctx &c, const CaseInfo &ci)
{
  static const unsigned few[] = { 0, 63 };
  std::vector<unsigned> fl;
  if (ci.is_base)
    for (unsigned f = 0; f < 64; f++) fl.push_back(f);
  else fl.assign(few, few + 2);
  for (unsigned f : fl) {
    ref::Decoded       rd  = ref::decode_message(ci.p, ci.len, f);
    ares_dns_record_t *rec = nullptr;
    ares_status_t      st  = ares_dns_parse(ci.p, ci.len, f, &rec);
    c.rep.executions += 2;
    std::string fs = f == 0 ? "flags=0" : f == 63 ? "flags=allraw" : "flags=mixed";
    c.rep.outcome("cares=" + status_name(st) + ":ref=" + (rd.st == ref::OK ? "ok" : rd.st == ref::MALFORMED ? "malformed" : "unsupported") + ":" + fs);
    if (f == 0 && ci.is_base && ci.gen_valid) {
      if (rd.st != ref::OK) c.rep.internal_errors.push_back("reference decoder rejects a generator-valid base: " + rd.why + " " + c.case_json);
      if (st != ARES_SUCCESS) c.viol("C04:accept:generator-valid-base-rejected", "ares_dns_parse returned " + status_name(st) + " for a message the generator built as valid");
    }
    if (rd.st == ref::OK && st != ARES_SUCCESS) {
      c.viol("C04:accept:reference-wellformed-rejected:" + status_name(st) + ":" + fs, "reference decoder finds the message well-formed within the supported subset, ares_dns_parse returns " + status_name(st) + "\n" + rd.dump.text());
    }
    if (rd.st == ref::UNSUPPORTED && st != ARES_SUCCESS) c.obs("outside_subset_rejected");
    if (rd.st != ref::OK && st == ARES_SUCCESS) {
      c.rep.witness("lenient_accept");
      // (lenient acceptance is not a C04 violation; the pointer rule is decided under C02)
    }
    if (rd.st == ref::OK && st == ARES_SUCCESS && rec) {
      apply_notes(c, rd);
      std::string problems;
      ref::Dump   ad = ares_dump(rec, nullptr, &problems);
      std::string key, desc;
      if (ref::dump_diff(rd.dump, ad, key, desc)) c.viol("C04:diff:" + key + (f == 0 ? "" : ":" + fs), "reference (left) vs c-ares (right): " + desc);
      else {
        c.rep.witness("agree");
        if (rd.pointers_followed) c.rep.witness("pointer_followed");
        if (rd.opt_with_options) c.rep.witness("opt_with_options");
        if (rd.svcb_params) c.rep.witness("svcb_params");
        if (rd.raw_rr) c.rep.witness("raw_rr");
        if (f == 0)
          for (unsigned t : rd.rrtypes) c.rep.witness((std::string("rr_ok_") + ref::type_name(t)).c_str());
      }
    }
    if (st == ARES_SUCCESS) c.rep.witness("parse_ok");
    else {
      c.rep.witness("parse_fail");
      if (ref::namefail_is_pointer_rule(rd.first_name_fail)) c.rep.witness("forward_pointer_rejected");
    }
    if (rec) ares_dns_record_destroy(rec);
    ledger_clean();
  }
}

// ------------------------------------------------------------ names (C02/C04)
void run_name_at(Ctx &c, const uint8_t *p, size_t len, size_t off)
{
  ref::NameInfo ni;
  bool          rok    = ref::decode_name(p, len, off, ni);
  char         *s      = nullptr;
  long          enclen = -1;
  int           st     = ares_expand_name(p + off, p, (int)len, &s, &enclen);
  c.rep.executions += 2;
  c.rep.outcome(std::string("expand=") + status_name(st) + ":ref=" + ref::namefail_str(ni.fail) + ":ptrs=" + (ni.pointers > 2 ? "3+" : std::to_string(ni.pointers)));
  if (st == ARES_SUCCESS) {
    if (s == nullptr) c.viol("C02:result:ares_expand_name:success-null", "SUCCESS with NULL string");
    if (!rok && ref::namefail_is_pointer_rule(ni.fail)) {
      if (c.want("C02")) c.viol(std::string("C02:pointer-rule:accepted-") + ref::namefail_str(ni.fail), std::string("ares_expand_name accepted a name that needs a ") + ref::namefail_str(ni.fail) + " at offset " + std::to_string(off));
    } else if (!rok) {
      c.rep.witness("lenient_accept");
      if (ni.fail == ref::NF_TOO_LONG) c.obs("name_over_255_octets_accepted");
      else if (c.want("C02")) c.viol(std::string("C02:name:accepted-") + ref::namefail_str(ni.fail), std::string("ares_expand_name accepted a name the reference finds ") + ref::namefail_str(ni.fail));
    } else if (s) {
      ref::Labels l;
      bool        u = ref::unescape_name(s, l);
      if (c.want("C04")) {
        if (!u) c.viol("C04:name:presentation-unparsable", std::string("name text is not valid presentation format: ") + s);
        else if (l != ni.labels) c.viol("C04:name:labels-differ", "reference labels " + ref::labels_text(ni.labels) + " vs c-ares " + ref::labels_text(l) + " (" + s + ")");
        if ((size_t)enclen != ni.consumed) c.viol("C04:name:enclen", "reference consumed " + std::to_string(ni.consumed) + " c-ares enclen " + std::to_string(enclen));
      }
      ref::Labels back;
      if (!ref::unescape_name(ref::escape_name(ni.labels), back) || back != ni.labels) c.rep.internal_errors.push_back("reference escape/unescape does not round trip");
      c.rep.witness("name_agree");
      if (ni.pointers) c.rep.witness("pointer_followed");
      if (strlen(s) > 1024) c.obs("name_text_over_1024");
    }
  } else {
    if (s != nullptr) c.viol("C02:result:ares_expand_name:failure-with-result", status_name(st));
    if (rok) {
      if (c.want("C04")) c.viol("C04:name:reference-valid-rejected", "reference decodes " + ref::labels_text(ni.labels) + " at offset " + std::to_string(off) + ", ares_expand_name returns " + status_name(st));
    } else if (ref::namefail_is_pointer_rule(ni.fail)) c.rep.witness("forward_pointer_rejected");
    else c.rep.witness("malformed_rejected");
  }
  if (s) ares_free_string(s);
  std::string what;
  if (!ledger_clean(&what)) c.viol("C02:leak:ares_expand_name", what);
}

// ---------------------------------------------------------------------- C18
struct Expect {
  std::vector<std::string> items; // list parsers
  bool                     any_nonin = false;
};

static const char *T(const ares_dns_rr_t *rr, ares_dns_rr_key_t k)
{
  const char *s = ares_dns_rr_get_str(rr, k);
  return s ? s : "";
}

static void c18_compare_list(Ctx &c, LP w, const ares_dns_record_t *rec, const LRes &r)
{
  std::string              fn = LPN[w];
  size_t                   an = ares_dns_record_rr_cnt(rec, ARES_SECTION_ANSWER);
  std::vector<std::string> exp;
  bool                     nonin = false;
  for (size_t i = 0; i < an; i++) {
    const ares_dns_rr_t *rr = ares_dns_record_rr_get_const(rec, ARES_SECTION_ANSWER, i);
    ares_dns_rec_type_t  t  = ares_dns_rr_get_type(rr);
    ares_dns_class_t     k  = ares_dns_rr_get_class(rr);
    ares_dns_rec_type_t  want;
    switch (w) {
      case LP_CAA: want = ARES_REC_TYPE_CAA; break;
      case LP_MX: want = ARES_REC_TYPE_MX; break;
      case LP_NAPTR: want = ARES_REC_TYPE_NAPTR; break;
      case LP_SOA: want = ARES_REC_TYPE_SOA; break;
      case LP_SRV: want = ARES_REC_TYPE_SRV; break;
      case LP_URI: want = ARES_REC_TYPE_URI; break;
      default: want = ARES_REC_TYPE_TXT; break;
    }
    if (t != want) continue;
    bool chaos_ok = (w == LP_CAA || w == LP_TXT || w == LP_TXT_EXT);
    if (k != ARES_CLASS_IN && !(chaos_ok && k == ARES_CLASS_CHAOS)) {
      nonin = true;
      continue;
    }
    if (k != ARES_CLASS_IN) c.obs("chaos_class_record_returned_by_" + fn);
    switch (w) {
      case LP_CAA: {
        size_t               vl = 0;
        const unsigned char *v  = ares_dns_rr_get_bin(rr, ARES_RR_CAA_VALUE, &vl);
        const char          *tg = T(rr, ARES_RR_CAA_TAG);
        exp.push_back("critical=" + std::to_string(ares_dns_rr_get_u8(rr, ARES_RR_CAA_CRITICAL)) + " property=" + ref::hexs((const uint8_t *)tg, strlen(tg)) + " value=" + ref::hexs(v, vl));
        break;
      }
      case LP_MX: exp.push_back("priority=" + std::to_string(ares_dns_rr_get_u16(rr, ARES_RR_MX_PREFERENCE)) + " host=" + S(T(rr, ARES_RR_MX_EXCHANGE))); break;
      case LP_NAPTR:
        exp.push_back("order=" + std::to_string(ares_dns_rr_get_u16(rr, ARES_RR_NAPTR_ORDER)) + " preference=" + std::to_string(ares_dns_rr_get_u16(rr, ARES_RR_NAPTR_PREFERENCE)) + " flags=" + S(T(rr, ARES_RR_NAPTR_FLAGS)) + " service=" + S(T(rr, ARES_RR_NAPTR_SERVICES)) + " regexp=" + S(T(rr, ARES_RR_NAPTR_REGEXP)) + " replacement=" + S(T(rr, ARES_RR_NAPTR_REPLACEMENT)));
        break;
      case LP_SOA:
        if (exp.empty())
          exp.push_back("nsname=" + S(T(rr, ARES_RR_SOA_MNAME)) + " hostmaster=" + S(T(rr, ARES_RR_SOA_RNAME)) + " serial=" + std::to_string(ares_dns_rr_get_u32(rr, ARES_RR_SOA_SERIAL)) + " refresh=" + std::to_string(ares_dns_rr_get_u32(rr, ARES_RR_SOA_REFRESH)) + " retry=" + std::to_string(ares_dns_rr_get_u32(rr, ARES_RR_SOA_RETRY)) + " expire=" + std::to_string(ares_dns_rr_get_u32(rr, ARES_RR_SOA_EXPIRE)) + " minttl=" + std::to_string(ares_dns_rr_get_u32(rr, ARES_RR_SOA_MINIMUM)));
        else c.obs("soa_parser_returns_only_first_soa");
        break;
      case LP_SRV:
        exp.push_back("priority=" + std::to_string(ares_dns_rr_get_u16(rr, ARES_RR_SRV_PRIORITY)) + " weight=" + std::to_string(ares_dns_rr_get_u16(rr, ARES_RR_SRV_WEIGHT)) + " port=" + std::to_string(ares_dns_rr_get_u16(rr, ARES_RR_SRV_PORT)) + " host=" + S(T(rr, ARES_RR_SRV_TARGET)));
        break;
      case LP_URI:
        exp.push_back("priority=" + std::to_string(ares_dns_rr_get_u16(rr, ARES_RR_URI_PRIORITY)) + " weight=" + std::to_string(ares_dns_rr_get_u16(rr, ARES_RR_URI_WEIGHT)) + " uri=" + S(T(rr, ARES_RR_URI_TARGET)) + " ttl=" + std::to_string((int)ares_dns_rr_get_ttl(rr)));
        break;
      default: {
        size_t n = ares_dns_rr_get_abin_cnt(rr, ARES_RR_TXT_DATA);
        for (size_t j = 0; j < n; j++) {
          size_t               l = 0;
          const unsigned char *b = ares_dns_rr_get_abin(rr, ARES_RR_TXT_DATA, j, &l);
          exp.push_back((w == LP_TXT_EXT ? std::string("start=") + (j == 0 ? "1" : "0") + " " : std::string()) + "txt=" + ref::hexs(b, l));
        }
      }
    }
  }
  if (nonin) c.obs("non_IN_class_record_skipped_by_" + fn);
  std::string shape = exp.empty() ? "n=0" : exp.size() == 1 ? "n=1" : "n=2+";
  c.rep.outcome("C18:" + fn + ":" + status_name(r.st) + ":" + shape);
  if (malformed_class(r.st)) {
    if (w == LP_SOA && exp.empty() && r.st == ARES_EBADRESP) {
      c.obs("soa_no_soa_record_reported_as_EBADRESP"); // pinned by test/ares-test-parse-soa.cc
      c.rep.witness("legacy_nodata");
      return;
    }
    c.viol("C18:status:" + fn + ":malformed-status-for-accepted-message", fn + " returns " + status_name(r.st) + " although ares_dns_parse accepts the message");
    return;
  }
  if (an == 0 || exp.empty()) {
    if (r.st == ARES_ENODATA && !r.have) {
      c.rep.witness("legacy_nodata");
      return;
    }
    if (an != 0 && r.st == ARES_SUCCESS && !r.have && w != LP_SOA) {
      c.obs("success_with_empty_list_" + fn); // pinned by test/ares-test-parse-mx.cc ("check if this should be ENODATA?")
      c.rep.witness("legacy_nodata");
      return;
    }
    c.viol("C18:status:" + fn + ":no-record-of-type", fn + " returns " + status_name(r.st) + (r.have ? " with a result" : "") + " for an accepted message without a record of its type (answers: " + std::to_string(an) + ")");
    return;
  }
  if (r.st != ARES_SUCCESS) {
    c.viol("C18:status:" + fn + ":records-present-but-" + status_name(r.st), fn + " returns " + status_name(r.st) + " although the record API reports " + std::to_string(exp.size()) + " matching record(s)");
    return;
  }
  if (r.items.size() != exp.size()) {
    c.viol("C18:list:" + fn + ":count", fn + " returned " + std::to_string(r.items.size()) + " element(s), record API has " + std::to_string(exp.size()));
    return;
  }
  for (size_t i = 0; i < exp.size(); i++)
    if (exp[i] != r.items[i]) {
      // name the first differing field
      std::string fld = "?";
      size_t      a = 0;
      while (a < exp[i].size() && a < r.items[i].size() && exp[i][a] == r.items[i][a]) a++;
      size_t sp = exp[i].rfind(' ', a);
      size_t b  = sp == std::string::npos ? 0 : sp + 1;
      size_t e  = exp[i].find('=', b);
      if (e != std::string::npos) fld = exp[i].substr(b, e - b);
      c.viol("C18:list:" + fn + ":field=" + fld, fn + " element " + std::to_string(i) + ": expected [" + exp[i] + "] got [" + r.items[i] + "]");
      return;
    }
  c.rep.witness("legacy_ok");
  c.rep.witness((std::string("legacy_ok_") + fn).c_str());
}

struct AddrExp {
  std::string              qname;
  std::vector<std::string> cn_alias, cn_name;
  unsigned                 cn_minttl = UINT_MAX;
  bool                     big_ttl   = false;
  std::vector<std::pair<std::string, unsigned>> a4, a6;
  size_t                   an = 0;
};
static AddrExp addr_expect(const ares_dns_record_t *rec)
{
  AddrExp     e;
  const char *qn = nullptr;
  ares_dns_record_query_get(rec, 0, &qn, nullptr, nullptr);
  e.qname = qn ? qn : "";
  e.an    = ares_dns_record_rr_cnt(rec, ARES_SECTION_ANSWER);
  for (size_t i = 0; i < e.an; i++) {
    const ares_dns_rr_t *rr = ares_dns_record_rr_get_const(rec, ARES_SECTION_ANSWER, i);
    if (ares_dns_rr_get_class(rr) != ARES_CLASS_IN) continue;
    unsigned ttl = ares_dns_rr_get_ttl(rr);
    switch (ares_dns_rr_get_type(rr)) {
      case ARES_REC_TYPE_CNAME:
        e.cn_alias.push_back(ares_dns_rr_get_name(rr));
        e.cn_name.push_back(T(rr, ARES_RR_CNAME_CNAME));
        if (ttl < e.cn_minttl) e.cn_minttl = ttl;
        if (ttl > INT_MAX) e.big_ttl = true;
        break;
      case ARES_REC_TYPE_A:
        e.a4.push_back({ ref::hexs((const uint8_t *)ares_dns_rr_get_addr(rr, ARES_RR_A_ADDR), 4), ttl });
        if (ttl > INT_MAX) e.big_ttl = true;
        break;
      case ARES_REC_TYPE_AAAA:
        e.a6.push_back({ ref::hexs((const uint8_t *)ares_dns_rr_get_addr6(rr, ARES_RR_AAAA_ADDR), 16), ttl });
        if (ttl > INT_MAX) e.big_ttl = true;
        break;
      default: break;
    }
  }
  return e;
}

static void c18_compare_addr(Ctx &c, LP w, const AddrExp &e, const LRes &r, bool want_host, int cap)
{
  std::string fn  = LPN[w];
  auto       &mine = w == LP_A ? e.a4 : e.a6;
  bool        any  = !e.a4.empty() || !e.a6.empty() || !e.cn_alias.empty();
  std::string v    = std::string(want_host ? "host" : "nohost") + (cap >= 0 ? "+ttls" : "");
  c.rep.outcome("C18:" + fn + ":" + status_name(r.st) + ":" + v + ":addrs=" + (mine.empty() ? "0" : mine.size() == 1 ? "1" : "2+") + ":cnames=" + (e.cn_alias.empty() ? "0" : "1+"));
  if (malformed_class(r.st)) {
    c.viol("C18:status:" + fn + ":malformed-status-for-accepted-message", fn + " returns " + status_name(r.st) + " although ares_dns_parse accepts the message");
    return;
  }
  int exp_st;
  if (e.an == 0 || !any) exp_st = ARES_ENODATA;
  else if (want_host) exp_st = (mine.empty() && e.cn_alias.empty()) ? ARES_ENODATA : ARES_SUCCESS;
  else exp_st = ARES_SUCCESS;
  if (r.st != exp_st) {
    c.viol("C18:status:" + fn + ":" + v + ":expected-" + status_name(exp_st), fn + " (" + v + ") returns " + status_name(r.st) + ", the record API shows " + std::to_string(mine.size()) + " address(es) of the family, " + std::to_string(e.cn_alias.size()) + " CNAME(s), " + std::to_string(e.an) + " answer(s)");
    return;
  }
  if (exp_st == ARES_ENODATA) c.rep.witness("legacy_nodata");
  if (want_host && exp_st == ARES_SUCCESS) {
    if (!r.have) {
      c.viol("C18:hostent:" + fn + ":missing", "SUCCESS without hostent");
      return;
    }
    std::string first = e.cn_name.empty() ? e.qname : e.cn_name.front();
    std::string last  = e.cn_name.empty() ? e.qname : e.cn_name.back();
    if (r.h_name != last) {
      if (r.h_name == first) c.obs("h_name_is_first_cname_target_in_a_chain");
      else c.viol("C18:hostent:" + fn + ":field=h_name", "h_name '" + r.h_name + "', expected '" + last + "' (name after following the aliases)");
    }
    if (r.aliases != e.cn_alias) c.viol("C18:hostent:" + fn + ":field=h_aliases", "aliases differ from the CNAME owner names in answer order (" + std::to_string(r.aliases.size()) + " vs " + std::to_string(e.cn_alias.size()) + ")");
    std::vector<std::string> ea;
    for (auto &x : mine) ea.push_back(x.first);
    if (r.addrs != ea) c.viol("C18:hostent:" + fn + ":field=h_addr_list", "addresses differ from the records of the family in answer order (" + std::to_string(r.addrs.size()) + " vs " + std::to_string(ea.size()) + ")");
    if (r.addrtype != (w == LP_A ? AF_INET : AF_INET6) || r.length != (w == LP_A ? 4 : 16)) c.viol("C18:hostent:" + fn + ":field=h_addrtype", "address type/length wrong");
    if (r.h_name == last && r.aliases == e.cn_alias && r.addrs == ea) {
      c.rep.witness("legacy_ok");
      c.rep.witness((std::string("legacy_ok_") + fn).c_str());
      if (!e.cn_alias.empty()) c.rep.witness("legacy_cname_followed");
    }
  }
  if (cap >= 0) {
    size_t expn = cap == 0 ? 0 : (mine.size() < (size_t)cap ? mine.size() : (size_t)cap);
    if (r.nttl < 0 || r.nttl > cap) {
      c.viol("C18:capacity:" + fn + ":naddrttls-exceeds-capacity", "*naddrttls = " + std::to_string(r.nttl) + " for capacity " + std::to_string(cap));
      return;
    }
    if ((size_t)r.nttl != expn) {
      c.viol("C18:addrttls:" + fn + ":count", "*naddrttls = " + std::to_string(r.nttl) + ", expected min(capacity " + std::to_string(cap) + ", " + std::to_string(mine.size()) + " addresses)");
      return;
    }
    for (size_t i = 0; i < expn; i++) {
      if (r.ttls[i].first != mine[i].first) {
        c.viol("C18:addrttls:" + fn + ":field=addr", "element " + std::to_string(i) + " address differs");
        return;
      }
      if (e.big_ttl) {
        c.obs("ttl_over_INT_MAX_in_addrttl");
        continue;
      }
      unsigned et = mine[i].second < e.cn_minttl ? mine[i].second : e.cn_minttl;
      if ((unsigned)r.ttls[i].second != et) {
        c.viol("C18:addrttls:" + fn + ":field=ttl", "element " + std::to_string(i) + " ttl " + std::to_string(r.ttls[i].second) + ", expected " + std::to_string(et) + " (min of the record TTL and the CNAME chain TTLs)");
        return;
      }
    }
    if (expn) c.rep.witness("addrttls_filled");
    if ((size_t)cap < mine.size()) c.rep.witness("addrttls_capacity_limited");
  }
}

static void c18_compare_hostent(Ctx &c, LP w, const ares_dns_record_t *rec, const LRes &r, int pv)
{
  std::string              fn = LPN[w];
  size_t                   an = ares_dns_record_rr_cnt(rec, ARES_SECTION_ANSWER);
  std::vector<std::string> names;
  const char              *qn = nullptr;
  ares_dns_record_query_get(rec, 0, &qn, nullptr, nullptr);
  for (size_t i = 0; i < an; i++) {
    const ares_dns_rr_t *rr = ares_dns_record_rr_get_const(rec, ARES_SECTION_ANSWER, i);
    if (ares_dns_rr_get_class(rr) != ARES_CLASS_IN) continue;
    if (w == LP_NS && ares_dns_rr_get_type(rr) == ARES_REC_TYPE_NS) names.push_back(T(rr, ARES_RR_NS_NSDNAME));
    if (w == LP_PTR && ares_dns_rr_get_type(rr) == ARES_REC_TYPE_PTR) names.push_back(T(rr, ARES_RR_PTR_DNAME));
  }
  c.rep.outcome("C18:" + fn + ":" + status_name(r.st) + ":n=" + (names.empty() ? "0" : names.size() == 1 ? "1" : "2+"));
  if (malformed_class(r.st)) {
    c.viol("C18:status:" + fn + ":malformed-status-for-accepted-message", fn + " returns " + status_name(r.st) + " although ares_dns_parse accepts the message");
    return;
  }
  if (names.empty()) {
    if (r.st == ARES_ENODATA && !r.have) c.rep.witness("legacy_nodata");
    else c.viol("C18:status:" + fn + ":no-record-of-type", fn + " returns " + status_name(r.st) + " without a record of its type");
    return;
  }
  if (r.st != ARES_SUCCESS || !r.have) {
    c.viol("C18:status:" + fn + ":records-present-but-" + status_name(r.st), fn + " returns " + status_name(r.st) + " although the record API reports " + std::to_string(names.size()) + " matching record(s)");
    return;
  }
  bool ok = true;
  if (r.aliases != names) {
    c.viol("C18:hostent:" + fn + ":field=h_aliases", "names differ from the records in answer order");
    ok = false;
  }
  std::string en = w == LP_NS ? std::string(qn ? qn : "") : names.back();
  if (r.h_name != en) {
    c.viol("C18:hostent:" + fn + ":field=h_name", "h_name '" + r.h_name + "' expected '" + en + "'");
    ok = false;
  }
  if (w == LP_PTR) {
    size_t al = pv == 1 ? 4 : pv == 2 ? 16 : 0;
    std::vector<std::string> ea;
    if (al) {
      uint8_t a[16];
      for (size_t i = 0; i < al; i++) a[i] = (uint8_t)(0xA0 + i);
      ea.push_back(ref::hexs(a, al));
    }
    if (r.addrs != ea || r.length != (int)al || r.addrtype != (pv == 2 ? AF_INET6 : AF_INET)) {
      c.viol("C18:hostent:" + fn + ":field=h_addr_list", "address of the hostent is not the queried address");
      ok = false;
    }
  } else if (!r.addrs.empty()) {
    c.viol("C18:hostent:" + fn + ":field=h_addr_list", "NS hostent carries addresses");
    ok = false;
  }
  if (ok) {
    c.rep.witness("legacy_ok");
    c.rep.witness((std::string("legacy_ok_") + fn).c_str());
  }
}

void run_c18(Ctx &c, const CaseInfo &ci)
{
  const uint8_t     *p   = ci.p;
  size_t             len = ci.len;
  ares_dns_record_t *rec = nullptr;
  ares_status_t      pst = ares_dns_parse(p, len, 0, &rec);
  c.rep.executions++;
  if (pst == ARES_SUCCESS) c.rep.witness("parse_ok");
  else c.rep.witness("parse_fail");
  AddrExp ae;
  if (rec) ae = addr_expect(rec);
  LedgerScope *hide = new LedgerScope(); // rec stays alive while the legacy parsers run
  auto rejected = [&](LP w, const LRes &r) {
    std::string fn = LPN[w];
    c.rep.executions++;
    c.rep.outcome("C18:" + fn + ":" + status_name(r.st) + ":parse-rejected");
    if (r.leak) c.viol("C18:leak:" + fn, r.leakwhat);
    if (!malformed_class(r.st)) c.viol("C18:status:" + fn + ":accepts-rejected-message:" + status_name(r.st), fn + " returns " + status_name(r.st) + " although ares_dns_parse rejects the message with " + status_name(pst));
    else {
      c.rep.witness("legacy_badresp");
      if (r.st != ARES_EBADRESP) c.obs("malformed_reported_as_" + status_name(r.st) + "_by_" + fn);
    }
    if (r.have) c.viol("C18:result:" + fn + ":failure-with-result", "result stored although status is " + status_name(r.st));
  };
  for (int wi = 0; wi < LP_N; wi++) {
    LP w = (LP)wi;
    if (w == LP_A || w == LP_AAAA) {
      size_t n = rec ? (w == LP_A ? ae.a4.size() : ae.a6.size()) : 0;
      for (int cap = -1; cap <= (int)n + 1; cap++) {
        for (int wh = 1; wh >= 0; wh--) {
          if (!wh && cap != (int)n && cap != 1) continue; // without hostent: capacity N and 1
          if (!rec && (cap == 0 || !wh)) continue;        // rejected message: (host), (host + capacity 1)
          LRes r = call_legacy(w, p, len, wh != 0, cap);
          if (!rec) {
            rejected(w, r);
            continue;
          }
          c.rep.executions++;
          if (r.leak) c.viol("C18:leak:" + std::string(LPN[w]), r.leakwhat);
          if (!r.problems.empty() && r.problems.find("naddrttls") != std::string::npos) c.viol("C18:capacity:" + std::string(LPN[w]) + ":naddrttls-exceeds-capacity", r.problems);
          c18_compare_addr(c, w, ae, r, wh != 0, cap);
        }
        if (!rec && cap >= 1) break;
      }
    } else if (w == LP_NS) {
      LRes r = call_legacy(w, p, len);
      if (!rec) rejected(w, r);
      else {
        c.rep.executions++;
        if (r.leak) c.viol("C18:leak:" + std::string(LPN[w]), r.leakwhat);
        c18_compare_hostent(c, w, rec, r, 0);
      }
    } else if (w == LP_PTR) {
      for (int pv = 0; pv < (rec ? 3 : 1); pv++) {
        LRes r = call_legacy(w, p, len, true, -1, pv);
        if (!rec) rejected(w, r);
        else {
          c.rep.executions++;
          if (r.leak) c.viol("C18:leak:" + std::string(LPN[w]), r.leakwhat);
          c18_compare_hostent(c, w, rec, r, pv);
        }
      }
    } else {
      LRes r = call_legacy(w, p, len);
      if (!rec) rejected(w, r);
      else {
        c.rep.executions++;
        if (r.leak) c.viol("C18:leak:" + std::string(LPN[w]), r.leakwhat);
        c18_compare_list(c, w, rec, r);
      }
    }
  }
  delete hide;
  if (rec) ares_dns_record_destroy(rec);
  std::string what;
  if (!ledger_clean(&what)) c.viol("C18:leak:ares_dns_record_destroy", what);
}

} // namespace exc
