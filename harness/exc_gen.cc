// EX-C: structure-aware enumerator of DNS messages (DESIGN.md C02 sub-spaces
// 2 and 3) and the single-fault closure (every truncation, every
// single-position substitution from a 10-value alphabet).  Uses only the
// independent encoder of exc_ref.h.
#include "exc.h"
#include <algorithm>
#include <dirent.h>
#include <sys/stat.h>

namespace exc {
using ref::Builder;
using ref::L;
using ref::Labels;

static const int QNAME = 12, QEX = 16, QCOM = 24; // offsets of www.example.com / example.com / com in the question

// ----------------------------------------------------------------- closure
static const int NSUB = 10;
size_t n_mutants(size_t len, size_t subst_limit, size_t trunc_step)
{
  size_t ntr = trunc_step <= 1 ? len : (len + trunc_step - 1) / trunc_step;
  size_t ns  = std::min(len, subst_limit);
  return 1 + 2 * ntr + ns * NSUB;
}
// layout walker (independent of c-ares): for a cut position inside the RDATA of some resource record returns the offset
// of that record's RDLENGTH field and the start of its RDATA; false if the message cannot be walked or the cut is elsewhere
static bool rr_around(const Bytes &m, size_t cut, size_t &rdlen_off, size_t &rdata_start)
{
  if (m.size() < 12) return false;
  size_t qd = (size_t)(m[4] << 8 | m[5]), nrr = (size_t)(m[6] << 8 | m[7]) + (size_t)(m[8] << 8 | m[9]) + (size_t)(m[10] << 8 | m[11]);
  size_t p  = 12;
  auto   skip_name = [&](size_t &q) {
    for (int guard = 0; guard < 130; guard++) {
      if (q >= m.size()) return false;
      uint8_t c = m[q];
      if (c == 0) {
        q += 1;
        return true;
      }
      if ((c & 0xc0) == 0xc0) {
        q += 2;
        return q <= m.size();
      }
      if (c & 0xc0) return false;
      q += 1 + (size_t)c;
    }
    return false;
  };
  for (size_t i = 0; i < qd; i++) {
    if (!skip_name(p)) return false;
    p += 4;
    if (p > m.size()) return false;
  }
  for (size_t i = 0; i < nrr; i++) {
    if (!skip_name(p)) return false;
    if (p + 10 > m.size()) return false;
    size_t rl = (size_t)(m[p + 8] << 8 | m[p + 9]);
    size_t rs = p + 10, re = rs + rl;
    if (re > m.size()) return false;
    if (cut > rs && cut < re) {
      rdlen_off   = p + 8;
      rdata_start = rs;
      return true;
    }
    p = re;
  }
  return false;
}
bool make_mutant(const Bytes &base, size_t k, size_t subst_limit, size_t trunc_step, Bytes &out, std::string &desc)
{
  size_t len = base.size();
  if (trunc_step < 1) trunc_step = 1;
  size_t ntr = trunc_step <= 1 ? len : (len + trunc_step - 1) / trunc_step;
  if (k == 0) {
    out  = base;
    desc = "base";
    return true;
  }
  k--;
  if (k < ntr) {
    size_t nl = k * trunc_step;
    out.assign(base.begin(), base.begin() + nl);
    desc = "trunc=" + std::to_string(nl);
    return true;
  }
  k -= ntr;
  if (k < ntr) {
    // the same cut with the enclosing record's RDLENGTH rewritten to what is left: the record (and the message) end
    // consistently in the middle of the RDATA, so only the RDATA-internal length checks stand between the parser and
    // the end of the buffer
    size_t nl = k * trunc_step, lo = 0, rs = 0;
    if (!rr_around(base, nl, lo, rs)) return false;
    out.assign(base.begin(), base.begin() + nl);
    size_t rl   = nl - rs;
    out[lo]     = (uint8_t)(rl >> 8);
    out[lo + 1] = (uint8_t)(rl & 0xff);
    desc        = "trunc=" + std::to_string(nl) + "+rdlength=" + std::to_string(rl);
    return true;
  }
  k -= ntr;
  size_t pos = k / NSUB, vi = k % NSUB;
  if (pos >= std::min(len, subst_limit)) return false;
  uint8_t        o     = base[pos];
  const uint8_t  alph[NSUB] = { 0x00, 0x01, 0x3f, 0x40, 0x7f, 0x80, 0xc0, 0xff, (uint8_t)(o ^ 0x20), (uint8_t)(o + 1) };
  uint8_t        v     = alph[vi];
  if (v == o) return false;
  for (size_t j = 0; j < vi; j++)
    if (alph[j] == v) return false; // same value already enumerated at this position
  out      = base;
  out[pos] = v;
  char b[64];
  snprintf(b, sizeof b, "sub@%zu=%02x", pos, v);
  desc = b;
  return true;
}

// ------------------------------------------------------------- RR grammar
struct TypeSpec {
  const char *name;
  unsigned    type;
  int         nshapes;
};
static const TypeSpec SPECS[] = { { "A", 1, 3 },      { "NS", 2, 4 },     { "CNAME", 5, 2 },  { "SOA", 6, 2 },    { "PTR", 12, 2 },
                                  { "HINFO", 13, 4 }, { "MX", 15, 3 },    { "TXT", 16, 5 },   { "SIG", 24, 3 },   { "AAAA", 28, 2 },
                                  { "SRV", 33, 3 },   { "NAPTR", 35, 2 }, { "OPT", 41, 6 },   { "TLSA", 52, 3 },  { "SVCB", 64, 4 },
                                  { "HTTPS", 65, 2 }, { "URI", 256, 2 },  { "CAA", 257, 4 },  { "T99", 99, 3 },   { "DNSKEY", 48, 1 },
                                  { "T65280", 65280, 1 }, { "T0", 0, 1 }, { "ANY", 255, 1 } };

// writes RDATA of (type, shape); returns whether it is valid within the supported subset
static bool write_rdata(Builder &b, unsigned type, int sh)
{
  switch (type) {
    case 1:
      b.u32(sh == 0 ? 0x01020304UL : sh == 1 ? 0 : 0xffffffffUL);
      return true;
    case 28:
      if (sh == 0) {
        b.u32(0x20010db8UL);
        b.u32(0);
        b.u32(0);
        b.u32(1);
      } else
        for (int i = 0; i < 4; i++) b.u32(0xffffffffUL);
      return true;
    case 2:
      if (sh == 0) b.name(L("ns1.example.com"));
      else if (sh == 1) b.name(Labels(), QNAME);
      else if (sh == 2) b.name(L("ns2"), QEX);
      else b.name(Labels());
      return true;
    case 5:
      if (sh == 0) b.name(L("alias.example.net"));
      else b.name(L("x"), QNAME);
      return true;
    case 12:
      if (sh == 0) b.name(L("host.example.org"));
      else b.name(Labels(), QEX);
      return true;
    case 6:
      if (sh == 0) {
        b.name(L("ns.example.com"));
        b.name(L("admin"), QEX);
        b.u32(1);
        b.u32(2);
        b.u32(3);
        b.u32(4);
        b.u32(5);
      } else {
        b.name(Labels(), QNAME);
        b.name(Labels());
        b.u32(0);
        b.u32(0xffffffffUL);
        b.u32(0x80000000UL);
        b.u32(0x7fffffffUL);
        b.u32(65536);
      }
      return true;
    case 13:
      if (sh == 0) {
        b.cstr("INTEL-386");
        b.cstr("UNIX");
      } else if (sh == 1) {
        b.cstr("");
        b.cstr("");
      } else if (sh == 2) {
        b.cstr(std::string(64, 'c'));
        b.cstr("x y\"z\\");
      } else {
        b.cstr(std::string("a\x01z", 3));
        b.cstr("os");
        return false; // non-printable: outside the supported subset
      }
      return true;
    case 15:
      if (sh == 0) {
        b.u16(10);
        b.name(L("mail.example.com"));
      } else if (sh == 1) {
        b.u16(65535);
        b.name(Labels(), QNAME);
      } else {
        b.u16(0);
        b.name(Labels());
      }
      return true;
    case 16:
      if (sh == 0) b.cstr("hello");
      else if (sh == 1) {
        b.cstr("a");
        b.cstr("bc");
      } else if (sh == 2) {
        b.cstr("");
        b.cstr("x");
      } else if (sh == 3) b.cstr(std::string("\x00\xff bin", 6));
      else b.cstr(std::string(255, 'z'));
      return true;
    case 24:
      b.u16(sh == 1 ? 65535 : 1);
      b.u8(sh == 1 ? 255 : 5);
      b.u8(3);
      b.u32(3600);
      b.u32(0x7fffffffUL);
      b.u32(sh == 1 ? 0xffffffffUL : 1);
      b.u16(65535);
      if (sh == 0) b.name(L("example.com"));
      else if (sh == 1) b.name(Labels());
      else b.name(Labels(), QEX);
      if (sh == 1) b.u8(0x5a);
      else b.raw(std::string("\x01\x02\x03\x04\x05\x06\x07\x08", 8));
      return true;
    case 33:
      if (sh == 0) {
        b.u16(1);
        b.u16(2);
        b.u16(3);
        b.name(L("sip.example.com"));
      } else if (sh == 1) {
        b.u16(65535);
        b.u16(0);
        b.u16(443);
        b.name(Labels(), QNAME);
      } else {
        b.u16(0);
        b.u16(65535);
        b.u16(1);
        b.name(Labels());
      }
      return true;
    case 35:
      if (sh == 0) {
        b.u16(100);
        b.u16(10);
        b.cstr("S");
        b.cstr("SIP+D2U");
        b.cstr("");
        b.name(L("_sip._udp.example.com"));
      } else {
        b.u16(65535);
        b.u16(0);
        b.cstr("u");
        b.cstr("E2U+sip");
        b.cstr("!^.*$!sip:info@example.com!");
        b.name(Labels());
      }
      return true;
    case 41: // options only; class/ttl are set by the caller through opt_class_ttl()
      if (sh == 1) {
        b.u16(10);
        b.u16(8);
        b.raw(std::string("\x11\x22\x33\x44\x55\x66\x77\x88", 8));
      } else if (sh == 2) {
        b.u16(3);
        b.u16(0);
        b.u16(12);
        b.u16(3);
        b.raw(std::string("\0\0\0", 3));
        b.u16(8);
        b.u16(7);
        b.raw(std::string("\x00\x01\x18\x00\xc0\x00\x02", 7));
      } else if (sh == 3) {
        b.u16(65001);
        b.u16(1);
        b.u8(0xab);
      } else if (sh == 4) {
        b.u16(10);
        b.u16(8);
        b.raw(std::string("AAAAAAAA", 8));
        b.u16(10);
        b.u16(8);
        b.raw(std::string("BBBBBBBB", 8));
      }
      return true;
    case 52:
      if (sh == 0) {
        b.u8(3);
        b.u8(1);
        b.u8(1);
        b.raw(std::string("\xde\xad\xbe\xef\x00\x01\x02\x03", 8));
      } else if (sh == 1) {
        b.u8(0);
        b.u8(0);
        b.u8(0);
        b.u8(0);
      } else {
        b.u8(255);
        b.u8(255);
        b.u8(255);
        b.raw(std::string(32, '\x7f'));
      }
      return true;
    case 64:
    case 65:
      if (sh == 0) {
        b.u16(0);
        b.name(L("svc.example.net"));
      } else if (sh == 1) {
        b.u16(1);
        b.name(Labels());
        b.u16(1);
        b.u16(9);
        b.raw(std::string("\x02h2\x05h3-29", 9));
        b.u16(3);
        b.u16(2);
        b.u16(443);
        b.u16(4);
        b.u16(4);
        b.u32(0xc0000201UL);
      } else if (sh == 2) {
        b.u16(16);
        b.name(L("b.example.com"));
        b.u16(0);
        b.u16(2);
        b.u16(1);
        b.u16(2);
        b.u16(0);
        b.u16(6);
        b.u16(16);
        b.raw(std::string(15, '\0') + std::string("\x01", 1));
        b.u16(65280);
        b.u16(1);
        b.u8(0xff);
      } else {
        b.u16(1);
        b.name(Labels());
        b.u16(3);
        b.u16(2);
        b.u16(443);
        b.u16(1);
        b.u16(3);
        b.raw(std::string("\x02h2", 3));
        return false; // keys not in increasing order: malformed per RFC 9460
      }
      return true;
    case 256:
      if (sh == 0) {
        b.u16(10);
        b.u16(1);
        b.raw(std::string("https://example.com/"));
      } else {
        b.u16(0);
        b.u16(65535);
        b.raw(std::string("a"));
      }
      return true;
    case 257:
      if (sh == 0) {
        b.u8(0);
        b.cstr("issue");
        b.raw(std::string("letsencrypt.org"));
      } else if (sh == 1) {
        b.u8(128);
        b.cstr("iodef");
        b.raw(std::string("mailto:a@b.c"));
      } else if (sh == 2) {
        b.u8(0);
        b.cstr("issue");
        b.raw(std::string(";"));
      } else {
        b.u8(1);
        b.cstr("x");
        b.raw(std::string("\x00\xff", 2));
      }
      return true;
    case 99:
      if (sh == 0) b.u32(0x01020304UL);
      else if (sh == 2) b.u8(0x7f);
      return true; // sh == 1: empty RDATA
    case 48:
      b.u16(257);
      b.u8(3);
      b.u8(8);
      b.u16(0xabcd);
      return true;
    case 65280:
      b.raw(std::string("\x01\x02\x03", 3));
      return true;
    case 0:
      b.u16(0xbeef);
      return true;
    case 255:
      b.u8(1);
      return false;
  }
  return false;
}
static void opt_class_ttl(int sh, unsigned &klass, unsigned long &ttl)
{
  klass = 1232;
  ttl   = 0;
  if (sh == 1) {
    klass = 4096;
    ttl   = 0x8000;
  } else if (sh == 2) {
    klass = 65535;
    ttl   = 0x01000000UL;
  } else if (sh == 3) {
    klass = 512;
    ttl   = 0x00010000UL;
  } else if (sh == 5) {
    klass = 0;
    ttl   = 0xff00ffffUL;
  }
}

enum { RL_EXACT, RL_MINUS1, RL_PLUS1, RL_PLUS1PAD, RL_ZERO, RL_FFFF, RL_N };
static const char *RLN[RL_N] = { "exact", "-1", "+1", "+1pad", "0", "ffff" };
enum { OW_FULL, OW_PTRQ, OW_LABELPTR, OW_ROOT, OW_PTRSUFFIX, OW_CHAIN, OW_LABEL63, OW_SPECIAL, OW_SELFPTR, OW_FWDPTR, OW_MAX255, OW_N };
static const char *OWN[OW_N] = { "full", "ptr-qname", "label+ptr", "root", "ptr-suffix", "ptr-chain", "label63+ptr", "special-bytes+ptr", "self-ptr", "fwd-ptr", "max255" };

// owner name; returns validity of the layout
static bool write_owner(Builder &b, int ow, int chain_target)
{
  switch (ow) {
    case OW_FULL: b.name(L("www.example.com")); return true;
    case OW_PTRQ: b.name(Labels(), QNAME); return true;
    case OW_LABELPTR: b.name(L("mail"), QNAME); return true;
    case OW_ROOT: b.name(Labels()); return true;
    case OW_PTRSUFFIX: b.name(Labels(), QEX); return true;
    case OW_CHAIN: b.name(L("a"), chain_target); return true;
    case OW_LABEL63: b.name(Labels{ std::string(63, 'l') }, QCOM); return true;
    case OW_SPECIAL: b.name(Labels{ "a.b", "c\\d", std::string("\x00\xff", 2), " @", "\"$;()" }, QCOM); return true;
    case OW_SELFPTR: b.name(Labels(), (int)b.pos()); return false;
    case OW_FWDPTR: b.name(L("f"), (int)b.pos() + 2 + 2 + 12); return false;
    case OW_MAX255: b.name(Labels{ std::string(63, 'a'), std::string(63, 'b'), std::string(63, 'c'), std::string(61, 'd') }); return true;
  }
  return false;
}

static void add_base(std::vector<Base> &out, Builder &b, bool valid, const std::string &desc)
{
  Base x;
  x.m            = b.b;
  x.valid        = valid;
  x.desc         = desc;
  x.name_offsets = b.name_starts;
  out.push_back(x);
}

static void gen_main(std::vector<Base> &out, bool thorough)
{
  std::vector<int> owners = thorough ? std::vector<int>{ OW_FULL, OW_PTRQ, OW_LABELPTR, OW_ROOT, OW_PTRSUFFIX, OW_CHAIN, OW_LABEL63, OW_SPECIAL, OW_SELFPTR, OW_FWDPTR, OW_MAX255 }
                                     : std::vector<int>{ OW_FULL, OW_PTRQ, OW_ROOT, OW_CHAIN, OW_SPECIAL, OW_SELFPTR };
  std::vector<int> rls    = thorough ? std::vector<int>{ RL_EXACT, RL_MINUS1, RL_PLUS1, RL_PLUS1PAD, RL_ZERO, RL_FFFF } : std::vector<int>{ RL_EXACT, RL_MINUS1, RL_PLUS1 };
  for (auto &sp : SPECS) {
    for (int sh = 0; sh < sp.nshapes; sh++) {
      if (sp.type == 16 && sh == 4 && !thorough) continue; // 255-byte TXT chunk only in thorough
      for (int rl : rls) {
        for (int ow : owners) {
          for (int sect = 0; sect < 3; sect++) {
            if (!thorough) { // quick: answer section; OPT additionally where it belongs; SOA in authority
              bool keep = sect == 0 || (sp.type == 41 && sect == 2) || (sp.type == 6 && sect == 1 && ow == OW_PTRQ);
              if (!keep) continue;
            } else if (sect != 0 && !(rl == RL_EXACT || rl == RL_MINUS1 || rl == RL_PLUS1)) continue; // authority/additional: 3 RDLENGTH variants
            bool    tail  = (rl == RL_MINUS1 || rl == RL_PLUS1);
            bool    chain = ow == OW_CHAIN;
            Builder b;
            unsigned cnt[3] = { 0, 0, 0 };
            cnt[sect] += 1 + (chain ? 1 : 0);
            if (tail) cnt[2] += 1;
            b.header(0x1234, 0x8180, 1, cnt[0], cnt[1], cnt[2]);
            b.question(L("www.example.com"), sp.type == 255 || sp.type == 0 ? 1 : sp.type, 1);
            int chain_target = -1;
            if (chain) { // leading RR whose owner is label+pointer; the main owner points at it (2-level chain)
              chain_target = (int)b.pos();
              b.name(L("mail"), QEX);
              size_t rp = b.rr_fixed(1, 1, 60);
              b.u32(0x0a000001UL);
              b.rr_close(rp);
            }
            bool          valid = write_owner(b, ow, chain_target);
            unsigned      klass = 1;
            unsigned long ttl   = 300;
            if (sp.type == 41) {
              opt_class_ttl(sh, klass, ttl);
              if (ow != OW_ROOT || sect != 2) valid = false; // RFC 6891: root owner, additional section
            }
            size_t rp  = b.rr_fixed(sp.type, klass, ttl);
            bool   rok = write_rdata(b, sp.type, sh);
            valid      = valid && rok;
            size_t rdl = b.pos() - rp - 2;
            switch (rl) {
              case RL_EXACT: b.set16(rp, (unsigned)rdl); break;
              case RL_MINUS1:
                b.set16(rp, (unsigned)(rdl == 0 ? 0xffff : rdl - 1));
                valid = false;
                break;
              case RL_PLUS1:
                b.set16(rp, (unsigned)(rdl + 1));
                valid = false;
                break;
              case RL_PLUS1PAD:
                b.u8(0);
                b.set16(rp, (unsigned)(rdl + 1));
                valid = false;
                break;
              case RL_ZERO:
                b.set16(rp, 0);
                if (rdl != 0) valid = false;
                break;
              case RL_FFFF:
                b.set16(rp, 0xffff);
                valid = false;
                break;
            }
            if (tail) {
              b.name(Labels(), QNAME);
              size_t tp = b.rr_fixed(1, 1, 5);
              b.u32(0x7f000001UL);
              b.rr_close(tp);
            }
            static const char *sn[3] = { "an", "ns", "ar" };
            add_base(out, b, valid, std::string("rr=") + sp.name + " shape=" + std::to_string(sh) + " rdlen=" + RLN[rl] + " owner=" + OWN[ow] + " sect=" + sn[sect]);
          }
        }
      }
    }
  }
  // class / ttl boundary values on an A record (and SIG with class ANY)
  const unsigned      classes[] = { 3, 4, 254, 255, 2, 0, 65535 };
  const unsigned long ttls[]    = { 0, 1, 0x7fffffffUL, 0x80000000UL, 0xffffffffUL };
  for (unsigned k : classes)
    for (unsigned t = 0; t < 2; t++) {
      Builder b;
      b.header(0x1234, 0x8180, 1, 1, 0, 0);
      b.question(L("www.example.com"), t ? 24 : 1, 1);
      b.name(Labels(), QNAME);
      size_t rp = b.rr_fixed(t ? 24 : 1, k, 300);
      write_rdata(b, t ? 24 : 1, 0);
      b.rr_close(rp);
      bool valid = k == 3 || k == 4 || k == 254 || (k == 255 && t);
      add_base(out, b, valid, std::string("class=") + std::to_string(k) + (t ? " rr=SIG" : " rr=A"));
    }
  for (unsigned long t : ttls) {
    Builder b;
    b.header(0x1234, 0x8180, 1, 1, 0, 0);
    b.question(L("www.example.com"), 1, 1);
    b.name(Labels(), QNAME);
    size_t rp = b.rr_fixed(1, 1, t);
    b.u32(0x01020304UL);
    b.rr_close(rp);
    add_base(out, b, true, "ttl=" + std::to_string(t) + " rr=A");
  }
}

static void gen_question(std::vector<Base> &out)
{
  const unsigned qtypes[]   = { 1, 255, 0, 65535, 41 };
  const unsigned qclasses[] = { 1, 3, 4, 254, 255, 0, 2 };
  for (unsigned qt : qtypes)
    for (unsigned qc : qclasses)
      for (int ql = 0; ql < 6; ql++) {
        Builder b;
        b.header(0xbeef, 0x8400, 1, 1, 0, 0);
        bool valid = true;
        switch (ql) {
          case 0: b.name(L("www.example.com")); break;
          case 1: b.name(Labels()); break;
          case 2: b.name(Labels{ "a.b", std::string("\x00\x7f\x80\xff", 4), "UPPER lower", "\\" }); break;
          case 3: b.name(Labels{ std::string(63, 'q'), "x" }); break;
          case 4:
            b.name(Labels(), 12);
            valid = false;
            break; // self pointer
          case 5:
            b.name(L("p"), 2);
            valid = false;
            break; // pointer into the header: bytes 84 00 -> reserved label type
        }
        b.u16(qt);
        b.u16(qc);
        if (!(qc == 1 || qc == 3 || qc == 4 || qc == 254 || qc == 255)) valid = false;
        b.name(Labels(), ql == 1 ? -1 : 12);
        size_t rp = b.rr_fixed(1, 1, 60);
        b.u32(0x01020304UL);
        b.rr_close(rp);
        if (ql == 4 || ql == 5) valid = false;
        add_base(out, b, valid, "question qtype=" + std::to_string(qt) + " qclass=" + std::to_string(qc) + " qname-layout=" + std::to_string(ql));
      }
  { // qdcount 0 and 2 (legal DNS, outside the single-question subset)
    Builder b;
    b.header(1, 0x8180, 0, 1, 0, 0);
    b.name(L("www.example.com"));
    size_t rp = b.rr_fixed(1, 1, 60);
    b.u32(0x01020304UL);
    b.rr_close(rp);
    add_base(out, b, false, "question qdcount=0");
    Builder c;
    c.header(1, 0x8180, 2, 1, 0, 0);
    c.question(L("www.example.com"), 1, 1);
    c.question(Labels(), 28, 1, 12);
    c.name(Labels(), 12);
    rp = c.rr_fixed(1, 1, 60);
    c.u32(0x01020304UL);
    c.rr_close(rp);
    add_base(out, c, false, "question qdcount=2");
  }
}

static void gen_header(std::vector<Base> &out, bool thorough)
{
  const unsigned bits[]  = { 0, 0x8000, 0x0400, 0x0200, 0x0100, 0x0080, 0x0040, 0x0020, 0x0010 };
  std::vector<unsigned> rcodes;
  if (thorough)
    for (unsigned r = 0; r < 16; r++) rcodes.push_back(r);
  else rcodes = { 0, 1, 2, 3, 11, 12, 15 };
  std::vector<int> opts = thorough ? std::vector<int>{ -1, 0, 1, 0xff } : std::vector<int>{ -1, 1 };
  for (unsigned op = 0; op < 16; op++)
    for (unsigned rc : rcodes)
      for (unsigned bit : bits)
        for (int ext : opts) {
          Builder  b;
          unsigned fl = (op << 11) | rc | bit;
          b.header(0x0102, fl, 1, 1, 0, ext >= 0 ? 1 : 0);
          b.question(L("www.example.com"), 1, 1);
          b.name(Labels(), QNAME);
          size_t rp = b.rr_fixed(1, 1, 60);
          b.u32(0x01020304UL);
          b.rr_close(rp);
          if (ext >= 0) {
            b.name(Labels());
            rp = b.rr_fixed(41, 1232, ((unsigned long)ext << 24) | 0x8000);
            b.rr_close(rp);
          }
          bool valid = (op == 0 || op == 1 || op == 2 || op == 4 || op == 5);
          Base x;
          x.m            = b.b;
          x.valid        = valid;
          x.desc         = "header opcode=" + std::to_string(op) + " rcode=" + std::to_string(rc) + " bit=" + std::to_string(bit) + " ext=" + std::to_string(ext);
          x.name_offsets = b.name_starts;
          x.closure      = false; // header group: bases only (header bytes of the main group are under closure already)
          out.push_back(x);
        }
}

// multi-RR answers for the legacy parsers (C18) - every one valid
static size_t rr_a(Builder &b, const Labels &own, int ptr, unsigned long ttl, unsigned long addr, unsigned klass = 1)
{
  b.name(own, ptr);
  size_t rp = b.rr_fixed(1, klass, ttl);
  b.u32(addr);
  b.rr_close(rp);
  return rp;
}
static void gen_multi(std::vector<Base> &out)
{
  {
    Builder b;
    b.header(7, 0x8180, 1, 6, 0, 1);
    b.question(L("www.example.com"), 1, 1);
    b.name(Labels(), QNAME);
    size_t rp = b.rr_fixed(5, 1, 50);
    int    web = (int)b.pos();
    b.name(L("web"), QEX);
    b.rr_close(rp);
    b.name(Labels(), web);
    rp = b.rr_fixed(5, 1, 40);
    int host = (int)b.pos();
    b.name(L("host.example.net"));
    b.rr_close(rp);
    rr_a(b, Labels(), host, 300, 0x01010101UL);
    rr_a(b, Labels(), host, 30, 0x02020202UL);
    b.name(Labels(), host);
    rp = b.rr_fixed(28, 1, 100);
    write_rdata(b, 28, 0);
    b.rr_close(rp);
    rr_a(b, Labels(), host, 60, 0x03030303UL);
    b.name(Labels());
    rp = b.rr_fixed(41, 1232, 0);
    b.rr_close(rp);
    add_base(out, b, true, "multi cname-chain+A+AAAA");
  }
  {
    Builder b;
    b.header(8, 0x8180, 1, 5, 0, 0);
    b.question(L("www.example.com"), 15, 1);
    for (int i = 0; i < 3; i++) {
      b.name(Labels(), QNAME);
      size_t rp = b.rr_fixed(15, 1, 100 + i);
      write_rdata(b, 15, i);
      b.rr_close(rp);
    }
    b.name(Labels(), QNAME);
    size_t rp = b.rr_fixed(15, 3, 1);
    write_rdata(b, 15, 0);
    b.rr_close(rp);
    rr_a(b, Labels(), QNAME, 9, 0x09090909UL);
    add_base(out, b, true, "multi MX x3 + MX class CH + A");
  }
  {
    Builder b;
    b.header(9, 0x8180, 1, 4, 0, 0);
    b.question(L("www.example.com"), 16, 1);
    b.name(Labels(), QNAME);
    size_t rp = b.rr_fixed(16, 1, 10);
    write_rdata(b, 16, 1);
    b.rr_close(rp);
    b.name(Labels(), QNAME);
    rp = b.rr_fixed(5, 1, 10);
    b.name(L("t"), QEX);
    b.rr_close(rp);
    b.name(Labels(), QNAME);
    rp = b.rr_fixed(16, 1, 10);
    write_rdata(b, 16, 0);
    b.rr_close(rp);
    b.name(Labels(), QNAME);
    rp = b.rr_fixed(16, 3, 10);
    b.cstr("ch");
    b.rr_close(rp);
    add_base(out, b, true, "multi TXT x2 + CNAME + TXT class CH");
  }
  {
    Builder b;
    b.header(10, 0x8180, 1, 2, 0, 1);
    b.question(L("example.com"), 2, 1);
    for (int i = 0; i < 2; i++) {
      b.name(Labels(), QNAME);
      size_t rp = b.rr_fixed(2, 1, 1000);
      b.name(i ? L("ns2") : L("ns1"), QNAME);
      b.rr_close(rp);
    }
    rr_a(b, L("ns1"), QNAME, 5, 0x05050505UL);
    add_base(out, b, true, "multi NS x2 + glue");
  }
  {
    Builder b;
    b.header(11, 0x8180, 1, 3, 0, 0);
    b.question(L("4.3.2.1.in-addr.arpa"), 12, 1);
    b.name(Labels(), QNAME);
    size_t rp = b.rr_fixed(5, 1, 10);
    int    t  = (int)b.pos();
    b.name(L("4.0-24.3.2.1.in-addr.arpa"));
    b.rr_close(rp);
    for (int i = 0; i < 2; i++) {
      b.name(Labels(), t);
      rp = b.rr_fixed(12, 1, 10);
      b.name(i ? L("second.example.org") : L("first.example.org"));
      b.rr_close(rp);
    }
    add_base(out, b, true, "multi PTR cname + PTR x2");
  }
  {
    Builder b;
    b.header(12, 0x8180, 1, 4, 0, 0);
    b.question(L("_sip._udp.example.com"), 33, 1);
    for (int i = 0; i < 2; i++) {
      b.name(Labels(), QNAME);
      size_t rp = b.rr_fixed(33, 1, 10);
      write_rdata(b, 33, i ? 2 : 0);
      b.rr_close(rp);
    }
    for (int i = 0; i < 2; i++) {
      b.name(Labels(), QNAME);
      size_t rp = b.rr_fixed(35, 1, 10);
      write_rdata(b, 35, i);
      b.rr_close(rp);
    }
    add_base(out, b, true, "multi SRV x2 + NAPTR x2");
  }
  {
    Builder b;
    b.header(13, 0x8180, 1, 5, 0, 0);
    b.question(L("example.com"), 257, 1);
    for (int i = 0; i < 2; i++) {
      b.name(Labels(), QNAME);
      size_t rp = b.rr_fixed(257, 1, 10);
      write_rdata(b, 257, i);
      b.rr_close(rp);
    }
    b.name(Labels(), QNAME);
    size_t rp = b.rr_fixed(257, 3, 10);
    write_rdata(b, 257, 2);
    b.rr_close(rp);
    for (int i = 0; i < 2; i++) {
      b.name(Labels(), QNAME);
      rp = b.rr_fixed(256, 1, i ? 0xffffffffUL : 77);
      write_rdata(b, 256, i);
      b.rr_close(rp);
    }
    add_base(out, b, true, "multi CAA x2 + CAA class CH + URI x2");
  }
  for (int v = 0; v < 2; v++) {
    Builder b;
    b.header(14, v ? 0x8183 : 0x8180, 1, v ? 1 : 2, v ? 1 : 0, 0);
    b.question(L("www.example.com"), 6, 1);
    if (v) rr_a(b, Labels(), QNAME, 5, 0x0a0a0a0aUL);
    for (int i = 0; i < (v ? 1 : 2); i++) {
      b.name(Labels(), QNAME);
      size_t rp = b.rr_fixed(6, 1, 10);
      write_rdata(b, 6, i);
      b.rr_close(rp);
    }
    add_base(out, b, true, v ? "multi A + SOA only in authority" : "multi SOA x2");
  }
  {
    Builder b;
    b.header(15, 0x8180, 1, 1, 0, 0);
    b.question(L("www.example.com"), 1, 3);
    rr_a(b, Labels(), QNAME, 5, 0x0a0a0a0aUL, 3);
    add_base(out, b, true, "multi A class CH only");
  }
  {
    Builder b;
    b.header(16, 0x8180, 1, 2, 0, 0);
    b.question(L("www.example.com"), 28, 1);
    for (int i = 0; i < 2; i++) {
      b.name(Labels(), QNAME);
      size_t rp = b.rr_fixed(28, 1, 10 + i);
      write_rdata(b, 28, i);
      b.rr_close(rp);
    }
    add_base(out, b, true, "multi AAAA x2");
  }
  // every list-returning legacy type with 1..5 records of the type in the answer section (list building: head, tail,
  // middle elements), shapes cycling; once more with a record of another type between the second and the third
  {
    static const struct {
      unsigned type;
      int      nshapes;
      const char *nm;
    } LT[] = { { 15, 3, "MX" }, { 16, 3, "TXT" }, { 2, 3, "NS" }, { 12, 2, "PTR" }, { 33, 3, "SRV" }, { 35, 2, "NAPTR" }, { 257, 2, "CAA" }, { 256, 2, "URI" }, { 1, 3, "A" }, { 28, 2, "AAAA" } };
    for (auto &lt : LT)
      for (int n = 1; n <= 5; n++)
        for (int inter = 0; inter < (n >= 3 ? 2 : 1); inter++) {
          Builder b;
          b.header((unsigned short)(40 + n), 0x8180, 1, (unsigned short)(n + inter), 0, 0);
          b.question(L("www.example.com"), lt.type, 1);
          for (int i = 0; i < n; i++) {
            if (inter && i == 2) {
              b.name(Labels(), QNAME);
              size_t rq = b.rr_fixed(lt.type == 13 ? 16 : 13, 1, 7);
              write_rdata(b, 13, 0);
              b.rr_close(rq);
            }
            b.name(Labels(), QNAME);
            size_t rp = b.rr_fixed(lt.type, 1, 100 + (unsigned long)i);
            write_rdata(b, lt.type, i % lt.nshapes);
            b.rr_close(rp);
          }
          add_base(out, b, true, std::string("multi ") + lt.nm + " x" + std::to_string(n) + (inter ? " with a HINFO between" : ""));
          out.back().closure = (n == 3 && !inter); // mutants of one representative per type; the others are run as they are
        }
  }
  {
    Builder b;
    b.header(17, 0x8180, 1, 1, 0, 0);
    b.question(L("www.example.com"), 1, 1);
    b.name(Labels(), QNAME);
    size_t rp = b.rr_fixed(5, 1, 10);
    b.name(L("only"), QEX);
    b.rr_close(rp);
    add_base(out, b, true, "multi CNAME only");
  }
  {
    Builder b;
    b.header(18, 0x8183, 1, 0, 1, 0);
    b.question(L("www.example.com"), 1, 1);
    b.name(Labels(), QEX);
    size_t rp = b.rr_fixed(6, 1, 10);
    write_rdata(b, 6, 0);
    b.rr_close(rp);
    add_base(out, b, true, "multi NXDOMAIN no answers");
  }
  {
    Builder b;
    b.header(19, 0x8180, 1, 4, 0, 0);
    b.question(L("www.example.com"), 1, 1);
    const unsigned long tt[4] = { 0, 0x7fffffffUL, 0x80000000UL, 0xffffffffUL };
    for (int i = 0; i < 4; i++) rr_a(b, Labels(), QNAME, tt[i], 0x0b000000UL + (unsigned long)i);
    add_base(out, b, true, "multi A x4 ttl boundaries");
  }
  {
    Builder b;
    b.header(20, 0x8180, 1, 2, 0, 0);
    b.question(L("www.example.com"), 99, 1);
    b.name(Labels(), QNAME);
    size_t rp = b.rr_fixed(99, 1, 10);
    b.cstr("v=spf1 -all");
    b.rr_close(rp);
    b.name(Labels(), QNAME);
    rp = b.rr_fixed(99, 1, 10);
    b.rr_close(rp); // unknown type with empty RDATA
    add_base(out, b, true, "multi unknown-type x2 (one with empty RDATA)");
  }
}

// lengths that need both bytes of a 16-bit length field
static void gen_long(std::vector<Base> &out)
{
  {
    Builder b;
    b.header(21, 0x8180, 1, 1, 0, 1);
    b.question(L("www.example.com"), 1, 1);
    rr_a(b, Labels(), QNAME, 60, 0x01020304UL);
    b.name(Labels());
    size_t rp = b.rr_fixed(41, 4096, 0x8000);
    b.u16(12); // padding option of 300 bytes
    b.u16(300);
    for (int i = 0; i < 300; i++) b.u8((unsigned)(i & 0xff));
    b.u16(10);
    b.u16(8);
    b.raw(std::string("COOKIE!!", 8));
    b.rr_close(rp);
    add_base(out, b, true, "long OPT option of 300 bytes + cookie");
  }
  {
    Builder b;
    b.header(22, 0x8180, 1, 1, 0, 0);
    b.question(L("www.example.com"), 65, 1);
    b.name(Labels(), QNAME);
    size_t rp = b.rr_fixed(65, 1, 60);
    b.u16(1);
    b.name(Labels());
    b.u16(5); // ech, 260 bytes
    b.u16(260);
    for (int i = 0; i < 260; i++) b.u8((unsigned)(255 - (i & 0xff)));
    b.rr_close(rp);
    add_base(out, b, true, "long HTTPS SvcParam of 260 bytes");
  }
}

void gen_rr_bases(std::vector<Base> &out, bool thorough)
{
  gen_multi(out);
  gen_long(out);
  gen_question(out);
  gen_main(out, thorough);
  gen_header(out, thorough);
}

// ------------------------------------------------------------------ corpus
static void load_dir(const std::string &dir, const char *tag, std::vector<Base> &out, std::vector<std::string> *names)
{
  std::vector<std::string> files;
  DIR                     *d = opendir(dir.c_str());
  if (!d) return;
  while (struct dirent *e = readdir(d)) {
    if (e->d_name[0] == '.') continue;
    files.push_back(e->d_name);
  }
  closedir(d);
  std::sort(files.begin(), files.end());
  for (auto &f : files) {
    std::string path = dir + "/" + f;
    struct stat st;
    if (stat(path.c_str(), &st) != 0 || !S_ISREG(st.st_mode)) continue;
    FILE *fp = fopen(path.c_str(), "rb");
    if (!fp) continue;
    Base x;
    x.m.resize((size_t)st.st_size);
    size_t n = x.m.empty() ? 0 : fread(x.m.data(), 1, x.m.size(), fp);
    fclose(fp);
    x.m.resize(n);
    x.desc = std::string(tag) + "/" + f;
    x.name_offsets.push_back(12);
    if (names) names->push_back(std::string((const char *)x.m.data(), x.m.size()));
    out.push_back(x);
  }
}
void gen_corpus_bases(std::vector<Base> &out, const std::string &repo, std::vector<std::string> *names)
{
  load_dir(repo + "/test/fuzzinput", "fuzzinput", out, nullptr);
  load_dir(repo + "/test/fuzznames", "fuzznames", out, names);
}

} // namespace exc
