// EX-C driver: families names / rrfault / corpus / sizes (+ roundtrip, builders in exc_rt.cc),
// sharding, resume, deadline, replay.
#include "exc.h"
#include <sys/personality.h>
#include <climits>

namespace exc {

void Ctx::begin_case(long long idx, const std::string &extra_json)
{
  index     = idx;
  case_json = "{\"index\":" + std::to_string(idx) + ",\"family\":" + vf::jstr(args.family) + ",\"oracle\":" + vf::jstr(oracle) + ",\"tier\":" + vf::jstr(args.tier) +
              (extra_json.empty() ? "" : "," + extra_json) + "}";
  vf::set_current_case(case_json, oracle + ":" + args.family);
  alarm(10); // per-case time limit (a parse takes microseconds)
}

static Ctx *g_ctx = nullptr;
static void on_alarm(int sig)
{
  if (g_ctx && g_ctx->armed) {
    g_ctx->armed = false;
    siglongjmp(g_ctx->jb, 1);
  }
  vf::on_fatal_signal(sig);
}

void Ctx::on_hang()
{
  alarm(0);
  vf::ledger().live.clear(); // whatever the interrupted call held is lost
  viol((oracle == "all" ? std::string("C02") : oracle) + ":hang:" + args.family, "a decoding entry point did not return within 10 s on this input");
  rep.count("hangs");
  if (++hangs >= 3 && !replaying) {
    rep.exhaustive = false;
    rep.bound      = "ABANDONED after 3 inputs on which a call did not return (case index " + std::to_string(index) + "): " + rep.bound;
    abort_family   = true;
  }
}

static std::string hexfield(const Bytes &b)
{
  if (b.size() > 2048) return "\"len\":" + std::to_string(b.size());
  return "\"hex\":\"" + vf::hex(b.data(), b.size()) + "\"";
}

struct Seen {
  std::unordered_set<vf::Hash128, vf::Hash128H> s;
  bool insert(const uint8_t *p, size_t n)
  {
    vf::Hash128 h{ vf::fnv64(p, n), vf::fnv64(p, n, 0x9e3779b97f4a7c15ULL) ^ (uint64_t)n };
    return s.insert(h).second;
  }
};

static bool deadline_hit(Ctx &c, long long idx, long long total, unsigned &tick)
{
  if ((++tick & 63) != 0) return false;
  if (!time_up(c)) return false;
  c.rep.exhaustive = false;
  c.rep.bound      = "CAPPED BY DEADLINE (shard " + std::to_string(c.args.shard) + " stopped at case index " + std::to_string(idx) + " of " + std::to_string(total) + "; every index of this shard below it was executed) of: " + c.rep.bound;
  c.rep.count("deadline_stops");
  return true;
}

// ------------------------------------------------------------------- names
void fam_names(Ctx &c)
{
  int N = (int)c.args.geti("maxcells", c.thorough ? 6 : 5);
  long long total = 0;
  for (int n = 1; n <= N; n++) {
    long long t = 1;
    for (int i = 0; i < n; i++) t *= (n + 8);
    total += t;
  }
  c.rep.bound = "pointer-graph space: name regions of 1.." + std::to_string(N) + " cells over {label1,label2,terminator,pointer-to-cell-j (all j),pointer-past-end,pointer-into-header,0x40,0x80,overrunning-length}; decoding started at every cell; " + std::to_string(total) + " messages";
  long long idx  = 0;
  unsigned  tick = 0;
  Seen      seen;
  for (int n = 1; n <= N; n++) {
    int              A = n + 8;
    std::vector<int> d(n, 0);
    bool             first = true;
    while (true) {
      if (!first) { // advance the odometer (at the top, so that `continue` is safe inside the body)
        idx++;
        int i = n - 1;
        while (i >= 0 && ++d[i] == A) d[i--] = 0;
        if (i < 0) break;
      }
      first = false;
      if (!c.take(idx)) continue;
      {
        if (deadline_hit(c, idx, total, tick)) return;
        // build
        std::vector<size_t> off(n);
        size_t              pos = 12;
        for (int i = 0; i < n; i++) {
          off[i]  = pos;
          int k   = d[i];
          pos += k == 0 ? 2 : k == 1 ? 3 : k == 2 ? 1 : (k < 3 + n + 2) ? 2 : 1;
        }
        size_t region_end = pos;
        Bytes  m          = { 0, 0, 1, 0, 0, 1, 0, 0, 0, 0, 0, 0 };
        for (int i = 0; i < n; i++) {
          int k = d[i];
          if (k == 0) {
            m.push_back(1);
            m.push_back((uint8_t)('a' + i));
          } else if (k == 1) {
            m.push_back(2);
            m.push_back('b');
            m.push_back((uint8_t)('A' + i));
          } else if (k == 2) m.push_back(0);
          else if (k < 3 + n) {
            size_t t = off[k - 3];
            m.push_back((uint8_t)(0xC0 | (t >> 8)));
            m.push_back((uint8_t)(t & 0xff));
          } else if (k == 3 + n) {
            m.push_back((uint8_t)(0xC0 | (region_end >> 8)));
            m.push_back((uint8_t)(region_end & 0xff));
          } else if (k == 4 + n) {
            m.push_back(0xC0);
            m.push_back(2);
          } else if (k == 5 + n) m.push_back(0x40);
          else if (k == 6 + n) m.push_back(0x80);
          else m.push_back(0x3f);
        }
        m.push_back(0);
        m.push_back(1);
        m.push_back(0);
        m.push_back(1);
        c.begin_case(idx, hexfield(m));
        EXC_GUARD(c);
        if (seen.insert(m.data(), m.size())) c.rep.states++;
        HeapBuf hb(m.data(), m.size());
        for (int i = 0; i < n; i++) {
          run_name_at(c, hb.p, hb.n, off[i]);
          c.rep.transitions++;
        }
        if (c.want("C04")) {
          CaseInfo ci{ hb.p, hb.n };
          run_c04(c, ci);
        }
        if (c.want("C02")) {
          ares_dns_record_t *rec = nullptr;
          ares_status_t      st  = ares_dns_parse(hb.p, hb.n, 0, &rec);
          c.rep.executions++;
          if (st == ARES_SUCCESS) {
            ref::Decoded rd = ref::decode_message(hb.p, hb.n, 0);
            if (rd.st != ref::OK && ref::namefail_is_pointer_rule(rd.first_name_fail))
              c.viol(std::string("C02:pointer-rule:accepted-") + ref::namefail_str(rd.first_name_fail) + ":ares_dns_parse", "question name needs a " + std::string(ref::namefail_str(rd.first_name_fail)));
            if (!rec) c.viol("C02:result:ares_dns_parse:success-null", "");
          } else if (rec) c.viol("C02:result:ares_dns_parse:failure-with-result", status_name(st));
          c.rep.outcome("ares_dns_parse:" + status_name(st));
          ares_dns_record_destroy(rec);
          std::string what;
          if (!ledger_clean(&what)) c.viol("C02:leak:ares_dns_parse", what);
        }
        if (c.rep.samples.size() < 3 && (idx % 977) == 0) c.rep.sample(c.case_json);
      }
    }
    idx++;
  }
}

// ------------------------------------------------------- rrfault / corpus
void fam_closure(Ctx &c, bool corpus)
{
  std::vector<Base> bases;
  const char       *repo = getenv("VERIF_REPO");
  if (corpus) gen_corpus_bases(bases, repo && *repo ? repo : "/repo", nullptr);
  else gen_rr_bases(bases, c.thorough);
  if (bases.empty()) {
    c.rep.internal_errors.push_back("no base messages generated");
    return;
  }
  // index layout
  std::vector<long long> first(bases.size() + 1, 0);
  std::vector<size_t>    slim(bases.size()), tstep(bases.size());
  for (size_t i = 0; i < bases.size(); i++) {
    size_t len = bases[i].m.size();
    slim[i]    = corpus ? (len <= 4096 ? len : 512) : len;
    tstep[i]   = (corpus && len > 4096 && !c.thorough) ? 64 : 1;
    first[i + 1] = first[i] + (long long)(bases[i].closure ? n_mutants(len, slim[i], tstep[i]) : 1);
  }
  long long total = first[bases.size()];
  c.rep.bound = std::string(corpus ? "corpus closure: " : "RR grammar x single-fault closure: ") + std::to_string(bases.size()) + " base messages, " + std::to_string(total) +
                " index slots = base + every truncation + every truncation inside an RDATA with the record's RDLENGTH rewritten to match + every position x {00,01,3f,40,7f,80,c0,ff,orig^20,orig+1}" +
                (corpus ? (c.thorough ? " (files > 4 KiB: substitutions over the first 512 bytes)" : " (files > 4 KiB: substitutions over the first 512 bytes, every 64th truncation)") : "");
  if (c.oracle == "C03")
    c.rep.bound = std::string(corpus ? "every corpus file that parses" : "every generator-valid base message of the RR grammar") + " (unmutated; " + std::to_string(bases.size()) +
                  " candidates), parsed with flags 0 and all-raw, written, re-parsed, re-written";
  Seen   base_seen, seen;
  unsigned tick = 0;
  for (size_t bi = 0; bi < bases.size(); bi++) {
    const Base &B = bases[bi];
    bool        first_occurrence = base_seen.insert(B.m.data(), B.m.size());
    if (first_occurrence && (long long)bi % c.args.nshards == c.args.shard && c.only_index < 0) c.rep.states++;
    long long n = first[bi + 1] - first[bi];
    // quick skip of bases with no index for this shard
    if (c.only_index >= 0 && !(c.only_index >= first[bi] && c.only_index < first[bi + 1])) continue;
    if (first[bi + 1] <= c.args.resume) continue;
    for (long long k = 0; k < n; k++) {
      long long idx = first[bi] + k;
      if (k > 0 && c.oracle == "C03") break; // C03 uses the unmutated bases only
      if (!c.take(idx)) continue;
      if (deadline_hit(c, idx, total, tick)) return;
      Bytes       m;
      std::string md;
      if (!make_mutant(B.m, (size_t)k, slim[bi], tstep[bi], m, md)) {
        c.rep.count("noop_slots");
        continue;
      }
      if (!seen.insert(m.data(), m.size())) {
        c.rep.count("duplicate_inputs_skipped");
        continue;
      }
      c.begin_case(idx, "\"desc\":" + vf::jstr(B.desc + " " + md) + "," + hexfield(m));
      EXC_GUARD(c);
      if (k > 0) c.rep.transitions++;
      c.rep.count("distinct_inputs_executed");
      HeapBuf  hb(m.data(), m.size());
      CaseInfo ci{ hb.p, hb.n };
      ci.is_base      = k == 0;
      ci.gen_valid    = k == 0 && B.valid && !corpus;
      ci.name_offsets = B.name_offsets;
      if (md.rfind("sub@", 0) == 0) ci.name_offsets.push_back((size_t)atoll(md.c_str() + 4));
      ci.all_offsets = (k == 0 || md.rfind("trunc", 0) == 0) && m.size() <= 256;
      if (c.want("C02")) run_c02(c, ci);
      if (c.want("C04")) run_c04(c, ci);
      if (c.want("C18")) run_c18(c, ci);
      if (c.want("C03") && k == 0 && (corpus || B.valid)) run_roundtrip_wire(c, hb.p, hb.n, corpus ? "corpus" : "base");
      if (c.rep.samples.size() < 4 && (k == 0 || k == n / 2) && (bi % 97) == 3) c.rep.sample(c.case_json);
    }
  }
}

// -------------------------------------------------------------------- sizes
void fam_sizes(Ctx &c)
{
  const size_t sizes[] = { 0, 1, 11, 12, 13, 17, 65535, 65536, 70000 };
  c.rep.bound          = "size boundaries: buffers of 0,1,11,12,13,17,65535,65536,70000 bytes x 4 content patterns; legacy int-length entry points with alen in {0,-1,INT_MIN}";
  long long idx = 0;
  for (size_t sz : sizes)
    for (int pat = 0; pat < 4; pat++, idx++) {
      if (!c.take(idx)) continue;
      Bytes m(sz, pat == 1 ? 0xff : 0);
      bool  valid = false;
      if (pat >= 2 && sz >= 12) {
        ref::Builder b;
        b.header(0x4242, 0x8180, 1, pat == 3 ? 1 : 0, 0, 0);
        if (sz >= 12 + 5) {
          b.question(ref::Labels(), 16, 1);
          if (pat == 3 && sz >= 12 + 5 + 11 + 2) { // one unknown-type RR whose RDATA fills the rest of the buffer
            size_t rest = sz - (12 + 5 + 11);
            if (rest <= 65535) {
              b.name(ref::Labels());
              size_t rp = b.rr_fixed(65280, 1, 1);
              for (size_t i = 0; i < rest; i++) b.u8((unsigned)(i * 7));
              b.rr_close(rp);
              valid = sz <= 65535;
            }
          }
        }
        for (size_t i = 0; i < b.b.size() && i < sz; i++) m[i] = b.b[i];
        if (pat == 2 && sz >= 17) valid = false; // trailing zero padding after the question: header says 0 RRs
      }
      c.begin_case(idx, "\"size\":" + std::to_string(sz) + ",\"pattern\":" + std::to_string(pat));
      EXC_GUARD(c);
      c.rep.states++;
      HeapBuf  hb(m.data(), m.size());
      CaseInfo ci{ hb.p, hb.n };
      ci.is_base = true;
      if (sz > 12) ci.name_offsets = { 0, 12, sz - 1 };
      else if (sz > 0) ci.name_offsets = { 0, sz - 1 };
      run_c02(c, ci);
      if (valid) {
        ares_dns_record_t *rec = nullptr;
        ares_status_t      st  = ares_dns_parse(hb.p, hb.n, 0, &rec);
        if (st != ARES_SUCCESS) c.viol("C02:size:valid-message-of-" + std::to_string(sz) + "-bytes-rejected", status_name(st));
        else c.rep.witness("size_65535_accepted", sz == 65535);
        ares_dns_record_destroy(rec);
        ledger_clean();
      }
      if (sz > 65535) {
        ares_dns_record_t *rec = nullptr;
        ares_status_t      st  = ares_dns_parse(hb.p, hb.n, 0, &rec);
        if (st == ARES_SUCCESS) c.obs("message_over_65535_accepted");
        else c.rep.witness("oversize_rejected");
        ares_dns_record_destroy(rec);
        ledger_clean();
      }
    }
  const int alens[] = { 0, -1, INT_MIN };
  for (int al : alens) {
    if (c.take(idx)) {
      ref::Builder b;
      b.header(1, 0x8180, 1, 1, 0, 0);
      b.question(ref::L("www.example.com"), 1, 1);
      b.name(ref::Labels(), 12);
      size_t rp = b.rr_fixed(1, 1, 60);
      b.u32(0x01020304UL);
      b.rr_close(rp);
      c.begin_case(idx, "\"alen\":" + std::to_string(al));
      c.rep.states++;
      c.rep.transitions++;
      HeapBuf hb(b.b.data(), b.b.size());
      run_legacy_alen(c, hb.p, hb.n, al);
      c.rep.witness("nonpositive_alen");
    }
    idx++;
  }
  c.rep.transitions += 1;
}

} // namespace exc

using namespace exc;

int main(int argc, char **argv)
{
  // no ASLR: addresses (hence anything derived from them) are identical in every run
  if (!getenv("EXC_NOASLR")) {
    int pers = personality(0xffffffff);
    if (pers != -1 && !(pers & ADDR_NO_RANDOMIZE) && personality(pers | ADDR_NO_RANDOMIZE) != -1) {
      setenv("EXC_NOASLR", "1", 1);
      execv("/proc/self/exe", argv);
    }
  }
  Ctx c;
  c.args = vf::parse_args(argc, argv);
  if (c.args.family.empty()) {
    fprintf(stderr, "usage: exc <names|rrfault|corpus|sizes|roundtrip|builders> [--tier t] [--oracle C02|C03|C04|C18|all] [--shard i/n] [--resume k] [--deadline s] [--out f] [--replay f]\n");
    return 3;
  }
  std::string replay_obj;
  if (!c.args.replay.empty()) {
    FILE *f = fopen(c.args.replay.c_str(), "r");
    if (!f) {
      perror("replay file");
      return 3;
    }
    char   buf[4096];
    size_t n;
    while ((n = fread(buf, 1, sizeof buf, f)) > 0) replay_obj.append(buf, n);
    fclose(f);
    c.replaying  = true;
    c.only_index = atoll(json_get(replay_obj, "index").c_str());
    if (json_get(replay_obj, "index").empty()) {
      fprintf(stderr, "replay object has no index\n");
      return 3;
    }
    std::string t = json_get(replay_obj, "tier"), o = json_get(replay_obj, "oracle"), fam = json_get(replay_obj, "family");
    if (!t.empty()) c.args.tier = t;
    if (!o.empty()) c.args.kv["oracle"] = o;
    if (!fam.empty()) c.args.family = fam;
    for (const char *k : { "maxcells" })
      if (!json_get(replay_obj, k).empty()) c.args.kv[k] = json_get(replay_obj, k);
    c.args.shard   = 0;
    c.args.nshards = 1;
    printf("replaying case %lld of family %s (oracle %s, tier %s)\n", c.only_index, c.args.family.c_str(), c.args.get("oracle", "all"), c.args.tier.c_str());
  }
  c.oracle   = c.args.get("oracle", "all");
  c.thorough = c.args.tier == "thorough";
  c.t_end    = vf::now_s() + (c.args.deadline > 1e9 ? 1e9 : c.args.deadline) - 3;
  if (!c.replaying && !c.args.out.empty() && c.args.resume > 0) {
    // restarted by the driver after a crash of this shard: the driver gives up (internal error, no verdict)
    // after 25 restarts, so stop enumerating before that - the crashes already are the violations
    std::string cf = c.args.out + ".restarts";
    int         n  = 0;
    if (FILE *f = fopen(cf.c_str(), "r")) {
      if (fscanf(f, "%d", &n) != 1) n = 0;
      fclose(f);
    }
    n++;
    if (FILE *f = fopen(cf.c_str(), "w")) {
      fprintf(f, "%d\n", n);
      fclose(f);
    }
    if (n >= 12) {
      c.rep.engine     = "EX-C";
      c.rep.family     = c.args.family;
      c.rep.tier       = c.args.tier;
      c.rep.exhaustive = false;
      c.rep.bound      = "ABANDONED: shard " + std::to_string(c.args.shard) + " crashed " + std::to_string(n) + " times (each crash is reported as a violation); not resumed beyond case index " + std::to_string(c.args.resume);
      c.rep.outcome("abandoned-after-crashes");
      c.rep.outcome("abandoned-after-crashes-2");
      c.rep.write(c.args.out);
      return 0;
    }
  }
  if (!c.args.out.empty()) vf::install_crash_handler(c.args.out + ".crash");
  g_ctx = &c;
  signal(SIGALRM, on_alarm);
  c.rep.engine = "EX-C";
  c.rep.family = c.args.family;
  c.rep.tier   = c.args.tier;
  init_library();
  const std::string &f = c.args.family;
  if (f == "names") fam_names(c);
  else if (f == "rrfault" || f == "legacy") fam_closure(c, false);
  else if (f == "corpus") fam_closure(c, true);
  else if (f == "sizes") fam_sizes(c);
  else if (f == "roundtrip") fam_roundtrip(c);
  else if (f == "builders") fam_builders(c);
  else {
    fprintf(stderr, "unknown family %s\n", f.c_str());
    return 3;
  }
  alarm(0);
  c.armed = false;
  if (c.replaying) {
    if (c.index < 0) {
      printf("case index %lld does not exist in this family/tier\n", c.only_index);
      return 3;
    }
    printf("case: %s\n", c.case_json.c_str());
    std::string h = json_get(replay_obj, "hex"), h2 = json_get(c.case_json, "hex");
    if (!h.empty() && !h2.empty() && h != h2) printf("WARNING: regenerated input differs from the recorded one (enumeration changed?)\n");
    printf(c.replay_violations ? "REPRODUCED: %d violation(s)\n" : "held: no violation on this case (%d)\n", c.replay_violations);
    return c.replay_violations ? 1 : 0;
  }
  c.rep.closed = c.rep.exhaustive;
  if (!c.args.out.empty()) c.rep.write(c.args.out);
  else {
    printf("states=%llu transitions=%llu executions=%llu outcomes=%zu exhaustive=%d violations=%zu internal_errors=%zu\n", (unsigned long long)c.rep.states, (unsigned long long)c.rep.transitions,
           (unsigned long long)c.rep.executions, c.rep.outcomes.size(), (int)c.rep.exhaustive, c.rep.violations.size(), c.rep.internal_errors.size());
    for (auto &v : c.rep.violations) printf("VIOLATION %s\n  %s\n  %s\n", v.key.c_str(), v.desc.substr(0, 700).c_str(), v.replay.substr(0, 400).c_str());
    for (auto &e : c.rep.internal_errors) printf("INTERNAL %s\n", e.substr(0, 400).c_str());
    for (auto &w : c.rep.witnesses) printf("witness %s=%llu\n", w.first.c_str(), (unsigned long long)w.second);
    for (auto &w : c.rep.counters) printf("counter %s=%llu\n", w.first.c_str(), (unsigned long long)w.second);
  }
  return 0;
}
