// EX-C independent RFC reference decoder (see exc_ref.h).  No c-ares code here.
#include "exc_ref.h"
#include <cstdio>
#include <cstring>

namespace ref {

std::string hexs(const uint8_t *p, size_t n)
{
  static const char *d = "0123456789abcdef";
  std::string        o;
  o.reserve(n * 2);
  for (size_t i = 0; i < n; i++) {
    o += d[p[i] >> 4];
    o += d[p[i] & 15];
  }
  return o;
}
std::string hexs(const std::string &s) { return hexs((const uint8_t *)s.data(), s.size()); }

std::string labels_text(const Labels &l)
{
  if (l.empty()) return ".";
  std::string o;
  for (size_t i = 0; i < l.size(); i++) {
    if (i) o += '.';
    o += hexs(l[i]);
  }
  return o;
}

std::string Dump::text() const
{
  std::string o;
  for (auto &e : kv) {
    o += e.k;
    o += '=';
    o += e.v;
    o += '\n';
  }
  return o;
}

static std::string strip_idx(const std::string &s)
{
  std::string o;
  bool        in = false;
  for (char c : s) {
    if (c == '[') in = true;
    else if (c == ']') in = false;
    else if (!in) o += c;
  }
  return o;
}

static std::string path_key(const std::string &path)
{
  std::string              p = strip_idx(path);
  std::vector<std::string> parts;
  size_t                   s = 0;
  while (true) {
    size_t e = p.find('.', s);
    parts.push_back(p.substr(s, e == std::string::npos ? e : e - s));
    if (e == std::string::npos) break;
    s = e + 1;
  }
  if (parts[0] == "hdr") return "hdr:field=" + (parts.size() > 1 ? parts[1] : std::string("?"));
  if (parts[0] == "count") return "count:" + (parts.size() > 1 ? parts[1] : std::string("?"));
  if (parts[0] == "q") return "q:field=" + (parts.size() > 1 ? parts[1] : std::string("?"));
  if (parts.size() == 2) return "rr:field=" + parts[1];
  if (parts.size() >= 3) {
    std::string f = parts[2];
    for (size_t i = 3; i < parts.size(); i++) f += "." + parts[i];
    return "rr=" + parts[1] + ":field=" + f;
  }
  return p;
}

bool dump_diff(const Dump &a, const Dump &b, std::string &key, std::string &desc)
{
  size_t n = a.kv.size() < b.kv.size() ? a.kv.size() : b.kv.size();
  for (size_t i = 0; i < n; i++) {
    if (a.kv[i].k != b.kv[i].k) {
      key  = "structure:" + path_key(a.kv[i].k);
      desc = "left has " + a.kv[i].k + "=" + a.kv[i].v + " where right has " + b.kv[i].k + "=" + b.kv[i].v;
      return true;
    }
    if (a.kv[i].v != b.kv[i].v) {
      key  = path_key(a.kv[i].k);
      desc = a.kv[i].k + ": left=" + a.kv[i].v + " right=" + b.kv[i].v;
      return true;
    }
  }
  if (a.kv.size() != b.kv.size()) {
    const KV &e = a.kv.size() > n ? a.kv[n] : b.kv[n];
    key         = "structure:" + path_key(e.k);
    desc        = std::string(a.kv.size() > n ? "left" : "right") + " has extra " + e.k + "=" + e.v;
    return true;
  }
  return false;
}

// ------------------------------------------------------------- presentation
std::string escape_name(const Labels &l)
{
  std::string o;
  char        b[8];
  for (size_t i = 0; i < l.size(); i++) {
    if (i) o += '.';
    for (unsigned char c : l[i]) {
      if (c < 0x21 || c > 0x7e) {
        snprintf(b, sizeof b, "\\%03u", (unsigned)c);
        o += b;
      } else if (strchr("\".;\\()@$", c)) {
        o += '\\';
        o += (char)c;
      } else o += (char)c;
    }
  }
  return o;
}

bool unescape_name(const std::string &t, Labels &out)
{
  out.clear();
  if (t.empty() || t == ".") return true;
  std::string cur;
  bool        have = false; // current label has at least one byte
  size_t      i    = 0;
  while (i < t.size()) {
    unsigned char c = (unsigned char)t[i];
    if (c == '.') {
      if (!have) return false; // empty label
      out.push_back(cur);
      cur.clear();
      have = false;
      i++;
      continue;
    }
    if (c == '\\') {
      if (i + 1 >= t.size()) return false;
      unsigned char d = (unsigned char)t[i + 1];
      if (d >= '0' && d <= '9') {
        if (i + 3 >= t.size()) return false;
        unsigned char e = (unsigned char)t[i + 2], f = (unsigned char)t[i + 3];
        if (e < '0' || e > '9' || f < '0' || f > '9') return false;
        unsigned v = (d - '0') * 100u + (e - '0') * 10u + (f - '0');
        if (v > 255) return false;
        cur += (char)v;
        i += 4;
      } else {
        cur += (char)d;
        i += 2;
      }
      have = true;
      continue;
    }
    cur += (char)c;
    have = true;
    i++;
  }
  if (have) out.push_back(cur); // no trailing dot
  return true;
}

bool valid_wire_name(const Labels &l)
{
  size_t w = 1;
  for (auto &x : l) {
    if (x.empty() || x.size() > 63) return false;
    w += 1 + x.size();
  }
  return w <= 255;
}

Labels L(const char *dotted)
{
  Labels      l;
  std::string cur;
  for (const char *p = dotted; *p; p++) {
    if (*p == '.') {
      if (!cur.empty()) l.push_back(cur);
      cur.clear();
    } else cur += *p;
  }
  if (!cur.empty()) l.push_back(cur);
  return l;
}

// -------------------------------------------------------------------- names
const char *namefail_str(NameFail f)
{
  switch (f) {
    case NF_NONE: return "none";
    case NF_TRUNCATED: return "truncated";
    case NF_RESERVED: return "reserved-label-type";
    case NF_PTR_FORWARD: return "forward-pointer";
    case NF_PTR_SELF: return "self-pointer";
    case NF_PTR_LOOP: return "pointer-into-current-sequence";
    case NF_TOO_LONG: return "name-over-255";
  }
  return "?";
}

bool decode_name(const uint8_t *msg, size_t len, size_t off, NameInfo &out)
{
  out            = NameInfo();
  size_t pos     = off;
  size_t seq     = off; // start of the label sequence being read
  bool   jumped  = false;
  while (true) {
    if (pos >= len) {
      out.fail = NF_TRUNCATED;
      return false;
    }
    unsigned c = msg[pos];
    if ((c & 0xC0) == 0xC0) {
      if (pos + 1 >= len) {
        out.fail = NF_TRUNCATED;
        return false;
      }
      size_t target = ((size_t)(c & 0x3F) << 8) | msg[pos + 1];
      if (!jumped) {
        out.consumed = pos + 2 - off;
        jumped       = true;
      }
      if (target == pos) {
        out.fail = NF_PTR_SELF;
        return false;
      }
      if (target > pos) {
        out.fail = NF_PTR_FORWARD;
        return false;
      }
      if (target >= seq) {
        out.fail = NF_PTR_LOOP;
        return false;
      }
      out.pointers++;
      pos = target;
      seq = target;
      continue;
    }
    if (c & 0xC0) {
      out.fail = NF_RESERVED;
      return false;
    }
    if (c == 0) {
      out.wire_len += 1;
      if (!jumped) out.consumed = pos + 1 - off;
      break;
    }
    if (pos + 1 + c > len) {
      out.fail = NF_TRUNCATED;
      return false;
    }
    out.labels.push_back(std::string((const char *)msg + pos + 1, c));
    out.wire_len += 1 + c;
    pos += 1 + c;
    if (out.wire_len > 70000) break; // cannot happen in a 64 KiB message without pointers; hard stop
  }
  if (out.wire_len > 255) {
    out.fail = NF_TOO_LONG;
    return false;
  }
  return true;
}

// ------------------------------------------------------------------ messages
struct TypeEnt {
  unsigned    t;
  const char *n;
  bool        base;
};
static const TypeEnt TYPES[] = { { 1, "A", true },       { 2, "NS", true },     { 5, "CNAME", true }, { 6, "SOA", true },
                                 { 12, "PTR", true },    { 13, "HINFO", true }, { 15, "MX", true },   { 16, "TXT", true },
                                 { 24, "SIG", false },   { 28, "AAAA", false }, { 33, "SRV", false }, { 35, "NAPTR", false },
                                 { 41, "OPT", false },   { 52, "TLSA", false }, { 64, "SVCB", false }, { 65, "HTTPS", false },
                                 { 256, "URI", false },  { 257, "CAA", false } };
const char          *type_name(unsigned t)
{
  for (auto &e : TYPES)
    if (e.t == t) return e.n;
  return nullptr;
}
bool is_base_type(unsigned t)
{
  for (auto &e : TYPES)
    if (e.t == t) return e.base;
  return false;
}

namespace {
struct Rd { // cursor over one RDATA
  const uint8_t *m;
  size_t         mlen, pos, end;
  bool           ok = true;
  size_t         left() const { return end - pos; }
  unsigned       u8()
  {
    if (pos + 1 > end) {
      ok = false;
      return 0;
    }
    return m[pos++];
  }
  unsigned u16()
  {
    if (pos + 2 > end) {
      ok = false;
      return 0;
    }
    unsigned v = (m[pos] << 8) | m[pos + 1];
    pos += 2;
    return v;
  }
  unsigned long u32()
  {
    if (pos + 4 > end) {
      ok = false;
      return 0;
    }
    unsigned long v = ((unsigned long)m[pos] << 24) | ((unsigned long)m[pos + 1] << 16) | ((unsigned long)m[pos + 2] << 8) | m[pos + 3];
    pos += 4;
    return v;
  }
  std::string bytes(size_t n)
  {
    if (pos + n > end) {
      ok = false;
      return "";
    }
    std::string s((const char *)m + pos, n);
    pos += n;
    return s;
  }
  std::string cstr()
  {
    unsigned n = u8();
    if (!ok) return "";
    return bytes(n);
  }
};
bool printable(const std::string &s)
{
  for (unsigned char c : s)
    if (c < 0x20 || c > 0x7e) return false;
  return true;
}
} // namespace

#define FAILM(msg)        \
  do {                    \
    if (d.st == OK) {     \
      d.st  = MALFORMED;  \
      d.why = msg;        \
    }                     \
    return d;             \
  } while (0)
#define FAILU(msg)         \
  do {                     \
    if (d.st == OK) {      \
      d.st  = UNSUPPORTED; \
      d.why = msg;         \
    }                      \
    return d;              \
  } while (0)

Decoded decode_message(const uint8_t *m, size_t len, unsigned flags)
{
  Decoded d;
  if (len < 12) FAILM("message shorter than a header");
  if (len > 65535) FAILM("message longer than 65535");
  unsigned id = (m[0] << 8) | m[1], fl = (m[2] << 8) | m[3];
  unsigned qd = (m[4] << 8) | m[5], an = (m[6] << 8) | m[7], ns = (m[8] << 8) | m[9], ar = (m[10] << 8) | m[11];
  unsigned opcode = (fl >> 11) & 15, rcode = fl & 15;
  d.dump.addu("hdr.id", id);
  d.dump.addu("hdr.qr", (fl >> 15) & 1);
  d.dump.addu("hdr.opcode", opcode);
  d.dump.addu("hdr.aa", (fl >> 10) & 1);
  d.dump.addu("hdr.tc", (fl >> 9) & 1);
  d.dump.addu("hdr.rd", (fl >> 8) & 1);
  d.dump.addu("hdr.ra", (fl >> 7) & 1);
  d.dump.addu("hdr.ad", (fl >> 5) & 1);
  d.dump.addu("hdr.cd", (fl >> 4) & 1);
  size_t rcode_slot = d.dump.kv.size();
  d.dump.addu("hdr.rcode", rcode);
  d.dump.addu("count.qd", qd);
  d.dump.addu("count.an", an);
  d.dump.addu("count.ns", ns);
  d.dump.addu("count.ar", ar);
  if (!(opcode == 0 || opcode == 1 || opcode == 2 || opcode == 4 || opcode == 5)) FAILU("opcode outside {QUERY,IQUERY,STATUS,NOTIFY,UPDATE}");
  if (qd != 1) FAILU("question count != 1");

  size_t pos = 12;
  char   pfx[48];
  {
    NameInfo ni;
    if (!decode_name(m, len, pos, ni)) {
      d.first_name_fail = ni.fail;
      FAILM(std::string("question name: ") + namefail_str(ni.fail));
    }
    d.pointers_followed += ni.pointers;
    pos += ni.consumed;
    if (pos + 4 > len) FAILM("question truncated");
    unsigned qt = (m[pos] << 8) | m[pos + 1], qc = (m[pos + 2] << 8) | m[pos + 3];
    pos += 4;
    d.dump.add("q[0].name", labels_text(ni.labels));
    d.dump.addu("q[0].type", qt);
    d.dump.addu("q[0].class", qc);
    if (!(qc == 1 || qc == 3 || qc == 4 || qc == 254 || qc == 255)) FAILU("question class outside {IN,CH,HS,NONE,ANY}");
  }

  unsigned    ext_rcode = 0;
  int         nopt      = 0;
  const char *sects[3]  = { "an", "ns", "ar" };
  unsigned    counts[3] = { an, ns, ar };
  for (int s = 0; s < 3; s++) {
    for (unsigned i = 0; i < counts[s]; i++) {
      snprintf(pfx, sizeof pfx, "%s[%u]", sects[s], i);
      std::string P = pfx;
      NameInfo    ni;
      if (!decode_name(m, len, pos, ni)) {
        if (d.first_name_fail == NF_NONE) d.first_name_fail = ni.fail;
        FAILM(P + " owner name: " + namefail_str(ni.fail));
      }
      d.pointers_followed += ni.pointers;
      pos += ni.consumed;
      if (pos + 10 > len) FAILM(P + " fixed part truncated");
      unsigned      type = (m[pos] << 8) | m[pos + 1], klass = (m[pos + 2] << 8) | m[pos + 3];
      unsigned long ttl = ((unsigned long)m[pos + 4] << 24) | ((unsigned long)m[pos + 5] << 16) | ((unsigned long)m[pos + 6] << 8) | m[pos + 7];
      unsigned      rdlen = (m[pos + 8] << 8) | m[pos + 9];
      pos += 10;
      if (pos + rdlen > len) FAILM(P + " RDLENGTH runs past the end of the message");
      const char *tn = type_name(type);
      if (type == 255) FAILM(P + " RR of meta type ANY");
      bool raw = tn == nullptr;
      if (!raw) {
        unsigned bit = is_base_type(type) ? (s == 0 ? AN_BASE_RAW : s == 1 ? NS_BASE_RAW : AR_BASE_RAW)
                                          : (s == 0 ? AN_EXT_RAW : s == 1 ? NS_EXT_RAW : AR_EXT_RAW);
        if (flags & bit) raw = true;
      }
      Rd r{ m, len, pos, pos + rdlen };
      d.dump.add(P + ".name", labels_text(ni.labels));
      d.dump.addu(P + ".type", type);
      if (raw) {
        d.dump.addu(P + ".class", klass);
        d.dump.addu(P + ".ttl", ttl);
        d.dump.add(P + ".RAWRR.DATA", hexs(m + pos, rdlen));
        d.raw_rr = true;
        pos += rdlen;
        continue;
      }
      std::string T = P + "." + tn + ".";
      if (type != 41) {
        if (!(klass == 1 || klass == 3 || klass == 4 || klass == 254 || (klass == 255 && type == 24)))
          FAILU(P + " class outside {IN,CH,HS,NONE} for a decoded type");
        d.dump.addu(P + ".class", klass);
        d.dump.addu(P + ".ttl", ttl);
      }
      auto rdname = [&](const char *key) -> bool {
        NameInfo n2;
        if (!decode_name(m, len, r.pos, n2)) {
          if (d.first_name_fail == NF_NONE) d.first_name_fail = n2.fail;
          if (d.st == OK) {
            d.st  = MALFORMED;
            d.why = T + key + ": " + namefail_str(n2.fail);
          }
          return false;
        }
        if (r.pos + n2.consumed > r.end) {
          if (d.st == OK) {
            d.st  = MALFORMED;
            d.why = T + key + ": name runs past RDATA";
          }
          return false;
        }
        d.pointers_followed += n2.pointers;
        r.pos += n2.consumed;
        d.dump.add(T + key, labels_text(n2.labels));
        return true;
      };
      auto str = [&](const char *key, bool nonempty) -> int { // 0 ok, 1 malformed, 2 unsupported
        std::string v = r.cstr();
        if (!r.ok) return 1;
        if (!printable(v)) return 2;
        if (nonempty && v.empty()) return 1;
        d.dump.add(T + key, hexs(v));
        return 0;
      };
      auto opts = [&](const char *key, bool increasing) -> int {
        std::vector<std::pair<unsigned, std::string>> o;
        while (r.left() > 0) {
          unsigned    code = r.u16();
          unsigned    l    = r.u16();
          std::string v    = r.bytes(l);
          if (!r.ok) return 1;
          if (increasing && !o.empty() && code <= o.back().first) return 1;
          for (auto &e : o)
            if (e.first == code) d.notes.insert("duplicate_option");
          o.push_back({ code, v });
        }
        d.dump.addu(T + key + ".cnt", o.size());
        char ib[32];
        for (size_t k = 0; k < o.size(); k++) {
          snprintf(ib, sizeof ib, "[%zu]", k);
          d.dump.addu(T + key + ib + ".code", o[k].first);
          d.dump.add(T + key + ib + ".val", hexs(o[k].second));
        }
        return o.empty() ? -1 : 0;
      };
      int rc = 0;
      switch (type) {
        case 1:
          if (rdlen != 4) FAILM(P + " A RDLENGTH != 4");
          d.dump.add(T + "ADDR", hexs(r.bytes(4)));
          break;
        case 28:
          if (rdlen != 16) FAILM(P + " AAAA RDLENGTH != 16");
          d.dump.add(T + "ADDR", hexs(r.bytes(16)));
          break;
        case 2:
          if (!rdname("NSDNAME")) return d;
          break;
        case 5:
          if (!rdname("CNAME")) return d;
          break;
        case 12:
          if (!rdname("DNAME")) return d;
          break;
        case 6:
          if (!rdname("MNAME") || !rdname("RNAME")) return d;
          d.dump.addu(T + "SERIAL", r.u32());
          d.dump.addu(T + "REFRESH", r.u32());
          d.dump.addu(T + "RETRY", r.u32());
          d.dump.addu(T + "EXPIRE", r.u32());
          d.dump.addu(T + "MINIMUM", r.u32());
          break;
        case 13:
          rc = str("CPU", false);
          if (!rc) rc = str("OS", false);
          break;
        case 15:
          d.dump.addu(T + "PREFERENCE", r.u16());
          if (!r.ok) break;
          if (!rdname("EXCHANGE")) return d;
          break;
        case 16: {
          if (rdlen == 0) FAILM(P + " TXT with no character-string");
          std::vector<std::string> ch;
          while (r.left() > 0) {
            ch.push_back(r.cstr());
            if (!r.ok) break;
          }
          if (!r.ok) break;
          d.dump.addu(T + "DATA.cnt", ch.size());
          char ib[32];
          for (size_t k = 0; k < ch.size(); k++) {
            snprintf(ib, sizeof ib, "DATA[%zu]", k);
            d.dump.add(T + ib, hexs(ch[k]));
          }
          break;
        }
        case 24:
          d.dump.addu(T + "TYPE_COVERED", r.u16());
          d.dump.addu(T + "ALGORITHM", r.u8());
          d.dump.addu(T + "LABELS", r.u8());
          d.dump.addu(T + "ORIGINAL_TTL", r.u32());
          d.dump.addu(T + "EXPIRATION", r.u32());
          d.dump.addu(T + "INCEPTION", r.u32());
          d.dump.addu(T + "KEY_TAG", r.u16());
          if (!r.ok) break;
          if (!rdname("SIGNERS_NAME")) return d;
          if (r.left() == 0) FAILU(P + " SIG with empty signature");
          d.dump.add(T + "SIGNATURE", hexs(r.bytes(r.left())));
          break;
        case 33:
          d.dump.addu(T + "PRIORITY", r.u16());
          d.dump.addu(T + "WEIGHT", r.u16());
          d.dump.addu(T + "PORT", r.u16());
          if (!r.ok) break;
          if (!rdname("TARGET")) return d;
          break;
        case 35:
          d.dump.addu(T + "ORDER", r.u16());
          d.dump.addu(T + "PREFERENCE", r.u16());
          if (!r.ok) break;
          rc = str("FLAGS", false);
          if (!rc) rc = str("SERVICES", false);
          if (!rc) rc = str("REGEXP", false);
          if (rc) break;
          if (!rdname("REPLACEMENT")) return d;
          break;
        case 41: {
          if (s != 2) FAILM(P + " OPT outside the additional section");
          if (++nopt > 1) FAILM(P + " more than one OPT");
          if (!ni.labels.empty()) FAILM(P + " OPT owner is not the root");
          d.dump.addu(T + "UDP_SIZE", klass);
          d.dump.addu(T + "VERSION", (ttl >> 16) & 0xff);
          d.dump.addu(T + "FLAGS", ttl & 0xffff);
          ext_rcode = (unsigned)((ttl >> 24) & 0xff);
          rc        = opts("OPTIONS", false);
          if (rc == 0) d.opt_with_options = true;
          if (rc == -1) rc = 0;
          break;
        }
        case 52:
          d.dump.addu(T + "CERT_USAGE", r.u8());
          d.dump.addu(T + "SELECTOR", r.u8());
          d.dump.addu(T + "MATCH", r.u8());
          if (!r.ok) break;
          if (r.left() == 0) FAILU(P + " TLSA with empty association data");
          d.dump.add(T + "DATA", hexs(r.bytes(r.left())));
          break;
        case 64:
        case 65:
          d.dump.addu(T + "PRIORITY", r.u16());
          if (!r.ok) break;
          if (!rdname("TARGET")) return d;
          rc = opts("PARAMS", true);
          if (rc == 0) d.svcb_params = true;
          if (rc == -1) rc = 0;
          break;
        case 256: {
          d.dump.addu(T + "PRIORITY", r.u16());
          d.dump.addu(T + "WEIGHT", r.u16());
          if (!r.ok) break;
          if (r.left() == 0) FAILU(P + " URI with empty target");
          std::string t = r.bytes(r.left());
          if (!printable(t)) FAILU(P + " URI target not printable ASCII");
          d.dump.add(T + "TARGET", hexs(t));
          break;
        }
        case 257: {
          d.dump.addu(T + "CRITICAL", r.u8());
          if (!r.ok) break;
          rc = str("TAG", true);
          if (rc) break;
          if (r.left() == 0) FAILU(P + " CAA with empty value");
          d.dump.add(T + "VALUE", hexs(r.bytes(r.left())));
          break;
        }
        default: FAILM("internal: unhandled type");
      }
      if (!r.ok || rc == 1) FAILM(P + " " + tn + " RDATA does not match its format / RDLENGTH");
      if (rc == 2) FAILU(P + " " + tn + " character-string not printable ASCII");
      if (r.pos != r.end) FAILM(P + " " + tn + " RDATA shorter than RDLENGTH");
      d.rrtypes.insert(type);
      pos = r.end;
    }
  }
  unsigned full = rcode | (ext_rcode << 4);
  d.dump.kv[rcode_slot].v = std::to_string(full);
  static const unsigned known_rcodes[] = { 0, 1, 2, 3, 4, 5, 6, 7, 8, 9, 10, 11, 16, 17, 18, 19, 20, 21, 22, 23 };
  bool                  kn             = false;
  for (unsigned k : known_rcodes)
    if (k == full) kn = true;
  if (!kn) d.notes.insert("rcode_unassigned");
  d.consumed = pos;
  if (pos != len) {
    d.trailing = true;
    d.notes.insert("trailing_bytes");
  }
  return d;
}

} // namespace ref
