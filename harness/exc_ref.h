// EX-C: independent RFC reference for DNS messages (RFC 1035, 2782, 3596,
// 6891, 7873, 8659, 9460, 7553, 6698, 2915/3403, 2535).  This file and
// exc_ref.cc share NO code with c-ares and must never call an ares_* function.
//
//  * decode_name(): RFC 1035 4.1.4 name decoding with the strict pointer rule
//    "a pointer must point strictly before the start of the label sequence it
//    terminates" (hence never forward, never to itself, never into a loop).
//  * decode_message(): complete message -> canonical Dump (ordered key/value
//    list) + status OK / MALFORMED / UNSUPPORTED + notes.
//  * Builder: byte-level encoder used by the structure-aware generator.
//  * presentation-format escape/unescape (RFC 1035 5.1: \X and \DDD).
#pragma once
#include <cstdint>
#include <cstddef>
#include <set>
#include <string>
#include <vector>

namespace ref {

typedef std::vector<uint8_t>     Bytes;
typedef std::vector<std::string> Labels; // raw label bytes, root = empty vector

// ---- canonical dump ---------------------------------------------------------
struct KV {
  std::string k, v;
};
struct Dump {
  std::vector<KV> kv;
  void            add(const std::string &k, const std::string &v) { kv.push_back({ k, v }); }
  void            addu(const std::string &k, unsigned long long v) { kv.push_back({ k, std::to_string(v) }); }
  std::string     text() const;
};
// First difference between two dumps. `key` is a stable short identity of the
// differing field with indices removed, e.g. "rr=SRV:field=WEIGHT",
// "hdr:field=rcode", "q:field=name", "count:an".
bool dump_diff(const Dump &a, const Dump &b, std::string &key, std::string &desc);

std::string hexs(const uint8_t *p, size_t n);
std::string hexs(const std::string &s);
std::string labels_text(const Labels &l); // canonical: hex labels joined by '.', root = "."

// ---- presentation format ----------------------------------------------------
std::string escape_name(const Labels &l);                       // RFC 1035 5.1 master-file escaping
bool        unescape_name(const std::string &text, Labels &out); // accepts \X, \DDD, optional trailing dot
bool        valid_wire_name(const Labels &l);                    // labels 1..63, total wire length <= 255

// ---- names --------------------------------------------------------------------
enum NameFail {
  NF_NONE = 0,
  NF_TRUNCATED,   // ran off the end of the message
  NF_RESERVED,    // 0x40 / 0x80 label type
  NF_PTR_FORWARD, // pointer target after the pointer (or outside the message)
  NF_PTR_SELF,    // pointer to itself
  NF_PTR_LOOP,    // pointer backward but not before the start of the current label sequence
  NF_TOO_LONG     // > 255 octets on the wire
};
const char *namefail_str(NameFail f);
inline bool namefail_is_pointer_rule(NameFail f) { return f == NF_PTR_FORWARD || f == NF_PTR_SELF || f == NF_PTR_LOOP; }
struct NameInfo {
  Labels   labels;
  size_t   consumed = 0; // bytes consumed at the place the name is embedded
  int      pointers = 0; // pointers followed
  NameFail fail     = NF_NONE;
  size_t   wire_len = 0; // uncompressed wire length (labels + terminator)
};
bool decode_name(const uint8_t *msg, size_t len, size_t off, NameInfo &out);

// ---- messages -----------------------------------------------------------------
enum Status { OK = 0, MALFORMED = 1, UNSUPPORTED = 2 };
// parse flags with the meaning documented in ares_dns_record.h (raw RRs per section / RFC generation)
enum { AN_BASE_RAW = 1, NS_BASE_RAW = 2, AR_BASE_RAW = 4, AN_EXT_RAW = 8, NS_EXT_RAW = 16, AR_EXT_RAW = 32 };

struct Decoded {
  Status                st = OK;
  std::string           why;   // first reason for !OK
  std::set<std::string> notes; // well-formed, but at a documented representation limit of the API under test
  Dump                  dump;
  // witnesses
  int                   pointers_followed = 0;
  std::set<unsigned>    rrtypes; // RR types decoded structurally (not raw)
  bool                  opt_with_options = false, svcb_params = false, raw_rr = false, trailing = false;
  size_t                consumed = 0;
  NameFail              first_name_fail = NF_NONE;
};
Decoded decode_message(const uint8_t *msg, size_t len, unsigned flags);

const char *type_name(unsigned t); // "A", "NS", ... or nullptr if not in the supported subset
bool        is_base_type(unsigned t);

// ---- encoder --------------------------------------------------------------------
struct Builder {
  Bytes               b;
  std::vector<size_t> name_starts; // offsets at which a name begins (for expand_name probes)
  void                u8(unsigned v) { b.push_back((uint8_t)v); }
  void                u16(unsigned v)
  {
    u8(v >> 8);
    u8(v & 0xff);
  }
  void u32(unsigned long v)
  {
    u16((unsigned)(v >> 16));
    u16((unsigned)(v & 0xffff));
  }
  void raw(const std::string &s) { b.insert(b.end(), s.begin(), s.end()); }
  void raw(const Bytes &s) { b.insert(b.end(), s.begin(), s.end()); }
  void cstr(const std::string &s) // <character-string>
  {
    u8((unsigned)s.size());
    raw(s);
  }
  size_t pos() const { return b.size(); }
  void   header(unsigned id, unsigned flags16, unsigned qd, unsigned an, unsigned ns, unsigned ar)
  {
    u16(id);
    u16(flags16);
    u16(qd);
    u16(an);
    u16(ns);
    u16(ar);
  }
  // labels followed by terminator (ptr < 0) or by a pointer to offset ptr
  void name(const Labels &l, int ptr = -1)
  {
    name_starts.push_back(pos());
    for (auto &x : l) {
      u8((unsigned)x.size());
      raw(x);
    }
    if (ptr < 0) u8(0);
    else u16(0xC000 | (unsigned)ptr);
  }
  void   question(const Labels &l, unsigned qtype, unsigned qclass, int ptr = -1)
  {
    name(l, ptr);
    u16(qtype);
    u16(qclass);
  }
  // after the owner name: fixed part; returns position of RDLENGTH
  size_t rr_fixed(unsigned type, unsigned klass, unsigned long ttl)
  {
    u16(type);
    u16(klass);
    u32(ttl);
    size_t p = pos();
    u16(0);
    return p;
  }
  void set16(size_t at, unsigned v)
  {
    b[at]     = (uint8_t)(v >> 8);
    b[at + 1] = (uint8_t)(v & 0xff);
  }
  void rr_close(size_t rdlen_pos) { set16(rdlen_pos, (unsigned)(pos() - rdlen_pos - 2)); }
};

Labels L(const char *dotted); // convenience: split a plain dotted string (no escapes) into labels

} // namespace ref
