// EX-C: C03 - write/parse round trips (wire sources, setter-built records,
// TCP frames inside non-empty buffers, size boundaries) and the legacy query
// builders.
#include "exc.h"
#include <arpa/inet.h>
#include <algorithm>

namespace exc {

// coarse class of a case for violation keys: the source family, not the individual value
static std::string shape_class(const std::string &shape)
{
  size_t      p = shape.find(' ');
  std::string s = p == std::string::npos ? shape : shape.substr(0, p);
  if (s.rfind("set:", 0) == 0) return "set";
  if (s.rfind("default:", 0) == 0) return "default";
  if (s.rfind("suffix:", 0) == 0) return "suffix";
  return s;
}

static void soften_notes(Ctx &c, ref::Decoded &d)
{
  if (d.notes.count("rcode_unassigned")) {
    c.obs("rcode_unassigned_reported_as_servfail");
    for (auto &e : d.dump.kv)
      if (e.k == "hdr.rcode") e.v = "2";
  }
}

static bool has_opt_in_additional(const ares_dns_record_t *r)
{
  for (size_t i = 0; i < ares_dns_record_rr_cnt(r, ARES_SECTION_ADDITIONAL); i++)
    if (ares_dns_rr_get_type(ares_dns_record_rr_get_const(r, ARES_SECTION_ADDITIONAL, i)) == ARES_REC_TYPE_OPT) return true;
  return false;
}
static bool has_opt_elsewhere(const ares_dns_record_t *r)
{
  for (ares_dns_section_t s : { ARES_SECTION_ANSWER, ARES_SECTION_AUTHORITY })
    for (size_t i = 0; i < ares_dns_record_rr_cnt(r, s); i++)
      if (ares_dns_rr_get_type(ares_dns_record_rr_get_const(r, s, i)) == ARES_REC_TYPE_OPT) return true;
  return false;
}

// The C03 oracle for one record. `flags`: parse flags under which r was obtained (re-parse uses the same).
// raw presentation text of every name of a record (to recognise non-canonical input text)
static std::string name_texts(const ares_dns_record_t *r)
{
  std::string o;
  const char *n = nullptr;
  for (size_t i = 0; i < ares_dns_record_query_cnt(r); i++)
    if (ares_dns_record_query_get(r, i, &n, nullptr, nullptr) == ARES_SUCCESS && n) o += std::string(n) + "|";
  for (ares_dns_section_t s : { ARES_SECTION_ANSWER, ARES_SECTION_AUTHORITY, ARES_SECTION_ADDITIONAL })
    for (size_t i = 0; i < ares_dns_record_rr_cnt(r, s); i++) {
      const ares_dns_rr_t *rr = ares_dns_record_rr_get_const(r, s, i);
      o += std::string(ares_dns_rr_get_name(rr) ? ares_dns_rr_get_name(rr) : "") + "|";
      size_t                   nk   = 0;
      const ares_dns_rr_key_t *keys = ares_dns_rr_get_keys(ares_dns_rr_get_type(rr), &nk);
      for (size_t k = 0; k < nk; k++)
        if (ares_dns_rr_key_datatype(keys[k]) == ARES_DATATYPE_NAME) {
          const char *t = ares_dns_rr_get_str(rr, keys[k]);
          o += std::string(t ? t : "") + "|";
        }
    }
  return o;
}

// `contract`: false when the record holds a value that the library's own parser documents as invalid
// (or the source message was not well-formed): mismatches are then counted, not reported.
static bool roundtrip_record_f(Ctx &c, const ares_dns_record_t *r, const std::string &shape, bool expect_write_ok, unsigned flags, const std::string &tolerate, bool contract = true)
{
  std::string    sc = shape_class(shape);
  std::string    problems;
  ref::Dump      d0  = ares_dump(r, nullptr, &problems); // (also warms the per-record caches the getters allocate)
  LedgerScope    hide_record;
  auto           V = [&](const std::string &key, const std::string &desc) {
    if (contract) c.viol(key, desc);
    else c.obs("outside_contract_" + key.substr(0, key.find(':', 4)));
  };
  unsigned char *w1  = nullptr;
  size_t         l1  = 0;
  ares_status_t  st  = ares_dns_write(r, &w1, &l1);
  c.rep.executions++;
  c.rep.outcome("write:" + status_name(st) + ":" + sc);
  std::string what;
  if (st != ARES_SUCCESS) {
    if (w1 != nullptr) V("C03:write:failure-with-buffer", status_name(st));
    if (!ledger_clean(&what)) V("C03:leak:ares_dns_write:failure", what);
    c.obs("write_failed_" + status_name(st) + "_" + sc);
    c.rep.witness("write_failed");
    if (expect_write_ok) V("C03:write:unexpected-failure:" + sc, "ares_dns_write returned " + status_name(st) + " for " + shape);
    return false;
  }
  bool ok = true;
  if (w1 == nullptr) {
    V("C03:write:success-null", shape);
    return false;
  }
  if (l1 > 16383) c.rep.witness("size_over_16383");
  if (l1 > 65535) {
    V("C03:size:write-exceeds-65535", "ares_dns_write succeeded with " + std::to_string(l1) + " bytes for " + shape);
    ares_free_string(w1);
    ledger_clean();
    return false;
  }
  {
    HeapBuf            hb(w1, l1);
    ares_dns_record_t *r2  = nullptr;
    ares_status_t      st2 = ares_dns_parse(hb.p, hb.n, flags, &r2);
    c.rep.executions++;
    // independent decoder: what do the written bytes mean?
    ref::Decoded rd = ref::decode_message(hb.p, hb.n, flags);
    c.rep.executions++;
    if (rd.st == ref::MALFORMED && rd.first_name_fail == ref::NF_TOO_LONG) {
      c.obs("written_name_longer_than_255_octets"); // ares_split_dns_name() bounds the dotted text (<= 255), not the wire form
    } else if (rd.st == ref::MALFORMED) {
      bool nm = rd.first_name_fail != ref::NF_NONE;
      V(std::string("C03:write:output-malformed:") + (nm ? std::string("name:") + ref::namefail_str(rd.first_name_fail) : "format") + ":" + sc, "independent decoder: " + rd.why + " in the " + std::to_string(l1) + " bytes written for " + shape);
      ok = false;
    } else if (rd.st == ref::OK) {
      soften_notes(c, rd);
      std::string key, desc;
      ref::Dump   e = d0;
      if (ref::dump_diff(rd.dump, e, key, desc)) {
        bool ext_rcode_lost = key == "hdr:field=rcode" && (unsigned)ares_dns_record_get_rcode(r) > 15 && !has_opt_in_additional(r);
        if (ext_rcode_lost) c.obs("extended_rcode_without_opt_written_as_servfail");
        else if (!tolerate.empty() && key.find(tolerate) != std::string::npos) c.obs("tolerated_" + tolerate);
        else if (rd.notes.count("duplicate_option")) c.obs("duplicate_option_in_written_output");
        else {
          V("C03:write:means-something-else:" + key + ":" + sc, "independent decoder (left) vs the record that was written (right): " + desc + " for " + shape);
          ok = false;
        }
      } else if (rd.pointers_followed) c.rep.witness("compression_used");
    } else c.obs("written_output_outside_reference_subset");
    if (st2 != ARES_SUCCESS) {
      V("C03:reparse:failed:" + status_name(st2) + ":" + sc, "parse(write(r)) returns " + status_name(st2) + " for " + shape);
      ok = false;
    } else {
      ref::Dump   d2 = ares_dump(r2, nullptr, nullptr);
      std::string key, desc;
      if (ref::dump_diff(d0, d2, key, desc)) {
        bool ext_rcode_lost = key == "hdr:field=rcode" && (unsigned)ares_dns_record_get_rcode(r) > 15 && !has_opt_in_additional(r);
        if (ext_rcode_lost && !has_opt_elsewhere(r)) c.obs("extended_rcode_without_opt_written_as_servfail");
        else if (!tolerate.empty() && key.find(tolerate) != std::string::npos) c.obs("tolerated_" + tolerate);
        else {
          V("C03:roundtrip:" + key + ":" + sc, "r (left) vs parse(write(r)) (right): " + desc + " for " + shape);
          ok = false;
        }
      }
      unsigned char *w2 = nullptr;
      size_t         l2 = 0;
      ares_status_t  s3 = ares_dns_write(r2, &w2, &l2);
      c.rep.executions++;
      if (s3 != ARES_SUCCESS) {
        V("C03:rewrite:failed:" + status_name(s3) + ":" + sc, "write(parse(write(r))) fails for " + shape);
        ok = false;
      } else if (l2 != l1 || memcmp(w1, w2, l1) != 0) {
        if (!tolerate.empty()) c.obs("tolerated_rewrite_" + tolerate);
        else if (name_texts(r) != name_texts(r2)) c.obs("rewrite_differs_after_name_text_was_canonicalised"); // e.g. trailing dot, \\065 for 'A': compression matches on text
        else {
          V("C03:rewrite:bytes-differ:" + sc, "write(parse(write(r))) != write(r) (" + std::to_string(l2) + " vs " + std::to_string(l1) + " bytes) for " + shape);
          ok = false;
        }
      }
      if (w2) ares_free_string(w2);
    }
    ares_dns_record_destroy(r2);
  }
  ares_free_string(w1);
  if (!ledger_clean(&what)) V("C03:leak:roundtrip", what); // r itself is owned by the caller: checked there
  if (ok) c.rep.witness("roundtrip_ok");
  return ok;
}

bool roundtrip_record(Ctx &c, const ares_dns_record_t *r, const std::string &shape, bool expect_write_ok) { return roundtrip_record_f(c, r, shape, expect_write_ok, 0, ""); }


void run_roundtrip_wire(Ctx &c, const uint8_t *p, size_t len, const char *src)
{
  // the source must itself be well-formed for the reference, otherwise a lenient parse of a malformed message is the input
  bool contract = ref::decode_message(p, len, 0).st == ref::OK;
  if (!contract) c.rep.witness("source_not_wellformed");
  for (unsigned flags : { 0u, 63u }) {
    ares_dns_record_t *r  = nullptr;
    ares_status_t      st = ares_dns_parse(p, len, flags, &r);
    c.rep.executions++;
    if (st != ARES_SUCCESS) {
      c.rep.witness("source_unparsable");
      ledger_clean();
      continue;
    }
    c.rep.witness("parse_ok");
    roundtrip_record_f(c, r, std::string(src) + (flags ? ":allraw" : ":flags0"), false, flags, "", contract);
    ares_dns_record_destroy(r);
    std::string what;
    if (!ledger_clean(&what)) c.viol("C03:leak:record-destroy", what);
  }
}

// ------------------------------------------------------------ TCP framing
void run_tcpframe(Ctx &c, const ares_dns_record_t *r1, const ares_dns_record_t *r2, size_t prefill, size_t consumed, const std::string &shape)
{
  std::string sc = shape_class(shape);
  if (r1) ares_dump(r1, nullptr, nullptr); // warm the per-record caches before hiding the records from the ledger
  if (r2) ares_dump(r2, nullptr, nullptr);
  LedgerScope hide_records;
  ares_buf_t *buf = ares_buf_create();
  Bytes       fill(prefill, 0xEE);
  if (prefill) ares_buf_append(buf, fill.data(), prefill);
  if (consumed) ares_buf_consume(buf, consumed);
  const ares_dns_record_t *recs[2] = { r1, r2 };
  size_t                   lens[2] = { 0, 0 };
  bool                     wrote[2] = { false, false };
  for (int i = 0; i < 2; i++) {
    if (!recs[i]) continue;
    size_t        before = ares_buf_len(buf);
    ares_status_t st     = ares_dns_write_buf_tcp(recs[i], buf);
    c.rep.executions++;
    c.rep.outcome("write_buf_tcp:" + status_name(st));
    if (st != ARES_SUCCESS) {
      if (ares_buf_len(buf) != before) c.viol("C03:tcpframe:failure-leaves-bytes", status_name(st) + " but the buffer grew, " + shape);
      c.obs("write_buf_tcp_failed_" + status_name(st));
      continue;
    }
    wrote[i] = true;
    lens[i]  = ares_buf_len(buf) - before;
  }
  size_t               rem = 0;
  const unsigned char *data = ares_buf_peek(buf, &rem);
  size_t               pos = prefill - consumed;
  std::string          pf = prefill ? "prefill>0" : "prefill=0";
  for (size_t i = 0; i < pos && data; i++)
    if (data[i] != 0xEE) {
      c.viol("C03:tcpframe:earlier-bytes-changed:" + pf, "byte " + std::to_string(i) + " of the data already queued was overwritten, " + shape);
      break;
    }
  for (int i = 0; i < 2; i++) {
    if (!wrote[i]) continue;
    std::string tag = pf + ":msg=" + std::to_string(i + 1) + ":" + sc;
    if (!data || pos + lens[i] > rem || lens[i] < 2) {
      c.viol("C03:tcpframe:frame-extent:" + tag, shape);
      break;
    }
    size_t mlen = ((size_t)data[pos] << 8) | data[pos + 1];
    if (mlen != lens[i] - 2) {
      c.viol("C03:tcpframe:length-prefix:" + tag, "prefix says " + std::to_string(mlen) + ", frame has " + std::to_string(lens[i] - 2) + " message bytes, " + shape);
      pos += lens[i];
      continue;
    }
    HeapBuf      hb(data + pos + 2, mlen);
    ref::Decoded rd = ref::decode_message(hb.p, hb.n, 0);
    c.rep.executions++;
    ref::Dump    d0 = ares_dump(recs[i], nullptr, nullptr);
    bool         ok = true;
    if (rd.pointers_followed > 0 || rd.first_name_fail != ref::NF_NONE) c.rep.witness("tcpframe_compression_checked");
    if (rd.st == ref::MALFORMED) {
      bool nm = rd.first_name_fail != ref::NF_NONE;
      c.viol(std::string("C03:tcpframe:") + (nm ? "compression-offset" : "malformed") + ":" + tag, "the message inside the frame does not decode with the independent decoder: " + rd.why + " (" + shape + ", prefill " + std::to_string(prefill) + ", consumed " + std::to_string(consumed) + ")");
      ok = false;
    } else if (rd.st == ref::OK) {
      soften_notes(c, rd);
      std::string key, desc;
      if (ref::dump_diff(rd.dump, d0, key, desc)) {
        bool ext_rcode_lost = key == "hdr:field=rcode" && (unsigned)ares_dns_record_get_rcode(recs[i]) > 15;
        if (ext_rcode_lost) c.obs("extended_rcode_without_opt_written_as_servfail");
        else {
          c.viol("C03:tcpframe:means-something-else:" + key + ":" + tag, "frame (left) vs record (right): " + desc + " (" + shape + ", prefill " + std::to_string(prefill) + ", consumed " + std::to_string(consumed) + ")");
          ok = false;
        }
      } else if (rd.pointers_followed) c.rep.witness("tcpframe_compression_used");
    }
    ares_dns_record_t *rr = nullptr;
    ares_status_t      st = ares_dns_parse(hb.p, hb.n, 0, &rr);
    c.rep.executions++;
    if (st != ARES_SUCCESS) {
      c.viol("C03:tcpframe:reparse-failed:" + tag, "ares_dns_parse of the framed message returns " + status_name(st) + " (" + shape + ", prefill " + std::to_string(prefill) + ", consumed " + std::to_string(consumed) + ")");
      ok = false;
    } else {
      std::string key, desc;
      ref::Dump   d2 = ares_dump(rr, nullptr, nullptr);
      if (ref::dump_diff(d0, d2, key, desc) && !(key == "hdr:field=rcode" && (unsigned)ares_dns_record_get_rcode(recs[i]) > 15)) {
        c.viol("C03:tcpframe:reparse-differs:" + key + ":" + tag, desc + " (" + shape + ")");
        ok = false;
      }
    }
    ares_dns_record_destroy(rr);
    if (ok) {
      c.rep.witness("tcpframe_ok");
      if (prefill) c.rep.witness("tcpframe_ok_prefilled");
      if (i == 1) c.rep.witness("tcpframe_ok_second_message");
    }
    pos += lens[i];
  }
  ares_buf_destroy(buf);
  std::string what;
  if (!ledger_clean(&what)) c.viol("C03:leak:tcpframe", what);
}

// ---------------------------------------------------- setter-built records
static const ares_dns_rec_type_t ALLT[] = { ARES_REC_TYPE_A,     ARES_REC_TYPE_NS,  ARES_REC_TYPE_CNAME, ARES_REC_TYPE_SOA,  ARES_REC_TYPE_PTR,
                                            ARES_REC_TYPE_HINFO, ARES_REC_TYPE_MX,  ARES_REC_TYPE_TXT,   ARES_REC_TYPE_SIG,  ARES_REC_TYPE_AAAA,
                                            ARES_REC_TYPE_SRV,   ARES_REC_TYPE_NAPTR, ARES_REC_TYPE_OPT, ARES_REC_TYPE_TLSA, ARES_REC_TYPE_SVCB,
                                            ARES_REC_TYPE_HTTPS, ARES_REC_TYPE_URI, ARES_REC_TYPE_CAA,   ARES_REC_TYPE_RAW_RR };

struct Val { // one boundary value for a datatype
  std::string                                       tag;
  unsigned long                                     u = 0;
  std::string                                       s;      // str / name / bin
  std::vector<std::string>                          chunks; // abin
  std::vector<std::pair<unsigned, std::string>>     opts;   // opt (value "\x01NULL" marker => NULL)
  bool                                              in_contract = true; // false: a documented limit makes a faithful round trip impossible
  std::string                                       tolerate;
};

static std::vector<Val> values_for(ares_dns_rr_key_t key)
{
  std::vector<Val> v;
  auto             U = [&](unsigned long x) {
    Val a;
    a.tag = "u" + std::to_string(x);
    a.u   = x;
    v.push_back(a);
  };
  auto SV = [&](const char *tag, const std::string &s, bool contract = true) {
    Val a;
    a.tag         = tag;
    a.s           = s;
    a.in_contract = contract;
    v.push_back(a);
  };
  switch (ares_dns_rr_key_datatype(key)) {
    case ARES_DATATYPE_U8:
      for (unsigned long x : { 0ul, 1ul, 127ul, 128ul, 255ul }) U(x);
      break;
    case ARES_DATATYPE_U16:
      for (unsigned long x : { 0ul, 1ul, 255ul, 256ul, 32767ul, 32768ul, 65535ul }) U(x);
      break;
    case ARES_DATATYPE_U32:
      for (unsigned long x : { 0ul, 1ul, 65535ul, 65536ul, 0x7ffffffful, 0x80000000ul, 0xfffffffful }) U(x);
      break;
    case ARES_DATATYPE_INADDR:
      SV("zero", std::string(4, '\0'));
      SV("ones", std::string(4, '\xff'));
      SV("lo", std::string("\x7f\x00\x00\x01", 4));
      break;
    case ARES_DATATYPE_INADDR6:
      SV("zero", std::string(16, '\0'));
      SV("ones", std::string(16, '\xff'));
      SV("doc", std::string("\x20\x01\x0d\xb8", 4) + std::string(11, '\0') + std::string("\x01", 1));
      break;
    case ARES_DATATYPE_NAME:
      if (key == ARES_RR_URI_TARGET) {
        SV("uri", "https://example.com/x?y=z");
        SV("one", "a");
        SV("long", std::string(300, 'u'));
        SV("empty", "");
        SV("space", "a b");
        break;
      }
      SV("plain", "host.example.com");
      SV("root-empty", "");
      SV("root-dot", ".");
      SV("tld", "com");
      SV("trailing-dot", "host.example.com.");
      SV("esc-dot", "a\\.b.example.com");
      SV("esc-ddd-dot", "a\\046b.example.com");
      SV("esc-nul-ff", "\\000\\255.example.com");
      SV("esc-backslash", "a\\\\b.example.com");
      SV("esc-at", "a\\@b.example.com");
      SV("space", "sp ace.example.com");
      SV("esc-printable-ddd", "\\065BC.example.com");
      SV("mixed-case", "UPPER.Example.COM");
      SV("label63", std::string(63, 'x') + ".com");
      SV("max255", std::string(63, 'a') + "." + std::string(63, 'b') + "." + std::string(63, 'c') + "." + std::string(61, 'd'));
      SV("max255-escaped", std::string(63, 'a') + "." + std::string(63, 'b') + "." + std::string(63, 'c') + "." + std::string(60, 'd') + "\\001");
      {
        // every octet written as \DDD: the presentation form is four times the wire size. 250 data octets in four
        // labels (= 255 on the wire) take 1003 characters; the shorter ones sit on both sides of 255 and 511 characters
        auto esc = [](size_t n) {
          std::string r;
          for (size_t i = 0; i < n; i++) r += "\\001";
          return r;
        };
        SV("escaped-pres300", esc(40) + "." + esc(34));
        SV("escaped-pres510", esc(63) + "." + esc(63) + "." + esc(1));
        SV("escaped-pres671", esc(63) + "." + esc(63) + "." + esc(1) + "." + esc(40));
        SV("escaped-max255", esc(63) + "." + esc(63) + "." + esc(63) + "." + esc(61));
        SV("escaped-over255", esc(63) + "." + esc(63) + "." + esc(63) + "." + esc(62));
      }
      SV("label64", std::string(64, 'x') + ".com");
      SV("empty-label", "a..b");
      SV("bad-escape", "a\\25");
      SV("over255", std::string(63, 'a') + "." + std::string(63, 'b') + "." + std::string(63, 'c') + "." + std::string(62, 'd'));
      break;
    case ARES_DATATYPE_STR:
      SV("empty", "");
      SV("one", "a");
      SV("space-quote", "with space \"q\" \\b");
      SV("len255", std::string(255, 'x'));
      SV("len256", std::string(256, 'x'));
      SV("nonprintable", std::string("a\x01z", 3), false); // the parser only accepts printable ASCII character-strings
      SV("high", std::string("\xc3\xa9", 2), false);
      break;
    case ARES_DATATYPE_BIN:
    case ARES_DATATYPE_BINP:
      SV("nul", std::string(1, '\0'));
      SV("ff", std::string(1, '\xff'));
      SV("len16", std::string("0123456789abcdef"));
      SV("len255", std::string(255, 'b'));
      SV("len256", std::string(256, 'b'));
      SV("len0", "");
      SV("len4000", std::string(4000, 'B'));
      break;
    case ARES_DATATYPE_ABINP: {
      auto C = [&](const char *tag, std::vector<std::string> ch, bool contract = true, const char *tol = "") {
        Val a;
        a.tag         = tag;
        a.chunks      = ch;
        a.in_contract = contract;
        a.tolerate    = tol;
        v.push_back(a);
      };
      C("one", { "a" });
      C("empty-chunk", { "" });
      C("two", { "a", "bc" });
      C("two-empty", { "", "" });
      C("len255", { std::string(255, 'z') });
      C("bin", { std::string("\x00\xff", 2), "x" });
      C("three", { "1", "22", "333" });
      C("none", {});
      C("len256-split", { std::string(256, 'y') }, false, "DATA"); // documented: written as 255 + 1
      C("len600-split", { std::string(600, 'y'), "t" }, false, "DATA");
      break;
    }
    case ARES_DATATYPE_OPT: {
      auto O = [&](const char *tag, std::vector<std::pair<unsigned, std::string>> o) {
        Val a;
        a.tag  = tag;
        a.opts = o;
        v.push_back(a);
      };
      O("none", {});
      O("cookie", { { 10, "12345678" } });
      O("empty-null", { { 3, std::string("\x01NULL") } });
      O("empty-nonnull", { { 2, "" } });
      O("codes-0-65535", { { 0, "x" }, { 65535, "y" } });
      O("replace", { { 1, "first" }, { 1, "second" } });
      v.back().tag = "replace";
      O("three-ordered", { { 1, std::string("\x02h2", 3) }, { 3, std::string("\x01\xbb", 2) }, { 4, std::string("\xc0\x00\x02\x01", 4) } });
      O("unordered", { { 4, "abcd" }, { 1, "z" } });
      v.back().in_contract = key == ARES_RR_OPT_OPTIONS; // RFC 9460: SvcParamKeys must be in increasing order
      O("long", { { 12, std::string(300, '\0') } });
      break;
    }
  }
  return v;
}

static ares_status_t apply_val(ares_dns_rr_t *rr, ares_dns_rr_key_t key, const Val &v)
{
  switch (ares_dns_rr_key_datatype(key)) {
    case ARES_DATATYPE_U8: return ares_dns_rr_set_u8(rr, key, (unsigned char)v.u);
    case ARES_DATATYPE_U16: return ares_dns_rr_set_u16(rr, key, (unsigned short)v.u);
    case ARES_DATATYPE_U32: return ares_dns_rr_set_u32(rr, key, (unsigned int)v.u);
    case ARES_DATATYPE_INADDR: {
      struct in_addr a;
      memcpy(&a, v.s.data(), 4);
      return ares_dns_rr_set_addr(rr, key, &a);
    }
    case ARES_DATATYPE_INADDR6: {
      struct ares_in6_addr a;
      memcpy(&a, v.s.data(), 16);
      return ares_dns_rr_set_addr6(rr, key, &a);
    }
    case ARES_DATATYPE_NAME:
    case ARES_DATATYPE_STR: return ares_dns_rr_set_str(rr, key, v.s.c_str());
    case ARES_DATATYPE_BIN:
    case ARES_DATATYPE_BINP: {
      HeapBuf hb((const uint8_t *)v.s.data(), v.s.size());
      return ares_dns_rr_set_bin(rr, key, hb.p, hb.n);
    }
    case ARES_DATATYPE_ABINP: {
      while (ares_dns_rr_get_abin_cnt(rr, key) > 0) ares_dns_rr_del_abin(rr, key, 0);
      for (auto &ch : v.chunks) {
        HeapBuf       hb((const uint8_t *)ch.data(), ch.size());
        ares_status_t st = ares_dns_rr_add_abin(rr, key, hb.p, hb.n);
        if (st != ARES_SUCCESS) return st;
      }
      return ARES_SUCCESS;
    }
    case ARES_DATATYPE_OPT:
      for (auto &o : v.opts) {
        ares_status_t st;
        if (o.second == std::string("\x01NULL")) st = ares_dns_rr_set_opt(rr, key, (unsigned short)o.first, nullptr, 0);
        else {
          HeapBuf hb((const uint8_t *)o.second.data(), o.second.size());
          st = ares_dns_rr_set_opt(rr, key, (unsigned short)o.first, hb.p, hb.n);
        }
        if (st != ARES_SUCCESS) return st;
      }
      return ARES_SUCCESS;
  }
  return ARES_EFORMERR;
}

static Val default_val(ares_dns_rr_key_t key)
{
  Val v;
  v.tag = "default";
  switch (ares_dns_rr_key_datatype(key)) {
    case ARES_DATATYPE_U8: v.u = 1; break;
    case ARES_DATATYPE_U16: v.u = key == ARES_RR_RAW_RR_TYPE ? 65280 : key == ARES_RR_OPT_UDP_SIZE ? 1232 : 2; break;
    case ARES_DATATYPE_U32: v.u = 3; break;
    case ARES_DATATYPE_INADDR: v.s = std::string("\x01\x02\x03\x04", 4); break;
    case ARES_DATATYPE_INADDR6: v.s = std::string(15, '\0') + std::string("\x01", 1); break;
    case ARES_DATATYPE_NAME: v.s = key == ARES_RR_URI_TARGET ? "https://x.example/" : "target.example.com"; break;
    case ARES_DATATYPE_STR: v.s = key == ARES_RR_CAA_TAG ? "issue" : "str"; break;
    case ARES_DATATYPE_BIN: v.s = std::string("\x01\x02", 2); break;
    case ARES_DATATYPE_BINP: v.s = "value"; break;
    case ARES_DATATYPE_ABINP: v.chunks = { "txt" }; break;
    case ARES_DATATYPE_OPT: break;
  }
  return v;
}

static ares_dns_record_t *new_record(unsigned short id, unsigned short flags, ares_dns_rcode_t rcode, const char *qname, ares_dns_rec_type_t qt)
{
  ares_dns_record_t *r = nullptr;
  if (ares_dns_record_create(&r, id, flags, ARES_OPCODE_QUERY, rcode) != ARES_SUCCESS) return nullptr;
  if (ares_dns_record_query_add(r, qname, qt, ARES_CLASS_IN) != ARES_SUCCESS) {
    ares_dns_record_destroy(r);
    return nullptr;
  }
  return r;
}

static ares_dns_rr_t *add_default_rr(ares_dns_record_t *r, ares_dns_section_t sect, const char *owner, ares_dns_rec_type_t t, unsigned ttl)
{
  ares_dns_rr_t *rr = nullptr;
  if (ares_dns_record_rr_add(&rr, r, sect, t == ARES_REC_TYPE_OPT ? "" : owner, t, ARES_CLASS_IN, t == ARES_REC_TYPE_OPT ? 0 : ttl) != ARES_SUCCESS) return nullptr;
  size_t                   nk   = 0;
  const ares_dns_rr_key_t *keys = ares_dns_rr_get_keys(t, &nk);
  for (size_t i = 0; i < nk; i++) apply_val(rr, keys[i], default_val(keys[i]));
  return rr;
}

struct RtCase {
  std::function<void(Ctx &)> run;
};

static void finish_record(Ctx &c, ares_dns_record_t *r)
{
  ares_dns_record_destroy(r);
  std::string what;
  if (!ledger_clean(&what)) c.viol("C03:leak:record-destroy", what);
}

static const char *POOL[] = { "example.com", "www.example.com", "mail.www.example.com", "com", "Example.com", "xexample.com", "a.mail.www.example.com" };

static ares_dns_record_t *suffix_record(const std::vector<int> &sel, int kind)
{
  ares_dns_record_t *r = new_record(0x5151, ARES_FLAG_QR | ARES_FLAG_RD, ARES_RCODE_NOERROR, POOL[sel[0]], kind == 0 ? ARES_REC_TYPE_NS : kind == 1 ? ARES_REC_TYPE_SRV : ARES_REC_TYPE_MX);
  if (!r) return nullptr;
  for (size_t i = 0; i < sel.size(); i++) {
    ares_dns_rr_t *rr     = nullptr;
    const char    *owner  = POOL[sel[i]];
    const char    *target = POOL[sel[(i + 1) % sel.size()]];
    ares_dns_section_t s = i < 2 ? ARES_SECTION_ANSWER : i == 2 ? ARES_SECTION_AUTHORITY : ARES_SECTION_ADDITIONAL; /* 4th+ RRs go to additional */
    if (kind == 0) {
      ares_dns_record_rr_add(&rr, r, s, owner, ARES_REC_TYPE_NS, ARES_CLASS_IN, 60 + (unsigned)i);
      if (rr) ares_dns_rr_set_str(rr, ARES_RR_NS_NSDNAME, target);
    } else if (kind == 1) {
      ares_dns_record_rr_add(&rr, r, s, owner, ARES_REC_TYPE_SRV, ARES_CLASS_IN, 60 + (unsigned)i);
      if (rr) {
        ares_dns_rr_set_u16(rr, ARES_RR_SRV_PRIORITY, 1);
        ares_dns_rr_set_u16(rr, ARES_RR_SRV_WEIGHT, 2);
        ares_dns_rr_set_u16(rr, ARES_RR_SRV_PORT, 3);
        ares_dns_rr_set_str(rr, ARES_RR_SRV_TARGET, target);
      }
    } else {
      ares_dns_record_rr_add(&rr, r, s, owner, ARES_REC_TYPE_MX, ARES_CLASS_IN, 60 + (unsigned)i);
      if (rr) {
        ares_dns_rr_set_u16(rr, ARES_RR_MX_PREFERENCE, (unsigned short)(10 * i));
        ares_dns_rr_set_str(rr, ARES_RR_MX_EXCHANGE, target);
      }
    }
  }
  return r;
}

// record whose names are first written at a chosen message offset: fillers, then "late.zone.test", then a
// name ending in it (so the writer wants a pointer to that offset)
static ares_dns_record_t *offset_record(size_t target_off, bool with_late)
{
  ares_dns_record_t *r = new_record(0x6161, ARES_FLAG_QR, ARES_RCODE_NOERROR, "example.com", ARES_REC_TYPE_TXT);
  if (!r) return nullptr;
  size_t pos = 12 + 13 + 4; // header + "example.com" + type/class
  // filler RR = 2 (pointer owner) + 10 + 1 + L ; L in 0..255
  auto filler = [&](size_t L) {
    ares_dns_rr_t *rr = nullptr;
    ares_dns_record_rr_add(&rr, r, ARES_SECTION_ANSWER, "example.com", ARES_REC_TYPE_TXT, ARES_CLASS_IN, 1);
    std::string s(L, 'f');
    if (rr) ares_dns_rr_add_abin(rr, ARES_RR_TXT_DATA, (const unsigned char *)s.data(), L);
    pos += 13 + L;
  };
  while (target_off - pos >= 268 + 13) filler(255);
  size_t rest = target_off - pos; // 13 .. 280
  if (rest > 268) {
    filler(rest - 13 - 13 - 100 > 255 ? 255 : 100);
    rest = target_off - pos;
  }
  if (rest >= 13) filler(rest - 13);
  if (pos != target_off) {
    ares_dns_record_destroy(r);
    return nullptr;
  }
  if (with_late) {
    ares_dns_rr_t *rr = nullptr;
    ares_dns_record_rr_add(&rr, r, ARES_SECTION_AUTHORITY, "late.zone.test", ARES_REC_TYPE_NS, ARES_CLASS_IN, 5);
    if (rr) ares_dns_rr_set_str(rr, ARES_RR_NS_NSDNAME, "ns.example.com");
    ares_dns_record_rr_add(&rr, r, ARES_SECTION_AUTHORITY, "sub.late.zone.test", ARES_REC_TYPE_NS, ARES_CLASS_IN, 5);
    if (rr) ares_dns_rr_set_str(rr, ARES_RR_NS_NSDNAME, "x.late.zone.test");
  }
  return r;
}

void fam_roundtrip(Ctx &c)
{
  c.rep.bound = "setter-built records: every RR type x every key x boundary values; owner/question/rdata names x escape forms; 2-" + std::string(c.thorough ? "5" : "3") +
                " RRs from a pool of " + std::string(c.thorough ? "7" : "6") + " suffix-sharing names in every order x {NS,SRV,MX}; name offsets 16376..16392 and message sizes 65525..65545; ares_dns_write_buf_tcp with prefill {0,1,2,3,17,16383,16384} x consumed {0,1,p-1,p} x 2 messages";
  long long idx = 0;
  auto      CASE = [&](const std::string &extra, const std::function<void()> &fn) {
    if (c.take(idx) && !(c.only_index < 0 && time_up(c))) {
      c.begin_case(idx, extra);
      c.rep.states++;
      fn();
      if (c.rep.samples.size() < 4 && (idx % 211) == 0) c.rep.sample(c.case_json);
    } else if (c.only_index < 0 && c.take(idx)) c.rep.exhaustive = false;
    idx++;
  };
  // G0/G1: every type, defaults, then every key at each boundary value
  for (ares_dns_rec_type_t t : ALLT) {
    std::string tn = ares_dns_rec_type_tostr(t);
    CASE("\"shape\":\"default rr=" + tn + "\"", [&]() {
      ares_dns_record_t *r = new_record(1, ARES_FLAG_QR | ARES_FLAG_AA, ARES_RCODE_NOERROR, "example.com", t == ARES_REC_TYPE_RAW_RR || t == ARES_REC_TYPE_OPT ? ARES_REC_TYPE_A : t);
      if (!r || !add_default_rr(r, t == ARES_REC_TYPE_OPT ? ARES_SECTION_ADDITIONAL : ARES_SECTION_ANSWER, "host.example.com", t, 300)) {
        c.rep.internal_errors.push_back("cannot build default record for " + tn);
        ares_dns_record_destroy(r);
        ledger_clean();
        return;
      }
      if (roundtrip_record_f(c, r, "default:rr=" + tn, true, 0, "")) c.rep.witness(("setter_rr_ok_" + tn).c_str());
      finish_record(c, r);
    });
    size_t                   nk   = 0;
    const ares_dns_rr_key_t *keys = ares_dns_rr_get_keys(t, &nk);
    for (size_t ki = 0; ki < nk; ki++) {
      ares_dns_rr_key_t key = keys[ki];
      std::vector<Val>  vals = values_for(key);
      for (auto &v : vals) {
        std::string shape = "set:rr=" + tn + ":key=" + ares_dns_rr_key_tostr(key) + " value=" + v.tag;
        CASE("\"shape\":" + vf::jstr(shape), [&]() {
          ares_dns_record_t *r  = new_record(2, ARES_FLAG_QR, ARES_RCODE_NOERROR, "example.com", ARES_REC_TYPE_A);
          ares_dns_rr_t     *rr = r ? add_default_rr(r, t == ARES_REC_TYPE_OPT ? ARES_SECTION_ADDITIONAL : ARES_SECTION_ANSWER, "host.example.com", t, 300) : nullptr;
          if (!rr) {
            c.rep.internal_errors.push_back("cannot build record for " + shape);
            ares_dns_record_destroy(r);
            ledger_clean();
            return;
          }
          ares_status_t st = apply_val(rr, key, v);
          c.rep.outcome("set:" + status_name(st) + ":" + std::to_string((int)ares_dns_rr_key_datatype(key)));
          bool contract = v.in_contract && !(key == ARES_RR_RAW_RR_TYPE && (ref::type_name((unsigned)v.u) != nullptr || v.u == 255)) && !(key == ARES_RR_CAA_TAG && v.tag == "empty");
          if (st == ARES_SUCCESS) roundtrip_record_f(c, r, shape, false, 0, v.tolerate, contract);
          else c.obs("setter_rejected_value");
          finish_record(c, r);
        });
      }
    }
  }
  // header fields through ares_dns_record_create
  for (unsigned rc : { 0u, 1u, 2u, 3u, 5u, 11u, 16u, 23u })
    for (unsigned fl : { 0u, (unsigned)ARES_FLAG_QR, (unsigned)(ARES_FLAG_QR | ARES_FLAG_AA | ARES_FLAG_TC | ARES_FLAG_RD | ARES_FLAG_RA | ARES_FLAG_AD | ARES_FLAG_CD), (unsigned)ARES_FLAG_RD })
      for (int withopt = 0; withopt < 2; withopt++)
        CASE("\"shape\":\"header rcode=" + std::to_string(rc) + " flags=" + std::to_string(fl) + " opt=" + std::to_string(withopt) + "\"", [&]() {
          ares_dns_record_t *r = nullptr;
          for (ares_dns_opcode_t op : { ARES_OPCODE_QUERY, ARES_OPCODE_IQUERY, ARES_OPCODE_STATUS, ARES_OPCODE_NOTIFY, ARES_OPCODE_UPDATE }) {
            if (ares_dns_record_create(&r, (unsigned short)(0xff00 | rc), (unsigned short)fl, op, (ares_dns_rcode_t)rc) != ARES_SUCCESS) continue;
            ares_dns_record_query_add(r, "example.com", ARES_REC_TYPE_ANY, ARES_CLASS_ANY);
            if (withopt) add_default_rr(r, ARES_SECTION_ADDITIONAL, "", ARES_REC_TYPE_OPT, 0);
            roundtrip_record_f(c, r, "header:rcode" + std::string(rc > 15 ? ">15" : "<=15") + (withopt ? ":opt" : ":noopt"), true, 0, "");
            finish_record(c, r);
          }
        });
  // G2: names in the three positions
  {
    std::vector<Val> names = values_for(ARES_RR_NS_NSDNAME);
    for (auto &v : names)
      for (int where = 0; where < 3; where++) {
        std::string shape = std::string("name:") + (where == 0 ? "question" : where == 1 ? "owner" : "rdata") + " value=" + v.tag;
        CASE("\"shape\":" + vf::jstr(shape), [&]() {
          ares_dns_record_t *r = nullptr;
          if (ares_dns_record_create(&r, 3, ARES_FLAG_QR, ARES_OPCODE_QUERY, ARES_RCODE_NOERROR) != ARES_SUCCESS) return;
          ares_status_t st = ares_dns_record_query_add(r, where == 0 ? v.s.c_str() : "example.com", ARES_REC_TYPE_NS, ARES_CLASS_IN);
          ares_dns_rr_t *rr = nullptr;
          if (st == ARES_SUCCESS) st = ares_dns_record_rr_add(&rr, r, ARES_SECTION_ANSWER, where == 1 ? v.s.c_str() : "example.com", ARES_REC_TYPE_NS, ARES_CLASS_IN, 7);
          if (st == ARES_SUCCESS) st = ares_dns_rr_set_str(rr, ARES_RR_NS_NSDNAME, where == 2 ? v.s.c_str() : "ns.example.com");
          if (st == ARES_SUCCESS && roundtrip_record_f(c, r, shape, false, 0, "")) c.rep.witness("name_form_roundtrip_ok");
          finish_record(c, r);
        });
      }
  }
  // G3: suffix sharing in every order (+ TCP framing of the same records)
  const size_t prefills[] = { 0, 1, 2, 3, 17, 16383, 16384 };
  int          maxk       = c.thorough ? 5 : 3;
  int          npool      = c.thorough ? 7 : 6;
  for (int kind = 0; kind < 3; kind++)
    for (int k = 2; k <= maxk; k++) {
      std::vector<int> sel(k, 0);
      // enumerate ordered selections without repetition of k out of 6
      std::function<void(int)> rec = [&](int depth) {
        if (depth == k) {
          std::string shape = std::string("suffix:") + (kind == 0 ? "NS" : kind == 1 ? "SRV" : "MX") + " order=";
          for (int x : sel) shape += std::to_string(x);
          CASE("\"shape\":" + vf::jstr(shape), [&]() {
            ares_dns_record_t *r = suffix_record(sel, kind);
            if (!r) {
              c.rep.internal_errors.push_back("cannot build " + shape);
              ledger_clean();
              return;
            }
            {
              roundtrip_record_f(c, r, shape, true, 0, "");
              bool frames = c.thorough || kind == 0 || k == 2;
              if (frames)
                for (size_t p : prefills) {
                  std::vector<size_t> cons = { 0 };
                  if (p >= 1) cons.push_back(1);
                  if (p >= 3) cons.push_back(p - 1);
                  if (p >= 2) cons.push_back(p);
                  for (size_t cn : cons) {
                    run_tcpframe(c, r, r, p, cn, shape);
                    c.rep.transitions++;
                  }
                }
            }
            finish_record(c, r);
          });
          return;
        }
        for (int x = 0; x < npool; x++) {
          bool used = false;
          for (int j = 0; j < depth; j++)
            if (sel[j] == x) used = true;
          if (used) continue;
          sel[depth] = x;
          rec(depth + 1);
        }
      };
      rec(0);
    }
  // G4: offsets around 16384 and sizes around 65535
  for (size_t off = 16376; off <= 16392; off++)
    CASE("\"shape\":\"offset late-name-at=" + std::to_string(off) + "\"", [&]() {
      ares_dns_record_t *r = offset_record(off, true);
      if (!r) {
        c.rep.internal_errors.push_back("cannot build offset record " + std::to_string(off));
        ledger_clean();
        return;
      }
      {
        roundtrip_record_f(c, r, std::string("offset:") + (off >= 16384 ? "name-at>=16384" : "name-at<16384"), true, 0, "");
        run_tcpframe(c, r, nullptr, 0, 0, std::string("offset:") + (off >= 16384 ? "name-at>=16384" : "name-at<16384"));
      }
      finish_record(c, r);
    });
  for (size_t sz = 65525; sz <= 65545; sz++)
    CASE("\"shape\":\"size total=" + std::to_string(sz) + "\"", [&]() {
      ares_dns_record_t *r = offset_record(sz, false);
      if (!r) {
        c.rep.internal_errors.push_back("cannot build size record " + std::to_string(sz));
        ledger_clean();
        return;
      }
      {
        bool        fits = sz <= 65535;
        bool        ok   = roundtrip_record_f(c, r, std::string("size:") + (fits ? "<=65535" : ">65535"), fits, 0, "");
        if (fits && ok) c.rep.witness("size_near_65535_ok");
        run_tcpframe(c, r, nullptr, 3, 1, std::string("size:") + (fits ? "<=65535" : ">65535"));
      }
      finish_record(c, r);
    });
  // one RR whose RDATA alone exceeds 65535 (RDLENGTH cannot represent it)
  CASE("\"shape\":\"size rdata>65535\"", [&]() {
    ares_dns_record_t *r  = new_record(9, ARES_FLAG_QR, ARES_RCODE_NOERROR, "example.com", ARES_REC_TYPE_TXT);
    ares_dns_rr_t     *rr = nullptr;
    ares_dns_record_rr_add(&rr, r, ARES_SECTION_ANSWER, "example.com", ARES_REC_TYPE_TXT, ARES_CLASS_IN, 1);
    std::string s(255, 'q');
    for (int i = 0; i < 258 && rr; i++) ares_dns_rr_add_abin(rr, ARES_RR_TXT_DATA, (const unsigned char *)s.data(), s.size());
    roundtrip_record_f(c, r, "size:rdata>65535", false, 0, "");
    finish_record(c, r);
  });
}

// ----------------------------------------------------------------- builders
void fam_builders(Ctx &c)
{
  std::vector<std::string> names = { "example.com", "example.com.", "", ".", "com", "a.b.c.d.e.f.g", "UPPER.example.COM", "_sip._tcp.example.com", "*.example.com", "1/24.2.0.192.in-addr.arpa",
                                     "a\\.b.example.com", "a\\046b.example.com", "\\065.example.com", "sp ace.example.com", "a\\@b.example.com", "\\000.example.com", "a..b", "a\\25", ".example.com",
                                     std::string(63, 'x') + ".com", std::string(64, 'x') + ".com",
                                     std::string(63, 'a') + "." + std::string(63, 'b') + "." + std::string(63, 'c') + "." + std::string(61, 'd'),
                                     std::string(63, 'a') + "." + std::string(63, 'b') + "." + std::string(63, 'c') + "." + std::string(62, 'd'), "foo.onion", "foo.onion.", "xn--nxasmq6b.example", "under_score.example", "tr\xc3\xa9s.example" };
  {
    std::vector<Base> tmp;
    const char       *repo = getenv("VERIF_REPO");
    gen_corpus_bases(tmp, repo && *repo ? repo : "/repo", nullptr);
    for (auto &b : tmp)
      if (b.desc.rfind("fuzznames/", 0) == 0) {
        std::string s((const char *)b.m.data(), b.m.size());
        s = s.substr(0, s.find('\0')); // the API takes a C string
        names.push_back(s);
      }
  }
  const int types[]   = { 1, 28, 255, 0, 65535, 41, 16, 65536, 70000 };
  const int classes[] = { 1, 3, 4, 254, 255, 0, 2 };
  const int ids[]     = { 0, 1, 0xffff };
  const int rds[]     = { 0, 1, 2 };
  const int ednss[]   = { 0, 1, 512, 1232, 65535, 65536, -1 };
  c.rep.bound = "ares_create_query / ares_mkquery: " + std::to_string(names.size()) + " names (incl. test/fuzznames) x 9 types x 7 classes x 3 ids x 3 rd x 7 EDNS sizes";
  long long idx = 0;
  for (size_t ni = 0; ni < names.size(); ni++) {
    const std::string &nm = names[ni];
    ref::Labels        want;
    bool               name_ok = ref::unescape_name(nm, want) && ref::valid_wire_name(want);
    bool               hostish = name_ok;
    for (auto &l : want)
      for (unsigned char ch : l)
        if (!(isalnum(ch) || ch == '-' || ch == '_' || ch == '/' || ch == '*')) hostish = false;
    bool onion = want.size() >= 1 && (want.back() == "onion" || want.back() == "ONION");
    for (int t : types)
      for (int k : classes) {
        if (!c.take(idx)) {
          idx++;
          continue;
        }
        if (c.only_index < 0 && time_up(c)) {
          c.rep.exhaustive = false;
          return;
        }
        c.begin_case(idx, "\"name\":" + vf::jstr(nm) + ",\"type\":" + std::to_string(t) + ",\"class\":" + std::to_string(k));
        c.rep.states++;
        if (c.rep.samples.size() < 4 && (idx % 97) == 0) c.rep.sample(c.case_json);
        for (int id : ids)
          for (int rd : rds)
            for (int e : ednss)
              for (int api = 0; api < 2; api++) {
                if (api == 1 && e != 0) continue; // ares_mkquery has no EDNS parameter
                unsigned char *buf = nullptr;
                int            bl  = -5;
                int            st  = api == 0 ? ares_create_query(nm.c_str(), k, t, (unsigned short)id, rd, &buf, &bl, e) : ares_mkquery(nm.c_str(), k, t, (unsigned short)id, rd, &buf, &bl);
                const char    *fn  = api == 0 ? "ares_create_query" : "ares_mkquery";
                c.rep.executions++;
                c.rep.transitions++;
                c.rep.outcome(std::string(fn) + ":" + status_name(st) + ":" + (name_ok ? (hostish ? "hostname" : "escaped-name") : "bad-name"));
                std::string what;
                if (st != ARES_SUCCESS) {
                  if (buf != nullptr || bl != 0) c.viol(std::string("C03:builder:") + fn + ":failure-with-buffer", status_name(st));
                  if (!ledger_clean(&what)) c.viol(std::string("C03:leak:") + fn, what);
                  bool should = hostish && !onion && (k == 1 || k == 3 || k == 4 || k == 254 || k == 255) && t >= 0 && t <= 65535 && e >= 0 && e <= 65535;
                  if (should) c.viol(std::string("C03:builder:") + fn + ":valid-arguments-rejected", "status " + status_name(st) + " for name '" + nm + "' type " + std::to_string(t) + " class " + std::to_string(k) + " edns " + std::to_string(e));
                  else c.rep.witness("builder_rejected");
                  continue;
                }
                if (buf == nullptr || bl < 17) {
                  c.viol(std::string("C03:builder:") + fn + ":success-without-message", "len " + std::to_string(bl));
                  ledger_clean();
                  continue;
                }
                if (t > 65535) c.obs("builder_type_over_65535_truncated");
                {
                  HeapBuf      hb(buf, (size_t)bl);
                  ref::Decoded d = ref::decode_message(hb.p, hb.n, 0);
                  c.rep.executions++;
                  if (d.st != ref::OK && d.first_name_fail == ref::NF_TOO_LONG) c.obs("written_name_longer_than_255_octets");
                  else if (d.st != ref::OK) c.viol(std::string("C03:builder:") + fn + ":output-not-wellformed", d.why);
                  else {
                    ref::Dump x;
                    x.addu("hdr.id", (unsigned)id);
                    x.addu("hdr.qr", 0);
                    x.addu("hdr.opcode", 0);
                    x.addu("hdr.aa", 0);
                    x.addu("hdr.tc", 0);
                    x.addu("hdr.rd", rd ? 1 : 0);
                    x.addu("hdr.ra", 0);
                    x.addu("hdr.ad", 0);
                    x.addu("hdr.cd", 0);
                    x.addu("hdr.rcode", 0);
                    x.addu("count.qd", 1);
                    x.addu("count.an", 0);
                    x.addu("count.ns", 0);
                    x.addu("count.ar", e > 0 && api == 0 ? 1 : 0);
                    x.add("q[0].name", name_ok ? ref::labels_text(want) : "?");
                    x.addu("q[0].type", (unsigned)(t & 0xffff));
                    x.addu("q[0].class", (unsigned)k);
                    if (e > 0 && api == 0) {
                      x.add("ar[0].name", ".");
                      x.addu("ar[0].type", 41);
                      x.addu("ar[0].OPT.UDP_SIZE", (unsigned)e);
                      x.addu("ar[0].OPT.VERSION", 0);
                      x.addu("ar[0].OPT.FLAGS", 0);
                      x.addu("ar[0].OPT.OPTIONS.cnt", 0);
                    }
                    std::string key, desc;
                    if (ref::dump_diff(x, d.dump, key, desc)) c.viol(std::string("C03:builder:") + fn + ":" + key, "arguments (left) vs decoded query (right): " + desc);
                    else {
                      c.rep.witness("builder_ok");
                      if (e > 0) c.rep.witness("builder_edns");
                      if (!hostish) c.rep.witness("builder_escaped_name");
                    }
                    if (d.trailing) c.viol(std::string("C03:builder:") + fn + ":trailing-bytes", "");
                  }
                  ares_dns_record_t *r  = nullptr;
                  ares_status_t      s2 = ares_dns_parse(hb.p, hb.n, 0, &r);
                  if (s2 != ARES_SUCCESS) c.viol(std::string("C03:builder:") + fn + ":reparse-failed", status_name(s2));
                  ares_dns_record_destroy(r);
                }
                ares_free_string(buf);
                if (!ledger_clean(&what)) c.viol(std::string("C03:leak:") + fn, what);
              }
        idx++;
      }
  }
}

} // namespace exc
