# EX-D (property C19): container explorer.  One binary, ASan+UBSan flavour,
# linked statically against the library built from the CURRENT $(REPO) tree.
#
# The exd_peek_*.c units `#include` the container sources of $(REPO) directly
# (to read the private layout for the state key); they define every external
# symbol of those files, so the matching archive members are not pulled in and
# the binary holds exactly one copy of each container, compiled from $(REPO).
EXD_O    := $(B)/exd
EXD_CXX  := exd_main exd_array exd_slist exd_llist exd_htable exd_buf
EXD_C    := exd_peek_array exd_peek_slist exd_peek_llist exd_peek_htable exd_peek_buf \
            exd_peek_ht_strvp exd_peek_ht_szvp exd_peek_ht_asvp exd_peek_ht_dict exd_peek_ht_vpvp exd_peek_ht_vpstr
EXD_OBJS := $(patsubst %,$(EXD_O)/%.o,$(EXD_CXX) $(EXD_C))

$(EXD_O)/exd_%.o: $(HSRC)/exd_%.cc $(HSRC)/exd_core.h $(HSRC)/exd_peek.h $(HSRC)/common.h $(CFG)/ares_config.h
	@mkdir -p $(EXD_O)
	@$(HXX_ASAN) -MMD -MP -c $< -o $@

# -MMD records the included $(REPO) .c file and every header, so an edit of the
# container sources rebuilds the peek unit
$(EXD_O)/exd_peek_%.o: $(HSRC)/exd_peek_%.c $(HSRC)/exd_peek.h $(CFG)/ares_config.h
	@mkdir -p $(EXD_O)
	@$(HCC_ASAN) -MMD -MP -c $< -o $@

$(BIN)/exd: $(EXD_OBJS) $(B)/asan/libcares.a | $(BIN)
	@$(CXX) $(ASANF) -o $@ $(EXD_OBJS) $(B)/asan/libcares.a -lpthread

-include $(EXD_OBJS:.o=.d)
