// EX-D family "array": ares_array_t against std::vector.
#include "exd_core.h"

namespace exd {
namespace {

struct Elem {
  uint32_t id;
  uint32_t pad[5]; // derived from id: a partially moved member is detected
};
static Elem mk(uint32_t id)
{
  Elem e;
  e.id = id;
  for (uint32_t i = 0; i < 5; i++) e.pad[i] = id * 2654435761u + i;
  return e;
}
static bool intact(const Elem &e)
{
  Elem r = mk(e.id);
  return memcmp(&r, &e, sizeof e) == 0;
}
static void destruct_cb(void *p)
{
  const Elem *e = (const Elem *)p;
  dlog().ev.push_back({ intact(*e) ? e->id : 0xffffffffu, 0 });
}
static int cmp_cb(const void *a, const void *b)
{
  uint32_t x = ((const Elem *)a)->id, y = ((const Elem *)b)->id;
  return x < y ? -1 : x > y ? 1 : 0;
}

enum {
  INSERT_AT,
  INSERT_FIRST,
  INSERT_LAST,
  INSERTDATA_AT,
  INSERTDATA_FIRST,
  INSERTDATA_LAST,
  REMOVE_AT,
  REMOVE_FIRST,
  REMOVE_LAST,
  CLAIM_AT,
  CLAIM_AT_NULLDEST,
  CLAIM_AT_SMALLDEST,
  SET_SIZE,
  SORT,
  FINISH
};

struct AInst : Instance {
  ares_array_t         *arr = nullptr;
  std::vector<uint32_t> model;
  uint32_t              next_id = 1;
  bool                  destruct = true, perm = false, consumed = false;
  int                   N = 6, maxsz = 17;
};

// Slots of the allocation that hold no live member are dead memory by contract.
// The harness overwrites them with a poison member after every operation: the
// layout (cnt, offset, alloc_cnt) then determines the whole allocation, so the
// state key is exact, and any code path that wrongly reads a dead slot yields an
// id that no live member has (always visible to the content comparison).
static const uint32_t POISON_ID = 0xdeadbeefu;
static void scrub(ares_array_t *arr)
{
  Elem  *raw = (Elem *)(uintptr_t)exd_array_raw(arr);
  size_t cnt = exd_array_cnt(arr), off = exd_array_offset(arr), al = exd_array_alloc(arr);
  if (!raw) return;
  Elem p = mk(POISON_ID);
  for (size_t s = 0; s < al; s++)
    if (s < off || s >= off + cnt) raw[s] = p;
}

struct ArrayFamily : Family {
  std::string name() const override { return "array"; }
  const std::vector<const char *> &opnames() const override
  {
    static const std::vector<const char *> n = { "insert_at",        "insert_first",     "insert_last",
                                                 "insertdata_at",    "insertdata_first", "insertdata_last",
                                                 "remove_at",        "remove_first",     "remove_last",
                                                 "claim_at",         "claim_at_nulldest", "claim_at_smalldest",
                                                 "set_size",         "sort",             "finish" };
    return n;
  }
  static int nperm(const vf::Args &a) { return (int)a.geti("nperm", a.tier == "quick" ? 5 : 7); }
  static int ndeep(const vf::Args &a) { return (int)a.geti("ndeep", a.tier == "quick" ? 10 : 18); }
  static int maxsz(const vf::Args &a) { return (int)a.geti("maxsz", a.tier == "quick" ? 17 : 33); }
  std::vector<Config> configs(const vf::Args &a) const override
  {
    std::vector<Config> v;
    for (int perm = 0; perm < 2; perm++)
      for (int d = 1; d >= 0; d--) {
        Config c;
        c.name          = std::string(perm ? "perm" : "deep") + (d ? "-destructor" : "-nodestructor");
        c.p["perm"]     = perm;
        c.p["destruct"] = d;
        c.p["N"]        = perm ? nperm(a) : ndeep(a);
        c.p["maxsz"]    = maxsz(a);
        v.push_back(c);
      }
    return v;
  }
  std::string bound(const vf::Args &a) const override
  {
    return "closure (fixpoint) of all operation sequences with at most N live members; config deep: N=" +
           std::to_string(ndeep(a)) + " (key: cnt/offset/alloc_cnt; dead slots are poisoned by the harness), config perm: N=" +
           std::to_string(nperm(a)) + " (key additionally the rank permutation of the members, sort enabled); set_size up to " +
           std::to_string(maxsz(a)) + "; each with and without a destructor; indexes {0,1,mid,last,cnt,cnt+1}";
  }

  Instance *fresh(const Config &c, Ctx &ctx) override
  {
    vf::ledger().reset();
    dlog().ev.clear();
    AInst *in    = new AInst;
    in->destruct = c.get("destruct", 1) != 0;
    in->perm     = c.get("perm", 0) != 0;
    in->N        = (int)c.get("N", 6);
    in->maxsz    = (int)c.get("maxsz", 17);
    in->arr      = ares_array_create(sizeof(Elem), in->destruct ? destruct_cb : nullptr);
    if (!in->arr) ctx.internal = "ares_array_create failed";
    return in;
  }

  static void uniq_push(std::vector<Op> &ops, int c, const std::vector<long> &idx)
  {
    std::vector<long> seen;
    for (long i : idx) {
      if (i < 0 || std::find(seen.begin(), seen.end(), i) != seen.end()) continue;
      seen.push_back(i);
      Op o;
      o.c = c;
      o.a = i;
      ops.push_back(o);
    }
  }
  void enabled(Instance *ip, std::vector<Op> &ops) override
  {
    AInst *in = (AInst *)ip;
    long   n  = (long)in->model.size();
    auto   op0 = [&](int c) {
      Op o;
      o.c = c;
      ops.push_back(o);
    };
    if (n < in->N) {
      uniq_push(ops, INSERT_AT, { 0, 1, n / 2, n, n + 1 });
      op0(INSERT_FIRST);
      op0(INSERT_LAST);
      uniq_push(ops, INSERTDATA_AT, { 0, n / 2, n, n + 1 });
      op0(INSERTDATA_FIRST);
      op0(INSERTDATA_LAST);
    } else {
      uniq_push(ops, INSERT_AT, { n + 1 });
      uniq_push(ops, INSERTDATA_AT, { n + 1 });
    }
    uniq_push(ops, REMOVE_AT, { 0, 1, n / 2, n - 1, n });
    op0(REMOVE_FIRST);
    op0(REMOVE_LAST);
    uniq_push(ops, CLAIM_AT, { 0, n / 2, n - 1, n });
    uniq_push(ops, CLAIM_AT_NULLDEST, { 0, n / 2 });
    uniq_push(ops, CLAIM_AT_SMALLDEST, { 0 });
    {
      std::vector<long> sz = { 0, n - 1, 5, 9, 17 };
      if (in->maxsz >= 33) sz.push_back(33);
      std::vector<long> ok;
      for (long s : sz)
        if (s <= in->maxsz) ok.push_back(s);
      uniq_push(ops, SET_SIZE, ok);
    }
    if (in->perm) op0(SORT);
    op0(FINISH);
  }
  bool terminal(const Op &o) const override { return o.c == FINISH; }
  void pre_witness(Instance *ip, const Op &op, Ctx &ctx) override
  {
    AInst *in  = (AInst *)ip;
    bool   ins = op.c == INSERT_FIRST || op.c == INSERT_LAST || op.c == INSERTDATA_FIRST || op.c == INSERTDATA_LAST ||
               ((op.c == INSERT_AT || op.c == INSERTDATA_AT) && op.a == 0);
    if (ins && in->model.empty() && exd_array_offset(in->arr) > 0) {
      ctx.witness("emptied_from_front_then_insert");
      if (exd_array_offset(in->arr) == exd_array_alloc(in->arr)) ctx.witness("insert_with_offset_at_alloc_end");
    }
    if (op.c == FINISH && exd_array_offset(in->arr) != 0) ctx.witness("finish_with_offset");
  }

  // full comparison of the observable content with the model
  void compare(AInst *in, Ctx &ctx)
  {
    size_t n = in->model.size();
    if (ares_array_len(in->arr) != n) {
      ctx.fail("len-mismatch", "ares_array_len=" + std::to_string(ares_array_len(in->arr)) + " model=" + std::to_string(n));
      return;
    }
    std::vector<uint32_t> got;
    for (size_t i = 0; i < n; i++) {
      const Elem *e = (const Elem *)ares_array_at(in->arr, i);
      if (e == nullptr) {
        ctx.fail("accessor-mismatch", "ares_array_at(" + std::to_string(i) + ") returned NULL with len " + std::to_string(n));
        return;
      }
      if (ares_array_at_const(in->arr, i) != (const void *)e) {
        ctx.fail("accessor-mismatch", "ares_array_at_const differs from ares_array_at at index " + std::to_string(i));
        return;
      }
      if (!intact(*e)) {
        ctx.fail("member-corrupted", "member at index " + std::to_string(i) + " is not a whole member (id " + std::to_string(e->id) + ")");
        return;
      }
      got.push_back(e->id);
    }
    if (got != in->model) {
      ctx.fail("order-mismatch", "array holds " + vec_str(got) + " model expects " + vec_str(in->model));
      return;
    }
    if (ares_array_at(in->arr, n) != nullptr || ares_array_at_const(in->arr, n) != nullptr)
      ctx.fail("accessor-mismatch", "ares_array_at(len) is not NULL");
    void *f = ares_array_first(in->arr), *l = ares_array_last(in->arr);
    if (n == 0) {
      if (f || l || ares_array_first_const(in->arr) || ares_array_last_const(in->arr))
        ctx.fail("accessor-mismatch", "first/last of an empty array not NULL");
    } else {
      if (f != ares_array_at(in->arr, 0) || l != ares_array_at(in->arr, n - 1) ||
          ares_array_first_const(in->arr) != (const void *)f || ares_array_last_const(in->arr) != (const void *)l)
        ctx.fail("accessor-mismatch", "first/last do not point at index 0 / len-1");
    }
  }

  void apply(Instance *ip, const Op &op, Ctx &ctx) override
  {
    AInst               *in = (AInst *)ip;
    std::vector<uint32_t> &m = in->model;
    size_t               n  = m.size();
    ares_status_t        st = ARES_SUCCESS, exp = ARES_SUCCESS;
    std::vector<std::pair<uint32_t, int>> expd;
    size_t off0 = exd_array_offset(in->arr), alloc0 = exd_array_alloc(in->arr), cnt0 = exd_array_cnt(in->arr);
    bool   is_insert = false;

    auto do_insert = [&](size_t idx, int how) { // how: 0 at, 1 first, 2 last, 3 data_at, 4 data_first, 5 data_last
      is_insert   = true;
      uint32_t id = in->next_id++;
      Elem     e  = mk(id);
      void    *p  = nullptr;
      switch (how) {
        case 0: st = ares_array_insert_at(&p, in->arr, idx); break;
        case 1: st = ares_array_insert_first(&p, in->arr); break;
        case 2: st = ares_array_insert_last(&p, in->arr); break;
        case 3: st = ares_array_insertdata_at(in->arr, idx, &e); break;
        case 4: st = ares_array_insertdata_first(in->arr, &e); break;
        case 5: st = ares_array_insertdata_last(in->arr, &e); break;
      }
      size_t at = how == 1 || how == 4 ? 0 : how == 2 || how == 5 ? n : idx;
      exp       = at > n ? ARES_EFORMERR : ARES_SUCCESS;
      if (st == ARES_SUCCESS && how < 3) {
        if (p == nullptr) {
          ctx.fail("retval-mismatch", "insert returned SUCCESS but no member pointer");
          return;
        }
        if (ctx.checking && exp == ARES_SUCCESS && p != ares_array_at(in->arr, at))
          ctx.fail("retval-mismatch", "returned member pointer is not ares_array_at(" + std::to_string(at) + ")");
        memcpy(p, &e, sizeof e);
      }
      if (exp == ARES_SUCCESS) m.insert(m.begin() + (long)at, id);
    };

    switch (op.c) {
      case INSERT_AT: do_insert((size_t)op.a, 0); break;
      case INSERT_FIRST: do_insert(0, 1); break;
      case INSERT_LAST: do_insert(0, 2); break;
      case INSERTDATA_AT: do_insert((size_t)op.a, 3); break;
      case INSERTDATA_FIRST: do_insert(0, 4); break;
      case INSERTDATA_LAST: do_insert(0, 5); break;
      case REMOVE_AT:
      case REMOVE_FIRST:
      case REMOVE_LAST: {
        size_t idx = op.c == REMOVE_AT ? (size_t)op.a : op.c == REMOVE_FIRST ? 0 : (n ? n - 1 : 0);
        st = op.c == REMOVE_AT ? ares_array_remove_at(in->arr, idx) : op.c == REMOVE_FIRST ? ares_array_remove_first(in->arr)
                                                                                            : ares_array_remove_last(in->arr);
        if (idx >= n) exp = ARES_EFORMERR;
        else {
          if (in->destruct) expd.push_back({ m[idx], 0 });
          m.erase(m.begin() + (long)idx);
        }
        break;
      }
      case CLAIM_AT:
      case CLAIM_AT_NULLDEST:
      case CLAIM_AT_SMALLDEST: {
        size_t idx = (size_t)op.a;
        Elem   dst = mk(0);
        if (op.c == CLAIM_AT) st = ares_array_claim_at(&dst, sizeof dst, in->arr, idx);
        else if (op.c == CLAIM_AT_NULLDEST) st = ares_array_claim_at(nullptr, 0, in->arr, idx);
        else st = ares_array_claim_at(&dst, sizeof dst - 1, in->arr, idx);
        if (idx >= n || op.c == CLAIM_AT_SMALLDEST) exp = ARES_EFORMERR;
        else {
          if (op.c == CLAIM_AT && st == ARES_SUCCESS && ctx.checking && (dst.id != m[idx] || !intact(dst)))
            ctx.fail("retval-mismatch", "claimed member is id " + std::to_string(dst.id) + ", model expects " + std::to_string(m[idx]));
          m.erase(m.begin() + (long)idx);
        }
        break;
      }
      case SET_SIZE: {
        size_t sz = (size_t)op.a;
        st        = ares_array_set_size(in->arr, sz);
        exp       = (sz == 0 || sz < n) ? ARES_EFORMERR : ARES_SUCCESS;
        break;
      }
      case SORT:
        st = ares_array_sort(in->arr, cmp_cb);
        std::sort(m.begin(), m.end());
        break;
      case FINISH: {
        size_t num = 12345;
        Elem  *raw = (Elem *)ares_array_finish(in->arr, &num);
        bool   consumed = vf::ledger().live.count(in->arr) == 0;
        if (consumed) {
          in->consumed = true;
          in->arr      = nullptr;
        }
        if (ctx.checking) {
          ctx.outcome(raw ? "pointer" : (consumed ? "null-consumed" : "null-failed"));
          if (!consumed) ctx.fail("retval-mismatch", "ares_array_finish failed (returned NULL and kept the container) with " + std::to_string(n) + " member(s), offset " + std::to_string(off0) + ", alloc " + std::to_string(alloc0));
          else if (raw == nullptr && n != 0) ctx.fail("retval-mismatch", "ares_array_finish returned NULL for " + std::to_string(n) + " member(s)");
          else if (num != n) ctx.fail("len-mismatch", "ares_array_finish num_members=" + std::to_string(num) + " model=" + std::to_string(n));
          else {
            std::vector<uint32_t> got;
            for (size_t i = 0; i < n; i++) got.push_back(intact(raw[i]) ? raw[i].id : 0xffffffffu);
            if (got != m) ctx.fail("order-mismatch", "finished array holds " + vec_str(got) + " model expects " + vec_str(m));
          }
        }
        ares_free(raw);
        ctx.expect_dlog({}, "ares_array_finish");
        return;
      }
    }
    scrub(in->arr);
    if (!ctx.checking) {
      dlog().ev.clear();
      return;
    }
    ctx.outcome(status_name(st));
    if (st != exp) {
      ctx.fail("retval-mismatch", std::string("returned ") + status_name(st) + ", model expects " + status_name(exp) + " (len " +
                                    std::to_string(n) + ", hidden offset " + std::to_string(off0) + ", alloc " + std::to_string(alloc0) + ")");
      return;
    }
    ctx.expect_dlog(expd, "remove/claim");
    if (ctx.failed) return;
    compare(in, ctx);
    // witnesses (vacuity guard)
    size_t off1 = exd_array_offset(in->arr), alloc1 = exd_array_alloc(in->arr);
    if (off1 != 0) ctx.witness("offset_nonzero");
    if (is_insert && st == ARES_SUCCESS) {
      if (alloc1 > alloc0 && alloc0 != 0) ctx.witness("grew");
      if (alloc1 > alloc0 && alloc0 >= 8) ctx.witness("grew_twice");
      if (off0 > 0 && off1 == 0) ctx.witness("compacted_on_insert");
    }
    if (op.c == SET_SIZE && alloc1 > alloc0) ctx.witness("set_size_grew");
    if (op.c == SORT && n > 1) ctx.witness("sorted");
  }

  std::string key(Instance *ip) override
  {
    AInst      *in = (AInst *)ip;
    size_t      cnt = exd_array_cnt(in->arr), off = exd_array_offset(in->arr), al = exd_array_alloc(in->arr);
    std::string k = "c" + std::to_string(cnt) + "o" + std::to_string(off) + "a" + std::to_string(al) + "|";
    const Elem *raw = (const Elem *)exd_array_raw(in->arr);
    // dead slots are poisoned by scrub(); anything else there would be a harness bug and is made visible in the key
    for (size_t sidx = 0; raw && sidx < al; sidx++)
      if ((sidx < off || sidx >= off + cnt) && raw[sidx].id != POISON_ID) k += "!" + std::to_string(sidx);
    if (in->perm) {
      // rank permutation of the live members (sort depends on it)
      std::vector<uint32_t> ids;
      for (size_t i = 0; i < cnt && off + i < al; i++) ids.push_back(raw[off + i].id);
      std::vector<uint32_t> sorted = ids;
      std::sort(sorted.begin(), sorted.end());
      k += "|r";
      for (uint32_t id : ids) k += std::to_string(std::lower_bound(sorted.begin(), sorted.end(), id) - sorted.begin()) + ".";
    }
    return k;
  }

  void finish(Instance *ip, Ctx &ctx) override
  {
    AInst *in = (AInst *)ip;
    dlog().ev.clear();
    if (in->arr) {
      ares_array_destroy(in->arr);
      std::vector<std::pair<uint32_t, int>> expd;
      if (in->destruct)
        for (uint32_t id : in->model) expd.push_back({ id, 0 });
      ctx.expect_dlog(expd, "ares_array_destroy");
    }
    check_ledger_empty(ctx, "array");
    delete in;
  }
};

} // namespace

Family *make_array() { return new ArrayFamily; }

} // namespace exd
