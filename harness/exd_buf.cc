// EX-D family "buf": ares_buf_t against std::string + cursor + tag.
//
// The model never mirrors ares_buf_reclaim(): reclaiming is invisible through
// the public API, so the reference keeps every byte ever appended, a cursor and
// an optional tag; the hidden offset / tag_offset / data_len / alloc_buf_len only
// enter the state key.
#include "exd_core.h"

namespace exd {
namespace {

static const char  PATTERN[]   = "ab,cd ,, e,AB"; // delimiters, blanks, a case-insensitive duplicate
static const size_t PATLEN     = 13;
static const unsigned char HEXIN[5] = { 0x00, 0x41, 0x7f, 0xff, 0x20 };

enum { APPEND, FETCH, CONSUME, TAG, TAG_ROLLBACK, TAG_CLEAR, RECLAIM, SET_LENGTH, SPLIT, HEXDUMP, UNTIL, REPLACE, FINISH_STR };

struct BInst : Instance {
  ares_buf_t *buf = nullptr;
  bool        isconst = false, consumed = false, ever = false;
  std::string s;        // every byte of the logical stream (const: the fixed input)
  size_t      cur = 0;  // cursor
  long        tag = -1; // tagged cursor position or -1
  size_t      g   = 0;  // generator position
  std::vector<unsigned char> constdata;
};

static std::string hexdump_ref(const unsigned char *d, size_t len)
{
  std::string o;
  char        b[16];
  for (size_t i = 0; i < len; i += 16) {
    snprintf(b, sizeof b, "%06zX", i);
    o += b;
    o += " | ";
    for (size_t j = 0; j < 16; j++) {
      if (i + j >= len) o += "  ";
      else {
        snprintf(b, sizeof b, "%02X", d[i + j]);
        o += b;
      }
      o += " ";
    }
    o += " | ";
    for (size_t j = 0; j < 16 && i + j < len; j++) o += (d[i + j] >= 0x20 && d[i + j] <= 0x7e) ? (char)d[i + j] : '.';
    o += "\n";
  }
  return o;
}
static bool is_ws(unsigned char c) { return c == '\r' || c == '\t' || c == ' ' || c == '\v' || c == '\f' || c == '\n'; }

// reference for ares_buf_split as documented in ares_buf.h
static std::vector<std::string> split_ref(const std::string &in, char delim, bool allow_blank, bool trim, bool nodup, bool ci, size_t max_sections)
{
  std::vector<std::string> out;
  if (in.empty()) return out;
  size_t pos = 0;
  bool   more = true;
  while (more) {
    std::string sec;
    if (max_sections && out.size() >= max_sections - 1) {
      sec  = in.substr(pos);
      more = false;
    } else {
      size_t d = in.find(delim, pos);
      if (d == std::string::npos) {
        sec  = in.substr(pos);
        more = false;
      } else {
        sec = in.substr(pos, d - pos);
        pos = d + 1;
        // a trailing delimiter is followed by one more (blank) section
      }
    }
    if (trim) {
      size_t b = 0, e = sec.size();
      while (b < e && is_ws((unsigned char)sec[b])) b++;
      while (e > b && is_ws((unsigned char)sec[e - 1])) e--;
      sec = sec.substr(b, e - b);
    }
    if (sec.empty() && !allow_blank) continue;
    if (nodup) {
      bool dup = false;
      for (auto &o : out) {
        if (o.size() != sec.size()) continue;
        bool eq = true;
        for (size_t i = 0; i < sec.size() && eq; i++) eq = ci ? tolower((unsigned char)o[i]) == tolower((unsigned char)sec[i]) : o[i] == sec[i];
        if (eq) dup = true;
      }
      if (dup) continue;
    }
    out.push_back(sec);
  }
  return out;
}

struct BufFamily : Family {
  std::string name() const override { return "buf"; }
  const std::vector<const char *> &opnames() const override
  {
    static const std::vector<const char *> n = { "append", "fetch", "consume", "tag", "tag_rollback", "tag_clear", "reclaim",
                                                 "set_length", "split", "hexdump", "consume_until", "replace", "finish_str" };
    return n;
  }
  int max_depth(const vf::Args &a) const override { return (int)a.geti("depth", a.tier == "quick" ? 5 : 6); }
  std::vector<Config> configs(const vf::Args &a) const override
  {
    Config d, c;
    d.name       = "dynamic";
    d.p["const"] = 0;
    c.name       = "const";
    c.p["const"] = 1;
    c.p["len"]   = a.geti("constlen", 40);
    return { d, c };
  }
  std::string bound(const vf::Args &a) const override
  {
    return "all operation sequences of depth <= " + std::to_string(max_depth(a)) +
           " (de-duplicated on offset/tag_offset/data_len/alloc_buf_len + live content) over append{1,3,17,200} / fetch{1,2,3,17} / "
           "consume{1,17,all,len+1} / tag / tag_rollback / tag_clear / reclaim / set_length{len-1,0,too-large} / split x5 / hexdump / "
           "consume_until / replace x2 / finish_str on a dynamic buffer; plus the closed space of a " +
           std::to_string(a.geti("constlen", 40)) + "-byte const buffer";
  }

  Instance *fresh(const Config &c, Ctx &ctx) override
  {
    vf::ledger().reset();
    dlog().ev.clear();
    BInst *in   = new BInst;
    in->isconst = c.get("const", 0) != 0;
    if (in->isconst) {
      size_t len = (size_t)c.get("len", 40);
      for (size_t i = 0; i < len; i++) in->constdata.push_back((unsigned char)PATTERN[i % PATLEN]);
      in->s.assign((const char *)in->constdata.data(), len);
      in->buf = ares_buf_create_const(in->constdata.data(), len);
    } else {
      in->buf = ares_buf_create();
    }
    if (!in->buf) ctx.internal = "ares_buf_create failed";
    return in;
  }

  void enabled(Instance *ip, std::vector<Op> &ops) override
  {
    BInst *in   = (BInst *)ip;
    size_t rem  = in->s.size() - in->cur;
    auto   push = [&](int c, long a) {
      Op o;
      o.c = c;
      o.a = a;
      ops.push_back(o);
    };
    if (in->isconst) push(APPEND, 1);
    else
      for (long k : { 1L, 3L, 17L, 200L }) push(APPEND, k);
    for (long k : { 1L, 2L, 3L, 17L }) push(FETCH, k);
    for (long k : { 1L, 17L, -1L, -2L }) push(CONSUME, k);
    push(TAG, 0);
    push(TAG_ROLLBACK, 0);
    push(TAG_CLEAR, 0);
    push(RECLAIM, 0);
    if (rem >= 1 && !in->isconst) {
      push(SET_LENGTH, 0);
      push(SET_LENGTH, 1);
    }
    push(SET_LENGTH, 2);
    for (long v = 0; v < 5; v++) push(SPLIT, v);
    if (!in->isconst) push(HEXDUMP, 5);
    push(UNTIL, 0);
    if (in->ever || in->isconst) {
      push(REPLACE, 0);
      if (!in->isconst) push(REPLACE, 1);
    }
    push(FINISH_STR, 0);
  }
  bool terminal(const Op &o) const override { return o.c == FINISH_STR; }
  void pre_witness(Instance *ip, const Op &op, Ctx &ctx) override
  {
    BInst *in = (BInst *)ip;
    if (op.c == TAG_ROLLBACK && in->tag >= 0 && (size_t)in->tag < in->cur) ctx.witness("rollback");
    if (op.c == SET_LENGTH && op.a < 2 && !in->isconst) ctx.witness("truncated");
  }

  void compare(BInst *in, Ctx &ctx)
  {
    size_t rem = in->s.size() - in->cur;
    if (ares_buf_len(in->buf) != rem) {
      ctx.fail("len-mismatch", "ares_buf_len=" + std::to_string(ares_buf_len(in->buf)) + " model=" + std::to_string(rem));
      return;
    }
    size_t               plen = 12345;
    const unsigned char *p    = ares_buf_peek(in->buf, &plen);
    if (plen != rem || (rem > 0 && p == nullptr)) {
      ctx.fail("content-mismatch", "ares_buf_peek length " + std::to_string(plen) + " model " + std::to_string(rem));
      return;
    }
    if (rem > 0 && memcmp(p, in->s.data() + in->cur, rem) != 0) {
      size_t i = 0;
      while (i < rem && p[i] == (unsigned char)in->s[in->cur + i]) i++;
      ctx.fail("content-mismatch", "unprocessed data differs from the model at byte " + std::to_string(i) + " of " + std::to_string(rem) + ": got 0x" +
                                     vf::hex(p + i, 1) + " expected 0x" + vf::hex((const unsigned char *)in->s.data() + in->cur + i, 1));
      return;
    }
    unsigned char b  = 0;
    ares_status_t st = ares_buf_peek_byte(in->buf, &b);
    if (rem == 0 ? st != ARES_EBADRESP : (st != ARES_SUCCESS || b != (unsigned char)in->s[in->cur])) {
      ctx.fail("content-mismatch", "ares_buf_peek_byte disagrees with the model");
      return;
    }
    if (rem >= 2 && !ares_buf_begins_with(in->buf, (const unsigned char *)in->s.data() + in->cur, 2)) {
      ctx.fail("content-mismatch", "ares_buf_begins_with(first two unprocessed bytes) is false");
      return;
    }
    // tag observers
    size_t               tlen = 12345;
    const unsigned char *tp   = ares_buf_tag_fetch(in->buf, &tlen);
    if (in->tag < 0) {
      unsigned char tmp[8];
      size_t        l = sizeof tmp;
      if (tp != nullptr || ares_buf_tag_length(in->buf) != 0 || ares_buf_tag_fetch_bytes(in->buf, tmp, &l) != ARES_EFORMERR)
        ctx.fail("tag-mismatch", "no tag is set in the model but the tag accessors report one");
      return;
    }
    size_t want = in->cur - (size_t)in->tag;
    if (tlen != want || ares_buf_tag_length(in->buf) != want || (want > 0 && tp == nullptr)) {
      ctx.fail("tag-mismatch", "tag length " + std::to_string(tlen) + "/" + std::to_string(ares_buf_tag_length(in->buf)) + " model " + std::to_string(want));
      return;
    }
    if (want > 0 && memcmp(tp, in->s.data() + in->tag, want) != 0) {
      ctx.fail("tag-mismatch", "bytes between tag and cursor differ from the model");
      return;
    }
    std::vector<unsigned char> tmp(want + 4);
    size_t                     l = tmp.size();
    ares_status_t tfb = ares_buf_tag_fetch_bytes(in->buf, tmp.data(), &l);
    // A zero-length tag on a buffer that never held any data has nothing to point at: the library answers
    // ARES_EFORMERR there (it has no data pointer at all); that is not a lost byte, so it is accepted.
    if (tfb == ARES_EFORMERR && want == 0 && tp == nullptr) {
      l   = 0;
      tfb = ARES_SUCCESS;
    }
    if (tfb != ARES_SUCCESS || l != want || (want && memcmp(tmp.data(), in->s.data() + in->tag, want) != 0)) {
      ctx.fail("tag-mismatch", "ares_buf_tag_fetch_bytes disagrees with the model");
      return;
    }
    if (want > 0) {
      l = want - 1;
      if (ares_buf_tag_fetch_bytes(in->buf, tmp.data(), &l) != ARES_EFORMERR) {
        ctx.fail("tag-mismatch", "ares_buf_tag_fetch_bytes accepted a too small buffer");
        return;
      }
    }
    std::vector<char> str(want + 1);
    bool              printable = true;
    for (size_t i = 0; i < want; i++) {
      unsigned char c = (unsigned char)in->s[(size_t)in->tag + i];
      if (c < 0x20 || c > 0x7e) printable = false;
    }
    st = ares_buf_tag_fetch_string(in->buf, str.data(), str.size());
    if (st == ARES_EFORMERR && want == 0 && tp == nullptr) return; // zero-length tag on a buffer without any data (see above)
    if (st != (printable ? ARES_SUCCESS : ARES_EBADSTR) || (printable && (strlen(str.data()) != want || memcmp(str.data(), in->s.data() + in->tag, want) != 0)))
      ctx.fail("tag-mismatch", "ares_buf_tag_fetch_string disagrees with the model");
  }

  void apply(Instance *ip, const Op &op, Ctx &ctx) override
  {
    BInst        *in  = (BInst *)ip;
    size_t        rem = in->s.size() - in->cur;
    ares_status_t st = ARES_SUCCESS, exp = ARES_SUCCESS;
    size_t        off0 = exd_buf_offset(in->buf), alloc0 = exd_buf_alloc_len(in->buf), tag0 = exd_buf_tag_offset(in->buf);
    bool          statused = true;
    switch (op.c) {
      case APPEND: {
        std::string bytes;
        for (long i = 0; i < op.a; i++) bytes += PATTERN[(in->g + (size_t)i) % PATLEN];
        st = ares_buf_append(in->buf, (const unsigned char *)bytes.data(), bytes.size());
        if (in->isconst) exp = ARES_EFORMERR;
        else {
          in->s += bytes;
          in->g += (size_t)op.a;
          in->ever = true;
        }
        break;
      }
      case HEXDUMP: {
        st = ares_buf_hexdump(in->buf, HEXIN, (size_t)op.a);
        in->s += hexdump_ref(HEXIN, (size_t)op.a);
        in->ever = true;
        break;
      }
      case FETCH: {
        size_t        k = (size_t)op.a;
        unsigned char got[32];
        memset(got, 0xee, sizeof got);
        unsigned char *dup  = nullptr;
        ares_buf_t    *dest = nullptr;
        unsigned short u16  = 0;
        if (k == 1) st = ares_buf_fetch_bytes(in->buf, got, 1);
        else if (k == 2) st = ares_buf_fetch_be16(in->buf, &u16);
        else if (k == 3) st = ares_buf_fetch_bytes_dup(in->buf, 3, ARES_TRUE, &dup);
        else {
          dest = ares_buf_create();
          st   = ares_buf_fetch_bytes_into_buf(in->buf, dest, k);
        }
        exp = rem < k ? ARES_EBADRESP : ARES_SUCCESS;
        if (st == ARES_SUCCESS && exp == ARES_SUCCESS) {
          const unsigned char *w = (const unsigned char *)in->s.data() + in->cur;
          bool                 ok = true;
          if (k == 1) ok = got[0] == w[0];
          else if (k == 2) ok = u16 == (unsigned short)((w[0] << 8) | w[1]);
          else if (k == 3) ok = dup && memcmp(dup, w, 3) == 0 && dup[3] == 0;
          else {
            size_t               dl = 0;
            const unsigned char *dp = ares_buf_peek(dest, &dl);
            ok                      = dl == k && dp && memcmp(dp, w, k) == 0;
          }
          if (!ok) ctx.fail("content-mismatch", "fetch(" + std::to_string(k) + ") returned other bytes than the model");
        }
        if (st == ARES_SUCCESS) ares_free(dup);
        ares_buf_destroy(dest);
        if (exp == ARES_SUCCESS) in->cur += k;
        break;
      }
      case CONSUME: {
        size_t k = op.a == -1 ? rem : op.a == -2 ? rem + 1 : (size_t)op.a;
        st       = ares_buf_consume(in->buf, k);
        exp      = rem < k ? ARES_EBADRESP : ARES_SUCCESS;
        if (exp == ARES_SUCCESS) in->cur += k;
        break;
      }
      case TAG:
        ares_buf_tag(in->buf);
        in->tag  = (long)in->cur;
        statused = false;
        ctx.outcome("set");
        break;
      case TAG_ROLLBACK:
        st  = ares_buf_tag_rollback(in->buf);
        exp = in->tag < 0 ? ARES_EFORMERR : ARES_SUCCESS;
        if (in->tag >= 0) {
          in->cur = (size_t)in->tag;
          in->tag = -1;
        }
        break;
      case TAG_CLEAR:
        st      = ares_buf_tag_clear(in->buf);
        exp     = in->tag < 0 ? ARES_EFORMERR : ARES_SUCCESS;
        in->tag = -1;
        break;
      case RECLAIM:
        ares_buf_reclaim(in->buf);
        statused = false;
        ctx.outcome(exd_buf_offset(in->buf) < off0 ? "moved" : "nothing");
        break;
      case SET_LENGTH: {
        size_t len = op.a == 0 ? rem - 1 : op.a == 1 ? 0 : ((size_t)1 << 20);
        st         = ares_buf_set_length(in->buf, len);
        exp        = (op.a == 2 || in->isconst) ? ARES_EFORMERR : ARES_SUCCESS;
        if (exp == ARES_SUCCESS) {
          in->s.resize(in->cur + len);
        }
        break;
      }
      case UNTIL: {
        size_t r = ares_buf_consume_until_charset(in->buf, (const unsigned char *)",", 1, ARES_TRUE);
        size_t d = in->s.find(',', in->cur);
        size_t w = d == std::string::npos ? SIZE_MAX : d - in->cur;
        if (rem == 0) w = 0; // documented: nothing to look at
        statused = false;
        ctx.outcome(r == SIZE_MAX ? "not-found" : "found");
        if (r != w) {
          ctx.fail("retval-mismatch", "consume_until_charset returned " + std::to_string(r) + " model expects " + std::to_string(w));
          break;
        }
        if (w != SIZE_MAX) in->cur += w;
        break;
      }
      case REPLACE: {
        const char *srch = op.a == 0 ? "," : ",,";
        const char *rplc = op.a == 0 ? "--" : ",";
        st               = ares_buf_replace(in->buf, (const unsigned char *)srch, strlen(srch), (const unsigned char *)rplc, strlen(rplc));
        if (in->isconst) exp = ARES_EFORMERR;
        else {
          std::string tail = in->s.substr(in->cur), out;
          size_t      i = 0, sl = strlen(srch);
          bool        any = false;
          while (i < tail.size()) {
            if (tail.compare(i, sl, srch) == 0) {
              out += rplc;
              i += sl;
              any = true;
            } else out += tail[i++];
          }
          in->s = in->s.substr(0, in->cur) + out;
          if (any) ctx.witness("replaced");
        }
        break;
      }
      case SPLIT: {
        std::string      tail = in->s.substr(in->cur);
        ares_buf_split_t flags = ARES_BUF_SPLIT_NONE;
        size_t           maxs  = 0;
        bool             ab = false, tr = false, nd = false, ci = false, strs = false;
        switch (op.a) {
          case 1: flags = ARES_BUF_SPLIT_ALLOW_BLANK; ab = true; break;
          case 2:
            flags = (ares_buf_split_t)(ARES_BUF_SPLIT_TRIM | ARES_BUF_SPLIT_NO_DUPLICATES | ARES_BUF_SPLIT_CASE_INSENSITIVE);
            tr = nd = ci = true;
            break;
          case 3: maxs = 2; break;
          case 4:
            flags = ARES_BUF_SPLIT_TRIM;
            tr    = true;
            strs  = true;
            break;
        }
        std::vector<std::string> want = split_ref(tail, ',', ab, tr, nd, ci, maxs), got;
        ares_array_t            *arr  = nullptr;
        if (strs) // C strings are validated to be printable ASCII (as ares_buf_fetch_str_dup documents)
          for (auto &w : want)
            for (unsigned char ch : w)
              if (ch < 0x20 || ch > 0x7e) exp = ARES_EBADSTR;
        if (strs) st = ares_buf_split_str_array(in->buf, (const unsigned char *)",", 1, flags, maxs, &arr);
        else st = ares_buf_split(in->buf, (const unsigned char *)",", 1, flags, maxs, &arr);
        if (st == ARES_SUCCESS && arr) {
          for (size_t i = 0; i < ares_array_len(arr); i++) {
            if (strs) {
              char **sp = (char **)ares_array_at(arr, i);
              got.push_back(sp && *sp ? *sp : "(null)");
            } else {
              ares_buf_t         **bp = (ares_buf_t **)ares_array_at(arr, i);
              size_t               l  = 0;
              const unsigned char *p  = bp && *bp ? ares_buf_peek(*bp, &l) : nullptr;
              got.push_back(p ? std::string((const char *)p, l) : std::string());
            }
          }
        }
        ares_array_destroy(arr);
        // the tag left behind by split is not documented: normalise it away
        ares_buf_tag_clear(in->buf);
        in->tag = -1;
        in->cur = in->s.size();
        if (st == ARES_SUCCESS && got != want) {
          auto show = [](const std::vector<std::string> &v) {
            std::string o = "[";
            for (auto &x : v) o += "'" + x + "' ";
            return o + "]";
          };
          ctx.fail("split-mismatch", "split of '" + tail + "' gives " + show(got) + " model expects " + show(want));
        }
        if (want.size() > 1) ctx.witness("split_multi");
        break;
      }
      case FINISH_STR: {
        size_t len = 12345;
        char  *str = ares_buf_finish_str(in->buf, &len);
        bool   consumed = vf::ledger().live.count(in->buf) == 0;
        if (consumed) {
          in->buf      = nullptr;
          in->consumed = true;
        }
        if (ctx.checking) {
          std::string from_cur = in->s.substr(in->cur), from_tag = in->tag >= 0 ? in->s.substr((size_t)in->tag) : from_cur;
          if (in->isconst) {
            ctx.outcome("const-refused");
            if (str != nullptr || consumed) ctx.fail("retval-mismatch", "ares_buf_finish_str accepted a const buffer");
          } else if (!str || !consumed) {
            ctx.fail("retval-mismatch", "ares_buf_finish_str failed on a dynamic buffer");
          } else {
            std::string got(str, len);
            if (strlen(str) > len) ctx.fail("content-mismatch", "finished string is not NUL terminated at its length");
            else if (got == from_cur) ctx.outcome(in->tag >= 0 && (size_t)in->tag < in->cur ? "tagged-from-cursor" : "from-cursor");
            else if (got == from_tag) ctx.outcome("tagged-from-tag"); // documented reclaim semantics: an active tag keeps its bytes
            else ctx.fail("content-mismatch", "finished string (" + std::to_string(len) + " bytes) is neither the unprocessed data (" + std::to_string(from_cur.size()) + " bytes) nor the data since the tag");
          }
        }
        ares_free(str);
        return;
      }
    }
    if (!ctx.checking) return;
    if (statused) {
      ctx.outcome(status_name(st));
      if (st != exp) {
        ctx.fail("retval-mismatch", std::string("returned ") + status_name(st) + ", model expects " + status_name(exp) + " (unprocessed " +
                                      std::to_string(rem) + " bytes, hidden offset " + std::to_string(off0) + ", alloc " + std::to_string(alloc0) + ")");
        return;
      }
    }
    if (ctx.failed) return;
    compare(in, ctx);
    size_t off1 = exd_buf_offset(in->buf), alloc1 = exd_buf_alloc_len(in->buf), tag1 = exd_buf_tag_offset(in->buf);
    if (off1 < off0 && op.c != TAG_ROLLBACK) ctx.witness("reclaimed");
    if (off1 < off0 && op.c != TAG_ROLLBACK && op.c != RECLAIM) ctx.witness("reclaimed_by_append");
    if (tag0 != SIZE_MAX && tag1 != SIZE_MAX && tag1 < tag0) ctx.witness("reclaimed_with_tag");
    if (alloc1 > alloc0 && alloc0 > 0) ctx.witness("regrew");
    (void)tag1;
  }

  std::string key(Instance *ip) override
  {
    BInst *in = (BInst *)ip;
    size_t off = exd_buf_offset(in->buf), tag = exd_buf_tag_offset(in->buf), dl = exd_buf_data_len(in->buf), al = exd_buf_alloc_len(in->buf);
    size_t m   = tag != SIZE_MAX && tag < off ? tag : off;
    const unsigned char *d = exd_buf_data(in->buf);
    uint64_t             h = (d && m <= dl) ? vf::fnv64(d + m, dl - m) : 0;
    char                 b[200];
    snprintf(b, sizeof b, "%co%zut%ldd%zua%zug%zuh%016llx", in->isconst ? 'C' : 'D', off, tag == SIZE_MAX ? -1L : (long)tag, dl, al, in->g % PATLEN,
             (unsigned long long)h);
    return b;
  }

  void finish(Instance *ip, Ctx &ctx) override
  {
    BInst *in = (BInst *)ip;
    if (in->buf) ares_buf_destroy(in->buf);
    check_ledger_empty(ctx, "buf");
    delete in;
  }
};

} // namespace

Family *make_buf() { return new BufFamily; }

} // namespace exd
