// EX-D: bounded-exhaustive breadth-first exploration of operation sequences on
// the REAL c-ares containers against std:: reference models (property C19).
//
//  * A state is an operation history; containers cannot be copied, so a state
//    is re-created by replaying its history on a fresh real container.
//  * The state key is the abstract content plus the hidden layout read through
//    the peek translation units; it is canonical (no addresses, element ids
//    renamed by position) and at least as fine as "has the same future".
//  * After the last operation of every execution the return value and the
//    complete observable content are compared with the model; destroying the
//    container must call the destructor exactly once per remaining element and
//    leave the allocator ledger empty.
//  * Never random: every enabled operation of every distinct state is executed.
#pragma once
#include "common.h"
extern "C" {
#include "ares_private.h"
#include "exd_peek.h"
}
#include <algorithm>
#include <deque>
#include <functional>
#include <list>
#include <memory>
#include <unordered_set>
#include <sys/wait.h>

namespace exd {

// ------------------------------------------------------------------ tiny JSON
struct JV {
  enum T { NUL, BOOL, NUM, STR, ARR, OBJ } t = NUL;
  double                                  num = 0;
  bool                                    b   = false;
  std::string                             s;
  std::vector<JV>                         a;
  std::vector<std::pair<std::string, JV>> o;
  const JV *get(const std::string &k) const
  {
    for (auto &kv : o)
      if (kv.first == k) return &kv.second;
    return nullptr;
  }
};
struct JParser {
  const std::string &s;
  size_t             i = 0;
  bool               ok = true;
  explicit JParser(const std::string &str) : s(str) {}
  void ws()
  {
    while (i < s.size() && (s[i] == ' ' || s[i] == '\n' || s[i] == '\t' || s[i] == '\r')) i++;
  }
  JV val()
  {
    JV v;
    ws();
    if (i >= s.size()) {
      ok = false;
      return v;
    }
    char c = s[i];
    if (c == '{') {
      v.t = JV::OBJ;
      i++;
      ws();
      if (i < s.size() && s[i] == '}') {
        i++;
        return v;
      }
      while (ok) {
        ws();
        JV k = val();
        if (k.t != JV::STR) {
          ok = false;
          break;
        }
        ws();
        if (i >= s.size() || s[i] != ':') {
          ok = false;
          break;
        }
        i++;
        JV x = val();
        v.o.push_back({ k.s, x });
        ws();
        if (i < s.size() && s[i] == ',') {
          i++;
          continue;
        }
        if (i < s.size() && s[i] == '}') {
          i++;
          break;
        }
        ok = false;
      }
    } else if (c == '[') {
      v.t = JV::ARR;
      i++;
      ws();
      if (i < s.size() && s[i] == ']') {
        i++;
        return v;
      }
      while (ok) {
        v.a.push_back(val());
        ws();
        if (i < s.size() && s[i] == ',') {
          i++;
          continue;
        }
        if (i < s.size() && s[i] == ']') {
          i++;
          break;
        }
        ok = false;
      }
    } else if (c == '"') {
      v.t = JV::STR;
      i++;
      while (i < s.size() && s[i] != '"') {
        if (s[i] == '\\' && i + 1 < s.size()) {
          i++;
          char e = s[i];
          if (e == 'n') v.s += '\n';
          else if (e == 't') v.s += '\t';
          else if (e == 'u' && i + 4 < s.size()) {
            v.s += (char)strtol(s.substr(i + 1, 4).c_str(), nullptr, 16);
            i += 4;
          } else v.s += e;
        } else v.s += s[i];
        i++;
      }
      if (i >= s.size()) ok = false;
      i++;
    } else if (c == 't' && s.compare(i, 4, "true") == 0) {
      v.t = JV::BOOL;
      v.b = true;
      i += 4;
    } else if (c == 'f' && s.compare(i, 5, "false") == 0) {
      v.t = JV::BOOL;
      i += 5;
    } else if (c == 'n' && s.compare(i, 4, "null") == 0) {
      i += 4;
    } else {
      char *end = nullptr;
      v.t       = JV::NUM;
      v.num     = strtod(s.c_str() + i, &end);
      if (end == s.c_str() + i) ok = false;
      i = (size_t)(end - s.c_str());
    }
    return v;
  }
};
inline bool jparse(const std::string &txt, JV &out)
{
  JParser p(txt);
  out = p.val();
  return p.ok;
}
inline std::string read_file(const std::string &path)
{
  std::string out;
  FILE       *f = fopen(path.c_str(), "rb");
  if (!f) return out;
  char   b[4096];
  size_t n;
  while ((n = fread(b, 1, sizeof b, f)) > 0) out.append(b, n);
  fclose(f);
  return out;
}

// ------------------------------------------------------------- ops / configs
struct Op {
  int  c = 0;
  long a = 0, b = 0;
};
struct Config {
  std::string                      name;
  std::map<std::string, long long> p;
  long long                        get(const char *k, long long def = 0) const
  {
    auto it = p.find(k);
    return it == p.end() ? def : it->second;
  }
  std::string json() const
  {
    std::string o = "{\"name\":" + vf::jstr(name);
    for (auto &kv : p) o += "," + vf::jstr(kv.first) + ":" + std::to_string(kv.second);
    return o + "}";
  }
};

// destructor / free-callback log shared by all families: (element id, callback id)
struct DLog {
  std::vector<std::pair<uint32_t, int>> ev;
};
inline DLog &dlog()
{
  static DLog d;
  return d;
}
// calls of the allocator with size 0 (c-ares' default allocator returns NULL for those; so do we)
inline uint64_t &malloc0_calls()
{
  static uint64_t n;
  return n;
}

struct Ctx {
  vf::Report *rep      = nullptr;
  bool        checking = true;
  bool        failed   = false;
  std::string opname, kind, desc;
  std::string internal; // harness-side inconsistency (never a verdict)
  void        fail(const std::string &k, const std::string &d)
  {
    if (!failed) {
      failed = true;
      kind   = k;
      desc   = d;
    }
  }
  void outcome(const std::string &o)
  {
    if (checking && rep) rep->outcome(opname + ":" + o);
  }
  void witness(const char *w)
  {
    if (checking && rep) rep->witness(w);
  }
  void count(const char *w, uint64_t n = 1)
  {
    if (checking && rep) rep->count(w, n);
  }
  // compare the callbacks logged since the last call with the expected multiset
  void expect_dlog(std::vector<std::pair<uint32_t, int>> expected, const char *what)
  {
    auto got = dlog().ev;
    dlog().ev.clear();
    if (!checking) return;
    std::sort(got.begin(), got.end());
    std::sort(expected.begin(), expected.end());
    if (got != expected) {
      auto s = [](const std::vector<std::pair<uint32_t, int>> &v) {
        std::string o = "[";
        for (auto &e : v) o += "id" + std::to_string(e.first) + "/cb" + std::to_string(e.second) + " ";
        return o + "]";
      };
      fail("destructor-mismatch",
           std::string(what) + ": callbacks expected " + s(expected) + " observed " + s(got));
    }
  }
};

inline const char *status_name(int st)
{
  switch (st) {
    case ARES_SUCCESS: return "SUCCESS";
    case ARES_EFORMERR: return "EFORMERR";
    case ARES_ENOMEM: return "ENOMEM";
    case ARES_EBADRESP: return "EBADRESP";
    case ARES_EBADSTR: return "EBADSTR";
    case ARES_ENOTFOUND: return "ENOTFOUND";
    default: return "OTHER";
  }
}
template <class T> inline std::string vec_str(const std::vector<T> &v)
{
  std::string o = "[";
  for (size_t i = 0; i < v.size(); i++) o += (i ? "," : "") + std::to_string(v[i]);
  return o + "]";
}

struct Instance {
  virtual ~Instance() {}
};

struct Family {
  virtual ~Family() {}
  virtual std::string         name() const                                  = 0;
  virtual std::vector<Config> configs(const vf::Args &) const               = 0;
  virtual std::string         bound(const vf::Args &) const                 = 0;
  virtual int                 max_depth(const vf::Args &) const { return 1 << 30; }
  virtual const std::vector<const char *> &opnames() const                  = 0;
  virtual Instance           *fresh(const Config &, Ctx &)                  = 0;
  virtual void                enabled(Instance *, std::vector<Op> &)        = 0;
  // apply op to the real container and to the model; with ctx.checking compare
  // return value + full observable content (ctx.fail on mismatch)
  virtual void                apply(Instance *, const Op &, Ctx &)          = 0;
  virtual bool                terminal(const Op &) const { return false; }
  // scenario witnesses that are a function of the state BEFORE the operation (vacuity guard): recorded once
  // per (state, operation) that is executed, also when the execution itself does not survive (sanitizer abort)
  virtual void                pre_witness(Instance *, const Op &, Ctx &) {}
  virtual std::string         key(Instance *)                               = 0;
  // destroy the real container, check callbacks + ledger, delete the instance
  virtual void                finish(Instance *, Ctx &)                     = 0;

  const char *opname(int c) const
  {
    auto &n = opnames();
    return c >= 0 && (size_t)c < n.size() ? n[(size_t)c] : "?";
  }
  int opcode(const std::string &s) const
  {
    auto &n = opnames();
    for (size_t i = 0; i < n.size(); i++)
      if (s == n[i]) return (int)i;
    return -1;
  }
  std::string op_json(const Op &o) const
  {
    return std::string("[\"") + opname(o.c) + "\"," + std::to_string(o.a) + "," + std::to_string(o.b) + "]";
  }
};

// allocator handed to c-ares: ledger, malloc(0) == NULL like c-ares' default allocator
inline bool &malloc0_returns_pointer() // --malloc0 ptr: behave like an allocator that returns a unique block for size 0
{
  static bool b = false;
  return b;
}
inline void *x_malloc(size_t n)
{
  if (n == 0) {
    malloc0_calls()++;
    if (!malloc0_returns_pointer()) return nullptr;
  }
  return vf::l_malloc(n);
}
inline void  x_free(void *p) { vf::l_free(p); }
inline void *x_realloc(void *p, size_t n) { return vf::l_realloc(p, n); }

// common end-of-execution check
inline void check_ledger_empty(Ctx &ctx, const char *what)
{
  if (!ctx.checking) return;
  auto &l = vf::ledger();
  if (!l.live.empty()) {
    size_t bytes = 0;
    for (auto &kv : l.live) bytes += kv.second;
    ctx.fail("leak", std::string(what) + ": " + std::to_string(l.live.size()) + " block(s) / " + std::to_string(bytes) +
                       " byte(s) still allocated after the container was destroyed");
  }
}

// ------------------------------------------------------------------- engine
struct StateRec {
  uint32_t parent;
  Op       op;
  uint16_t depth;
  uint16_t cfg;
};

class Engine {
public:
  Family                                       &F;
  vf::Args                                      args;
  vf::Report                                    rep;
  std::vector<Config>                           cfgs;
  std::vector<StateRec>                         st;
  std::vector<vf::Hash128>                      sthash;
  std::unordered_set<vf::Hash128, vf::Hash128H> seen;
  std::set<std::string>                         poison;     // exact cases that killed an earlier run of this shard
  std::set<std::pair<vf::Hash128, std::string>> poison_ops; // generalised: (state before the last op, last op)
  std::set<int>                                 risky_ops;  // operations that killed an earlier run: probed in a child first
  std::map<int, int>                            probe_aborts, probe_timeouts;
  std::set<int>                                 blacklisted; // operations given up after MAX_PROBE_ABORTS aborts (=> not exhaustive)
  // one execution is a few dozen container operations (microseconds); seconds mean a livelock inside the container
  static const unsigned CASE_WATCHDOG_S = 10, PROBE_WATCHDOG_S = 2;
  static const int      MAX_PROBE_ABORTS = 2000, MAX_PROBE_TIMEOUTS = 3;
  int                                           maxdepth;
  double                                        t_end;
  bool                                          cut_by_depth = false, deadline_hit = false, gave_up = false;
  bool                                          counting     = true;
  uint64_t                                      real_ops     = 0;
  std::string                                   fatal; // replay divergence etc.

  Engine(Family &f, const vf::Args &a) : F(f), args(a)
  {
    rep.engine = "exd";
    rep.family = F.name();
    rep.tier   = a.tier;
    rep.bound  = F.bound(a);
    cfgs       = F.configs(a);
    maxdepth   = F.max_depth(a);
    t_end      = vf::now_s() + a.deadline;
  }

  std::vector<Op> history(uint32_t s) const
  {
    std::vector<Op> h;
    while (st[s].parent != UINT32_MAX) {
      h.push_back(st[s].op);
      s = st[s].parent;
    }
    std::reverse(h.begin(), h.end());
    return h;
  }
  std::string replay_json(const Config &c, const std::vector<Op> &h, const Op *last) const
  {
    std::string o = "{\"family\":" + vf::jstr(F.name()) + ",\"config\":" + c.json() + ",\"ops\":[";
    bool        first = true;
    for (auto &op : h) {
      o += (first ? "" : ",") + F.op_json(op);
      first = false;
    }
    if (last) o += (first ? "" : ",") + F.op_json(*last);
    return o + "]}";
  }

  void load_poison(const std::string &path)
  {
    JV v;
    if (!jparse(read_file(path), v) || v.t != JV::ARR) return;
    for (auto &r : v.a) {
      Config          c;
      std::vector<Op> ops;
      if (!parse_replay(r, c, ops)) continue;
      poison.insert(replay_json(c, ops, nullptr));
      if (ops.empty()) continue;
      // the same operation from the same state (reached through any other history) would die the same way:
      // replay the history without its last operation (it was survived before) and remember (state, op)
      Ctx ctx;
      ctx.checking = false;
      vf::set_current_case(replay_json(c, ops, nullptr), F.name() + ":poison-setup");
      Instance *in = F.fresh(c, ctx);
      for (size_t i = 0; i + 1 < ops.size(); i++) F.apply(in, ops[i], ctx);
      vf::Hash128 h = vf::hash128(c.name + "|" + F.key(in));
      F.finish(in, ctx);
      poison_ops.insert({ h, F.op_json(ops.back()) });
      risky_ops.insert(ops.back().c);
    }
  }

  // Execute hist+op in a forked child only to learn whether the process survives it (sanitizer abort,
  // signal, watchdog).  Used for operations that already killed this shard once, so that one defect
  // reachable from many states cannot exhaust vf's restart budget.  Returns true if the child survived.
  bool probe_survives(const Config &cfg, const std::vector<Op> &hist, const Op &op, bool *timed_out)
  {
    *timed_out = false;
    fflush(nullptr);
    pid_t pid = fork();
    if (pid < 0) return true;
    if (pid == 0) {
      vf::crashctx().path[0] = 0; // the parent reports; no crash file from the probe
      vf::watchdog(PROBE_WATCHDOG_S);
      Ctx ctx;
      ctx.checking = false;
      Instance *in = F.fresh(cfg, ctx);
      for (auto &o : hist) F.apply(in, o, ctx);
      ctx.checking = true;
      ctx.rep      = &quiet;
      ctx.opname   = F.opname(op.c);
      F.apply(in, op, ctx);
      if (!ctx.failed && !F.terminal(op)) (void)F.key(in);
      F.finish(in, ctx);
      _exit(0);
    }
    int status = 0;
    while (waitpid(pid, &status, 0) < 0) {
    }
    *timed_out = WIFEXITED(status) && WEXITSTATUS(status) == 98; // vf::on_fatal_signal(SIGALRM)
    return WIFEXITED(status) && WEXITSTATUS(status) == 0;
  }
  bool parse_replay(const JV &r, Config &c, std::vector<Op> &ops) const
  {
    if (r.t != JV::OBJ) return false;
    const JV *jc = r.get("config"), *jo = r.get("ops");
    if (!jc || !jo || jo->t != JV::ARR) return false;
    for (auto &kv : jc->o) {
      if (kv.first == "name") c.name = kv.second.s;
      else c.p[kv.first] = (long long)kv.second.num;
    }
    for (auto &e : jo->a) {
      if (e.t != JV::ARR || e.a.empty()) return false;
      Op op;
      op.c = F.opcode(e.a[0].s);
      if (op.c < 0) return false;
      if (e.a.size() > 1) op.a = (long)e.a[1].num;
      if (e.a.size() > 2) op.b = (long)e.a[2].num;
      ops.push_back(op);
    }
    return true;
  }

  void add_state(uint32_t parent, const Op &op, uint16_t depth, uint16_t cfg, const vf::Hash128 &h)
  {
    st.push_back({ parent, op, depth, cfg });
    sthash.push_back(h);
    size_t n = st.size();
    if (counting && (n == 4 || n == 64 || n == 1024 || n == 16384))
      rep.sample(replay_json(cfgs[cfg], history((uint32_t)n - 1), nullptr), 5);
  }

  // Expand one state: every enabled operation is executed on a fresh container
  // after replaying the state's history.  New states are appended to `out`.
  void expand(uint32_t s, std::vector<uint32_t> &out)
  {
    const Config   &cfg  = cfgs[st[s].cfg];
    std::vector<Op> hist = history(s);
    std::vector<Op> ops;
    {
      // pass 1: replay, verify determinism (same key as when discovered), list enabled ops
      Ctx ctx;
      ctx.rep      = &rep;
      ctx.checking = false;
      vf::set_current_case(replay_json(cfg, hist, nullptr), F.name() + ":replay");
      vf::watchdog(CASE_WATCHDOG_S);
      Instance *in = F.fresh(cfg, ctx);
      for (auto &o : hist) {
        ctx.opname = F.opname(o.c);
        F.apply(in, o, ctx);
        real_ops++;
      }
      vf::Hash128 h = vf::hash128(cfg.name + "|" + F.key(in));
      if (!(h == sthash[s])) {
        fatal = "replay divergence: state reached by " + replay_json(cfg, hist, nullptr) +
                " has a different key on re-execution (uncaptured nondeterminism)";
        F.finish(in, ctx);
        return;
      }
      F.enabled(in, ops);
      if (counting) {
        Ctx w;
        w.rep      = &rep;
        w.checking = true;
        for (auto &o : ops)
          if (!blacklisted.count(o.c)) F.pre_witness(in, o, w);
      }
      F.finish(in, ctx);
      if (counting) rep.executions++;
      if (!ctx.internal.empty()) fatal = ctx.internal;
    }
    for (auto &op : ops) {
      if (vf::now_s() > t_end) {
        deadline_hit = true; // the state is only partly expanded
        break;
      }
      if (blacklisted.count(op.c)) {
        if (counting) rep.count("cases_skipped_operation_given_up");
        continue;
      }
      std::string js = replay_json(cfg, hist, &op);
      if (poison.count(js) || (!poison_ops.empty() && poison_ops.count({ sthash[s], F.op_json(op) }))) {
        if (counting) rep.count("poisoned_cases_skipped");
        continue;
      }
      bool timed_out = false;
      if (risky_ops.count(op.c) && !probe_survives(cfg, hist, op, &timed_out)) {
        rep.violation(F.name() + ":" + F.opname(op.c) + ":sanitizer-abort",
                      "the process does not survive this case (sanitizer report, fatal signal or watchdog; see the shard log); "
                      "the same operation already killed an earlier run of this shard, so it is probed in a child process",
                      js);
        if (counting) {
          rep.count("probe_aborts");
          rep.transitions++;
          rep.executions++;
        }
        if (timed_out && counting) rep.count("probe_timeouts");
        if (++probe_aborts[op.c] >= MAX_PROBE_ABORTS || (timed_out && ++probe_timeouts[op.c] >= MAX_PROBE_TIMEOUTS)) {
          // the defect is reported; every further abort costs a fork (or a watchdog period): stop executing this
          // operation and say so (the run is then not exhaustive)
          blacklisted.insert(op.c);
          gave_up = true;
        }
        continue;
      }
      Ctx ctx;
      ctx.rep      = counting ? &rep : &quiet; // outcomes / witnesses of the shared prefix are counted by shard 0 only
      ctx.checking = false;
      vf::set_current_case(js, F.name() + ":" + F.opname(op.c));
      vf::watchdog(CASE_WATCHDOG_S);
      dlog().ev.clear();
      Instance *in = F.fresh(cfg, ctx);
      for (auto &o : hist) {
        ctx.opname = F.opname(o.c);
        F.apply(in, o, ctx);
      }
      real_ops += hist.size() + 1;
      ctx.checking = true;
      ctx.opname   = F.opname(op.c);
      F.apply(in, op, ctx);
      if (counting) {
        rep.transitions++;
        rep.executions++;
      }
      std::string key;
      bool        term = F.terminal(op);
      if (!ctx.failed && !term) key = F.key(in);
      std::string failed_op = ctx.opname;
      if (!ctx.failed) {
        ctx.opname = "destroy";
        F.finish(in, ctx);
        failed_op = "destroy";
      } else {
        Ctx quietctx;
        quietctx.checking = false;
        F.finish(in, quietctx);
      }
      vf::watchdog(0);
      if (!ctx.internal.empty()) {
        fatal = ctx.internal + " in " + js;
        return;
      }
      if (ctx.failed) {
        std::string vkey = F.name() + ":" + failed_op + ":" + ctx.kind;
        rep.violation(vkey, "after " + std::string(F.opname(op.c)) + "(" + std::to_string(op.a) + "," + std::to_string(op.b) +
                              ") at depth " + std::to_string(hist.size() + 1) + ": " + ctx.desc,
                      js);
        rep.count("violating_executions");
        continue; // poisoned: not expanded
      }
      if (term) continue;
      vf::Hash128 h = vf::hash128(cfg.name + "|" + key);
      if (seen.insert(h).second) {
        add_state(s, op, (uint16_t)(st[s].depth + 1), st[s].cfg, h);
        out.push_back((uint32_t)st.size() - 1);
        if (counting) rep.states++;
      }
    }
  }

  vf::Report quiet; // sink for outcomes/witnesses of the shared prefix phase in shards != 0

  int run()
  {
    if (args.get("poison")[0] != 0) load_poison(args.get("poison"));
    // roots: one per configuration
    std::vector<uint32_t> frontier;
    counting = (args.shard == 0);
    for (size_t c = 0; c < cfgs.size(); c++) {
      Ctx ctx;
      ctx.checking = true;
      ctx.rep      = counting ? &rep : &quiet;
      ctx.opname   = "create";
      vf::set_current_case(replay_json(cfgs[c], {}, nullptr), F.name() + ":create");
      Instance   *in = F.fresh(cfgs[c], ctx);
      std::string k  = F.key(in);
      ctx.opname     = "destroy";
      F.finish(in, ctx);
      if (!ctx.internal.empty()) {
        fatal = ctx.internal;
        break;
      }
      if (ctx.failed) {
        rep.violation(F.name() + ":" + ctx.opname + ":" + ctx.kind, "on a fresh container: " + ctx.desc,
                      replay_json(cfgs[c], {}, nullptr));
        continue;
      }
      vf::Hash128 h = vf::hash128(cfgs[c].name + "|" + k);
      seen.insert(h);
      add_state(UINT32_MAX, Op(), 0, (uint16_t)c, h);
      frontier.push_back((uint32_t)st.size() - 1);
      if (counting) {
        rep.states++;
        rep.executions++;
      }
    }
    // shared prefix phase: until there are at least as many work units as shards (at most depth 2)
    int P = 0;
    while (fatal.empty() && (int)frontier.size() < args.nshards && P < 2 && P < maxdepth) {
      std::vector<uint32_t> next;
      for (uint32_t s : frontier) {
        expand(s, next);
        if (!fatal.empty()) break;
      }
      frontier = next;
      P++;
    }
    rep.counters["prefix_depth"] = (uint64_t)P;
    counting                     = true;
    std::deque<uint32_t> q;
    for (size_t j = 0; j < frontier.size(); j++)
      if ((int)(j % (size_t)args.nshards) == args.shard) q.push_back(frontier[j]);
    rep.counters["work_units"] = q.size();
    while (fatal.empty() && !q.empty()) {
      if (vf::now_s() > t_end) {
        deadline_hit = true;
        break;
      }
      uint32_t s = q.front();
      q.pop_front();
      if (st[s].depth >= maxdepth) {
        cut_by_depth = true;
        continue;
      }
      std::vector<uint32_t> next;
      expand(s, next);
      for (uint32_t n : next) q.push_back(n);
    }
    vf::watchdog(0);
    rep.exhaustive = !deadline_hit && !gave_up;
    rep.closed     = !deadline_hit && !gave_up && !cut_by_depth && fatal.empty();
    for (int c : blacklisted) rep.counters[std::string("operation_given_up_") + F.opname(c)] = 1;
    rep.counters["real_ops_executed"]     = real_ops;
    rep.counters["malloc0_calls"]         = malloc0_calls();
    rep.counters["states_left_in_queue"]  = q.size();
    if (!st.empty()) rep.sample(replay_json(cfgs[st.back().cfg], history((uint32_t)st.size() - 1), nullptr), 6);
    if (!fatal.empty()) rep.internal_errors.push_back(fatal);
    rep.write(args.out);
    if (!fatal.empty()) {
      fprintf(stderr, "exd: INTERNAL: %s\n", fatal.c_str());
      return 3;
    }
    return 0;
  }

  // --replay: execute exactly one recorded op sequence, every op fully checked
  int replay(const std::string &path)
  {
    JV r;
    if (!jparse(read_file(path), r)) {
      fprintf(stderr, "exd: cannot parse replay file %s\n", path.c_str());
      return 3;
    }
    Config          c;
    std::vector<Op> ops;
    if (!parse_replay(r, c, ops)) {
      fprintf(stderr, "exd: replay file %s is not an EX-D case\n", path.c_str());
      return 3;
    }
    printf("replay %s config %s, %zu operation(s)\n", F.name().c_str(), c.json().c_str(), ops.size());
    Ctx ctx;
    ctx.rep      = &rep;
    ctx.checking = true;
    dlog().ev.clear();
    Instance *in = F.fresh(c, ctx);
    size_t    i  = 0;
    for (; i < ops.size() && !ctx.failed; i++) {
      ctx.opname = F.opname(ops[i].c);
      F.apply(in, ops[i], ctx);
      printf("  %2zu %-22s %s\n", i + 1, F.op_json(ops[i]).c_str(), ctx.failed ? "MISMATCH" : "agrees with the model");
    }
    std::string failed_op = ctx.opname;
    if (!ctx.failed) {
      ctx.opname = failed_op = "destroy";
      F.finish(in, ctx);
      printf("  destroy: %s\n", ctx.failed ? "MISMATCH" : "callbacks and allocator ledger agree");
    } else {
      Ctx q;
      q.checking = false;
      F.finish(in, q);
    }
    if (!ctx.internal.empty()) {
      fprintf(stderr, "exd: INTERNAL: %s\n", ctx.internal.c_str());
      return 3;
    }
    if (ctx.failed) {
      printf("VIOLATION REPRODUCED key=%s:%s:%s\n  %s\n", F.name().c_str(), failed_op.c_str(), ctx.kind.c_str(),
             ctx.desc.c_str());
      return 1;
    }
    printf("no difference between c-ares and the reference model on this case\n");
    return 0;
  }
};

Family *make_array();
Family *make_slist();
Family *make_llist();
Family *make_buf();
Family *make_htable(const std::string &front);

} // namespace exd
