// EX-D families "htable" (generic ares_htable_t driven directly with harness
// callbacks) and "htable_<front>" (strvp, szvp, asvp, dict, vpvp, vpstr)
// against std::map.
//
// Key universe per configuration: A "active" keys that may be inserted,
// overwritten, removed in any order, plus a stack of B "background" keys that
// are pushed / popped in order, so that the table crosses both growth
// thresholds (16->32 at the 13th key, 32->64 at the 25th) in every combination
// of active keys while the search still closes.  The active keys are chosen so
// that they collide: a pair with equal hash modulo 64 (same chain at every
// size), a pair that shares a chain at 16 buckets and is split by the first
// expansion, and a pair that is split by the second expansion.
#include "exd_core.h"

namespace exd {
namespace {

struct HV {
  uint32_t id;
};
static void val_free_cb(void *p)
{
  if (!p) return; // strvp claim leaves a NULL value behind
  dlog().ev.push_back({ ((HV *)p)->id, 0 });
  delete (HV *)p; // a second call for the same value is an ASan double free
}
static void key_free_cb(void *p) { dlog().ev.push_back({ (uint32_t)((uintptr_t)p >> 6), 1 }); }

static unsigned int g_seed = 0;
static int          seed_hook(unsigned int *seed)
{
  *seed = g_seed;
  return 1;
}

// ---------------------------------------------------------------- front ends
struct Front {
  virtual ~Front() {}
  virtual bool           create()                                       = 0;
  virtual void           destroy()                                      = 0;
  virtual ares_htable_t *inner()                                        = 0;
  virtual const void    *keyptr(int cand, int variant)                  = 0; // pointer as the generic table sees the key
  virtual bool           insert(int cand, int variant, uint32_t valid)  = 0;
  virtual int            get(int cand, int variant, uint32_t *valid)    = 0; // 1 found, 0 not found, -1 API inconsistency
  virtual bool           remove(int cand, int variant)                  = 0;
  virtual size_t         num_keys()                                     = 0;
  virtual bool           has_keys() { return false; }
  virtual bool           keys(std::vector<int> &, std::string &) { return false; } // candidate numbers
  virtual bool           has_claim() { return false; }
  virtual int            claim(int, int, uint32_t *) { return 0; }
  virtual bool           case_insensitive() { return false; }
  virtual bool           frees_values() { return true; } // a value-free callback is observable
  virtual bool           frees_keys() { return false; }
};

static std::string strkey(int cand, int variant)
{
  char b[64];
  snprintf(b, sizeof b, variant ? "HOST%03d.EXAMPLE" : "host%03d.example", cand);
  return b;
}
static int strkey_cand(const char *s)
{
  if (strlen(s) < 7) return -1;
  return atoi(s + 4);
}

// generic table, harness-owned bucket type
struct GB {
  uint32_t key;
  uint32_t valid;
};
static int          g_identity_hash = 0;
static unsigned int g_hash(const void *key, unsigned int seed)
{
  uint32_t k = *(const uint32_t *)key;
  if (g_identity_hash) return k;
  return ares_htable_hash_FNV1a((const unsigned char *)&k, sizeof k, seed);
}
static const void *g_bucket_key(const void *b) { return &((const GB *)b)->key; }
static void        g_bucket_free(void *b)
{
  dlog().ev.push_back({ ((GB *)b)->valid, 0 });
  delete (GB *)b;
}
static ares_bool_t g_key_eq(const void *a, const void *b) { return *(const uint32_t *)a == *(const uint32_t *)b ? ARES_TRUE : ARES_FALSE; }

struct GenericFront : Front {
  ares_htable_t *h = nullptr;
  uint32_t       tmp = 0;
  bool           create() override { return (h = ares_htable_create(g_hash, g_bucket_key, g_bucket_free, g_key_eq)) != nullptr; }
  void           destroy() override
  {
    ares_htable_destroy(h);
    h = nullptr;
  }
  ares_htable_t *inner() override { return h; }
  const void    *keyptr(int cand, int) override
  {
    tmp = (uint32_t)cand + 1;
    return &tmp;
  }
  bool insert(int cand, int, uint32_t valid) override
  {
    GB *b = new GB{ (uint32_t)cand + 1, valid };
    if (!ares_htable_insert(h, b)) {
      delete b;
      return false;
    }
    return true;
  }
  int get(int cand, int, uint32_t *valid) override
  {
    uint32_t k = (uint32_t)cand + 1;
    GB      *b = (GB *)ares_htable_get(h, &k);
    if (!b) return 0;
    if (b->key != k) return -1;
    *valid = b->valid;
    return 1;
  }
  bool remove(int cand, int) override
  {
    uint32_t k = (uint32_t)cand + 1;
    return ares_htable_remove(h, &k) == ARES_TRUE;
  }
  size_t num_keys() override { return ares_htable_num_keys(h); }
  bool   has_keys() override { return true; }
  bool   keys(std::vector<int> &out, std::string &err) override
  {
    size_t       n   = 999999;
    const void **arr = ares_htable_all_buckets(h, &n);
    if (!arr) {
      if (n != 0) err = "ares_htable_all_buckets returned NULL with num " + std::to_string(n);
      return n == 0;
    }
    for (size_t i = 0; i < n; i++) out.push_back((int)((const GB *)arr[i])->key - 1);
    ares_free(arr);
    return true;
  }
};

struct SzvpFront : Front {
  ares_htable_szvp_t *h = nullptr;
  size_t              tmp = 0;
  static size_t       K(int cand) { return (size_t)(cand + 1) * 0x10001u; }
  bool                create() override { return (h = ares_htable_szvp_create(val_free_cb)) != nullptr; }
  void                destroy() override
  {
    ares_htable_szvp_destroy(h);
    h = nullptr;
  }
  ares_htable_t *inner() override { return exd_szvp_inner(h); }
  const void    *keyptr(int cand, int) override
  {
    tmp = K(cand);
    return &tmp;
  }
  bool insert(int cand, int, uint32_t valid) override
  {
    HV *v = new HV{ valid };
    if (!ares_htable_szvp_insert(h, K(cand), v)) {
      delete v;
      return false;
    }
    return true;
  }
  int get(int cand, int, uint32_t *valid) override
  {
    void       *v  = (void *)0x1;
    ares_bool_t ok = ares_htable_szvp_get(h, K(cand), &v);
    void       *d  = ares_htable_szvp_get_direct(h, K(cand));
    if (!ok) return (v == nullptr && d == nullptr) ? 0 : -1;
    if (v == nullptr || d != v) return -1;
    *valid = ((HV *)v)->id;
    return 1;
  }
  bool   remove(int cand, int) override { return ares_htable_szvp_remove(h, K(cand)) == ARES_TRUE; }
  size_t num_keys() override { return ares_htable_szvp_num_keys(h); }
};

struct AsvpFront : Front {
  ares_htable_asvp_t  *h = nullptr;
  ares_socket_t        tmp = 0;
  static ares_socket_t K(int cand) { return (ares_socket_t)(cand + 3); }
  bool                 create() override { return (h = ares_htable_asvp_create(val_free_cb)) != nullptr; }
  void                 destroy() override
  {
    ares_htable_asvp_destroy(h);
    h = nullptr;
  }
  ares_htable_t *inner() override { return exd_asvp_inner(h); }
  const void    *keyptr(int cand, int) override
  {
    tmp = K(cand);
    return &tmp;
  }
  bool insert(int cand, int, uint32_t valid) override
  {
    HV *v = new HV{ valid };
    if (!ares_htable_asvp_insert(h, K(cand), v)) {
      delete v;
      return false;
    }
    return true;
  }
  int get(int cand, int, uint32_t *valid) override
  {
    void       *v  = (void *)0x1;
    ares_bool_t ok = ares_htable_asvp_get(h, K(cand), &v);
    void       *d  = ares_htable_asvp_get_direct(h, K(cand));
    if (!ok) return (v == nullptr && d == nullptr) ? 0 : -1;
    if (v == nullptr || d != v) return -1;
    *valid = ((HV *)v)->id;
    return 1;
  }
  bool   remove(int cand, int) override { return ares_htable_asvp_remove(h, K(cand)) == ARES_TRUE; }
  size_t num_keys() override { return ares_htable_asvp_num_keys(h); }
  bool   has_keys() override { return true; }
  bool   keys(std::vector<int> &out, std::string &err) override
  {
    size_t         n   = 999999;
    ares_socket_t *arr = ares_htable_asvp_keys(h, &n);
    if (!arr) {
      if (n != 0) err = "ares_htable_asvp_keys returned NULL with num " + std::to_string(n);
      return n == 0;
    }
    for (size_t i = 0; i < n; i++) out.push_back((int)arr[i] - 3);
    ares_free(arr);
    return true;
  }
};

struct StrvpFront : Front {
  ares_htable_strvp_t *h = nullptr;
  std::string          tmp;
  bool                 create() override { return (h = ares_htable_strvp_create(val_free_cb)) != nullptr; }
  void                 destroy() override
  {
    ares_htable_strvp_destroy(h);
    h = nullptr;
  }
  ares_htable_t *inner() override { return exd_strvp_inner(h); }
  const void    *keyptr(int cand, int variant) override
  {
    tmp = strkey(cand, variant);
    return tmp.c_str();
  }
  bool insert(int cand, int variant, uint32_t valid) override
  {
    HV *v = new HV{ valid };
    if (!ares_htable_strvp_insert(h, strkey(cand, variant).c_str(), v)) {
      delete v;
      return false;
    }
    return true;
  }
  int get(int cand, int variant, uint32_t *valid) override
  {
    std::string k  = strkey(cand, variant);
    void       *v  = (void *)0x1;
    ares_bool_t ok = ares_htable_strvp_get(h, k.c_str(), &v);
    void       *d  = ares_htable_strvp_get_direct(h, k.c_str());
    if (!ok) return (v == nullptr && d == nullptr) ? 0 : -1;
    if (v == nullptr || d != v) return -1;
    *valid = ((HV *)v)->id;
    return 1;
  }
  bool   remove(int cand, int variant) override { return ares_htable_strvp_remove(h, strkey(cand, variant).c_str()) == ARES_TRUE; }
  size_t num_keys() override { return ares_htable_strvp_num_keys(h); }
  bool   has_claim() override { return true; }
  int    claim(int cand, int variant, uint32_t *valid) override
  {
    HV *v = (HV *)ares_htable_strvp_claim(h, strkey(cand, variant).c_str());
    if (!v) return 0;
    *valid = v->id;
    delete v;
    return 1;
  }
  bool case_insensitive() override { return true; }
};

struct DictFront : Front {
  ares_htable_dict_t *h = nullptr;
  std::string         tmp;
  bool                create() override { return (h = ares_htable_dict_create()) != nullptr; }
  void                destroy() override
  {
    ares_htable_dict_destroy(h);
    h = nullptr;
  }
  ares_htable_t *inner() override { return exd_dict_inner(h); }
  const void    *keyptr(int cand, int variant) override
  {
    tmp = strkey(cand, variant);
    return tmp.c_str();
  }
  bool insert(int cand, int variant, uint32_t valid) override
  {
    return ares_htable_dict_insert(h, strkey(cand, variant).c_str(), ("v" + std::to_string(valid)).c_str()) == ARES_TRUE;
  }
  int get(int cand, int variant, uint32_t *valid) override
  {
    std::string k  = strkey(cand, variant);
    const char *v  = "x";
    ares_bool_t ok = ares_htable_dict_get(h, k.c_str(), &v);
    const char *d  = ares_htable_dict_get_direct(h, k.c_str());
    if (!ok) return (v == nullptr && d == nullptr) ? 0 : -1;
    if (v == nullptr || d != v || v[0] != 'v') return -1;
    *valid = (uint32_t)atol(v + 1);
    return 1;
  }
  bool   remove(int cand, int variant) override { return ares_htable_dict_remove(h, strkey(cand, variant).c_str()) == ARES_TRUE; }
  size_t num_keys() override { return ares_htable_dict_num_keys(h); }
  bool   has_keys() override { return true; }
  bool   keys(std::vector<int> &out, std::string &err) override
  {
    size_t n   = 999999;
    char **arr = ares_htable_dict_keys(h, &n);
    if (!arr) {
      if (n != 0) err = "ares_htable_dict_keys returned NULL with num " + std::to_string(n);
      return n == 0;
    }
    for (size_t i = 0; i < n; i++) {
      out.push_back(strkey_cand(arr[i]));
      ares_free(arr[i]);
    }
    ares_free(arr);
    return true;
  }
  bool case_insensitive() override { return true; }
  bool frees_values() override { return false; }
};

struct VpvpFront : Front {
  ares_htable_vpvp_t *h = nullptr;
  static void        *K(int cand) { return (void *)(uintptr_t)(0x100000 + 64 * (uintptr_t)cand); }
  bool                create() override { return (h = ares_htable_vpvp_create(key_free_cb, val_free_cb)) != nullptr; }
  void                destroy() override
  {
    ares_htable_vpvp_destroy(h);
    h = nullptr;
  }
  ares_htable_t *inner() override { return exd_vpvp_inner(h); }
  const void    *keyptr(int cand, int) override { return K(cand); }
  bool           insert(int cand, int, uint32_t valid) override
  {
    HV *v = new HV{ valid };
    if (!ares_htable_vpvp_insert(h, K(cand), v)) {
      delete v;
      return false;
    }
    return true;
  }
  int get(int cand, int, uint32_t *valid) override
  {
    void       *v  = (void *)0x1;
    ares_bool_t ok = ares_htable_vpvp_get(h, K(cand), &v);
    void       *d  = ares_htable_vpvp_get_direct(h, K(cand));
    if (!ok) return (v == nullptr && d == nullptr) ? 0 : -1;
    if (v == nullptr || d != v) return -1;
    *valid = ((HV *)v)->id;
    return 1;
  }
  bool   remove(int cand, int) override { return ares_htable_vpvp_remove(h, K(cand)) == ARES_TRUE; }
  size_t num_keys() override { return ares_htable_vpvp_num_keys(h); }
  bool   frees_keys() override { return true; }
};

struct VpstrFront : Front {
  ares_htable_vpstr_t *h = nullptr;
  static void         *K(int cand) { return (void *)(uintptr_t)(0x100000 + 64 * (uintptr_t)cand); }
  bool                 create() override { return (h = ares_htable_vpstr_create()) != nullptr; }
  void                 destroy() override
  {
    ares_htable_vpstr_destroy(h);
    h = nullptr;
  }
  ares_htable_t *inner() override { return exd_vpstr_inner(h); }
  const void    *keyptr(int cand, int) override { return K(cand); }
  bool           insert(int cand, int, uint32_t valid) override
  {
    return ares_htable_vpstr_insert(h, K(cand), ("v" + std::to_string(valid)).c_str()) == ARES_TRUE;
  }
  int get(int cand, int, uint32_t *valid) override
  {
    const char *v  = "x";
    ares_bool_t ok = ares_htable_vpstr_get(h, K(cand), &v);
    const char *d  = ares_htable_vpstr_get_direct(h, K(cand));
    if (!ok) return (v == nullptr && d == nullptr) ? 0 : -1;
    if (v == nullptr || d != v || v[0] != 'v') return -1;
    *valid = (uint32_t)atol(v + 1);
    return 1;
  }
  bool   remove(int cand, int) override { return ares_htable_vpstr_remove(h, K(cand)) == ARES_TRUE; }
  size_t num_keys() override { return ares_htable_vpstr_num_keys(h); }
  bool   frees_values() override { return false; }
};

static Front *make_front(const std::string &f)
{
  if (f == "generic") return new GenericFront;
  if (f == "szvp") return new SzvpFront;
  if (f == "asvp") return new AsvpFront;
  if (f == "strvp") return new StrvpFront;
  if (f == "dict") return new DictFront;
  if (f == "vpvp") return new VpvpFront;
  if (f == "vpstr") return new VpstrFront;
  return nullptr;
}

// ------------------------------------------------------------------- family
enum { PUT, DEL, CLAIM, BG_PUSH, BG_POP, GET };

struct HInst : Instance {
  Front                     *fr = nullptr;
  std::map<int, uint32_t>    model;   // key index -> value id
  std::map<int, int>         variant; // spelling stored (case-insensitive fronts)
  std::vector<int>           cand;    // key index -> candidate number
  int                        A = 0, B = 0, bg = 0;
  uint32_t                   next_val = 1;
  bool                       expanded_with_collisions = false;
};

struct HtableFamily : Family {
  std::string front;
  std::map<std::string, std::vector<int>> keycache;
  explicit HtableFamily(const std::string &f) : front(f) {}
  std::string name() const override { return front == "generic" ? "htable" : "htable_" + front; }
  const std::vector<const char *> &opnames() const override
  {
    static const std::vector<const char *> n = { "put", "del", "claim", "bg_push", "bg_pop", "get" };
    return n;
  }
  int A(const vf::Args &a) const { return (int)a.geti("active", front == "generic" ? (a.tier == "quick" ? 6 : 8) : (a.tier == "quick" ? 4 : 6)); }
  int B(const vf::Args &a) const { return (int)a.geti("background", 22); }
  std::vector<Config> configs(const vf::Args &a) const override
  {
    std::vector<Config> v;
    const unsigned      seeds[3] = { 0u, 0x9e3779b9u, 0xdeadbeefu };
    for (int i = 0; i < 3; i++) {
      Config c;
      char   b[32];
      snprintf(b, sizeof b, "seed-%08x", seeds[i]);
      c.name      = b;
      c.p["seed"] = seeds[i];
      c.p["A"]    = A(a);
      c.p["B"]    = B(a);
      v.push_back(c);
    }
    if (front == "generic") {
      Config c;
      c.name          = "identity-hash";
      c.p["seed"]     = 7;
      c.p["identity"] = 1;
      c.p["A"]        = A(a);
      c.p["B"]        = B(a);
      v.push_back(c);
    }
    return v;
  }
  std::string bound(const vf::Args &a) const override
  {
    return "closure (fixpoint) of all operation sequences over " + std::to_string(A(a)) +
           " active keys (chosen to collide; insert-or-overwrite / remove / lookup in any order" +
           (front == "strvp" ? " / claim" : "") + ") plus a stack of " + std::to_string(B(a)) +
           " background keys pushed and popped in order (crosses 16->32->64 buckets); 3 hash seeds" +
           (front == "generic" ? " + 1 identity-hash configuration" : "");
  }

  // deterministic choice of the key universe for (front, seed): candidate numbers of active + background keys
  const std::vector<int> &universe(const Config &c, Front *fr, Ctx &ctx)
  {
    std::string ck = c.name + "/" + std::to_string(c.get("A")) + "/" + std::to_string(c.get("B"));
    auto        it = keycache.find(ck);
    if (it != keycache.end()) return it->second;
    int                   A = (int)c.get("A"), B = (int)c.get("B");
    const int             NC = 600;
    std::vector<unsigned> h((size_t)NC);
    for (int i = 0; i < NC; i++) h[(size_t)i] = exd_ht_hash(fr->inner(), fr->keyptr(i, 0));
    std::vector<int>  act;
    std::vector<bool> used((size_t)NC, false);
    auto take_pair = [&](std::function<bool(unsigned, unsigned)> pred) {
      for (int i = 0; i < NC; i++) {
        if (used[(size_t)i]) continue;
        for (int j = i + 1; j < NC; j++) {
          if (used[(size_t)j]) continue;
          if (pred(h[(size_t)i], h[(size_t)j])) {
            used[(size_t)i] = used[(size_t)j] = true;
            act.push_back(i);
            act.push_back(j);
            return true;
          }
        }
      }
      return false;
    };
    bool ok = true;
    // same chain at 16, 32 and 64 buckets
    if ((int)act.size() + 2 <= A) ok = ok && take_pair([](unsigned x, unsigned y) { return (x & 63) == (y & 63); });
    // same chain at 16, split by the first expansion
    if ((int)act.size() + 2 <= A) ok = ok && take_pair([](unsigned x, unsigned y) { return (x & 15) == (y & 15) && ((x ^ y) & 16); });
    // same chain at 16 and 32, split by the second expansion
    if ((int)act.size() + 2 <= A) ok = ok && take_pair([](unsigned x, unsigned y) { return (x & 31) == (y & 31) && ((x ^ y) & 32); });
    // a third member for the first chain (chains of length 3: 2 pre-allocated lists needed on split)
    if ((int)act.size() + 1 <= A && !act.empty()) {
      unsigned h0 = h[(size_t)act[0]];
      for (int i = 0; i < NC; i++)
        if (!used[(size_t)i] && (h[(size_t)i] & 15) == (h0 & 15) && ((h[(size_t)i] ^ h0) & 48)) {
          used[(size_t)i] = true;
          act.push_back(i);
          break;
        }
    }
    if (!ok) ctx.internal = "could not find colliding key pairs among the candidates";
    std::vector<int> uni = act;
    for (int i = 0; i < NC && (int)uni.size() < A + B; i++)
      if (!used[(size_t)i]) {
        used[(size_t)i] = true;
        uni.push_back(i);
      }
    return keycache[ck] = uni;
  }

  Instance *fresh(const Config &c, Ctx &ctx) override
  {
    vf::ledger().reset();
    dlog().ev.clear();
    ares_verif_hooks.htable_seed = seed_hook;
    g_seed                       = (unsigned)c.get("seed");
    g_identity_hash              = (int)c.get("identity", 0);
    HInst *in                    = new HInst;
    in->A                        = (int)c.get("A");
    in->B                        = (int)c.get("B");
    in->fr                       = make_front(front);
    if (!in->fr || !in->fr->create()) {
      ctx.internal = "cannot create hash table front " + front;
      return in;
    }
    if (exd_ht_seed(in->fr->inner()) != g_seed) ctx.internal = "hash seed hook was not honoured";
    in->cand = universe(c, in->fr, ctx);
    return in;
  }

  void enabled(Instance *ip, std::vector<Op> &ops) override
  {
    HInst *in   = (HInst *)ip;
    auto   push = [&](int c, long a) {
      Op o;
      o.c = c;
      o.a = a;
      ops.push_back(o);
    };
    for (long k = 0; k < in->A; k++) {
      push(PUT, k);
      push(DEL, k);
      if (in->fr->has_claim()) push(CLAIM, k);
    }
    if (in->bg < in->B) push(BG_PUSH, 0);
    push(BG_POP, 0); // with an empty stack: removal of a key that was never inserted
    push(GET, 0);
    push(GET, in->A + in->B - 1);
  }

  void pre_witness(Instance *ip, const Op &op, Ctx &ctx) override
  {
    HInst *in = (HInst *)ip;
    if (op.c == PUT && in->model.count((int)op.a)) ctx.witness("overwrite");
    if ((op.c == DEL || op.c == CLAIM) && !in->model.count((int)op.a)) ctx.witness("remove_missing");
    if (op.c == BG_POP && in->bg == 0) ctx.witness("remove_missing");
  }

  void compare(HInst *in, Ctx &ctx)
  {
    Front *fr = in->fr;
    if (fr->num_keys() != in->model.size()) {
      ctx.fail("len-mismatch", "num_keys=" + std::to_string(fr->num_keys()) + " model=" + std::to_string(in->model.size()));
      return;
    }
    int nvar = fr->case_insensitive() ? 2 : 1;
    for (int k = 0; k < in->A + in->B; k++) {
      auto it = in->model.find(k);
      for (int v = 0; v < nvar; v++) {
        uint32_t val = 0;
        int      r   = fr->get(in->cand[(size_t)k], v, &val);
        if (r < 0) {
          ctx.fail("get-mismatch", "get and get_direct disagree for key #" + std::to_string(k));
          return;
        }
        if ((r == 1) != (it != in->model.end())) {
          ctx.fail("get-mismatch", "key #" + std::to_string(k) + (v ? " (other letter case)" : "") + (r ? " is found but was removed / never inserted" : " is NOT found but is live in the model") +
                                     " (model holds " + std::to_string(in->model.size()) + " keys)");
          return;
        }
        if (r == 1 && val != it->second) {
          ctx.fail("get-mismatch", "key #" + std::to_string(k) + " maps to value " + std::to_string(val) + ", latest inserted value is " + std::to_string(it->second));
          return;
        }
      }
    }
    if (fr->has_keys()) {
      std::vector<int> got, want;
      std::string      err;
      if (!fr->keys(got, err)) {
        if (!in->model.empty() || !err.empty()) {
          ctx.fail("keys-mismatch", err.empty() ? "keys() failed on a non-empty table" : err);
          return;
        }
      }
      for (auto &kv : in->model) want.push_back(in->cand[(size_t)kv.first]);
      std::sort(got.begin(), got.end());
      std::sort(want.begin(), want.end());
      if (got != want) {
        ctx.fail("keys-mismatch", "keys() returns candidates " + vec_str(got) + " model expects " + vec_str(want));
        return;
      }
    }
  }

  void apply(Instance *ip, const Op &op, Ctx &ctx) override
  {
    HInst *in = (HInst *)ip;
    Front *fr = in->fr;
    std::vector<std::pair<uint32_t, int>> expd;
    unsigned size0 = exd_ht_size(fr->inner());
    size_t   coll0 = exd_ht_num_collisions(fr->inner());
    auto     keyfree_id = [&](int k) { return (uint32_t)((0x100000 + 64 * (uintptr_t)in->cand[(size_t)k]) >> 6); };
    auto put = [&](int k) {
      uint32_t val  = in->next_val++;
      auto     it   = in->model.find(k);
      bool     over = it != in->model.end();
      int      var  = fr->case_insensitive() && over ? !in->variant[k] : 0; // fresh: lower case; overwrite: the other letter case
      bool     ok   = fr->insert(in->cand[(size_t)k], var, val);
      if (!ok) {
        ctx.fail("retval-mismatch", std::string("insert of ") + (over ? "an existing" : "a fresh") + " key returned ARES_FALSE");
        return;
      }
      if (over) {
        if (fr->frees_values()) expd.push_back({ it->second, 0 });
        if (fr->frees_keys()) expd.push_back({ keyfree_id(k), 1 });
      }
      in->model[k]   = val;
      in->variant[k] = var;
      if (ctx.checking) {
        ctx.outcome(over ? "overwrite" : "fresh");
      }
    };
    auto del = [&](int k, bool claim) {
      auto it   = in->model.find(k);
      bool live = it != in->model.end();
      int  var  = fr->case_insensitive() && live ? !in->variant[k] : 0;
      if (claim) {
        uint32_t val = 0;
        int      r   = fr->claim(in->cand[(size_t)k], var, &val);
        if ((r == 1) != live || (live && val != it->second)) {
          ctx.fail("retval-mismatch", std::string("claim returned ") + (r ? "value " + std::to_string(val) : "NULL") + ", model " + (live ? "holds value " + std::to_string(it->second) : "does not hold the key"));
          return;
        }
        if (live && fr->frees_keys()) expd.push_back({ keyfree_id(k), 1 });
      } else {
        bool r = fr->remove(in->cand[(size_t)k], var);
        if (r != live) {
          ctx.fail("retval-mismatch", std::string("remove returned ") + (r ? "TRUE" : "FALSE") + " for a key that is " + (live ? "live" : "not") + " in the model");
          return;
        }
        if (live) {
          if (fr->frees_values()) expd.push_back({ it->second, 0 });
          if (fr->frees_keys()) expd.push_back({ keyfree_id(k), 1 });
        }
      }
      if (live) in->model.erase(it);
      if (ctx.checking) {
        ctx.outcome(live ? "existing" : "missing");
      }
    };
    switch (op.c) {
      case PUT: put((int)op.a); break;
      case DEL: del((int)op.a, false); break;
      case CLAIM: del((int)op.a, true); break;
      case BG_PUSH:
        put(in->A + in->bg);
        in->bg++;
        break;
      case BG_POP:
        if (in->bg > 0) {
          in->bg--;
          del(in->A + in->bg, false);
        } else del(in->A, false);
        break;
      case GET:
        if (ctx.checking) ctx.outcome(in->model.count((int)op.a) ? "found" : "absent");
        break;
    }
    if (!ctx.checking) {
      dlog().ev.clear();
      return;
    }
    if (ctx.failed) return;
    ctx.expect_dlog(expd, "value/key free callbacks");
    if (ctx.failed) return;
    compare(in, ctx);
    unsigned size1 = exd_ht_size(fr->inner());
    size_t   coll1 = exd_ht_num_collisions(fr->inner());
    if (size1 > size0) {
      ctx.witness("expanded");
      if (size1 >= 64) ctx.witness("expanded_twice");
      if (coll0 > 0) ctx.witness("expanded_with_collisions");
      if (coll1 < coll0) ctx.witness("chain_split_by_expansion");
    }
    if (coll1 > coll0 && size1 == size0) ctx.witness("collision");
  }

  std::string key(Instance *ip) override
  {
    HInst         *in = (HInst *)ip;
    ares_htable_t *h  = in->fr->inner();
    unsigned       sz = exd_ht_size(h);
    std::string    k  = "s" + std::to_string(exd_ht_seed(h)) + "z" + std::to_string(sz) + "n" + std::to_string(exd_ht_num_keys(h)) + "c" +
                    std::to_string(exd_ht_num_collisions(h)) + "t" + std::to_string(exd_ht_total_chain(h)) + "b" + std::to_string(in->bg) + "|";
    // live key set: the background stack depth plus, for every live ACTIVE key, its bucket and its rank among
    // the active keys chained in that bucket (chain order relative to background keys is not part of the key:
    // lookups, removals and the rehash find entries by key equality wherever they are in a chain)
    std::map<unsigned, std::vector<std::pair<long, int>>> chains;
    for (auto &kv : in->model) {
      if (kv.first >= in->A) continue;
      const void *kp  = in->fr->keyptr(in->cand[(size_t)kv.first], in->variant[kv.first]);
      unsigned    idx = exd_ht_hash(h, kp) & (sz - 1);
      chains[idx].push_back({ exd_ht_chainpos(h, kp), kv.first });
    }
    for (auto &c : chains) {
      std::sort(c.second.begin(), c.second.end());
      k += "@" + std::to_string(c.first) + ":";
      for (auto &e : c.second) {
        k += (e.first < 0 ? "?" : "") + std::to_string(e.second);
        if (in->fr->case_insensitive()) k += in->variant[e.second] ? "U" : "l";
        k += ".";
      }
      k += "/" + std::to_string(exd_ht_bucket_len(h, c.first));
    }
    return k;
  }

  void finish(Instance *ip, Ctx &ctx) override
  {
    HInst *in = (HInst *)ip;
    dlog().ev.clear();
    if (in->fr) {
      std::vector<std::pair<uint32_t, int>> expd;
      for (auto &kv : in->model) {
        if (in->fr->frees_values()) expd.push_back({ kv.second, 0 });
        if (in->fr->frees_keys()) expd.push_back({ (uint32_t)((0x100000 + 64 * (uintptr_t)in->cand[(size_t)kv.first]) >> 6), 1 });
      }
      in->fr->destroy();
      ctx.expect_dlog(expd, "destroy");
      delete in->fr;
    }
    check_ledger_empty(ctx, name().c_str());
    ares_verif_hooks.htable_seed = nullptr;
    delete in;
  }
};

} // namespace

Family *make_htable(const std::string &front)
{
  std::unique_ptr<Front> probe(make_front(front));
  if (!probe) return nullptr;
  return new HtableFamily(front);
}

} // namespace exd
