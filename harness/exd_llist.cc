// EX-D family "llist": two ares_llist_t with moves between them against two std::list.
#include "exd_core.h"

namespace exd {
namespace {

struct LD {
  uint32_t id;
};
static void d0(void *p) { dlog().ev.push_back({ ((LD *)p)->id, 0 }); }
static void d1(void *p) { dlog().ev.push_back({ ((LD *)p)->id, 1 }); }

enum { INSERT_FIRST, INSERT_LAST, INSERT_BEFORE, INSERT_AFTER, DESTROY, CLAIM, REPLACE, MV_FIRST, MV_LAST, CLEAR, REPLACE_DESTRUCTOR };

struct LInst : Instance {
  ares_llist_t           *l[2] = { nullptr, nullptr };
  std::list<uint32_t>     m[2];
  int                     cb[2] = { 0, 0 };
  std::map<uint32_t, LD *> owned;
  uint32_t                next_id = 1;
  int                     N = 5;
};

struct LlistFamily : Family {
  std::string name() const override { return "llist"; }
  const std::vector<const char *> &opnames() const override
  {
    static const std::vector<const char *> n = { "insert_first", "insert_last", "insert_before", "insert_after", "destroy", "claim",
                                                 "replace",      "mv_first",    "mv_last",       "clear",        "replace_destructor" };
    return n;
  }
  static int N(const vf::Args &a) { return (int)a.geti("n", a.tier == "quick" ? 5 : 8); }
  std::vector<Config> configs(const vf::Args &a) const override
  {
    Config c;
    c.name   = "two-lists";
    c.p["N"] = N(a);
    return { c };
  }
  std::string bound(const vf::Args &a) const override
  {
    return "closure (fixpoint) of all operation sequences on two lists with at most " + std::to_string(N(a)) +
           " live nodes in total: insert first/last, insert before/after EVERY node, destroy/claim/replace EVERY node, move EVERY node to the "
           "head/tail of either list, clear, replace destructor (2 callbacks per list)";
  }
  Instance *fresh(const Config &c, Ctx &ctx) override
  {
    vf::ledger().reset();
    dlog().ev.clear();
    LInst *in = new LInst;
    in->N     = (int)c.get("N", 5);
    for (int i = 0; i < 2; i++) {
      in->l[i] = ares_llist_create(d0);
      if (!in->l[i]) ctx.internal = "ares_llist_create failed";
    }
    return in;
  }
  void enabled(Instance *ip, std::vector<Op> &ops) override
  {
    LInst *in    = (LInst *)ip;
    long   total = (long)(in->m[0].size() + in->m[1].size());
    auto   push  = [&](int c, long a, long b) {
      Op o;
      o.c = c;
      o.a = a;
      o.b = b;
      ops.push_back(o);
    };
    for (long L = 0; L < 2; L++) {
      long n = (long)in->m[L].size();
      if (total < in->N) {
        push(INSERT_FIRST, L, 0);
        push(INSERT_LAST, L, 0);
        for (long p = 0; p < n; p++) {
          push(INSERT_BEFORE, L, p);
          push(INSERT_AFTER, L, p);
        }
      }
      for (long p = 0; p < n; p++) {
        push(DESTROY, L, p);
        push(CLAIM, L, p);
        push(REPLACE, L, p);
        for (long dst = 0; dst < 2; dst++) {
          push(MV_FIRST, L * 100 + p, dst);
          push(MV_LAST, L * 100 + p, dst);
        }
      }
      push(CLEAR, L, 0);
      push(REPLACE_DESTRUCTOR, L, 0);
    }
  }
  void pre_witness(Instance *ip, const Op &op, Ctx &ctx) override
  {
    LInst *in = (LInst *)ip;
    if (op.c == INSERT_BEFORE && op.b > 0) ctx.witness("insert_before_middle");
    if (op.c == INSERT_AFTER && (size_t)op.b + 1 < in->m[op.a].size()) ctx.witness("insert_after_middle");
    if (op.c == REPLACE) ctx.witness("replaced_value");
    if (op.c == REPLACE_DESTRUCTOR) ctx.witness("destructor_replaced");
    if (op.c == MV_FIRST || op.c == MV_LAST) {
      long L = op.a / 100, dst = op.b;
      if (L != dst) ctx.witness("moved_between_lists");
      if (L != dst && !in->m[dst].empty() && in->m[L].size() > 1) ctx.witness("moved_middle_between_nonempty_lists");
    }
  }

  ares_llist_node_t *node_at(LInst *in, int L, size_t pos)
  {
    ares_llist_node_t *n = ares_llist_node_first(in->l[L]);
    for (size_t i = 0; n && i < pos; i++) n = ares_llist_node_next(n);
    return n;
  }
  LD *newdata(LInst *in)
  {
    LD *d            = new LD{ in->next_id++ };
    in->owned[d->id] = d;
    return d;
  }
  void drop(LInst *in, uint32_t id)
  {
    auto it = in->owned.find(id);
    if (it != in->owned.end()) {
      delete it->second;
      in->owned.erase(it);
    }
  }

  void compare(LInst *in, Ctx &ctx)
  {
    for (int L = 0; L < 2 && !ctx.failed; L++) {
      size_t                n = in->m[L].size();
      std::vector<uint32_t> want(in->m[L].begin(), in->m[L].end());
      std::string           tag = "list " + std::to_string(L) + ": ";
      if (ares_llist_len(in->l[L]) != n) {
        ctx.fail("len-mismatch", tag + "ares_llist_len=" + std::to_string(ares_llist_len(in->l[L])) + " model=" + std::to_string(n));
        return;
      }
      std::vector<ares_llist_node_t *> fwd, bwd;
      std::vector<uint32_t>            ids, rids;
      for (ares_llist_node_t *x = ares_llist_node_first(in->l[L]); x && fwd.size() <= n + 1; x = ares_llist_node_next(x)) {
        fwd.push_back(x);
        LD *d = (LD *)ares_llist_node_val(x);
        ids.push_back(d ? d->id : 0);
      }
      if (ids != want) {
        ctx.fail("order-mismatch", tag + "first->next traversal gives " + vec_str(ids) + " model expects " + vec_str(want));
        return;
      }
      for (ares_llist_node_t *x = ares_llist_node_last(in->l[L]); x && bwd.size() <= n + 1; x = ares_llist_node_prev(x)) {
        bwd.push_back(x);
        LD *d = (LD *)ares_llist_node_val(x);
        rids.push_back(d ? d->id : 0);
      }
      std::reverse(bwd.begin(), bwd.end());
      std::reverse(rids.begin(), rids.end());
      if (bwd != fwd) {
        ctx.fail("backward-mismatch", tag + "last->prev traversal gives (reversed) " + vec_str(rids) + " model expects " + vec_str(want));
        return;
      }
      for (size_t i = 0; i < n; i++) {
        if (ares_llist_node_idx(in->l[L], i) != fwd[i]) {
          ctx.fail("accessor-mismatch", tag + "ares_llist_node_idx(" + std::to_string(i) + ") is not the i-th node of the traversal");
          return;
        }
        if (ares_llist_node_parent(fwd[i]) != in->l[L]) {
          ctx.fail("accessor-mismatch", tag + "ares_llist_node_parent of node " + std::to_string(i) + " is another list");
          return;
        }
      }
      if (ares_llist_node_idx(in->l[L], n) != nullptr) {
        ctx.fail("accessor-mismatch", tag + "ares_llist_node_idx(len) is not NULL");
        return;
      }
      LD *fv = (LD *)ares_llist_first_val(in->l[L]), *lv = (LD *)ares_llist_last_val(in->l[L]);
      if (n == 0 ? (fv || lv) : (!fv || !lv || fv->id != want.front() || lv->id != want.back())) {
        ctx.fail("accessor-mismatch", tag + "first_val/last_val disagree with the model");
        return;
      }
    }
  }

  void apply(Instance *ip, const Op &op, Ctx &ctx) override
  {
    LInst *in = (LInst *)ip;
    std::vector<std::pair<uint32_t, int>> expd;
    auto nth = [](std::list<uint32_t> &l, size_t p) {
      auto it = l.begin();
      std::advance(it, (long)p);
      return it;
    };
    switch (op.c) {
      case INSERT_FIRST:
      case INSERT_LAST: {
        int L  = (int)op.a;
        LD *d  = newdata(in);
        ares_llist_node_t *nd = op.c == INSERT_FIRST ? ares_llist_insert_first(in->l[L], d) : ares_llist_insert_last(in->l[L], d);
        if (op.c == INSERT_FIRST) in->m[L].push_front(d->id);
        else in->m[L].push_back(d->id);
        if (!nd || ares_llist_node_val(nd) != d) ctx.fail("retval-mismatch", "insert did not return a node holding the value");
        ctx.outcome("ok");
        break;
      }
      case INSERT_BEFORE:
      case INSERT_AFTER: {
        int                L  = (int)op.a;
        size_t             p  = (size_t)op.b, n = in->m[L].size();
        ares_llist_node_t *at = node_at(in, L, p);
        if (!at) {
          ctx.internal = "position out of range in op (model/alphabet bug)";
          return;
        }
        LD                *d  = newdata(in);
        ares_llist_node_t *nd = op.c == INSERT_BEFORE ? ares_llist_insert_before(at, d) : ares_llist_insert_after(at, d);
        in->m[L].insert(nth(in->m[L], op.c == INSERT_BEFORE ? p : p + 1), d->id);
        if (!nd || ares_llist_node_val(nd) != d) ctx.fail("retval-mismatch", "insert did not return a node holding the value");
        ctx.outcome(op.c == INSERT_BEFORE ? (p == 0 ? "at-head" : "in-middle") : (p + 1 == n ? "at-tail" : "in-middle"));
        break;
      }
      case DESTROY:
      case CLAIM:
      case REPLACE: {
        int                L  = (int)op.a;
        size_t             p  = (size_t)op.b;
        ares_llist_node_t *at = node_at(in, L, p);
        if (!at) {
          ctx.internal = "position out of range in op (model/alphabet bug)";
          return;
        }
        LD      *d  = (LD *)ares_llist_node_val(at);
        uint32_t id = d->id;
        if (op.c == DESTROY) {
          ares_llist_node_destroy(at);
          expd.push_back({ id, in->cb[L] });
          in->m[L].erase(nth(in->m[L], p));
          drop(in, id);
        } else if (op.c == CLAIM) {
          void *v = ares_llist_node_claim(at);
          if (v != d) ctx.fail("retval-mismatch", "ares_llist_node_claim returned another value");
          in->m[L].erase(nth(in->m[L], p));
          drop(in, id);
        } else {
          LD *nd2 = newdata(in);
          ares_llist_node_replace(at, nd2);
          expd.push_back({ id, in->cb[L] });
          *nth(in->m[L], p) = nd2->id;
          drop(in, id);
        }
        ctx.outcome("ok");
        break;
      }
      case MV_FIRST:
      case MV_LAST: {
        int                L = (int)(op.a / 100), dst = (int)op.b;
        size_t             p  = (size_t)(op.a % 100);
        ares_llist_node_t *at = node_at(in, L, p);
        if (!at) {
          ctx.internal = "position out of range in op (model/alphabet bug)";
          return;
        }
        uint32_t id = ((LD *)ares_llist_node_val(at))->id;
        if (op.c == MV_FIRST) ares_llist_node_mvparent_first(at, in->l[dst]);
        else ares_llist_node_mvparent_last(at, in->l[dst]);
        in->m[L].erase(nth(in->m[L], p));
        if (op.c == MV_FIRST) in->m[dst].push_front(id);
        else in->m[dst].push_back(id);
        ctx.outcome(L == dst ? "same-list" : "other-list");
        break;
      }
      case CLEAR: {
        int L = (int)op.a;
        for (uint32_t id : in->m[L]) expd.push_back({ id, in->cb[L] });
        ares_llist_clear(in->l[L]);
        for (uint32_t id : in->m[L]) drop(in, id);
        ctx.outcome(in->m[L].empty() ? "was-empty" : "cleared");
        in->m[L].clear();
        break;
      }
      case REPLACE_DESTRUCTOR: {
        int L     = (int)op.a;
        in->cb[L] = !in->cb[L];
        ares_llist_replace_destructor(in->l[L], in->cb[L] ? d1 : d0);
        ctx.outcome("ok");
        break;
      }
    }
    if (!ctx.checking) {
      dlog().ev.clear();
      return;
    }
    ctx.expect_dlog(expd, "node removal");
    if (ctx.failed) return;
    compare(in, ctx);
  }

  std::string key(Instance *ip) override
  {
    LInst *in = (LInst *)ip;
    // canonical dump of both lists' link structure; nodes named <list><forward position>
    std::map<const void *, std::string> nm;
    std::vector<ares_llist_node_t *>    nodes[2];
    for (int L = 0; L < 2; L++) {
      size_t cnt = exd_llist_cnt(in->l[L]);
      for (ares_llist_node_t *x = exd_llist_head(in->l[L]); x && nodes[L].size() <= cnt + 1; x = exd_llist_node_next(x)) {
        if (nm.count(x)) break;
        nm[x] = std::string(L ? "B" : "A") + std::to_string(nodes[L].size());
        nodes[L].push_back(x);
      }
    }
    auto name = [&](const void *p) -> std::string {
      if (!p) return "-";
      auto it = nm.find(p);
      return it == nm.end() ? "?" : it->second;
    };
    std::string k;
    for (int L = 0; L < 2; L++) {
      k += std::string(L ? "|B" : "A") + "cb" + std::to_string(in->cb[L]) + "c" + std::to_string(exd_llist_cnt(in->l[L])) + "h" + name(exd_llist_head(in->l[L])) +
           "t" + name(exd_llist_tail(in->l[L])) + ":";
      for (auto *x : nodes[L])
        k += name(exd_llist_node_prev(x)) + "<" + (exd_llist_node_parent(x) == in->l[L] ? "" : "!") + ">" + name(exd_llist_node_next(x)) + ",";
    }
    return k;
  }

  void finish(Instance *ip, Ctx &ctx) override
  {
    LInst *in = (LInst *)ip;
    dlog().ev.clear();
    std::vector<std::pair<uint32_t, int>> expd;
    for (int L = 0; L < 2; L++) {
      if (!in->l[L]) continue;
      for (uint32_t id : in->m[L]) expd.push_back({ id, in->cb[L] });
      ares_llist_destroy(in->l[L]);
    }
    ctx.expect_dlog(expd, "ares_llist_destroy");
    for (auto &kv : in->owned) delete kv.second;
    check_ledger_empty(ctx, "llist");
    delete in;
  }
};

} // namespace

Family *make_llist() { return new LlistFamily; }

} // namespace exd
