// EX-D driver: exd <family> --tier quick|thorough --shard i/n --out f.json
//              --deadline secs --resume k [--poison file] [--replay file] [--key value ...]
#include "exd_core.h"
#include <sys/personality.h>

using namespace exd;

// defaults only; the ASAN_OPTIONS set by vf still apply on top.  Executions are short and a
// use-after-free shows up immediately, so a small quarantine keeps 16 shards within memory.
extern "C" const char *__asan_default_options() { return "quarantine_size_mb=24:detect_leaks=0:allocator_may_return_null=1"; }

static void usage()
{
  fprintf(stderr,
          "usage: exd <array|slist|llist|buf|htable|htable_strvp|htable_szvp|htable_asvp|htable_dict|htable_vpvp|"
          "htable_vpstr> --tier quick|thorough --shard i/n --out file [--deadline s] [--replay file]\n");
}

int main(int argc, char **argv)
{
  // no address-space randomisation: nothing in EX-D depends on addresses, but this makes that moot
  if (!getenv("EXD_NO_REEXEC") && !(personality(0xffffffff) & ADDR_NO_RANDOMIZE)) {
    if (personality(ADDR_NO_RANDOMIZE) != -1) {
      setenv("EXD_NO_REEXEC", "1", 1);
      execv("/proc/self/exe", argv);
    }
  }
  vf::Args args = vf::parse_args(argc, argv);
  if (args.family.empty()) {
    usage();
    return 3;
  }
  std::unique_ptr<Family> fam;
  if (args.family == "array") fam.reset(make_array());
  else if (args.family == "slist") fam.reset(make_slist());
  else if (args.family == "llist") fam.reset(make_llist());
  else if (args.family == "buf") fam.reset(make_buf());
  else if (args.family == "htable") fam.reset(make_htable("generic"));
  else if (args.family.rfind("htable_", 0) == 0) fam.reset(make_htable(args.family.substr(7)));
  if (!fam) {
    usage();
    return 3;
  }
  if (ares_library_init_mem(ARES_LIB_INIT_ALL, x_malloc, x_free, x_realloc) != ARES_SUCCESS) {
    fprintf(stderr, "exd: ares_library_init_mem failed\n");
    return 3;
  }
  if (args.nshards < 1) args.nshards = 1;
  if (std::string(args.get("malloc0")) == "ptr") malloc0_returns_pointer() = true; // diagnostic variant, not used by the plan
  Engine eng(*fam, args);
  if (!args.replay.empty()) {
    return eng.replay(args.replay);
  }
  if (args.out.empty()) {
    usage();
    return 3;
  }
  vf::install_crash_handler(args.out + ".crash");
  return eng.run();
}
