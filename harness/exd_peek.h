/* EX-D: accessors for the private layout of the c-ares containers.
 *
 * Each exd_peek_<x>.c does `#include "<dir>/ares_<x>.c"` (the file from the
 * CURRENT $(REPO) tree) and adds the accessors below.  Because that
 * translation unit defines every external symbol of the included file, the
 * corresponding member of libcares.a is never pulled in by the linker, so the
 * binary still contains exactly one copy of the container code.
 *
 * Only the state-key dumper (and the skip-list coin tape reset) uses these;
 * the oracles use the public API and harness-side ledgers only.  If a field is
 * renamed in /repo the harness fails to COMPILE (reported by vf as an internal
 * error, never as a violation).
 */
#ifndef EXD_PEEK_H
#define EXD_PEEK_H

/* every includer has ares_private.h before this header */
#include "dsa/ares_htable.h"

#ifdef __cplusplus
extern "C" {
#endif

/* ---- ares_array ---- */
size_t      exd_array_cnt(const ares_array_t *a);
size_t      exd_array_offset(const ares_array_t *a);
size_t      exd_array_alloc(const ares_array_t *a);
size_t      exd_array_member_size(const ares_array_t *a);
const void *exd_array_raw(const ares_array_t *a);

/* ---- ares_slist ---- */
void               exd_slist_reset_rand(ares_slist_t *l); /* drop cached coin bits */
size_t             exd_slist_rand_bits(const ares_slist_t *l);
size_t             exd_slist_levels(const ares_slist_t *l);
size_t             exd_slist_max_level(const ares_slist_t *l);
size_t             exd_slist_cnt(const ares_slist_t *l);
ares_slist_node_t *exd_slist_head(const ares_slist_t *l, size_t lvl);
ares_slist_node_t *exd_slist_tail(const ares_slist_t *l);
size_t             exd_slist_node_levels(const ares_slist_node_t *n);
ares_slist_node_t *exd_slist_node_next(const ares_slist_node_t *n, size_t lvl);
ares_slist_node_t *exd_slist_node_prev(const ares_slist_node_t *n, size_t lvl);

/* ---- ares_llist ---- */
ares_llist_node_t *exd_llist_head(const ares_llist_t *l);
ares_llist_node_t *exd_llist_tail(const ares_llist_t *l);
size_t             exd_llist_cnt(const ares_llist_t *l);
ares_llist_node_t *exd_llist_node_next(const ares_llist_node_t *n);
ares_llist_node_t *exd_llist_node_prev(const ares_llist_node_t *n);
ares_llist_t      *exd_llist_node_parent(const ares_llist_node_t *n);

/* ---- ares_htable (generic) ---- */
unsigned int exd_ht_seed(const ares_htable_t *h);
unsigned int exd_ht_size(const ares_htable_t *h);
size_t       exd_ht_num_keys(const ares_htable_t *h);
size_t       exd_ht_num_collisions(const ares_htable_t *h);
/* full (unreduced) hash of key with the table's own hash callback and seed */
unsigned int exd_ht_hash(const ares_htable_t *h, const void *key);
/* position of key in the chain of its bucket (0 = first), -1 if absent */
long         exd_ht_chainpos(const ares_htable_t *h, const void *key);
/* sum of all chain lengths / number of allocated-but-empty chains */
size_t       exd_ht_total_chain(const ares_htable_t *h);
size_t       exd_ht_bucket_len(const ares_htable_t *h, unsigned int idx);

/* ---- typed fronts: the generic table inside ---- */
ares_htable_t *exd_strvp_inner(const ares_htable_strvp_t *h);
ares_htable_t *exd_szvp_inner(const ares_htable_szvp_t *h);
ares_htable_t *exd_asvp_inner(const ares_htable_asvp_t *h);
ares_htable_t *exd_dict_inner(const ares_htable_dict_t *h);
ares_htable_t *exd_vpvp_inner(const ares_htable_vpvp_t *h);
ares_htable_t *exd_vpstr_inner(const ares_htable_vpstr_t *h);

/* ---- ares_buf ---- */
size_t               exd_buf_offset(const ares_buf_t *b);
size_t               exd_buf_tag_offset(const ares_buf_t *b); /* SIZE_MAX = none */
size_t               exd_buf_data_len(const ares_buf_t *b);
size_t               exd_buf_alloc_len(const ares_buf_t *b);
const unsigned char *exd_buf_data(const ares_buf_t *b);
int                  exd_buf_is_const(const ares_buf_t *b);

#ifdef __cplusplus
}
#endif
#endif
