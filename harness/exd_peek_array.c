/* EX-D peek TU: compiles $(REPO)/src/lib/dsa/ares_array.c itself (see exd_peek.h) */
#include "dsa/ares_array.c"
#include "exd_peek.h"

size_t exd_array_cnt(const ares_array_t *a) { return a->cnt; }
size_t exd_array_offset(const ares_array_t *a) { return a->offset; }
size_t exd_array_alloc(const ares_array_t *a) { return a->alloc_cnt; }
size_t exd_array_member_size(const ares_array_t *a) { return a->member_size; }
const void *exd_array_raw(const ares_array_t *a) { return a->arr; }
