/* EX-D peek TU: compiles $(REPO)/src/lib/str/ares_buf.c itself (see exd_peek.h) */
#include "str/ares_buf.c"
#include "exd_peek.h"

size_t exd_buf_offset(const ares_buf_t *b) { return b->offset; }
size_t exd_buf_tag_offset(const ares_buf_t *b) { return b->tag_offset; }
size_t exd_buf_data_len(const ares_buf_t *b) { return b->data_len; }
size_t exd_buf_alloc_len(const ares_buf_t *b) { return b->alloc_buf_len; }
const unsigned char *exd_buf_data(const ares_buf_t *b) { return b->data; }
int exd_buf_is_const(const ares_buf_t *b) { return ares_buf_is_const(b) ? 1 : 0; }
