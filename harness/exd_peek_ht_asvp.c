/* EX-D peek TU: compiles $(REPO)/src/lib/dsa/ares_htable_asvp.c itself (see exd_peek.h) */
#include "dsa/ares_htable_asvp.c"
#include "exd_peek.h"

ares_htable_t *exd_asvp_inner(const ares_htable_asvp_t *h) { return h->hash; }
