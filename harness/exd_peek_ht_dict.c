/* EX-D peek TU: compiles $(REPO)/src/lib/dsa/ares_htable_dict.c itself (see exd_peek.h) */
#include "dsa/ares_htable_dict.c"
#include "exd_peek.h"

ares_htable_t *exd_dict_inner(const ares_htable_dict_t *h) { return h->hash; }
