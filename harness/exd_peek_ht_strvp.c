/* EX-D peek TU: compiles $(REPO)/src/lib/dsa/ares_htable_strvp.c itself (see exd_peek.h) */
#include "dsa/ares_htable_strvp.c"
#include "exd_peek.h"

ares_htable_t *exd_strvp_inner(const ares_htable_strvp_t *h) { return h->hash; }
