/* EX-D peek TU: compiles $(REPO)/src/lib/dsa/ares_htable_szvp.c itself (see exd_peek.h) */
#include "dsa/ares_htable_szvp.c"
#include "exd_peek.h"

ares_htable_t *exd_szvp_inner(const ares_htable_szvp_t *h) { return h->hash; }
