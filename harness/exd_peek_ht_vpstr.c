/* EX-D peek TU: compiles $(REPO)/src/lib/dsa/ares_htable_vpstr.c itself (see exd_peek.h) */
#include "dsa/ares_htable_vpstr.c"
#include "exd_peek.h"

ares_htable_t *exd_vpstr_inner(const ares_htable_vpstr_t *h) { return h->hash; }
