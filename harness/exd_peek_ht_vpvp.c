/* EX-D peek TU: compiles $(REPO)/src/lib/dsa/ares_htable_vpvp.c itself (see exd_peek.h) */
#include "dsa/ares_htable_vpvp.c"
#include "exd_peek.h"

ares_htable_t *exd_vpvp_inner(const ares_htable_vpvp_t *h) { return h->hash; }
