/* EX-D peek TU: compiles $(REPO)/src/lib/dsa/ares_htable.c itself (see exd_peek.h) */
#include "dsa/ares_htable.c"
#include "exd_peek.h"

unsigned int exd_ht_seed(const ares_htable_t *h) { return h->seed; }
unsigned int exd_ht_size(const ares_htable_t *h) { return h->size; }
size_t exd_ht_num_keys(const ares_htable_t *h) { return h->num_keys; }
size_t exd_ht_num_collisions(const ares_htable_t *h) { return h->num_collisions; }
unsigned int exd_ht_hash(const ares_htable_t *h, const void *key) { return h->hash(key, h->seed); }
long exd_ht_chainpos(const ares_htable_t *h, const void *key)
{
  unsigned int       idx = h->hash(key, h->seed) & (h->size - 1);
  ares_llist_node_t *node;
  long               pos   = 0;
  size_t             guard = 0;
  for (node = ares_llist_node_first(h->buckets[idx]); node != NULL && guard < 100000;
       node = ares_llist_node_next(node), pos++, guard++) {
    if (h->key_eq(key, h->bucket_key(ares_llist_node_val(node)))) {
      return pos;
    }
  }
  return -1;
}
size_t exd_ht_total_chain(const ares_htable_t *h)
{
  size_t       tot = 0;
  unsigned int i;
  for (i = 0; i < h->size; i++) {
    tot += ares_llist_len(h->buckets[i]);
  }
  return tot;
}
size_t exd_ht_bucket_len(const ares_htable_t *h, unsigned int idx)
{
  return idx < h->size ? ares_llist_len(h->buckets[idx]) : 0;
}
