/* EX-D peek TU: compiles $(REPO)/src/lib/dsa/ares_llist.c itself (see exd_peek.h) */
#include "dsa/ares_llist.c"
#include "exd_peek.h"

ares_llist_node_t *exd_llist_head(const ares_llist_t *l) { return l->head; }
ares_llist_node_t *exd_llist_tail(const ares_llist_t *l) { return l->tail; }
size_t exd_llist_cnt(const ares_llist_t *l) { return l->cnt; }
ares_llist_node_t *exd_llist_node_next(const ares_llist_node_t *n) { return n->next; }
ares_llist_node_t *exd_llist_node_prev(const ares_llist_node_t *n) { return n->prev; }
ares_llist_t *exd_llist_node_parent(const ares_llist_node_t *n) { return n->parent; }
