/* EX-D peek TU: compiles $(REPO)/src/lib/dsa/ares_slist.c itself (see exd_peek.h) */
#include "dsa/ares_slist.c"
#include "exd_peek.h"

void exd_slist_reset_rand(ares_slist_t *l) { l->rand_bits = 0; }
size_t exd_slist_rand_bits(const ares_slist_t *l) { return l->rand_bits; }
size_t exd_slist_levels(const ares_slist_t *l) { return l->levels; }
size_t exd_slist_max_level(const ares_slist_t *l) { return ares_slist_max_level(l); }
size_t exd_slist_cnt(const ares_slist_t *l) { return l->cnt; }
ares_slist_node_t *exd_slist_head(const ares_slist_t *l, size_t lvl) { return lvl < l->levels ? l->head[lvl] : NULL; }
ares_slist_node_t *exd_slist_tail(const ares_slist_t *l) { return l->tail; }
size_t exd_slist_node_levels(const ares_slist_node_t *n) { return n->levels; }
ares_slist_node_t *exd_slist_node_next(const ares_slist_node_t *n, size_t lvl) { return lvl < n->levels ? n->next[lvl] : NULL; }
ares_slist_node_t *exd_slist_node_prev(const ares_slist_node_t *n, size_t lvl) { return lvl < n->levels ? n->prev[lvl] : NULL; }
