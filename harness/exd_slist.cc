// EX-D family "slist": ares_slist_t against std::multiset, node level chosen
// exhaustively through the random-bytes hook.
#include "exd_core.h"

namespace exd {
namespace {

struct SD {
  int      key;
  uint32_t id;
};
static int cmp_cb(const void *a, const void *b)
{
  int x = ((const SD *)a)->key, y = ((const SD *)b)->key;
  return x < y ? -1 : x > y ? 1 : 0;
}
static void d0(void *p) { dlog().ev.push_back({ ((SD *)p)->id, 0 }); }
static void d1(void *p) { dlog().ev.push_back({ ((SD *)p)->id, 1 }); }

// coin tape: the next insert draws exactly one 8-byte block; level L = L-1 heads then a tail
static int      g_level = 1;
static uint64_t g_draws = 0, g_untagged = 0;
static void     rand_hook(int purpose, unsigned char *buf, size_t len)
{
  if (purpose != ARES_VERIF_RAND_SLIST) g_untagged++;
  g_draws++;
  memset(buf, 0, len);
  for (int i = 0; i < g_level - 1 && (size_t)(i / 8) < len; i++) buf[i / 8] |= (unsigned char)(1u << (i % 8));
}

enum { INSERT, DESTROY_AT, CLAIM_AT, REINSERT, FIND };

struct SInst : Instance {
  ares_slist_t                          *list = nullptr;
  std::multiset<std::pair<int, uint32_t>> model;
  std::map<uint32_t, SD *>               owned; // data objects currently owned by the list
  uint32_t                               next_id = 1;
  int                                    N = 4, cb = 0, prefill = 0;
};

static ares_rand_state *rand_state()
{
  static ares_rand_state *rs = nullptr;
  if (!rs) rs = ares_init_rand_state();
  return rs;
}

struct SlistFamily : Family {
  std::string name() const override { return "slist"; }
  const std::vector<const char *> &opnames() const override
  {
    static const std::vector<const char *> n = { "insert", "destroy_at", "claim_at", "reinsert", "find" };
    return n;
  }
  static int N(const vf::Args &a) { return (int)a.geti("n", a.tier == "quick" ? 4 : 5); }
  static int prefill(const vf::Args &a) { return (int)a.geti("prefill", 0); }
  int        max_depth(const vf::Args &a) const override { return (int)a.geti("depth", prefill(a) ? 3 : (1 << 30)); }
  std::vector<Config> configs(const vf::Args &a) const override
  {
    std::vector<Config> v;
    for (int cb = 0; cb < 2; cb++) {
      Config c;
      c.name         = std::string(cb ? "replaced-destructor" : "original-destructor") + (prefill(a) ? "-prefilled" : "");
      c.p["cb"]      = cb;
      c.p["N"]       = N(a) + prefill(a);
      c.p["prefill"] = prefill(a);
      v.push_back(c);
    }
    return v;
  }
  std::string bound(const vf::Args &a) const override
  {
    if (prefill(a))
      return "list pre-filled with " + std::to_string(prefill(a)) + " nodes (levels cycling 1..4) so that level 5 becomes available and list->levels grows; all sequences of depth <= " +
             std::to_string(max_depth(a)) + " over insert(key 0..2 x every level 1..max), destroy/claim/reinsert at positions {0,1,mid,last-1,last}";
    return "closure (fixpoint) of all operation sequences with at most " + std::to_string(N(a)) +
           " live nodes: insert key in {0,1,2} x EVERY node level 1..max_level (coin tape), destroy/claim at every position, reinsert every position with every key; original and replaced destructor";
  }

  Instance *fresh(const Config &c, Ctx &ctx) override
  {
    ares_rand_state *rs = rand_state(); // allocated once, outside the per-execution ledger
    vf::ledger().reset();
    dlog().ev.clear();
    ares_verif_hooks.rand_bytes = rand_hook;
    SInst *in                   = new SInst;
    in->N                       = (int)c.get("N", 4);
    in->cb                      = (int)c.get("cb", 0);
    in->prefill                 = (int)c.get("prefill", 0);
    in->list                    = ares_slist_create(rs, cmp_cb, d0);
    if (!in->list) {
      ctx.internal = "ares_slist_create failed";
      return in;
    }
    if (in->cb) ares_slist_replace_destructor(in->list, d1);
    bool chk     = ctx.checking;
    ctx.checking = false;
    for (int i = 0; i < in->prefill; i++) {
      Op o;
      o.c = INSERT;
      o.a = i % 3;
      o.b = 1 + (i * 7 + i / 3) % 4;
      apply(in, o, ctx);
    }
    ctx.checking = chk;
    return in;
  }

  void enabled(Instance *ip, std::vector<Op> &ops) override
  {
    SInst *in = (SInst *)ip;
    long   n  = (long)in->model.size();
    if (n < in->N) {
      long maxl = (long)exd_slist_max_level(in->list);
      for (long k = 0; k < 3; k++)
        for (long l = 1; l <= maxl; l++) {
          Op o;
          o.c = INSERT;
          o.a = k;
          o.b = l;
          ops.push_back(o);
        }
    }
    std::vector<long> pos;
    if (n <= 6)
      for (long i = 0; i < n; i++) pos.push_back(i);
    else {
      for (long i : { 0L, 1L, n / 2, n - 2, n - 1 })
        if (std::find(pos.begin(), pos.end(), i) == pos.end()) pos.push_back(i);
    }
    for (long p : pos) {
      Op o;
      o.c = DESTROY_AT;
      o.a = p;
      ops.push_back(o);
      o.c = CLAIM_AT;
      ops.push_back(o);
      for (long k = 0; k < 3; k++) {
        o.c = REINSERT;
        o.b = k;
        ops.push_back(o);
      }
    }
    for (long k = -1; k <= 3; k++) {
      Op o;
      o.c = FIND;
      o.a = k;
      ops.push_back(o);
    }
  }

  void pre_witness(Instance *ip, const Op &op, Ctx &ctx) override
  {
    SInst *in = (SInst *)ip;
    size_t n  = in->model.size();
    if (op.c == INSERT) {
      if (op.b > 1 && n > 0) ctx.witness("multi_level");
      for (auto &it : in->model)
        if (it.first == (int)op.a) {
          ctx.witness("duplicate_keys");
          break;
        }
    } else if (op.c == DESTROY_AT || op.c == CLAIM_AT) {
      if ((size_t)op.a == n - 1 && n >= 2) ctx.witness("removed_tail");
      if (op.a == 0 && n >= 2) ctx.witness("removed_head");
      if (op.a > 0 && (size_t)op.a < n - 1) ctx.witness("removed_middle");
    }
  }

  ares_slist_node_t *node_at(SInst *in, size_t pos)
  {
    ares_slist_node_t *n = ares_slist_node_first(in->list);
    for (size_t i = 0; n && i < pos; i++) n = ares_slist_node_next(n);
    return n;
  }

  void compare(SInst *in, Ctx &ctx)
  {
    size_t n = in->model.size();
    if (ares_slist_len(in->list) != n) {
      ctx.fail("len-mismatch", "ares_slist_len=" + std::to_string(ares_slist_len(in->list)) + " model=" + std::to_string(n));
      return;
    }
    std::vector<ares_slist_node_t *>       fwd;
    std::vector<std::pair<int, uint32_t>>  items;
    for (ares_slist_node_t *x = ares_slist_node_first(in->list); x && fwd.size() <= n + 1; x = ares_slist_node_next(x)) {
      fwd.push_back(x);
      SD *d = (SD *)ares_slist_node_val(x);
      if (!d) {
        ctx.fail("accessor-mismatch", "node without value in forward traversal");
        return;
      }
      items.push_back({ d->key, d->id });
    }
    auto show = [&]() {
      std::string o = "[";
      for (auto &it : items) o += "k" + std::to_string(it.first) + "#" + std::to_string(it.second) + " ";
      o += "] model {";
      for (auto &it : in->model) o += "k" + std::to_string(it.first) + "#" + std::to_string(it.second) + " ";
      return o + "}";
    };
    if (fwd.size() != n) {
      ctx.fail("lost-or-duplicated", "forward traversal visits " + std::to_string(fwd.size()) + (fwd.size() > n ? "+" : "") + " nodes, model has " + std::to_string(n) + ": " + show());
      return;
    }
    for (size_t i = 1; i < items.size(); i++)
      if (items[i - 1].first > items[i].first) {
        ctx.fail("not-sorted", "forward traversal is not sorted: " + show());
        return;
      }
    {
      std::multiset<std::pair<int, uint32_t>> got(items.begin(), items.end());
      if (got != in->model) {
        ctx.fail("lost-or-duplicated", "forward traversal content differs from the model: " + show());
        return;
      }
    }
    std::vector<ares_slist_node_t *> bwd;
    for (ares_slist_node_t *x = ares_slist_node_last(in->list); x && bwd.size() <= n + 1; x = ares_slist_node_prev(x)) bwd.push_back(x);
    std::reverse(bwd.begin(), bwd.end());
    if (bwd != fwd) {
      ctx.fail("backward-mismatch", "last->prev traversal visits " + std::to_string(bwd.size()) + " node(s) and is not the reverse of first->next (" + std::to_string(n) + " nodes): " + show());
      return;
    }
    SD *fv = (SD *)ares_slist_first_val(in->list), *lv = (SD *)ares_slist_last_val(in->list);
    if (n == 0 ? (fv || lv) : (!fv || !lv || fv->id != items.front().second || lv->id != items.back().second)) {
      ctx.fail("accessor-mismatch", "first_val/last_val disagree with the traversal");
      return;
    }
    for (auto *x : fwd)
      if (ares_slist_node_parent(x) != in->list) {
        ctx.fail("accessor-mismatch", "ares_slist_node_parent is not the list");
        return;
      }
    for (int k = -1; k <= 3; k++) {
      if (!find_check(in, k, ctx, items)) return;
    }
  }
  bool find_check(SInst *in, int k, Ctx &ctx, const std::vector<std::pair<int, uint32_t>> &items)
  {
    SD                 probe = { k, 0 };
    ares_slist_node_t *f     = ares_slist_node_find(in->list, &probe);
    bool               present = false;
    uint32_t           first_id = 0;
    for (auto &it : items)
      if (it.first == k) {
        present  = true;
        first_id = it.second;
        break;
      }
    if ((f != nullptr) != present) {
      ctx.fail("find-mismatch", "ares_slist_node_find(key " + std::to_string(k) + ") " + (f ? "found a node" : "found nothing") + " but the model " + (present ? "holds" : "does not hold") + " that key");
      return false;
    }
    if (f) {
      SD *d = (SD *)ares_slist_node_val(f);
      if (!d || d->key != k) {
        ctx.fail("find-mismatch", "ares_slist_node_find(key " + std::to_string(k) + ") returned a node with another key");
        return false;
      }
      if (d->id != first_id) ctx.count("find_returned_not_first_of_equals");
    }
    return true;
  }

  void apply(Instance *ip, const Op &op, Ctx &ctx) override
  {
    SInst *in = (SInst *)ip;
    size_t n  = in->model.size();
    std::vector<std::pair<uint32_t, int>> expd;
    switch (op.c) {
      case INSERT: {
        SD *d = new SD{ (int)op.a, in->next_id++ };
        exd_slist_reset_rand(in->list);
        g_level        = (int)op.b;
        uint64_t draws = g_draws;
        size_t   lv0   = exd_slist_levels(in->list);
        ares_slist_node_t *nd = ares_slist_insert(in->list, d);
        if (!nd) {
          delete d;
          ctx.fail("retval-mismatch", "ares_slist_insert returned NULL");
          return;
        }
        if (g_draws != draws + 1 || exd_slist_node_levels(nd) != (size_t)op.b) {
          ctx.internal = "skip-list coin tape out of step: wanted level " + std::to_string(op.b) + ", node has " +
                         std::to_string(exd_slist_node_levels(nd)) + " after " + std::to_string(g_draws - draws) + " draw(s)";
          in->owned[d->id] = d;
          in->model.insert({ d->key, d->id });
          return;
        }
        in->owned[d->id] = d;
        in->model.insert({ d->key, d->id });
        if (ctx.checking) {
          ctx.outcome("level" + std::to_string(op.b));
          if (ares_slist_node_val(nd) != d) ctx.fail("retval-mismatch", "returned node does not hold the inserted value");
          if (exd_slist_levels(in->list) > lv0) ctx.witness("list_levels_grew");
        }
        break;
      }
      case DESTROY_AT:
      case CLAIM_AT: {
        ares_slist_node_t *nd = node_at(in, (size_t)op.a);
        if (!nd) {
          ctx.internal = "position out of range in op (model/alphabet bug)";
          return;
        }
        SD *d = (SD *)ares_slist_node_val(nd);
        std::pair<int, uint32_t> it = { d->key, d->id };
        if (op.c == DESTROY_AT) {
          ares_slist_node_destroy(nd);
          expd.push_back({ it.second, in->cb });
        } else {
          void *v = ares_slist_node_claim(nd);
          if (v != d) ctx.fail("retval-mismatch", "ares_slist_node_claim returned another value");
        }
        in->model.erase(in->model.find(it));
        in->owned.erase(it.second);
        delete d;
        if (ctx.checking) {
          ctx.outcome(n == 1 ? "emptied" : (size_t)op.a == n - 1 ? "tail" : op.a == 0 ? "head" : "middle");
        }
        break;
      }
      case REINSERT: {
        ares_slist_node_t *nd = node_at(in, (size_t)op.a);
        if (!nd) {
          ctx.internal = "position out of range in op (model/alphabet bug)";
          return;
        }
        SD *d = (SD *)ares_slist_node_val(nd);
        in->model.erase(in->model.find({ d->key, d->id }));
        int old = d->key;
        d->key  = (int)op.b;
        ares_slist_node_reinsert(nd);
        in->model.insert({ d->key, d->id });
        if (ctx.checking) {
          ctx.outcome(old == d->key ? "same-key" : old < d->key ? "key-up" : "key-down");
          if (node_at(in, (size_t)op.a) != nd) ctx.witness("reinsert_moved");
        }
        break;
      }
      case FIND: {
        // pure observer; everything is compared below
        if (ctx.checking) {
          SD probe = { (int)op.a, 0 };
          ctx.outcome(ares_slist_node_find(in->list, &probe) ? "found" : "absent");
        }
        break;
      }
    }
    if (!ctx.checking) {
      dlog().ev.clear();
      return;
    }
    ctx.expect_dlog(expd, "node removal");
    if (ctx.failed) return;
    compare(in, ctx);
  }

  std::string key(Instance *ip) override
  {
    SInst *in = (SInst *)ip;
    // complete canonical dump of the link structure (nodes named by level-0 position)
    std::vector<ares_slist_node_t *>     nodes;
    std::map<ares_slist_node_t *, size_t> pos;
    size_t                                cnt = exd_slist_cnt(in->list);
    for (ares_slist_node_t *x = exd_slist_head(in->list, 0); x && nodes.size() <= cnt + 1; x = exd_slist_node_next(x, 0)) {
      pos[x] = nodes.size();
      nodes.push_back(x);
    }
    auto nm = [&](ares_slist_node_t *x) -> std::string {
      if (!x) return "-";
      auto it = pos.find(x);
      return it == pos.end() ? "?" : std::to_string(it->second);
    };
    size_t      lv = exd_slist_levels(in->list);
    std::string k  = "cb" + std::to_string(in->cb) + "c" + std::to_string(cnt) + "L" + std::to_string(lv) + "t" + nm(exd_slist_tail(in->list)) + "h";
    for (size_t i = 0; i < lv; i++) k += nm(exd_slist_head(in->list, i)) + ".";
    for (auto *x : nodes) {
      SD    *d = (SD *)ares_slist_node_val(x);
      size_t l = exd_slist_node_levels(x);
      k += "|k" + std::to_string(d ? d->key : -99) + "l" + std::to_string(l) + ":";
      for (size_t i = 0; i < l; i++) k += nm(exd_slist_node_prev(x, i)) + "<>" + nm(exd_slist_node_next(x, i)) + ",";
    }
    return k;
  }

  void finish(Instance *ip, Ctx &ctx) override
  {
    SInst *in = (SInst *)ip;
    dlog().ev.clear();
    if (in->list) {
      std::vector<std::pair<uint32_t, int>> expd;
      for (auto &it : in->model) expd.push_back({ it.second, in->cb });
      ares_slist_destroy(in->list);
      ctx.expect_dlog(expd, "ares_slist_destroy");
    }
    for (auto &kv : in->owned) delete kv.second;
    check_ledger_empty(ctx, "slist");
    ares_verif_hooks.rand_bytes = nullptr;
    delete in;
  }
};

} // namespace

Family *make_slist() { return new SlistFamily; }

} // namespace exd
