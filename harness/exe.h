// EX-E: configuration engine (properties C15, C16).
//
// Bounded-exhaustive enumeration of configuration inputs (file contents built
// from line alphabets, environment strings, setter strings, option masks and
// values, server sets) executed against the REAL c-ares initialisation code
// in a virtual environment:
//   * files under /etc/ and /vfs/ are served from an in-memory map through
//     link-time interposition of fopen()/stat() (libcares.a is linked
//     statically into the harness, so our definitions win),
//   * gethostname(), if_nametoindex(), if_indextoname(), time() are
//     interposed as well,
//   * time, randomness, hash seeds and threads are owned through the
//     CARES_VERIF_HOOKS hooks (ares_reinit() runs synchronously),
//   * all library allocations go through the allocator ledger.
#pragma once
#include "common.h"
#include <functional>
#include <ares.h>

namespace exe {

// ------------------------------------------------------------ environment
struct Env {
  std::map<std::string, std::string> files; // absolute path -> content ("/etc/resolv.conf", "/vfs/...")
  bool                               has_localdomain = false, has_resopts = false;
  std::string                        localdomain, resopts;
  std::string                        hostaliases; // path or "" (unset)
  std::string                        hostname = "vhost.hostdom.example";
  std::string                        json() const;
};
void rewrite_file(const std::string &path, const std::string &content, long mtime); // a file changes while a channel is alive (time() is 1700000000)
void env_apply(const Env &e); // installs files + environment variables + hostname
void lib_init();              // once per process: hooks + ares_library_init_mem(ledger)
void set_if_lookup_action(std::function<void()> fn); // one-shot: runs inside the application's next interface lookup callback
void install_sockfuncs(ares_channel_t *ch); // dummy sockets + the application's interface table (lo 1, eth0 2, eth1 3 as the OS, plus vnet0 7)

// ------------------------------------------------- effective configuration
// Canonical, field-wise dump of what a channel will actually use.  Read through
// the private structure (ares_private.h) where no public getter exists, plus
// ares_get_servers_csv()/ares_get_servers_ports().
struct Cfg {
  std::map<std::string, std::string> f; // field -> canonical text
  std::string                        str(const std::set<std::string> &ignore = {}) const;
  std::string                        get(const std::string &k) const
  {
    auto it = f.find(k);
    return it == f.end() ? "" : it->second;
  }
};
Cfg         peek_cfg(const ares_channel_t *ch);
std::string diff_cfg(const Cfg &a, const Cfg &b, const std::set<std::string> &ignore = {}); // "" when equal
std::string servers_csv(const ares_channel_t *ch);                                       // ares_get_servers_csv
std::string servers_ports(const ares_channel_t *ch);                                     // ares_get_servers_ports rendering
std::string sortlist_text(const struct apattern *sl, int n);                             // "addr/mask addr/mask"
struct apattern *make_sortlist(const char *str, int *n);                                 // struct apattern is opaque: built with ares_parse_sortlist(); release with free_sortlist()
void             free_sortlist(struct apattern *p);
int              lookup_alias(const ares_channel_t *ch, const char *name, std::string *out); // ares_lookup_hostaliases (private entry point of the HOSTALIASES parser)

// ------------------------------------------------------------- run context
struct Ctx {
  vf::Report                  rep;
  vf::Args                    args;
  std::set<vf::Hash128>       states;
  double                      t0 = 0;
  bool                        replay = false; // replay mode: verbose, single case
  bool                        failed = false; // replay: a violation was recorded
  long long                   ncases = 0;
  bool                        deadline_hit();
  void                        state(const std::string &dump)
  {
    if (states.size() < 4000000) states.insert(vf::hash128(dump));
  }
  // records a violation (and prints it in replay mode)
  void violation(const std::string &key, const std::string &desc, const std::string &replay_json);
};

// leak oracle helpers
size_t      ledger_live();
std::string ledger_leak_sites(); // needs ledger().trace == true during the run
void        ledger_forget();     // drop leaked blocks from the ledger (they stay allocated)

// --------------------------------------------------------- tiny JSON reader
// Enough for the replay objects this engine writes: flat objects with string,
// integer and array-of-integer/string members.
struct JVal {
  std::map<std::string, std::string>              s;
  std::map<std::string, long long>                i;
  std::map<std::string, std::vector<long long>>   ai;
  std::map<std::string, std::vector<std::string>> as;
};
bool        jparse(const std::string &text, JVal *out);
std::string jarr(const std::vector<int> &v);
std::string read_file(const std::string &path);

// sequences over an alphabet in shortlex order: index -> sequence
// total(n, k) = sum_{l=0..k} n^l
unsigned long long seq_total(unsigned n, unsigned k);
void               seq_decode(unsigned long long idx, unsigned n, std::vector<int> *out); // shortlex rank -> digits

// families (return process exit code)
int run_c15(Ctx &cx);
int run_c16(Ctx &cx);
bool is_c15_family(const std::string &f);
bool is_c16_family(const std::string &f);

} // namespace exe
