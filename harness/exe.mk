# EX-E (configuration; properties C15, C16): one binary $(BIN)/exe, ASan+UBSan
# flavour, linked statically against the library built from the CURRENT $(REPO)
# tree (so the fopen/stat/gethostname/if_nametoindex definitions of the harness
# are the ones the library calls).
EXE_O    := $(B)/exe
EXE_SRCS := exe_main exe_env exe_peek exe_c15 exe_c16
EXE_OBJS := $(patsubst %,$(EXE_O)/%.o,$(EXE_SRCS))

$(EXE_O)/%.o: $(HSRC)/%.cc $(HSRC)/exe.h $(HSRC)/common.h $(CFG)/ares_config.h
	@mkdir -p $(EXE_O)
	@$(HXX_ASAN) -MMD -MP -c $< -o $@

$(BIN)/exe: $(EXE_OBJS) $(B)/asan/libcares.a | $(BIN)
	@$(HXX_ASAN) -o $@ $(EXE_OBJS) $(B)/asan/libcares.a -ldl -lpthread

-include $(EXE_OBJS:.o=.d)
