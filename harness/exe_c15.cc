// EX-E / property C15: configuration text is parsed robustly and
// line-independently.
//
// Every family enumerates ALL sequences of at most k items over a fixed item
// alphabet (shortlex order = global case index), builds the input (a file, an
// environment string or a setter string) and runs the real library on it.
//
// Oracles (per case):
//   robust      the call returns (watchdog), no sanitizer report, ledger empty
//               after ares_destroy (leaks attributed by re-running with
//               allocation stacks)
//   range       the effective configuration is inside the documented ranges
//   reference   fields predicted by the annotated item semantics (an
//               independent model: every item carries its documented effect)
//               have the predicted value; undocumented cases are not asserted
//               but counted
//   metamorphic configuration(input) == configuration(input without the items
//               of class NOEFFECT: comments, junk, malformed directives)
//   reinit      (resolvconf) ares_reinit() on unchanged files leaves the
//               configuration unchanged
#include "exe.h"
#include <arpa/inet.h>
#include <netdb.h>
#include <algorithm>
#include <sys/wait.h>
#include <fcntl.h>

namespace exe {

enum Cls {
  VALID    = 0, // documented directive: the reference predicts its effect
  NOEFFECT = 1, // comment / junk / malformed directive: must change nothing
  UNSPEC   = 2, // effect not documented (numeric extremes, ...): only robustness, range and metamorphic oracles apply
};

// ---------------------------------------------------------------- reference
struct Ref {
  std::vector<std::string> servers; // rendering of ares_get_servers_csv
  std::vector<std::string> dom_doc, dom_code;
  bool                     dom_doc_set = false, dom_code_set = false, dom_code_search = false;
  unsigned long long       ndots = 1, timeout = 2000, tries = 3;
  int                      rotate = 0;
  bool                     usevc  = false;
  std::string              lookups;
  std::vector<std::string> sortlist;
  std::set<std::string>    unspec; // fields this input leaves undocumented
};
typedef std::function<void(Ref &)> Eff;

struct Item {
  const char *name;
  std::string text;
  Cls         cls;
  Eff         eff;
};

static std::string join(const std::vector<std::string> &v, const char *sep)
{
  std::string s;
  for (size_t i = 0; i < v.size(); i++) s += (i ? sep : "") + v[i];
  return s;
}
static void add_server(Ref &r, const std::string &s)
{
  for (auto &x : r.servers)
    if (x == s) return; // a repeated server is the same server (c-ares de-duplicates; resolv.conf(5) is silent)
  r.servers.push_back(s);
}
static Eff ns(const char *s)
{
  std::string v = s;
  return [v](Ref &r) { add_server(r, v); };
}
static Eff search(std::vector<std::string> d)
{
  return [d](Ref &r) {
    r.dom_doc          = d;
    r.dom_doc_set      = true;
    r.dom_code         = d;
    r.dom_code_set     = true;
    r.dom_code_search  = true;
  };
}
static Eff domain(const char *d)
{
  std::string v = d;
  return [v](Ref &r) {
    // ares_init_options.3 / resolv.conf(5): "domain and search override one another, the last occurrence wins";
    // the code keeps an earlier search list ("domain is legacy").  Both are accepted and counted.
    r.dom_doc     = { v };
    r.dom_doc_set = true;
    if (!r.dom_code_set) {
      r.dom_code     = { v };
      r.dom_code_set = true;
    }
  };
}
static Eff opts(long long ndots, long long timeout_s, long long tries, int rotate, int usevc)
{
  return [=](Ref &r) {
    if (ndots >= 0) r.ndots = (unsigned long long)ndots;
    if (timeout_s >= 0) r.timeout = (unsigned long long)timeout_s * 1000;
    if (tries >= 0) r.tries = (unsigned long long)tries;
    if (rotate) r.rotate = 1;
    if (usevc) r.usevc = true;
  };
}
static Eff sortl(std::vector<std::string> v)
{
  return [v](Ref &r) { r.sortlist = v; };
}
static Eff lookups(const char *l)
{
  std::string v = l;
  return [v](Ref &r) { r.lookups = v; };
}
static Eff unspec(std::vector<std::string> fields)
{
  return [fields](Ref &r) {
    for (auto &f : fields) r.unspec.insert(f);
  };
}
static Eff none()
{
  return [](Ref &) {};
}

// expected canonical field values (sets: more than one value where the documentation and the code comment disagree)
typedef std::map<std::string, std::set<std::string>> Expect;
static const char                                   *DEFAULT_DOMAIN = "hostdom.example"; // from the virtual hostname vhost.hostdom.example
static Expect                                        render(const Ref &r)
{
  Expect e;
  auto   put = [&](const char *k, const std::string &v) {
    if (!r.unspec.count(k)) e[k].insert(v);
  };
  put("servers", r.servers.empty() ? "127.0.0.1:53" : join(r.servers, ","));
  if (!r.unspec.count("domains")) {
    e["domains"].insert("[" + (r.dom_doc_set ? join(r.dom_doc, ",") : std::string(DEFAULT_DOMAIN)) + "]");
    e["domains"].insert("[" + (r.dom_code_set ? join(r.dom_code, ",") : std::string(DEFAULT_DOMAIN)) + "]");
  }
  put("ndots", std::to_string(r.ndots));
  put("timeout", std::to_string(r.timeout));
  put("tries", std::to_string(r.tries));
  put("rotate", std::to_string(r.rotate));
  put("flags", r.usevc ? "0x101" : "0x100"); // ARES_FLAG_EDNS (default) [| ARES_FLAG_USEVC]
  put("lookups", r.lookups.empty() ? "fb" : r.lookups);
  put("sortlist", "[" + join(r.sortlist, " ") + "]");
  // never touched by configuration text
  e["udp_port"]        = { "0" };
  e["tcp_port"]        = { "0" };
  e["maxtimeout"]      = { "0" };
  e["ednspsz"]         = { "1232" };
  e["udp_max_queries"] = { "0" };
  return e;
}
static std::string check_expect(const Expect &e, const Cfg &c, std::string *field)
{
  for (auto &kv : e) {
    std::string got = c.get(kv.first);
    if (!kv.second.count(got)) {
      *field = kv.first;
      std::string want;
      for (auto &w : kv.second) want += (want.empty() ? "" : " or ") + w;
      return kv.first + ": expected " + want + ", got " + got;
    }
  }
  return "";
}

// documented ranges of an effective configuration (ares_init_options.3, ares_set_servers_csv.3, ares_set_sortlist.3;
// timeout and tries are reported by ares_save_options() as positive ints)
typedef std::vector<std::pair<std::string, std::string>> RangeErrs; // (field, message)
static RangeErrs check_ranges(const Cfg &c)
{
  RangeErrs r;
  auto      u = [&](const char *k) { return strtoull(c.get(k).c_str(), nullptr, 10); };
  if (u("ndots") > 15) r.push_back({ "ndots", "ndots=" + c.get("ndots") + " outside the documented range 0-15" });
  if (u("timeout") == 0 || u("timeout") > 0x7fffffffULL) r.push_back({ "timeout", "timeout=" + c.get("timeout") + " ms is not a positive int" });
  if (u("tries") == 0 || u("tries") > 0x7fffffffULL) r.push_back({ "tries", "tries=" + c.get("tries") + " is not a positive int" });
  std::string l = c.get("lookups");
  if (l.empty() || l.find_first_not_of("bf") != std::string::npos) r.push_back({ "lookups", "lookups=\"" + l + "\" is not a non-empty string of 'b'/'f'" });
  // server ports 1..65535, sortlist masks <= 32 / 128
  std::string sp = c.get("server_ports");
  size_t      p  = 0;
  while ((p = sp.find("|u", p)) != std::string::npos) {
    unsigned long up = strtoul(sp.c_str() + p + 2, nullptr, 10);
    size_t        t  = sp.find("|t", p);
    unsigned long tp = t == std::string::npos ? 0 : strtoul(sp.c_str() + t + 2, nullptr, 10);
    if (up == 0 || tp == 0 || up > 65535 || tp > 65535) {
      r.push_back({ "server_ports", "server port outside 1-65535: " + sp });
      break;
    }
    p += 2;
  }
  std::string sl = c.get("sortlist");
  p              = 0;
  while ((p = sl.find('/', p)) != std::string::npos) {
    unsigned long m   = strtoul(sl.c_str() + p + 1, nullptr, 10);
    size_t        beg = sl.find_last_of(" [", p);
    bool          v6  = sl.substr(beg + 1, p - beg - 1).find(':') != std::string::npos;
    if (m > (v6 ? 128u : 32u)) {
      r.push_back({ "sortlist", "sortlist mask out of range: " + sl });
      break;
    }
    p++;
  }
  return r;
}

// --------------------------------------------------------------- alphabets
static std::string rep(char c, size_t n) { return std::string(n, c); }

static std::vector<Item> resolv_alphabet()
{
  std::vector<Item> a = {
    // --- name servers
    { "ns4", "nameserver 10.0.0.1", VALID, ns("10.0.0.1:53") },
    { "ns4-ws", "nameserver \t 10.0.0.2  ", VALID, ns("10.0.0.2:53") },
    { "ns6", "nameserver 2001:db8::1", VALID, ns("[2001:db8::1]:53") },
    { "ns6-port", "nameserver [2001:db8::2]:5353", VALID, ns("[2001:db8::2]:5353") },
    { "ns4-port", "nameserver [10.0.0.3]:54", VALID, ns("10.0.0.3:54") },
    { "ns-ll", "nameserver fe80::1%eth0", VALID, ns("[fe80::1]:53%eth0") },
    { "ns-ll-noif", "nameserver fe80::2%nosuch0", NOEFFECT, none() },  // unknown interface: entry cannot be used
    // --- search list
    { "search2", "search a.example b.example", VALID, search({ "a.example", "b.example" }) },
    { "search-tab", "search\tc.example", VALID, search({ "c.example" }) },
    { "domain", "domain d.example", VALID, domain("d.example") },
    // --- options
    { "ndots3", "options ndots:3", VALID, opts(3, -1, -1, 0, 0) },
    { "ndots0", "options ndots:0", VALID, opts(0, -1, -1, 0, 0) },
    { "timeout4", "options timeout:4", VALID, opts(-1, 4, -1, 0, 0) },
    { "attempts2", "options attempts:2", VALID, opts(-1, -1, 2, 0, 0) },
    { "retrans-retry", "options retrans:6 retry:5", VALID, opts(-1, 6, 5, 0, 0) },
    { "rotate", "options rotate", VALID, opts(-1, -1, -1, 1, 0) },
    { "use-vc", "options use-vc", VALID, opts(-1, -1, -1, 0, 1) },
    { "opts-mixed", "options ndots:2 bogus timeout:3 edns0 inet6 no-such:1", VALID, opts(2, 3, -1, 0, 0) }, // unknown options are skipped
    { "opts-unknown", "options edns0 single-request trust-ad", NOEFFECT, none() },
    // --- sortlist, lookup
    { "sortlist2", "sortlist 130.155.160.0/255.255.240.0 130.155.0.0", VALID, sortl({ "130.155.160.0/20", "130.155.0.0/16" }) },
    { "sortlist-cidr", "sortlist 10.0.0.0/8", VALID, sortl({ "10.0.0.0/8" }) },
    { "lookup-fb", "lookup file bind", VALID, lookups("fb") },
    { "lookup-b", "lookup bind", VALID, lookups("b") },
    // --- numeric extremes: effect not documented
    { "timeout0", "options timeout:0", UNSPEC, unspec({ "timeout" }) },
    { "attempts0", "options attempts:0", UNSPEC, unspec({ "tries" }) },
    { "neg", "options ndots:-1 timeout:-1 attempts:-1", UNSPEC, unspec({ "ndots", "timeout", "tries" }) },
    { "ndots16", "options ndots:16", UNSPEC, unspec({ "ndots" }) },
    { "two31", "options ndots:2147483648 timeout:2147483648 attempts:2147483648", UNSPEC, unspec({ "ndots", "timeout", "tries" }) },
    { "two63", "options ndots:9223372036854775808 timeout:9223372036854775808", UNSPEC, unspec({ "ndots", "timeout" }) },
    { "huge", "options ndots:99999999999999999999 timeout:99999999999999999999 attempts:99999999999999999999", UNSPEC,
      unspec({ "ndots", "timeout", "tries" }) },
    { "timeout-wrap", "options timeout:4294968", UNSPEC, unspec({ "timeout" }) }, // 4294968 * 1000 does not fit 32 bits
    // --- comments and junk: must change nothing
    { "empty", "", NOEFFECT, none() },
    { "blank", "  \t ", NOEFFECT, none() },
    { "hash", "# nameserver 10.9.9.1", NOEFFECT, none() },
    { "semi", "; options ndots:9", NOEFFECT, none() },
    { "bin-ff", std::string("\xff\xfe\x80\x01 nameserver 10.9.9.2"), NOEFFECT, none() },
    { "bin-nul", std::string("opt\0ions ndots:7", 16), NOEFFECT, none() },
    { "long-kw", rep('x', 600), NOEFFECT, none() },
    { "long-val", "search " + rep('y', 600), NOEFFECT, none() },
    { "kw-only", "nameserver", NOEFFECT, none() },
    { "kw-only-opt", "options", NOEFFECT, none() },
    { "unknown-kw", "bogus 10.9.9.3 ndots:9", NOEFFECT, none() },
    { "family", "family inet6 inet4", NOEFFECT, none() }, // BSD keyword, not implemented by c-ares
    { "ns-bad", "nameserver 10.0.0.999", NOEFFECT, none() },
    { "ns-junk", "nameserver not-an-address", NOEFFECT, none() },
    { "search-empty", "search ,", NOEFFECT, none() },
    { "sortlist-bad", "sortlist junk/99", NOEFFECT, none() },
    { "opt-novalue", "options ndots", NOEFFECT, none() }, // "ndots" without ":n" is not an option
  };
  return a;
}

// the sub-alphabet used for the deeper bound (k = 5)
static std::vector<Item> resolv_core_alphabet()
{
  std::set<std::string> keep = { "ns4", "ns6-port", "search2", "domain", "ndots3", "timeout4", "rotate", "sortlist-cidr", "lookup-b",
                                 "timeout0", "huge", "hash", "bin-ff", "long-val", "ns-junk", "sortlist-bad" };
  std::vector<Item>     a;
  for (auto &it : resolv_alphabet())
    if (keep.count(it.name)) a.push_back(it);
  return a;
}

static std::vector<Item> nsswitch_alphabet()
{
  return {
    { "files-dns", "hosts: files dns", VALID, lookups("fb") },
    { "dns-files", "hosts:\tdns files", VALID, lookups("bf") },
    { "dns", "hosts: dns", VALID, lookups("b") },
    { "files-nospace", "hosts:files", VALID, lookups("f") },
    { "mdns", "hosts: files mdns4_minimal [NOTFOUND=return] dns", VALID, lookups("fb") },
    { "resolve-dns", "hosts: resolve dns", VALID, lookups("b") },
    { "other-db", "passwd: files dns", NOEFFECT, none() },
    { "comment", "# hosts: dns", NOEFFECT, none() },
    { "empty", "", NOEFFECT, none() },
    { "no-colon", "hosts dns", NOEFFECT, none() },
    { "no-value", "hosts:", NOEFFECT, none() },
    { "unknown-src", "hosts: nis ldap", NOEFFECT, none() },
    { "bin", std::string("\xff\xfe: dns\x01"), NOEFFECT, none() },
    { "bin-value", std::string("hosts: \xff\xfe"), NOEFFECT, none() },
    { "long", "hosts: " + rep('z', 600), NOEFFECT, none() },
    { "long-db", rep('h', 600) + ": dns", NOEFFECT, none() },
    { "upper", "HOSTS: dns", NOEFFECT, none() }, // database names are lower case (nsswitch.conf(5))
  };
}
static std::vector<Item> svcconf_alphabet()
{
  return {
    { "local-bind", "hosts = local , bind", VALID, lookups("fb") },
    { "bind", "hosts=bind", VALID, lookups("b") },
    { "bind-local", "hosts = bind, local", VALID, lookups("bf") },
    { "local", "hosts=local", VALID, lookups("f") },
    { "comment", "# hosts = bind", NOEFFECT, none() },
    { "empty", "", NOEFFECT, none() },
    { "other", "services = local", NOEFFECT, none() },
    { "no-eq", "hosts bind", NOEFFECT, none() },
    { "no-value", "hosts =", NOEFFECT, none() },
    { "unknown-src", "hosts = nis, yp", NOEFFECT, none() },
    { "bin", std::string("\xff\xfe = bind\x01"), NOEFFECT, none() },
    { "long", "hosts = " + rep('z', 600), NOEFFECT, none() },
  };
}

static std::vector<Item> resopt_alphabet()
{
  return {
    { "ndots2", "ndots:2", VALID, opts(2, -1, -1, 0, 0) },
    { "ndots0", "ndots:0", VALID, opts(0, -1, -1, 0, 0) },
    { "timeout3", "timeout:3", VALID, opts(-1, 3, -1, 0, 0) },
    { "attempts4", "attempts:4", VALID, opts(-1, -1, 4, 0, 0) },
    { "retrans5", "retrans:5", VALID, opts(-1, 5, -1, 0, 0) },
    { "retry6", "retry:6", VALID, opts(-1, -1, 6, 0, 0) },
    { "rotate", "rotate", VALID, opts(-1, -1, -1, 1, 0) },
    { "use-vc", "use-vc", VALID, opts(-1, -1, -1, 0, 1) },
    { "usevc", "usevc", VALID, opts(-1, -1, -1, 0, 1) },
    { "edns0", "edns0", NOEFFECT, none() },
    { "bogus", "bogus", NOEFFECT, none() },
    { "bogus-val", "bogus:1", NOEFFECT, none() },
    { "long", rep('q', 600), NOEFFECT, none() },
    { "bin", std::string("\xff\x80\x01"), NOEFFECT, none() },
    { "colon", ":", NOEFFECT, none() },
    { "colon-val", ":5", NOEFFECT, none() },
    { "empty", "", NOEFFECT, none() }, // two consecutive separators
    { "ndots-novalue", "ndots", NOEFFECT, none() },
    { "timeout0", "timeout:0", UNSPEC, unspec({ "timeout" }) },
    { "attempts0", "attempts:0", UNSPEC, unspec({ "tries" }) },
    { "ndots-neg", "ndots:-1", UNSPEC, unspec({ "ndots" }) },
    { "ndots16", "ndots:16", UNSPEC, unspec({ "ndots" }) },
    { "ndots-huge", "ndots:99999999999999999999", UNSPEC, unspec({ "ndots" }) },
    { "timeout-wrap", "timeout:4294968", UNSPEC, unspec({ "timeout" }) },
    { "timeout-two31", "timeout:2147483648", UNSPEC, unspec({ "timeout" }) },
    { "ndots-twocolon", "ndots:1:2", UNSPEC, unspec({ "ndots" }) },
    { "ndots-empty", "ndots:", UNSPEC, unspec({ "ndots" }) },
  };
}
struct LdVariant {
  const char *name;
  bool        set;
  std::string value;
  Cls         cls;
  Eff         eff;
};
static std::vector<LdVariant> localdomain_variants()
{
  return {
    { "unset", false, "", VALID, none() },
    { "one", true, "env.example", VALID, search({ "env.example" }) },
    // resolv.conf(5): a space separated list; c-ares uses the first entry only: not asserted
    { "two", true, "env1.example env2.example", UNSPEC, unspec({ "domains" }) },
    { "empty", true, "", NOEFFECT, none() },
    { "blank", true, " ", NOEFFECT, none() },
    { "comma", true, ",", NOEFFECT, none() },
    { "long", true, rep('d', 600), UNSPEC, unspec({ "domains" }) },
    { "bin", true, std::string("\xff\xfe\x01"), UNSPEC, unspec({ "domains" }) },
  };
}

// ------------------------------------------------------------ generic case
// initialisation without any application-supplied setting (an all-zero options structure with an empty mask)
static int init_plain(ares_channel_t **ch)
{
  struct ares_options o;
  memset(&o, 0, sizeof o);
  *ch = nullptr;
  return ares_init_options(ch, &o, 0);
}
struct Obs {
  int         rc = 0;
  Cfg         cfg;
  std::string extra; // family specific observation (probe results, setter status ...)
  std::string all() const { return "rc=" + std::to_string(rc) + "\n" + cfg.str() + extra; }
};

static int count_sub(const std::string &s, const std::string &sub)
{
  int    n = 0;
  size_t p = 0;
  while ((p = s.find(sub, p)) != std::string::npos) {
    n++;
    p += sub.size();
  }
  return n;
}
struct Family {
  std::string       name, keyname, prop = "C15"; // keyname: family part of violation keys (the deep variant shares the keys of its parent)
  std::vector<Item> alpha;
  unsigned          k = 3, nmodes = 1;
  virtual ~Family() {}
  // number of cases and decoding of one case index into (sequence, mode)
  virtual unsigned long long total() const { return seq_total((unsigned)alpha.size(), k) + (nmodes - 1) * seq_total((unsigned)alpha.size(), k - 1); }
  virtual void               decode(unsigned long long idx, std::vector<int> *seq, int *mode) const
  {
    unsigned long long t = seq_total((unsigned)alpha.size(), k);
    if (idx < t) {
      *mode = 0;
      seq_decode(idx, (unsigned)alpha.size(), seq);
      return;
    }
    idx -= t;
    unsigned long long t1 = seq_total((unsigned)alpha.size(), k - 1);
    *mode                 = 1 + (int)(idx / t1);
    seq_decode(idx % t1, (unsigned)alpha.size(), seq);
  }
  virtual std::string input_text(const std::vector<int> &seq, int mode) const = 0; // the text under test (for replay files / messages)
  virtual Obs         run(const std::vector<int> &seq, int mode, Ctx &cx)       = 0; // executes the real library
  virtual std::string reference(const std::vector<int> &seq, int mode, const Obs &o, Ctx &cx, std::string *field) = 0; // "" = agrees
  virtual bool        strippable(int /*mode*/) const { return true; }
  virtual RangeErrs   ranges(const Obs &o) { return o.rc == ARES_SUCCESS ? check_ranges(o.cfg) : RangeErrs(); }
  virtual std::string describe_mode(int mode) const { return std::to_string(mode); }
  const std::string  &kn() const { return keyname.empty() ? name : keyname; }
  virtual std::string bound_note() const { return ""; }
  virtual std::string outcome_tag(const Obs &, int /*mode*/) const { return ""; }
  virtual std::string key_mode(int /*mode*/) const { return ""; } // part of a violation key that names the kind of input
  virtual int         plain_mode(int mode) const { return mode; }  // a failure that also shows in this mode is reported there only
  virtual int         base_mode(int /*mode*/) const { return 0; } // the plain form a whole-input variant is compared with
  virtual size_t      alpha_size(int /*mode*/) const { return alpha.size(); }
  virtual const char *item_name(int /*mode*/, int i) const { return alpha[(size_t)i].name; }
  std::string         names(const std::vector<int> &seq, int mode) const
  {
    std::string s = "[";
    for (size_t i = 0; i < seq.size(); i++) s += (i ? "," : "") + vf::jstr(item_name(mode, seq[i]));
    return s + "]";
  }
};

static std::string case_json(const Family &f, unsigned long long idx, const std::vector<int> &seq, int mode)
{
  std::string in = f.input_text(seq, mode);
  return "{\"index\":" + std::to_string(idx) + ",\"family\":" + vf::jstr(f.name) + ",\"k\":" + std::to_string(f.k) + ",\"alphabet\":" + std::to_string(f.alpha.size()) +
         ",\"mode\":" + std::to_string(mode) + ",\"seq\":" + jarr(seq) + ",\"items\":" + f.names(seq, mode) + ",\"input\":" + vf::jstr(in.substr(0, 3000)) + "}";
}

// run one input with the robustness oracles around it
static Obs guarded_run(Family &f, const std::vector<int> &seq, int mode, Ctx &cx, const std::string &cj, bool *leaked)
{
  size_t base = ledger_live();
  vf::watchdog(30);
  Obs o = f.run(seq, mode, cx);
  vf::watchdog(0);
  cx.rep.executions++;
  *leaked = false;
  if (ledger_live() != base) {
    *leaked = true;
    // signature of what is left: block sizes (one attribution run per distinct signature and process)
    static std::map<std::string, std::string> known_sites;
    std::vector<size_t>                       sizes;
    for (auto &kv : vf::ledger().live) sizes.push_back(kv.second);
    std::sort(sizes.begin(), sizes.end());
    std::string sig = std::to_string(sizes.size()) + ":";
    for (size_t i = 0; i < sizes.size() && i < 8; i++) sig += std::to_string(sizes[i] > 64 ? 64 : sizes[i]) + ",";
    ledger_forget();
    cx.rep.count("cases_with_leak");
    auto it = known_sites.find(sig);
    if (it == known_sites.end() || cx.replay) {
      // attribute: run again with allocation stacks
      vf::ledger().trace = true;
      f.run(seq, mode, cx);
      vf::ledger().trace = false;
      std::string sites  = ledger_leak_sites();
      ledger_forget();
      it = known_sites.emplace(sig, sites).first;
      cx.violation(f.prop + ":leak:" + sites, "blocks allocated through the library allocator are still live after ares_destroy; allocation sites: " + sites + "; input " + f.names(seq, mode) + " = " +
                                               vf::jesc(f.input_text(seq, mode).substr(0, 300)),
                   cj);
    }
  }
  return o;
}

static std::string outcome_class(const Obs &o, const Cfg &dflt)
{
  std::string s = "rc=" + std::to_string(o.rc);
  if (o.rc == ARES_SUCCESS)
    for (auto &kv : o.cfg.f)
      if (kv.first != "server_ports" && kv.first != "server_detail" && dflt.get(kv.first) != kv.second) s += "," + kv.first;
  return s;
}

static std::vector<int> strip(const Family &f, const std::vector<int> &seq)
{
  std::vector<int> s;
  for (int i : seq)
    if (f.alpha[(size_t)i].cls != NOEFFECT) s.push_back(i);
  return s;
}

// greedy 1-minimal reduction of a failing sequence
static std::vector<int> minimize(std::vector<int> seq, const std::function<bool(const std::vector<int> &)> &fails)
{
  bool changed = true;
  while (changed && !seq.empty()) {
    changed = false;
    for (size_t i = 0; i < seq.size(); i++) {
      std::vector<int> t = seq;
      t.erase(t.begin() + (long)i);
      if (fails(t)) {
        seq     = t;
        changed = true;
        break;
      }
    }
  }
  return seq;
}

// ------------------------------------------------------ crash containment
// A case that kills the process (sanitizer report, fatal signal, watchdog) is turned into a violation by the driver,
// which restarts the shard behind it.  So that a defect reached by thousands of inputs does not cost thousands of
// restarts, the crashing input is remembered in <out>.crashlist; after the restart it is shrunk to a 1-minimal crashing
// input (probed in forked children) and every later input that contains it is skipped and counted: violating inputs
// are not expanded.
static struct {
  char path[600];
  char line[4096];
} g_crash;
static void remember_crash()
{
  if (!g_crash.path[0] || !g_crash.line[0]) return;
  FILE *fp = fopen(g_crash.path, "a");
  if (!fp) return;
  fputs(g_crash.line, fp);
  fclose(fp);
}
static void exe_death_cb()
{
  remember_crash();
  vf::on_sanitizer_death();
}
static void exe_fatal_signal(int sig)
{
  remember_crash();
  vf::on_fatal_signal(sig);
}
static void note_current(const std::string &cls, int mode, const std::vector<int> &seq)
{
  std::string l = "P|" + cls + "|" + std::to_string(mode) + "|";
  for (size_t i = 0; i < seq.size(); i++) l += (i ? "," : "") + std::to_string(seq[i]);
  l += "\n";
  snprintf(g_crash.line, sizeof g_crash.line, "%s", l.c_str());
}
// does running this input kill a process?  (forked child, no crash files)
static bool probe_crashes(Family &f, const std::vector<int> &seq, int mode, Ctx &cx)
{
  fflush(nullptr);
  pid_t pid = fork();
  if (pid < 0) return false;
  if (pid == 0) {
    __sanitizer_set_death_callback(nullptr);
    for (int sg : { SIGSEGV, SIGBUS, SIGFPE, SIGILL, SIGABRT, SIGALRM }) signal(sg, SIG_DFL);
    vf::crashctx().path[0] = 0;
    vf::partial_writer()   = nullptr;
    g_crash.path[0]        = 0;
    int devnull            = open("/dev/null", O_WRONLY);
    if (devnull >= 0) {
      dup2(devnull, 1);
      dup2(devnull, 2);
    }
    alarm(30);
    f.run(seq, mode, cx);
    _exit(0);
  }
  int st = 0;
  waitpid(pid, &st, 0);
  return !(WIFEXITED(st) && WEXITSTATUS(st) == 0);
}
struct CrashKnown {
  std::string      cls;
  std::vector<int> seq;
};
static bool contains_seq(const std::vector<int> &seq, const std::vector<int> &sub)
{
  size_t j = 0;
  for (size_t i = 0; i < seq.size() && j < sub.size(); i++)
    if (seq[i] == sub[j]) j++;
  return j == sub.size();
}
static std::vector<CrashKnown> load_crashlist(Family &f, Ctx &cx)
{
  std::vector<CrashKnown> known;
  if (!g_crash.path[0]) return known;
  std::string              text = read_file(g_crash.path);
  std::vector<std::string> keep;
  size_t                   p = 0;
  while (p < text.size()) {
    size_t      e = text.find('\n', p);
    std::string l = text.substr(p, e == std::string::npos ? std::string::npos : e - p);
    p             = e == std::string::npos ? text.size() : e + 1;
    if (l.size() < 4) continue;
    // kind|class|mode|i,j,k
    size_t a = l.find('|'), b = l.find('|', a + 1), c = l.find('|', b + 1);
    if (a == std::string::npos || b == std::string::npos || c == std::string::npos) continue;
    CrashKnown k;
    k.cls    = l.substr(a + 1, b - a - 1);
    int mode = atoi(l.substr(b + 1, c - b - 1).c_str());
    std::string nums = l.substr(c + 1);
    size_t      q    = 0;
    while (q < nums.size()) {
      k.seq.push_back(atoi(nums.c_str() + q));
      q = nums.find(',', q);
      if (q == std::string::npos) break;
      q++;
    }
    if (l[0] == 'P') { // pending: shrink it
      bool covered = false;
      for (auto &kn : known) covered = covered || (kn.cls == k.cls && contains_seq(k.seq, kn.seq));
      if (!covered && probe_crashes(f, k.seq, mode, cx)) {
        k.seq = minimize(k.seq, [&](const std::vector<int> &t) { return probe_crashes(f, t, mode, cx); });
        known.push_back(k);
        std::string m = "M|" + k.cls + "|" + std::to_string(mode) + "|";
        for (size_t i = 0; i < k.seq.size(); i++) m += (i ? "," : "") + std::to_string(k.seq[i]);
        keep.push_back(m);
      }
    } else {
      known.push_back(k);
      keep.push_back(l);
    }
  }
  FILE *fp = fopen(g_crash.path, "w");
  if (fp) {
    for (auto &l : keep) fprintf(fp, "%s\n", l.c_str());
    fclose(fp);
  }
  return known;
}

static int run_family(Family &f, Ctx &cx)
{
  vf::Report &rep = cx.rep;
  rep.family      = f.name;
  rep.bound       = f.name + ": all sequences of <= " + std::to_string(f.k) + " items over an alphabet of " + std::to_string(f.alpha.size()) + " items" +
              (f.nmodes > 1 ? ", plus " + std::to_string(f.nmodes - 1) + " whole-input variants for sequences of <= " + std::to_string(f.k - 1) + " items" : "") + f.bound_note();
  unsigned long long                           total = f.total();
  std::unordered_map<std::string, std::string> memo; // (base mode, stripped sequence) -> observation text
  Obs                                          dflt_obs;
  {
    // the empty input is a case like any other: a crash in it belongs to it
    bool        l;
    std::string cj0 = case_json(f, 0, {}, 0);
    vf::set_current_case(cj0, f.prop + ":crash:" + f.name);
    dflt_obs = guarded_run(f, {}, 0, cx, cj0, &l);
  }
  std::set<std::string> reported; // keys already minimised in this process
  std::vector<CrashKnown> crash_known;
  if (!cx.replay && !cx.args.out.empty() && cx.args.out != "/dev/stdout") {
    snprintf(g_crash.path, sizeof g_crash.path, "%s.crashlist", cx.args.out.c_str());
    if (cx.args.resume == 0) unlink(g_crash.path);
    else crash_known = load_crashlist(f, cx);
    __sanitizer_set_death_callback(exe_death_cb);
    for (int sg : { SIGSEGV, SIGBUS, SIGFPE, SIGILL, SIGABRT, SIGALRM }) signal(sg, exe_fatal_signal);
  }
  std::vector<std::pair<int, std::vector<int>>> known_min; // (mode, 1-minimal input failing the reference oracle)

  auto obs_of = [&](const std::vector<int> &s, int mode) -> std::string {
    std::string key = std::to_string(mode) + ":" + std::string((const char *)s.data(), s.size() * sizeof(int));
    auto        it  = memo.find(key);
    if (it != memo.end()) return it->second;
    bool        l;
    Obs         o = guarded_run(f, s, mode, cx, case_json(f, 0, s, mode), &l);
    std::string t = o.all();
    if (memo.size() < 3000000) memo[key] = t;
    return t;
  };
  // minimisation re-runs the oracles: their witness / counter side effects are rolled back
  auto quietly = [&](const std::function<void()> &fn) {
    auto w = rep.witnesses;
    auto c = rep.counters;
    fn();
    rep.witnesses = w;
    rep.counters  = c;
  };
  auto plus_names = [&](const std::vector<int> &m, int mode) {
    std::string s;
    for (int i : m) s += (s.empty() ? "" : "+") + std::string(f.item_name(mode, i));
    return s;
  };

  auto one = [&](unsigned long long idx, const std::vector<int> &seq, int mode) {
    std::string cj = case_json(f, idx, seq, mode);
    vf::set_current_case(cj, f.prop + ":crash:" + f.name);
    bool leaked;
    Obs  o = guarded_run(f, seq, mode, cx, cj, &leaked);
    rep.transitions++;
    cx.ncases++;
    if (cx.ncases == 1 || cx.ncases % 9973 == 17) rep.sample(cj, 6);
    std::string all = o.all();
    cx.state(all);
    rep.outcome(outcome_class(o, dflt_obs.cfg) + f.outcome_tag(o, mode));
    rep.witness(o.rc == ARES_SUCCESS ? "init_ok" : "init_error");
    if (cx.replay) printf("case %llu items %s mode %d (%s)\n--- input\n%s\n--- observed\n%s", idx, f.names(seq, mode).c_str(), mode, f.describe_mode(mode).c_str(), vf::jesc(f.input_text(seq, mode)).c_str(), all.c_str());
    // ---- range
    std::string field, msg;
    for (auto &re : f.ranges(o)) {
      field = re.first;
      msg   = re.second;
      if (!cx.replay && reported.count("range:" + field)) continue;
      std::vector<int> m = seq;
      quietly([&] {
        m = minimize(seq, [&](const std::vector<int> &t) {
          bool l;
          Obs  ot = guarded_run(f, t, mode, cx, cj, &l);
          for (auto &x : f.ranges(ot))
            if (x.first == field) return true;
          return false;
        });
      });
      reported.insert("range:" + field);
      cx.violation(f.prop + ":range:" + f.kn() + ":" + field, msg + "; minimal input " + f.names(m, mode) + " = " + vf::jesc(f.input_text(m, mode).substr(0, 400)), case_json(f, idx, m, mode));
    }
    // ---- reference
    // (inputs containing no-effect items / whole-input variants are tied to their plain form by the metamorphic
    //  oracle below; the plain form is itself a case and is compared with the reference there)
    bool plain = !f.strippable(mode) || (strip(f, seq).size() == seq.size() && f.base_mode(mode) == mode);
    field.clear();
    msg = plain ? f.reference(seq, mode, o, cx, &field) : "";
    if (!plain) {
    } else if (!msg.empty()) {
      // one finding per 1-minimal failing input; supersets of a known minimal input are not minimised again
      bool covered = false;
      for (auto &kn : known_min) {
        if (kn.first != mode) continue;
        size_t j = 0;
        for (size_t i = 0; i < seq.size() && j < kn.second.size(); i++)
          if (seq[i] == kn.second[j]) j++;
        covered = covered || j == kn.second.size();
      }
      if (cx.replay || !covered) {
        std::vector<int> m = seq;
        std::string      mmsg = msg, mf = field;
        quietly([&] {
          m = minimize(seq, [&](const std::vector<int> &t) {
            bool        l;
            Obs         ot = guarded_run(f, t, mode, cx, cj, &l);
            std::string fl;
            return !f.reference(t, mode, ot, cx, &fl).empty();
          });
          bool l;
          Obs  om = guarded_run(f, m, mode, cx, cj, &l);
          mmsg    = f.reference(m, mode, om, cx, &mf);
        });
        known_min.push_back({ mode, m });
        if (f.plain_mode(mode) != mode && !cx.replay) {
          bool also = false;
          quietly([&] {
            bool        l;
            std::string fl;
            Obs         op = guarded_run(f, m, f.plain_mode(mode), cx, cj, &l);
            also           = !f.reference(m, f.plain_mode(mode), op, cx, &fl).empty();
          });
          if (also) return; // reported for the plain mode
        }
        std::string key = f.prop + ":reference:" + f.kn() + ":" + (m.empty() ? std::string("(empty)") : plus_names(m, mode)) + f.key_mode(mode) + ":" + mf;
        cx.violation(key, "documented effect missing or wrong: " + mmsg + "; minimal input " + f.names(m, mode) + " (" + f.describe_mode(mode) + ") = " + vf::jesc(f.input_text(m, mode).substr(0, 400)), case_json(f, idx, m, mode));
      }
    } else {
      rep.witness("reference_agreed");
    }
    // ---- metamorphic: remove every NOEFFECT item (and the whole-input variant) -> same result
    if (!f.strippable(mode)) return;
    std::vector<int> st = strip(f, seq);
    int              bm = f.base_mode(mode);
    if (st.size() == seq.size() && bm == mode) return;
    std::string base = obs_of(st, bm);
    rep.witness("metamorphic_pairs");
    if (st.size() != seq.size()) rep.witness("junk_line_ignored", base == all ? 1 : 0);
    if (base == all) return;
    // which single no-effect item (or the variant) makes the difference?
    std::string      culprit;
    std::vector<int> with = seq, without = st;
    int              wmode = mode, junk = -1;
    bool             variant = false;
    if (bm != mode && obs_of(seq, bm) != all) {
      culprit = "variant-" + f.describe_mode(mode);
      variant = true;
    } else {
      for (size_t i = 0; i < seq.size() && culprit.empty(); i++) {
        if (f.alpha[(size_t)seq[i]].cls != NOEFFECT) continue;
        std::vector<int> t; // the effective items plus this one no-effect item
        for (size_t j = 0; j < seq.size(); j++)
          if (j == i || f.alpha[(size_t)seq[j]].cls != NOEFFECT) t.push_back(seq[j]);
        if (obs_of(t, bm) != base) {
          culprit = f.alpha[(size_t)seq[i]].name;
          junk    = seq[i];
          with    = t;
        }
      }
      if (culprit.empty()) culprit = "combination";
    }
    std::string key = f.prop + ":metamorphic:" + f.kn() + ":" + culprit;
    if (!cx.replay && reported.count(key)) return;
    reported.insert(key);
    if (variant) {
      // smallest sequence for which the variant alone matters
      quietly([&] {
        with = minimize(seq, [&](const std::vector<int> &t) {
          bool l;
          Obs  a = guarded_run(f, t, mode, cx, cj, &l);
          return a.all() != obs_of(t, bm);
        });
      });
      without = with;
    } else if (junk >= 0) {
      quietly([&] {
        with = minimize(with, [&](const std::vector<int> &u) {
          bool has = false;
          for (int x : u) has = has || x == junk;
          return has && obs_of(u, bm) != obs_of(strip(f, u), bm);
        });
      });
      without = strip(f, with);
      wmode   = bm;
    }
    Obs a, b;
    quietly([&] {
      bool l;
      a = guarded_run(f, with, wmode, cx, cj, &l);
      b = guarded_run(f, without, bm, cx, cj, &l);
    });
    cx.violation(key,
                 "an item or input form that must change nothing (" + culprit + ") changes the result: " + f.names(with, wmode) + " (" + f.describe_mode(wmode) + ") vs " + f.names(without, bm) + " (" +
                   f.describe_mode(bm) + "): " + (a.rc != b.rc ? "status " + std::to_string(a.rc) + " vs " + std::to_string(b.rc) + "; " : "") + diff_cfg(a.cfg, b.cfg) +
                   (a.extra != b.extra ? "; probes differ: " + vf::jesc(a.extra.substr(0, 300)) + " vs " + vf::jesc(b.extra.substr(0, 300)) : "") + "; input with the item = " +
                   vf::jesc(f.input_text(with, wmode).substr(0, 300)),
                 case_json(f, idx, with, wmode));
  };

  if (cx.replay) {
    JVal j;
    if (!jparse(read_file(cx.args.replay), &j) || !j.ai.count("seq")) {
      fprintf(stderr, "cannot parse replay file (need \"seq\" and \"mode\")\n");
      return 3;
    }
    std::vector<int> seq;
    for (long long v : j.ai["seq"]) seq.push_back((int)v);
    int mode = (int)j.i["mode"];
    for (int v : seq)
      if (v < 0 || (size_t)v >= f.alpha_size(mode)) {
        fprintf(stderr, "replay refers to item %d outside the alphabet\n", v);
        return 3;
      }
    if (j.s.count("input") && j.s["input"] != f.input_text(seq, mode).substr(0, 3000)) printf("note: the recorded input text differs from the one rebuilt from the item ids (alphabet changed?)\n");
    one((unsigned long long)j.i["index"], seq, mode);
    printf(cx.failed ? "REPRODUCED\n" : "HELD\n");
    return cx.failed ? 1 : 0;
  }

  if (cx.args.shard == 0 && cx.args.resume == 0) rep.counters["cases_total"] = total; // counters are summed over shards and restarts
  std::vector<int> seq;
  for (unsigned long long idx = (unsigned long long)cx.args.resume; idx < total; idx++) {
    if (idx % (unsigned long long)cx.args.nshards != (unsigned long long)cx.args.shard) continue;
    if ((cx.ncases & 255) == 0 && cx.deadline_hit()) {
      rep.exhaustive             = false;
      rep.counters["stopped_at"] = idx;
      break;
    }
    int mode;
    f.decode(idx, &seq, &mode);
    bool skip = false;
    for (auto &kn : crash_known) skip = skip || (kn.cls == f.key_mode(mode) && contains_seq(seq, kn.seq));
    if (skip) {
      rep.count("skipped_contains_crashing_input");
      continue;
    }
    note_current(f.key_mode(mode), mode, seq);
    one(idx, seq, mode);
  }
  g_crash.line[0] = 0;
  return 0;
}

// ------------------------------------------------------- family: resolvconf
static std::string build_file(const std::vector<Item> &alpha, const std::vector<int> &seq, int mode)
{
  std::string s;
  for (size_t i = 0; i < seq.size(); i++) {
    s += alpha[(size_t)seq[i]].text;
    if (mode == 1) s += "\r\n";
    else if (mode == 2 && i + 1 == seq.size()) {
    } else s += "\n";
  }
  return s;
}

struct ResolvFamily : Family {
  bool with_reinit = true;
  ResolvFamily(const std::string &n, std::vector<Item> a, unsigned kk)
  {
    name   = n;
    alpha  = std::move(a);
    k      = kk;
    nmodes = 3; // 0: LF, 1: CRLF, 2: no newline after the last line
  }
  std::string describe_mode(int m) const override { return m == 1 ? "crlf" : m == 2 ? "no-final-newline" : "lf"; }
  std::string input_text(const std::vector<int> &seq, int mode) const override { return build_file(alpha, seq, mode); }
  Obs         run(const std::vector<int> &seq, int mode, Ctx &cx) override
  {
    Env e;
    e.files["/etc/resolv.conf"] = build_file(alpha, seq, mode);
    env_apply(e);
    Obs             o;
    ares_channel_t *ch = nullptr;
    o.rc               = init_plain(&ch);
    if (o.rc != ARES_SUCCESS) return o;
    o.cfg = peek_cfg(ch);
    if (with_reinit) {
      // unchanged files: a re-read must not change anything
      int rr = ares_reinit(ch);
      cx.rep.executions++;
      Cfg c2 = peek_cfg(ch);
      o.extra = "reinit rc=" + std::to_string(rr) + " " + (diff_cfg(o.cfg, c2).empty() ? "same" : "DIFF " + diff_cfg(o.cfg, c2)) + "\n";
    }
    ares_destroy(ch);
    return o;
  }
  std::string reference(const std::vector<int> &seq, int, const Obs &o, Ctx &cx, std::string *field) override
  {
    if (o.rc != ARES_SUCCESS) {
      *field = "status";
      return "ares_init_options failed with " + std::to_string(o.rc) + " (configuration text must never make initialisation fail)";
    }
    Ref r;
    for (int i : seq) alpha[(size_t)i].eff(r);
    Expect      e   = render(r);
    std::string msg = check_expect(e, o.cfg, field);
    if (!msg.empty()) return msg;
    if (o.extra.find("DIFF") != std::string::npos) {
      *field = "reinit";
      return "ares_reinit() on unchanged files changed the configuration: " + o.extra;
    }
    if (!r.unspec.count("domains") && r.dom_doc_set && join(r.dom_doc, ",") != join(r.dom_code, ","))
      cx.rep.count(o.cfg.get("domains") == "[" + join(r.dom_doc, ",") + "]" ? "domain_after_search:last_wins(documented)" : "domain_after_search:search_kept(code comment)");
    for (int i : seq) {
      const Item &it = alpha[(size_t)i];
      if (it.cls == UNSPEC && seq.size() == 1) cx.rep.count(("undocumented:" + std::string(it.name) + " -> ndots=" + o.cfg.get("ndots") + " timeout=" + o.cfg.get("timeout") + " tries=" + o.cfg.get("tries")).c_str());
      if (!strcmp(it.name, "timeout0") || !strcmp(it.name, "attempts0")) cx.rep.witness("option_timeout_zero");
      if (!strcmp(it.name, "ns-ll") && o.cfg.get("servers").find("%eth0") != std::string::npos) cx.rep.witness("server_v6_linklocal");
    }
    return "";
  }
};

// ------------------------------------------------------- family: otherfiles
// nsswitch.conf / netsvc.conf / svc.conf decide the lookup order; host.conf is
// documented as not read.  Case = (file kind, sequence).  Kind 3 puts the
// sequence's nsswitch lines into /etc/host.conf (must have no effect at all).
struct OtherFilesFamily : Family {
  std::vector<Item> nss, svc;
  OtherFilesFamily(unsigned kk)
  {
    name = "otherfiles";
    k    = kk;
    nss  = nsswitch_alphabet();
    svc  = svcconf_alphabet();
    // one joint alphabet: item ids < nss.size() are nsswitch lines, the rest svc lines; a case uses one kind only
    alpha = nss;
    nmodes = 1;
  }
  // kinds: 0 nsswitch, 1 netsvc, 2 svc, 3 host.conf(nsswitch syntax), 4 host.conf (linux syntax), each over its own alphabet
  unsigned long long tn() const { return seq_total((unsigned)nss.size(), k); }
  unsigned long long ts() const { return seq_total((unsigned)svc.size(), k); }
  unsigned long long total() const override { return 2 * tn() + 2 * ts(); }
  void               decode(unsigned long long idx, std::vector<int> *seq, int *mode) const override
  {
    if (idx < tn()) {
      *mode = 0;
      seq_decode(idx, (unsigned)nss.size(), seq);
    } else if (idx < tn() + ts()) {
      *mode = 1;
      seq_decode(idx - tn(), (unsigned)svc.size(), seq);
    } else if (idx < tn() + 2 * ts()) {
      *mode = 2;
      seq_decode(idx - tn() - ts(), (unsigned)svc.size(), seq);
    } else {
      *mode = 3;
      seq_decode(idx - tn() - 2 * ts(), (unsigned)nss.size(), seq);
    }
  }
  const std::vector<Item> &al(int mode) const { return mode == 1 || mode == 2 ? svc : nss; }
  size_t                   alpha_size(int mode) const override { return al(mode).size(); }
  const char              *item_name(int mode, int i) const override { return al(mode)[(size_t)i].name; }
  std::string              key_mode(int mode) const override { return "@" + describe_mode(mode); }
  std::string              bound_note() const override
  {
    return " (nsswitch.conf alphabet " + std::to_string(nss.size()) + ", netsvc.conf and svc.conf alphabet " + std::to_string(svc.size()) + ", host.conf with the nsswitch alphabet)";
  }
  std::string              describe_mode(int m) const override { return m == 0 ? "nsswitch.conf" : m == 1 ? "netsvc.conf" : m == 2 ? "svc.conf" : "host.conf"; }
  std::string              input_text(const std::vector<int> &seq, int mode) const override { return describe_mode(mode) + ":\n" + build_file(al(mode), seq, 0); }
  bool                     strippable(int) const override { return false; } // handled in reference(): the memo is per kind
  std::map<std::string, std::string> memo2;
  Obs                      run1(const std::vector<int> &seq, int mode)
  {
    Env e;
    e.files["/etc/resolv.conf"] = "nameserver 10.0.0.1\n";
    static const char *path[]   = { "/etc/nsswitch.conf", "/etc/netsvc.conf", "/etc/svc.conf", "/etc/host.conf" };
    e.files[path[mode]]         = build_file(al(mode), seq, 0);
    env_apply(e);
    Obs             o;
    ares_channel_t *ch = nullptr;
    o.rc               = init_plain(&ch);
    if (o.rc != ARES_SUCCESS) return o;
    o.cfg = peek_cfg(ch);
    ares_destroy(ch);
    return o;
  }
  Obs         run(const std::vector<int> &seq, int mode, Ctx &) override { return run1(seq, mode); }
  std::string reference(const std::vector<int> &seq, int mode, const Obs &o, Ctx &cx, std::string *field) override
  {
    if (o.rc != ARES_SUCCESS) {
      *field = "status";
      return "ares_init_options failed with " + std::to_string(o.rc);
    }
    const std::vector<Item> &a = al(mode);
    Ref                      r;
    r.servers = { "10.0.0.1:53" };
    if (mode != 3)
      for (int i : seq) a[(size_t)i].eff(r);
    Expect      e   = render(r);
    std::string msg = check_expect(e, o.cfg, field);
    if (!msg.empty()) {
      *field += std::string("@") + describe_mode(mode);
      return msg;
    }
    // metamorphic within the kind
    std::vector<int> st;
    for (int i : seq)
      if (a[(size_t)i].cls != NOEFFECT) st.push_back(i);
    if (st.size() != seq.size()) {
      std::string key = std::to_string(mode) + ":" + std::string((const char *)st.data(), st.size() * sizeof(int));
      auto        it  = memo2.find(key);
      if (it == memo2.end()) {
        Obs b = run1(st, mode);
        cx.rep.executions++;
        it = memo2.emplace(key, b.all()).first;
      }
      cx.rep.witness("metamorphic_pairs");
      cx.rep.witness("junk_line_ignored", it->second == o.all() ? 1 : 0);
      if (it->second != o.all()) {
        *field = "metamorphic@" + describe_mode(mode);
        return "junk/comment lines change the configuration";
      }
    }
    return "";
  }
};

// ---------------------------------------------------------- family: envopts
// RES_OPTIONS = sequence of tokens, LOCALDOMAIN = one of a few variants, on
// top of a resolv.conf that sets every field the environment can override.
struct EnvOptsFamily : Family {
  std::vector<LdVariant> ld;
  unsigned               kshort = 2;
  EnvOptsFamily(unsigned kk)
  {
    name   = "envopts";
    alpha  = resopt_alphabet();
    k      = kk;
    ld     = localdomain_variants();
    nmodes = 1;
  }
  // mode = LOCALDOMAIN variant * 2 + separator (0: space, 1: tab); full depth only for (unset, space)
  unsigned long long tk() const { return seq_total((unsigned)alpha.size(), k); }
  unsigned long long t2() const { return seq_total((unsigned)alpha.size(), kshort); }
  unsigned long long total() const override { return tk() + (2 * ld.size() - 1) * t2(); }
  void               decode(unsigned long long idx, std::vector<int> *seq, int *mode) const override
  {
    if (idx < tk()) {
      *mode = 0;
      seq_decode(idx, (unsigned)alpha.size(), seq);
      return;
    }
    idx -= tk();
    *mode = 1 + (int)(idx / t2());
    seq_decode(idx % t2(), (unsigned)alpha.size(), seq);
  }
  std::string describe_mode(int m) const override { return std::string("LOCALDOMAIN-") + ld[(size_t)m / 2].name + (m % 2 ? "+tab" : ""); }
  std::string resopts(const std::vector<int> &seq, int mode) const
  {
    std::string s;
    for (size_t i = 0; i < seq.size(); i++) s += (i ? (mode % 2 ? "\t" : " ") : "") + alpha[(size_t)seq[i]].text;
    return s;
  }
  std::string input_text(const std::vector<int> &seq, int mode) const override
  {
    const LdVariant &l = ld[(size_t)mode / 2];
    return "RES_OPTIONS=" + resopts(seq, mode) + (l.set ? "\nLOCALDOMAIN=" + l.value : "");
  }
  bool        strippable(int) const override { return true; }
  int         base_mode(int mode) const override { return (mode / 2) * 2; } // same LOCALDOMAIN, blank separated
  std::string key_mode(int mode) const override { return mode / 2 ? std::string("@LOCALDOMAIN-") + ld[(size_t)mode / 2].name : std::string(); }
  int         plain_mode(int) const override { return 0; }
  std::string bound_note() const override
  {
    return " for RES_OPTIONS with LOCALDOMAIN unset; x " + std::to_string(ld.size()) + " LOCALDOMAIN values x {space, tab} separators for sequences of <= " + std::to_string(kshort) + " tokens";
  }
  Obs         run(const std::vector<int> &seq, int mode, Ctx &) override
  {
    Env e;
    e.files["/etc/resolv.conf"] = "nameserver 10.0.0.1\nsearch file.example\noptions ndots:3 timeout:4 attempts:2\n";
    e.has_resopts               = !seq.empty(); // the empty sequence is "variable not set"; the item "empty" alone is "set to the empty string"
    e.resopts                   = resopts(seq, mode);
    const LdVariant &l          = ld[(size_t)mode / 2];
    e.has_localdomain           = l.set;
    e.localdomain               = l.value;
    env_apply(e);
    Obs             o;
    ares_channel_t *ch = nullptr;
    o.rc               = init_plain(&ch);
    if (o.rc != ARES_SUCCESS) return o;
    o.cfg = peek_cfg(ch);
    ares_destroy(ch);
    return o;
  }
  std::string reference(const std::vector<int> &seq, int mode, const Obs &o, Ctx &cx, std::string *field) override
  {
    if (o.rc != ARES_SUCCESS) {
      *field = "status";
      return "ares_init_options failed with " + std::to_string(o.rc);
    }
    Ref r;
    r.servers = { "10.0.0.1:53" };
    search({ "file.example" })(r);
    opts(3, 4, 2, 0, 0)(r);
    const LdVariant &l = ld[(size_t)mode / 2];
    l.eff(r); // the environment overrides the file (resolv.conf(5); "Environment is supposed to override sysconfig")
    for (int i : seq) alpha[(size_t)i].eff(r);
    Expect      e   = render(r);
    std::string msg = check_expect(e, o.cfg, field);
    if (!msg.empty()) {
      if (l.cls == NOEFFECT && *field == "servers") *field = std::string("LOCALDOMAIN-") + l.name;
      return msg;
    }
    if (l.cls == UNSPEC && seq.empty()) cx.rep.count(("undocumented:LOCALDOMAIN-" + std::string(l.name) + " -> domains=" + vf::jesc(o.cfg.get("domains").substr(0, 60))).c_str());
    for (int i : seq) {
      const Item &it = alpha[(size_t)i];
      if (it.cls == UNSPEC && seq.size() == 1 && mode == 0) cx.rep.count(("undocumented:RES_OPTIONS " + std::string(it.name) + " -> ndots=" + o.cfg.get("ndots") + " timeout=" + o.cfg.get("timeout") + " tries=" + o.cfg.get("tries")).c_str());
      if (!strcmp(it.name, "timeout0") || !strcmp(it.name, "attempts0")) cx.rep.witness("option_timeout_zero");
    }
    if (r.ndots == 2 || r.timeout == 3000) cx.rep.witness("env_overrides_file");
    return "";
  }
};

// ------------------------------------------------------------ family: hosts
struct HostLine {
  const char              *ip;
  std::vector<const char *> names;
};
static std::vector<Item> hosts_alphabet(std::map<std::string, HostLine> *sem)
{
  std::vector<Item> a;
  auto              add = [&](const char *name, const std::string &text, Cls cls, const char *ip = nullptr, std::vector<const char *> names = {}) {
    a.push_back({ name, text, cls, none() });
    if (ip) (*sem)[name] = HostLine{ ip, names };
  };
  add("localhost", "127.0.0.1 localhost", VALID, "127.0.0.1", { "localhost" });
  add("alpha", "10.1.1.1 alpha a1", VALID, "10.1.1.1", { "alpha", "a1" });
  add("beta", "10.1.1.2\tbeta", VALID, "10.1.1.2", { "beta" });
  add("alpha-dup-name", "10.1.1.3 alpha", VALID, "10.1.1.3", { "alpha" });
  add("alpha-dup-ip", "10.1.1.1 gamma", VALID, "10.1.1.1", { "gamma" });
  add("alpha6", "2001:db8::10 alpha6 alpha", VALID, "2001:db8::10", { "alpha6", "alpha" });
  add("localhost6", "::1 localhost ip6-localhost", VALID, "::1", { "localhost", "ip6-localhost" });
  add("trailing-comment", "10.1.1.4 delta # 10.9.9.9 ghost", VALID, "10.1.1.4", { "delta" });
  add("leading-ws", "  10.1.1.5   eps  ", VALID, "10.1.1.5", { "eps" });
  add("long-alias", "10.1.1.8 okname " + rep('n', 300), VALID, "10.1.1.8", { "okname" }); // the over-long alias is dropped, the entry stays
  add("upper", "10.1.1.9 MixedCase", VALID, "10.1.1.9", { "mixedcase" });
  add("comment", "# 10.9.9.9 ghost", NOEFFECT);
  add("empty", "", NOEFFECT);
  add("junk", "junk", NOEFFECT);
  add("bad-ip", "10.1.1.999 ghost", NOEFFECT);
  add("no-names", "10.1.1.6", NOEFFECT);
  add("long-name", "10.1.1.7 " + rep('m', 300), NOEFFECT);
  add("bin", std::string("\xff\xfe\x01 10.9.9.8 ghost"), NOEFFECT);
  add("bin-name", std::string("10.9.9.7 \xff\xfeghost"), NOEFFECT);
  add("long-token", rep('t', 600) + " ghost", NOEFFECT);
  add("long-ip", "10.1.1.1" + rep('0', 60) + " ghost", NOEFFECT);
  return a;
}

struct HostsFamily : Family {
  std::map<std::string, HostLine> sem;
  std::vector<const char *>       probe_names = { "localhost", "alpha", "a1", "beta", "gamma", "alpha6", "ip6-localhost", "delta", "eps", "okname", "mixedcase", "ghost", "junk" };
  std::vector<const char *>       probe_ips   = { "127.0.0.1", "10.1.1.1", "10.1.1.2", "10.1.1.3", "10.1.1.4", "10.1.1.5", "10.1.1.8", "10.1.1.9", "2001:db8::10", "::1", "10.9.9.9", "10.9.9.8", "10.1.1.6" };
  HostsFamily(unsigned kk)
  {
    name   = "hosts";
    alpha  = hosts_alphabet(&sem);
    k      = kk;
    nmodes = 3;
  }
  std::string describe_mode(int m) const override { return m == 1 ? "crlf" : m == 2 ? "no-final-newline" : "lf"; }
  std::string input_text(const std::vector<int> &seq, int mode) const override { return build_file(alpha, seq, mode); }
  struct CbRes {
    int         status = -1, count = 0;
    std::string text;
  };
  static std::string hostent_text(const struct hostent *h)
  {
    if (!h) return "(null)";
    std::string s = std::string("name=") + (h->h_name ? h->h_name : "(null)") + " aliases=";
    for (char **p = h->h_aliases; p && *p; p++) s += std::string(*p) + ",";
    s += " addrs=";
    for (char **p = h->h_addr_list; p && *p; p++) {
      char b[INET6_ADDRSTRLEN + 1] = "";
      inet_ntop(h->h_addrtype, *p, b, sizeof b);
      s += std::string(b) + ",";
    }
    return s;
  }
  static void host_cb(void *arg, int status, int, struct hostent *h)
  {
    CbRes *r  = (CbRes *)arg;
    r->status = status;
    r->count++;
    r->text = status == ARES_SUCCESS ? hostent_text(h) : "";
  }
  Obs run(const std::vector<int> &seq, int mode, Ctx &) override
  {
    Env e;
    e.files["/etc/resolv.conf"] = "nameserver 10.0.0.1\n";
    e.files["/vfs/hosts"]       = build_file(alpha, seq, mode);
    env_apply(e);
    Obs                 o;
    ares_channel_t     *ch = nullptr;
    struct ares_options op;
    memset(&op, 0, sizeof op);
    op.lookups    = (char *)"f";
    op.hosts_path = (char *)"/vfs/hosts";
    o.rc          = ares_init_options(&ch, &op, ARES_OPT_LOOKUPS | ARES_OPT_HOSTS_FILE);
    if (o.rc != ARES_SUCCESS) return o;
    install_sockfuncs(ch);
    for (const char *n : probe_names)
      for (int fam : { AF_INET, AF_INET6 }) {
        struct hostent *h  = nullptr;
        int             rc = ares_gethostbyname_file(ch, n, fam, &h);
        o.extra += std::string("byname ") + n + (fam == AF_INET ? " 4 " : " 6 ") + std::to_string(rc) + " " + (rc == ARES_SUCCESS ? hostent_text(h) : "") + "\n";
        if (h) ares_free_hostent(h);
      }
    for (const char *ip : probe_ips) {
      unsigned char buf[16];
      int           fam = strchr(ip, ':') ? AF_INET6 : AF_INET;
      inet_pton(fam, ip, buf);
      CbRes r;
      ares_gethostbyaddr(ch, buf, fam == AF_INET ? 4 : 16, fam, host_cb, &r);
      o.extra += std::string("byaddr ") + ip + " " + std::to_string(r.status) + " cb=" + std::to_string(r.count) + " " + r.text + "\n";
    }
    // the file is rewritten while the channel is alive, within the very second in which the channel read it: the valid
    // line added at its end must take effect on the next lookup
    rewrite_file("/vfs/hosts", e.files["/vfs/hosts"] + "\n10.77.7.7 addedlater\n", 1700000000);
    {
      struct hostent *h  = nullptr;
      int             rc = ares_gethostbyname_file(ch, "addedlater", AF_INET, &h);
      o.extra += std::string("rewritten addedlater ") + std::to_string(rc) + " " + (rc == ARES_SUCCESS ? hostent_text(h) : "") + "\n";
      if (h) ares_free_hostent(h);
    }
    ares_destroy(ch);
    return o;
  }
  RangeErrs   ranges(const Obs &) override { return {}; }
  std::string outcome_tag(const Obs &o, int) const override { return " names=" + std::to_string(count_sub(o.extra, " 0 name=")) + " addrs=" + std::to_string(count_sub(o.extra, " 0 cb=1")); }
  std::string reference(const std::vector<int> &seq, int, const Obs &o, Ctx &cx, std::string *field) override
  {
    if (o.rc != ARES_SUCCESS) {
      *field = "status";
      return "ares_init_options failed with " + std::to_string(o.rc);
    }
    // every probe completes exactly once
    if (o.extra.find("cb=0") != std::string::npos || o.extra.find("cb=2") != std::string::npos) {
      *field = "callback-count";
      return "ares_gethostbyaddr with lookups \"f\" did not complete exactly once: " + o.extra;
    }
    auto line_of = [&](const std::string &prefix) -> std::string {
      size_t p = o.extra.find(prefix);
      if (p == std::string::npos) return "";
      return o.extra.substr(p, o.extra.find('\n', p) - p);
    };
    {
      std::string l = line_of("rewritten addedlater ");
      if (l.find("rewritten addedlater 0 ") != 0 || l.find("10.77.7.7") == std::string::npos) {
        *field = "rewritten-file";
        return "a valid line appended to the hosts file while the channel was alive did not take effect: " + l;
      }
      cx.rep.witness("hosts_file_rewritten_while_in_use");
    }
    // each valid line takes effect: a name resolves, in the address family of the FIRST valid line that mentions it, to a set
    // containing that line's address (hosts(5) does not say what later lines with the same name or address add: c-ares merges
    // such entries, which is counted, not asserted); every address of a valid line resolves back to an entry
    std::set<std::string> named, addressed, first_seen;
    for (int i : seq) {
      auto it = sem.find(alpha[(size_t)i].name);
      if (it == sem.end()) continue;
      const HostLine &hl = it->second;
      bool            v6 = strchr(hl.ip, ':') != nullptr;
      for (const char *n : hl.names) {
        named.insert(n);
        std::string pre = std::string("byname ") + n + (v6 ? " 6 " : " 4 ");
        std::string l   = line_of(pre);
        bool        has = l.find(std::string("=") + hl.ip + ",") != std::string::npos || l.find(std::string(",") + hl.ip + ",") != std::string::npos;
        if (first_seen.insert(n).second) {
          if (l.compare(0, pre.size() + 2, pre + "0 ") != 0 || !has) {
            *field = std::string("byname:") + n;
            return std::string("hosts line '") + alpha[(size_t)i].name + "' is the first to mention " + n + " but the lookup does not return its address: " + l;
          }
        } else
          cx.rep.count(has ? "hosts_later_line_same_name:address_added" : "hosts_later_line_same_name:address_not_added");
      }
      addressed.insert(hl.ip);
      std::string l = line_of(std::string("byaddr ") + hl.ip + " ");
      if (l.find(std::string("byaddr ") + hl.ip + " 0 ") == std::string::npos) {
        *field = std::string("byaddr:") + hl.ip;
        return std::string("hosts line '") + alpha[(size_t)i].name + "' has no effect on the reverse lookup of " + hl.ip + ": " + l;
      }
      cx.rep.witness("hosts_entry_found");
    }
    // nothing else resolves
    for (const char *n : probe_names)
      if (!named.count(n) && strcmp(n, "localhost") != 0) // "localhost" is answered without the file (RFC 6761)
        for (const char *fam : { " 4 ", " 6 " }) {
          std::string l = line_of(std::string("byname ") + n + fam);
          if (l.find(std::string(fam) + std::to_string(ARES_ENOTFOUND) + " ") == std::string::npos) {
            *field = std::string("phantom:") + n;
            return std::string("name that is on no valid line resolves or fails oddly: ") + l;
          }
        }
    for (const char *ip : probe_ips)
      if (!addressed.count(ip)) {
        std::string l = line_of(std::string("byaddr ") + ip + " ");
        if (l.find(std::string("byaddr ") + ip + " " + std::to_string(ARES_ENOTFOUND) + " ") == std::string::npos) {
          *field = std::string("phantom:") + ip;
          return std::string("address that is on no valid line resolves or fails oddly: ") + l;
        }
      }
    return "";
  }
};

// ---------------------------------------------------------- family: aliases
struct AliasLine {
  const char *name, *target;
};
struct AliasesFamily : Family {
  std::map<std::string, AliasLine> sem;
  std::vector<const char *>        probes = { "c-ares", "curl", "CURL", "nodest", "dotted.name", "bad", "tab", "lead", "long", "missing", "x" };
  AliasesFamily(unsigned kk)
  {
    name     = "aliases";
    k        = kk;
    nmodes   = 3;
    auto add = [&](const char *n, const std::string &text, Cls cls, const char *an = nullptr, const char *target = nullptr) {
      alpha.push_back({ n, text, cls, none() });
      if (an) sem[n] = AliasLine{ an, target };
    };
    add("c-ares", "c-ares www.c-ares.org", VALID, "c-ares", "www.c-ares.org");
    add("curl", "curl    www.curl.se", VALID, "curl", "www.curl.se");
    add("c-ares-dup", "c-ares other.example", VALID, "c-ares", "other.example");
    add("tab", "tab\tt.example", VALID, "tab", "t.example");
    add("lead", "  lead l.example", VALID, "lead", "l.example");
    add("trailing", "x x.example trailing words", VALID, "x", "x.example");
    add("comment", "# curl c.example", NOEFFECT);
    add("empty", "", NOEFFECT);
    add("nodest", "nodest", NOEFFECT);
    add("dotted", "dotted.name d.example", NOEFFECT);  // names containing a dot are never looked up
    add("bad-target", "bad bad!target", NOEFFECT);     // target is not a host name
    add("long-name", rep('a', 70) + " l.example", NOEFFECT);
    add("long-target", "long " + rep('b', 300), NOEFFECT);
    add("bin", std::string("\xff\xfe\x01 b.example"), NOEFFECT);
    add("bin-target", std::string("missing \xff\xfe"), NOEFFECT);
    add("long-token", rep('t', 600), NOEFFECT);
  }
  std::string describe_mode(int m) const override { return m == 1 ? "crlf" : m == 2 ? "no-final-newline" : "lf"; }
  std::string input_text(const std::vector<int> &seq, int mode) const override { return build_file(alpha, seq, mode); }
  RangeErrs   ranges(const Obs &) override { return {}; }
  std::string outcome_tag(const Obs &o, int) const override { return " aliases=" + std::to_string(count_sub(o.extra, " -> 0 ")); }
  Obs         run(const std::vector<int> &seq, int mode, Ctx &) override
  {
    Env e;
    e.files["/etc/resolv.conf"] = "nameserver 10.0.0.1\n";
    e.files["/vfs/aliases"]     = build_file(alpha, seq, mode);
    e.hostaliases               = "/vfs/aliases";
    env_apply(e);
    Obs             o;
    ares_channel_t *ch = nullptr;
    o.rc               = init_plain(&ch);
    if (o.rc != ARES_SUCCESS) return o;
    for (const char *p : probes) {
      std::string al;
      int         rc = lookup_alias(ch, p, &al);
      o.extra += std::string("alias ") + p + " -> " + std::to_string(rc) + " " + al + "\n";
    }
    ares_destroy(ch);
    return o;
  }
  std::string reference(const std::vector<int> &seq, int, const Obs &o, Ctx &cx, std::string *field) override
  {
    if (o.rc != ARES_SUCCESS) {
      *field = "status";
      return "ares_init_options failed with " + std::to_string(o.rc);
    }
    for (const char *p : probes) {
      // first valid line whose name matches wins (hostname(7) gives no rule for duplicates: the first match is what a
      // line-by-line reader returns); matching is case-insensitive like host names
      std::string want;
      bool        ambiguous = false;
      for (int i : seq) {
        auto it = sem.find(alpha[(size_t)i].name);
        if (it == sem.end() || strcasecmp(it->second.name, p) != 0) continue;
        if (want.empty()) want = it->second.target;
        else if (want != it->second.target) ambiguous = true;
      }
      size_t      pos  = o.extra.find(std::string("alias ") + p + " -> ");
      std::string line = o.extra.substr(pos, o.extra.find('\n', pos) - pos);
      std::string exp  = std::string("alias ") + p + " -> " + (want.empty() ? std::to_string(ARES_ENOTFOUND) + " " : "0 " + want);
      if (ambiguous) {
        cx.rep.count(line == exp ? "duplicate_alias:first_wins" : "duplicate_alias:other");
        if (line.find(" -> 0 ") == std::string::npos) {
          *field = std::string("alias:") + p;
          return "alias defined twice is not found at all: " + line;
        }
        continue;
      }
      if (line != exp) {
        *field = std::string("alias:") + p;
        return "expected '" + exp + "', got '" + line + "'";
      }
      if (!want.empty()) cx.rep.witness("alias_found");
    }
    return "";
  }
};

// ---------------------------------------------------------- family: strings
// ares_set_sortlist() and ares_set_servers_csv()/ares_set_servers_ports_csv()
// strings: sequences of items joined by the documented separator.
struct StrItem {
  const char *name;
  std::string text;
  int         kind; // 0 ok (takes effect), 1 skipped silently (documented), 2 bad (setter must fail, nothing changes), 3 not documented
  std::string canon; // rendering when kind == 0
};
static std::string many_sortlist(bool canon)
{
  std::string s;
  for (int i = 1; i <= 40; i++) s += (i > 1 ? " " : "") + ("10.50." + std::to_string(i) + ".0") + (canon || i % 2 ? "/24" : "/255.255.255.0");
  return s;
}
static std::vector<StrItem> sortlist_items()
{
  return {
    { "natural-a", "10.1.2.3", 0, "10.1.2.3/8" },
    { "natural-b", "130.155.0.0", 0, "130.155.0.0/16" },
    { "natural-c", "192.168.7.0", 0, "192.168.7.0/24" },
    { "cidr", "172.16.0.0/12", 0, "172.16.0.0/12" },
    { "netmask", "130.155.160.0/255.255.240.0", 0, "130.155.160.0/20" },
    { "host32", "10.9.8.7/32", 0, "10.9.8.7/32" },
    { "zero", "0.0.0.0/0", 0, "0.0.0.0/0" },
    { "v6", "2001:db8::/32", 0, "2001:db8::/32" },
    { "v6-natural", "fe80::1", 0, "fe80::1/64" },
    { "v6-128", "::1/128", 0, "::1/128" },
    { "mask33", "10.0.0.0/33", 2, "" },
    { "v6-mask129", "2001:db8::/129", 2, "" },
    { "missing-mask", "10.0.0.0/", 2, "" },
    { "only-mask", "/24", 2, "" },
    { "junk", "junk", 2, "" },
    { "bad-ip", "10.0.0.999/8", 2, "" },
    { "mask-huge", "10.0.0.0/99999999999", 2, "" },
    { "mask-neg", "10.0.0.0/-1", 2, "" },
    { "long", std::string(600, '1'), 2, "" },
    { "bin", std::string("\xff\xfe\x01"), 2, "" },
    { "mask-noncontig", "10.0.0.0/255.0.255.0", 3, "" },   // a netmask with holes: not documented
    { "v6-netmask", "2001:db8::/255.255.0.0", 3, "" },       // dotted netmask on an IPv6 address: not documented
    { "semicolon", "10.20.0.0/16;10.30.0.0/16", 3, "" },   // ';' as separator is supported by the code, not documented
    { "empty", "", 1, "" },                                    // two consecutive separators
    { "many", many_sortlist(false), 0, many_sortlist(true) },  // 40 entries in one go
  };
}
static std::vector<StrItem> csv_items()
{
  return {
    { "v4", "10.0.0.1", 0, "10.0.0.1:53" },
    { "v4-port", "10.0.0.2:5353", 0, "10.0.0.2:5353" },
    { "v4-bracket", "[10.0.0.3]", 0, "10.0.0.3:53" },
    { "v4-bracket-port", "[10.0.0.4]:54", 0, "10.0.0.4:54" },
    { "v6", "2001:db8::1", 0, "[2001:db8::1]:53" },
    { "v6-port", "[2001:db8::2]:5353", 0, "[2001:db8::2]:5353" },
    { "ll-port-iface", "[fe80::1]:53%eth0", 0, "[fe80::1]:53%eth0" },
    { "ll-iface", "fe80::2%eth0", 0, "[fe80::2]:53%eth0" },
    { "ll-ifindex", "[fe80::3]:5353%3", 0, "[fe80::3]:5353%eth1" },
    { "uri-v4", "dns://10.0.0.5", 0, "10.0.0.5:53" },
    { "uri-v4-port", "dns://10.0.0.6:55", 0, "10.0.0.6:55" },
    { "uri-v6-tcpport", "dns://[2001:db8::5]:55?tcpport=56", 0, "dns://[2001:db8::5]:55?tcpport=56" },
    { "uri-ll", "dns://[fe80::5%eth0]:53", 0, "[fe80::5]:53%eth0" }, // the documented form carries the interface unescaped
    { "uri-ll-tcpport", "dns://[fe80::7%eth0]:53?tcpport=54", 0, "dns://[fe80::7%eth0]:53?tcpport=54" },
    { "uri-tcpport-only", "dns://10.0.0.7?tcpport=5300", 0, "dns://10.0.0.7:53?tcpport=5300" },
    { "v4-again", "10.0.0.1:53", 0, "10.0.0.1:53" }, // duplicate of "v4" in another spelling
    { "ll-unknown-iface", "[fe80::9]:53%nosuch0", 1, "" }, // interface cannot be validated: silently ignored
    { "ll-no-iface", "fe80::4", 1, "" },                   // link-local without interface: silently ignored
    { "site-local", "fec0::1", 1, "" },                    // deprecated site-local: silently ignored
    { "uri-ll-no-iface", "dns://[fe80::6]", 1, "" },
    { "empty", "", 1, "" },
    { "junk", "junk", 2, "" },
    { "bad-v4", "10.0.0.999", 2, "" },
    { "unclosed", "[10.0.0.8", 2, "" },
    { "port-empty", "10.0.0.8:", 2, "" },
    { "port-junk", "10.0.0.8:dns", 2, "" },
    { "uri-scheme", "dns+tls://10.0.0.8", 2, "" }, // only dns:// is implemented
    { "uri-host", "dns://ns.example.com", 2, "" },
    { "long", std::string(600, '7'), 2, "" },
    { "bin", std::string("\xff\xfe\x01"), 2, "" },
    { "v6-unbracketed-port", "2001:db8::3:5353", 3, "" }, // parses as an address
    { "port-65536", "10.0.0.9:65536", 3, "" },
    { "port-99999", "10.0.0.9:99999", 3, "" },
    { "port-0", "10.0.0.9:0", 3, "" },
    { "uri-port-99999", "dns://10.0.0.10:99999", 3, "" },
    { "uri-tcpport-junk", "dns://10.0.0.11:53?tcpport=abc", 3, "" },
    { "uri-tcpport-99999", "dns://10.0.0.11:53?tcpport=99999", 3, "" },
    { "uri-unknown-key", "dns://10.0.0.12:53?bogus=1", 3, "" },
    { "iface-on-global", "[2001:db8::7]:53%eth0", 3, "" }, // "should not otherwise be used"
    { "uri-ll-pct25", "dns://[fe80::8%25eth0]:53", 3, "" },  // RFC 6874 escaping of the zone id: not what ares_set_servers_csv.3 shows
  };
}

struct StringsFamily : Family {
  std::vector<StrItem> sl, csv;
  StringsFamily(unsigned kk)
  {
    name = "strings";
    k    = kk;
    sl   = sortlist_items();
    csv  = csv_items();
    for (auto &s : sl) alpha.push_back({ s.name, s.text, s.kind == 0 ? VALID : s.kind == 3 ? UNSPEC : NOEFFECT, none() });
  }
  // modes: 0 sortlist, 1 ares_set_servers_csv, 2 ares_set_servers_ports_csv, 3 csv with trailing comma, 4 csv separated by ", "
  unsigned long long tsl() const { return seq_total((unsigned)sl.size(), k); }
  unsigned long long tcs() const { return seq_total((unsigned)csv.size(), k); }
  unsigned long long tcs1() const { return seq_total((unsigned)csv.size(), k - 1); }
  unsigned long long total() const override { return tsl() + 2 * tcs() + 2 * tcs1(); }
  void               decode(unsigned long long idx, std::vector<int> *seq, int *mode) const override
  {
    if (idx < tsl()) {
      *mode = 0;
      seq_decode(idx, (unsigned)sl.size(), seq);
      return;
    }
    idx -= tsl();
    if (idx < 2 * tcs()) {
      *mode = 1 + (int)(idx / tcs());
      seq_decode(idx % tcs(), (unsigned)csv.size(), seq);
      return;
    }
    idx -= 2 * tcs();
    *mode = 3 + (int)(idx / tcs1());
    seq_decode(idx % tcs1(), (unsigned)csv.size(), seq);
  }
  const std::vector<StrItem> &al(int mode) const { return mode == 0 ? sl : csv; }
  size_t                      alpha_size(int mode) const override { return al(mode).size(); }
  const char                 *item_name(int mode, int i) const override { return al(mode)[(size_t)i].name; }
  std::string                 key_mode(int mode) const override { return mode == 0 ? "@sortlist" : "@csv"; }
  std::string                 bound_note() const override
  {
    return " (ares_set_sortlist items: " + std::to_string(sl.size()) + ", ares_set_servers_csv / ares_set_servers_ports_csv items: " + std::to_string(csv.size()) + ")";
  }
  std::string                 describe_mode(int m) const override
  {
    static const char *n[] = { "ares_set_sortlist", "ares_set_servers_csv", "ares_set_servers_ports_csv", "ares_set_servers_csv+trailing-comma", "ares_set_servers_csv+comma-space" };
    return n[m];
  }
  std::string text(const std::vector<int> &seq, int mode) const
  {
    std::string s;
    for (size_t i = 0; i < seq.size(); i++) s += (i ? (mode == 0 ? " " : mode == 4 ? ", " : ",") : "") + al(mode)[(size_t)seq[i]].text;
    if (mode == 3) s += ",";
    return s;
  }
  std::string input_text(const std::vector<int> &seq, int mode) const override { return describe_mode(mode) + "(\"" + text(seq, mode) + "\")"; }
  bool        strippable(int) const override { return false; }
  RangeErrs   ranges(const Obs &o) override { return o.cfg.f.empty() ? RangeErrs() : check_ranges(o.cfg); }
  std::string outcome_tag(const Obs &, int mode) const override { return mode == 0 ? " sortlist" : " csv"; }
  Obs run(const std::vector<int> &seq, int mode, Ctx &) override
  {
    Env e;
    e.files["/etc/resolv.conf"] = "nameserver 10.200.0.1\nsortlist 10.200.0.0/16\n";
    env_apply(e);
    Obs             o;
    ares_channel_t *ch = nullptr;
    int             rc = init_plain(&ch);
    if (rc != ARES_SUCCESS) {
      o.rc = rc;
      o.extra = "init failed\n";
      return o;
    }
    install_sockfuncs(ch);
    std::string s = text(seq, mode);
    if (mode == 0) o.rc = ares_set_sortlist(ch, s.c_str());
    else if (mode == 2) o.rc = ares_set_servers_ports_csv(ch, s.c_str());
    else o.rc = ares_set_servers_csv(ch, s.c_str());
    o.cfg = peek_cfg(ch);
    if (mode != 0 && o.rc == ARES_SUCCESS) {
      // text -> set -> text reproduces itself
      std::string csv1 = o.cfg.get("servers");
      int         rc2  = ares_set_servers_ports_csv(ch, csv1.c_str());
      Cfg         c2   = peek_cfg(ch);
      o.extra += "roundtrip rc=" + std::to_string(rc2) + " " + (rc2 == ARES_SUCCESS && diff_cfg(o.cfg, c2).empty() ? "same" : "DIFF " + diff_cfg(o.cfg, c2)) + "\n";
    }
    ares_destroy(ch);
    return o;
  }
  std::string reference(const std::vector<int> &seq, int mode, const Obs &o, Ctx &cx, std::string *field) override
  {
    if (o.extra.find("init failed") != std::string::npos) {
      *field = "status";
      return "ares_init_options failed";
    }
    const std::vector<StrItem> &a = al(mode);
    bool                        bad = false, undocumented = false;
    std::vector<std::string>    want;
    for (int i : seq) {
      const StrItem &it = a[(size_t)i];
      if (it.kind == 2) bad = true;
      if (it.kind == 3) undocumented = true;
      if (it.kind == 0) {
        bool dup = false;
        for (auto &w : want) dup = dup || (mode != 0 && w == it.canon); // a repeated server is one server; sortlist entries are kept as written
        if (!dup) want.push_back(it.canon);
      }
    }
    const char *fld      = mode == 0 ? "sortlist" : "servers";
    std::string before   = mode == 0 ? "[10.200.0.0/16]" : "10.200.0.1:53";
    std::string got      = o.cfg.get(fld);
    if (mode != 0 && o.extra.find("DIFF") != std::string::npos) {
      *field = "csv-roundtrip";
      return "ares_get_servers_csv() text fed back to ares_set_servers_ports_csv() does not reproduce the server list: " + o.extra;
    }
    if (mode != 0 && o.rc == ARES_SUCCESS) cx.rep.witness("csv_roundtrip");
    // ares_set_sortlist.3 does not say what a string without any entry does (observed: ARES_ENOMEM for "", success and no change for " ")
    if (mode == 0 && !bad && want.empty()) undocumented = true;
    if (undocumented) {
      if (seq.size() <= 1) cx.rep.count(("undocumented:" + describe_mode(mode) + "(" + (seq.empty() ? "" : a[(size_t)seq[0]].name) + ") -> rc=" + std::to_string(o.rc) + " " + fld + "=" + vf::jesc(got.substr(0, 80))).c_str());
      if (o.rc != ARES_SUCCESS && got != before) {
        *field = "error-changes-state";
        return describe_mode(mode) + " failed with " + std::to_string(o.rc) + " but changed " + fld + " to " + got;
      }
      return "";
    }
    if (bad) {
      if (o.rc == ARES_SUCCESS) {
        *field = "bad-item-accepted";
        std::string names;
        for (int i : seq)
          if (a[(size_t)i].kind == 2) names += (names.empty() ? "" : "+") + std::string(a[(size_t)i].name);
        *field += ":" + names;
        return describe_mode(mode) + " accepted a malformed item (" + names + "), " + fld + " = " + got;
      }
      if (got != before) {
        *field = "error-changes-state";
        return describe_mode(mode) + " failed with " + std::to_string(o.rc) + " but changed " + fld + " to " + got;
      }
      cx.rep.witness("setter_error");
      return "";
    }
    if (o.rc != ARES_SUCCESS) {
      *field = "valid-rejected";
      return describe_mode(mode) + " rejected a valid string with " + std::to_string(o.rc);
    }
    std::string exp;
    if (mode == 0) {
      // ares_set_sortlist.3: replaces the list; a string without any entry leaves it (documented return is success)
      exp = want.empty() ? before : "[" + join(want, " ") + "]";
    } else {
      exp = join(want, ","); // an empty / all-skipped list clears the servers ("passing NULL for servers will clear all configured servers")
    }
    if (got != exp) {
      *field = std::string("value");
      for (int i : seq)
        if (a[(size_t)i].kind == 0 && got.find(a[(size_t)i].canon) == std::string::npos) {
          *field = std::string("value:") + a[(size_t)i].name;
          break;
        }
      return describe_mode(mode) + "(\"" + vf::jesc(text(seq, mode).substr(0, 200)) + "\"): expected " + fld + " " + exp + ", got " + got;
    }
    cx.rep.witness("setter_ok");
    if (got.find("%eth") != std::string::npos) cx.rep.witness("server_v6_linklocal");
    return "";
  }
};

// ------------------------------------------------------------------ driver
bool is_c15_family(const std::string &f)
{
  return f == "resolvconf" || f == "resolvconf-deep" || f == "otherfiles" || f == "hosts" || f == "aliases" || f == "envopts" || f == "strings";
}

int run_c15(Ctx &cx)
{
  const std::string &fam = cx.args.family;
  unsigned           k   = (unsigned)cx.args.geti("k", cx.args.tier == "thorough" ? 4 : 3);
  Family            *f   = nullptr;
  if (fam == "resolvconf") f = new ResolvFamily("resolvconf", resolv_alphabet(), k);
  else if (fam == "resolvconf-deep") {
    f          = new ResolvFamily("resolvconf-deep", resolv_core_alphabet(), k);
    f->keyname = "resolvconf";
  }
  else if (fam == "otherfiles") f = new OtherFilesFamily(k);
  else if (fam == "hosts") f = new HostsFamily(k);
  else if (fam == "aliases") f = new AliasesFamily(k);
  else if (fam == "envopts") f = new EnvOptsFamily(k);
  else if (fam == "strings") f = new StringsFamily(k);
  else return 3;
  int rc = run_family(*f, cx);
  delete f;
  return rc;
}

} // namespace exe
