#include "exe.h"
namespace exe {
bool is_c16_family(const std::string &f) { return f == "options" || f == "servers" || f == "userwins"; }
int  run_c16(Ctx &) { return 3; }
}
