// EX-E / property C16: configuration is saved, duplicated and re-applied
// losslessly; user settings win over system configuration and environment.
//
// Families
//   options   every single option bit, every pair (thorough: every triple) of
//             the option bits accepted by ares_init_options() with boundary
//             values, x system configuration x reinit target
//   servers   server sets over {IPv4, IPv6, link-local IPv6 + interface} x
//             {default ports, equal non-default, differing UDP/TCP}, 1..3
//             servers, through every setter, x channel-wide port options
//   userwins  every subset of the overridable settings supplied by the
//             application (through options or through a setter) x system
//             configurations that set EVERY overridable field to another
//             value x reinit targets
//
// Oracles (per case)
//   init      effective configuration == reference model (user value where the
//             application supplied one, else the system value, else default)
//   fixed     save -> init -> save reproduces the options structure and mask;
//             the channel initialised from saved options has the same
//             effective configuration; ares_destroy_options releases all
//   dup       ares_dup() gives the same effective configuration incl. the
//             ordered server list with per-protocol ports and interface
//   csv       ares_get_servers_csv() text fed to ares_set_servers_ports_csv()
//             of a fresh channel reproduces the list
//   reinit    after ares_reinit() with another system configuration every
//             user-supplied setting is unchanged, the others follow the new
//             system configuration
//   ledger    nothing stays allocated
#include "exe.h"
#include <arpa/inet.h>
#include <limits.h>
#include <memory>
#include <sys/wait.h>
#include <fcntl.h>

namespace exe {

// ------------------------------------------------------------------ servers
struct Srv {
  std::string addr;
  bool        v6 = false;
  int         udp = 0, tcp = 0; // 0 = channel default
  std::string iface;
  unsigned    scope = 0;
};
static std::string srv_item(const Srv &s, int cu, int ct)
{
  int         u = s.udp ? s.udp : (cu ? cu : 53), t = s.tcp ? s.tcp : (ct ? ct : 53);
  std::string o;
  if (u != t) {
    o = "dns://" + (s.v6 ? "[" + s.addr + (s.iface.empty() ? "" : "%" + s.iface) + "]" : s.addr) + ":" + std::to_string(u) + "?tcpport=" + std::to_string(t);
    return o;
  }
  o = (s.v6 ? "[" + s.addr + "]" : s.addr) + ":" + std::to_string(u);
  if (!s.iface.empty()) o += "%" + s.iface;
  return o;
}
static std::string srv_key(const Srv &s, int cu, int ct)
{
  int u = s.udp ? s.udp : (cu ? cu : 53), t = s.tcp ? s.tcp : (ct ? ct : 53);
  return s.addr + "|u" + std::to_string(u) + "|t" + std::to_string(t);
}
// what c-ares keeps of a list: an entry repeating address and both ports of an earlier one is the same server
static std::vector<Srv> dedupe(const std::vector<Srv> &l, int cu, int ct)
{
  std::vector<Srv>      o;
  std::set<std::string> seen;
  for (auto &s : l)
    if (seen.insert(srv_key(s, cu, ct)).second) o.push_back(s);
  return o;
}
static void expect_servers(std::map<std::string, std::string> &e, std::vector<Srv> l, int cu, int ct, bool primary)
{
  l = dedupe(l, cu, ct);
  if (primary && l.size() > 1) l.resize(1);
  std::string csv, ports, detail;
  for (auto &s : l) {
    csv += (csv.empty() ? "" : ",") + srv_item(s, cu, ct);
    ports += (ports.empty() ? "" : ",") + srv_key(s, cu, ct);
    detail += (detail.empty() ? "" : ",") + srv_key(s, cu, ct) + "|" + s.iface + "|" + std::to_string(s.scope);
  }
  e["servers"]       = csv;
  e["server_ports"]  = ports;
  e["server_detail"] = detail;
}

// ------------------------------------------------- system configurations
// Every variant carries its text AND, written by hand next to it, what that text says (the reference never parses).
struct Part {
  bool                     has_servers = false, has_domains = false, has_sortlist = false, has_lookups = false;
  std::vector<Srv>         servers;
  std::vector<std::string> domains;
  std::string              sortlist, lookups;
  long long                ndots = -1, timeout = -1, tries = -1;
  int                      rotate = 0, usevc = 0;
  void                     overlay(const Part &p)
  {
    if (p.has_servers) {
      has_servers = true;
      servers     = p.servers;
    }
    if (p.has_domains) {
      has_domains = true;
      domains     = p.domains;
    }
    if (p.has_sortlist) {
      has_sortlist = true;
      sortlist     = p.sortlist;
    }
    if (p.has_lookups) {
      has_lookups = true;
      lookups     = p.lookups;
    }
    if (p.ndots >= 0) ndots = p.ndots;
    if (p.timeout >= 0) timeout = p.timeout;
    if (p.tries >= 0) tries = p.tries;
    if (p.rotate) rotate = 1;
    if (p.usevc) usevc = 1;
  }
};
struct Sys {
  const char *name;
  std::string resolv_text; // "" = no resolv.conf
  Part        resolv;
  std::string nsswitch_text;
  Part        nss;
  bool        has_resopts = false, has_localdomain = false;
  std::string resopts, localdomain;
  Part        env;
};
static Srv v4(const char *a)
{
  Srv s;
  s.addr = a;
  return s;
}
static Srv v6(const char *a)
{
  Srv s;
  s.addr = a;
  s.v6   = true;
  return s;
}
static std::vector<Sys> sys_variants()
{
  std::vector<Sys> v;
  {
    Sys s;
    s.name = "none";
    v.push_back(s);
  }
  {
    Sys s;
    s.name                = "resolvconf";
    s.resolv_text         = "nameserver 10.53.0.1\nnameserver 2001:db8:53::1\nsearch sys1.example sys2.example\noptions ndots:4 timeout:7 attempts:6 rotate use-vc\nsortlist 10.53.0.0/16\nlookup bind\n";
    s.resolv.has_servers  = true;
    s.resolv.servers      = { v4("10.53.0.1"), v6("2001:db8:53::1") };
    s.resolv.has_domains  = true;
    s.resolv.domains      = { "sys1.example", "sys2.example" };
    s.resolv.ndots        = 4;
    s.resolv.timeout      = 7000;
    s.resolv.tries        = 6;
    s.resolv.rotate       = 1;
    s.resolv.usevc        = 1;
    s.resolv.has_sortlist = true;
    s.resolv.sortlist     = "10.53.0.0/16";
    s.resolv.has_lookups  = true;
    s.resolv.lookups      = "b";
    v.push_back(s);
  }
  {
    Sys s             = v[1];
    s.name            = "resolvconf+nsswitch+env";
    s.nsswitch_text   = "hosts: files\n";
    s.nss.has_lookups = true;
    s.nss.lookups     = "f";
    s.has_resopts     = true;
    s.resopts         = "ndots:5 timeout:8 attempts:9";
    s.env.ndots       = 5;
    s.env.timeout     = 8000;
    s.env.tries       = 9;
    s.has_localdomain = true;
    s.localdomain     = "env.example";
    s.env.has_domains = true;
    s.env.domains     = { "env.example" };
    v.push_back(s);
  }
  return v;
}
// reinit targets: 0 = unchanged, 1 = other values for every field, 2 = everything removed
static Sys reinit_target(const Sys &cur, int which)
{
  if (which == 0) return cur;
  Sys s;
  if (which == 2) {
    s.name = "removed";
    return s;
  }
  s.name                = "changed";
  s.resolv_text         = "nameserver 10.54.0.1\nnameserver fe80::54%eth0\nsearch re.example\noptions ndots:6 timeout:9 attempts:7\nsortlist 10.54.0.0/16\nlookup file\n";
  s.resolv.has_servers  = true;
  {
    Srv ll   = v6("fe80::54");
    ll.iface = "eth0";
    ll.scope = 2;
    s.resolv.servers = { v4("10.54.0.1"), ll };
  }
  s.resolv.has_domains  = true;
  s.resolv.domains      = { "re.example" };
  s.resolv.ndots        = 6;
  s.resolv.timeout      = 9000;
  s.resolv.tries        = 7;
  s.resolv.has_sortlist = true;
  s.resolv.sortlist     = "10.54.0.0/16";
  s.resolv.has_lookups  = true;
  s.resolv.lookups      = "f";
  return s;
}

// --------------------------------------------------------------- user side
typedef void (*sock_cb_t)(void *, ares_socket_t, int, int);
static void dummy_sock_state_cb(void *, ares_socket_t, int, int) {}

struct User {
  bool                options_null = false;
  int                 mask         = 0;
  struct ares_options o;
  // storage the options point into
  std::vector<struct in_addr> servers;
  std::vector<std::string>    domains;
  std::vector<char *>         domptr;
  std::string                 lookups, resolvconf, hosts;
  struct apattern            *sortlist = nullptr;
  // setters called after init
  bool        set_csv = false, set_sortlist = false;
  std::string csv, sortlist_str;
  int         setter = 3;           // 0 ares_set_servers, 1 ares_set_servers_ports, 2 ares_set_servers_csv, 3 ares_set_servers_ports_csv
  bool        ll_without_iface = false; // a link-local server set through a setter that cannot carry the interface
  bool        set_during_reinit = false; // the application sets its servers from inside its interface lookup callback, i.e. while the
                                         // reload started by ares_reinit() is still reading the configuration file
  int         csv_from_channel = 0;     // 1: the setter is fed ares_get_servers_csv() of the channel itself (the list already in force),
                                        // 2: the same servers in reverse order; the reference takes the servers from the system configuration at init
  // ---- semantic view: what was validly supplied (reference side)
  unsigned                 okmask = 0; // option bits expected in the channel's mask
  bool                     s_flags = false, s_timeout = false, s_tries = false, s_ndots = false, s_servers = false, s_domains = false, s_lookups = false, s_sortlist = false;
  unsigned                 flags   = 0;
  std::set<std::string>    timeout_ok; // acceptable effective values
  std::string              tries, ndots, sortlist_txt, lookups_txt;
  std::vector<Srv>         srv;
  std::vector<std::string> dom;
  int                      rotate = -1; // -1 none, 0 NOROTATE, 1 ROTATE, 2 both bits
  std::map<std::string, std::string> other; // remaining fields: field -> expected effective text
  std::string                        desc;
  User() { memset(&o, 0, sizeof o); }
  ~User()
  {
    if (sortlist) free_sortlist(sortlist);
  }
  User(const User &)            = delete;
  User &operator=(const User &) = delete;
  void  finish()
  {
    domptr.clear();
    for (auto &d : domains) domptr.push_back((char *)d.c_str());
    if (mask & ARES_OPT_DOMAINS) {
      o.domains  = domptr.empty() ? nullptr : domptr.data();
      o.ndomains = (int)domptr.size();
    }
    if (mask & ARES_OPT_SERVERS) {
      o.servers  = servers.empty() ? nullptr : servers.data();
      o.nservers = (int)servers.size();
    }
    if ((mask & ARES_OPT_LOOKUPS) && !lookups.empty()) o.lookups = (char *)lookups.c_str();
    if ((mask & ARES_OPT_RESOLVCONF) && !resolvconf.empty()) o.resolvconf_path = (char *)resolvconf.c_str();
    if ((mask & ARES_OPT_HOSTS_FILE) && !hosts.empty()) o.hosts_path = (char *)hosts.c_str();
  }
};

struct OptVariant {
  int                        bit;
  const char                *name;
  std::function<void(User &)> apply;
};
static std::string hexs(unsigned v)
{
  char b[32];
  snprintf(b, sizeof b, "0x%x", v);
  return b;
}
static std::vector<OptVariant> option_variants()
{
  std::vector<OptVariant> v;
  auto                    add = [&](int bit, const char *name, std::function<void(User &)> f) {
    v.push_back({ bit, name, [bit, f](User &u) {
                   u.mask |= bit;
                   f(u);
                 } });
  };
  auto flags = [&](const char *name, unsigned fl) {
    add(ARES_OPT_FLAGS, name, [fl](User &u) {
      u.o.flags = (int)fl;
      u.s_flags = true;
      u.flags   = fl;
      u.okmask |= ARES_OPT_FLAGS;
    });
  };
  flags("flags=0", 0);
  flags("flags=USEVC", ARES_FLAG_USEVC);
  flags("flags=EDNS|DNS0x20", ARES_FLAG_EDNS | ARES_FLAG_DNS0x20);
  flags("flags=NOSEARCH|NOALIASES", ARES_FLAG_NOSEARCH | ARES_FLAG_NOALIASES);
  flags("flags=PRIMARY", ARES_FLAG_PRIMARY);
  flags("flags=STAYOPEN|IGNTC|NORECURSE|NOCHECKRESP", ARES_FLAG_STAYOPEN | ARES_FLAG_IGNTC | ARES_FLAG_NORECURSE | ARES_FLAG_NOCHECKRESP);
  flags("flags=NO_DFLT_SVR", ARES_FLAG_NO_DFLT_SVR);
  // ARES_OPT_TIMEOUT (seconds) is converted to ARES_OPT_TIMEOUTMS; values <= 0 mean "not supplied" (code comment: integrations pass -1)
  auto tsec = [&](const char *name, int sec) {
    add(ARES_OPT_TIMEOUT, name, [sec](User &u) {
      u.o.timeout = sec;
      if (sec <= 0 || (u.mask & ARES_OPT_TIMEOUTMS)) return; // ARES_OPT_TIMEOUTMS takes the field when both bits are given
      u.s_timeout = true;
      u.okmask |= ARES_OPT_TIMEOUTMS;
      unsigned long long ms = (unsigned long long)sec * 1000;
      u.timeout_ok          = { std::to_string(ms) };
      if (ms > INT_MAX) u.timeout_ok.insert(std::to_string(INT_MAX)); // not representable in the int of ares_save_options: the largest one is accepted too
    });
  };
  tsec("timeout=1s", 1);
  tsec("timeout=5s", 5);
  tsec("timeout=2147483s", 2147483);
  tsec("timeout=INT_MAXs", INT_MAX);
  tsec("timeout=0s", 0);
  auto tms = [&](const char *name, int ms) {
    add(ARES_OPT_TIMEOUTMS, name, [ms](User &u) {
      u.o.timeout = ms;
      // the field is shared with ARES_OPT_TIMEOUT: TIMEOUTMS wins when both are given
      u.s_timeout = false;
      u.timeout_ok.clear();
      u.okmask &= ~(unsigned)ARES_OPT_TIMEOUTMS;
      if (ms <= 0) return;
      u.s_timeout  = true;
      u.timeout_ok = { std::to_string(ms) };
      u.okmask |= ARES_OPT_TIMEOUTMS;
    });
  };
  tms("timeoutms=1", 1);
  tms("timeoutms=250", 250);
  tms("timeoutms=INT_MAX", INT_MAX);
  tms("timeoutms=0", 0);
  auto ival = [&](int bit, const char *name, int val, int minvalid, const char *field, int struct_field) {
    add(bit, name, [=](User &u) {
      switch (struct_field) {
        case 0: u.o.tries = val; break;
        case 1: u.o.ndots = val; break;
        case 2: u.o.socket_send_buffer_size = val; break;
        case 3: u.o.socket_receive_buffer_size = val; break;
        case 4: u.o.ednspsz = val; break;
        case 5: u.o.udp_max_queries = val; break;
        case 6: u.o.maxtimeout = val; break;
      }
      if (val < minvalid) return;
      u.okmask |= (unsigned)bit;
      if (struct_field == 0) {
        u.s_tries = true;
        u.tries   = std::to_string(val);
      } else if (struct_field == 1) {
        u.s_ndots = true;
        u.ndots   = std::to_string(val);
      } else u.other[field] = std::to_string(val);
    });
  };
  ival(ARES_OPT_TRIES, "tries=1", 1, 1, "tries", 0);
  ival(ARES_OPT_TRIES, "tries=100", 100, 1, "tries", 0);
  ival(ARES_OPT_TRIES, "tries=0", 0, 1, "tries", 0);
  ival(ARES_OPT_NDOTS, "ndots=0", 0, 0, "ndots", 1);
  ival(ARES_OPT_NDOTS, "ndots=15", 15, 0, "ndots", 1);
  ival(ARES_OPT_NDOTS, "ndots=100", 100, 0, "ndots", 1);
  ival(ARES_OPT_NDOTS, "ndots=-1", -1, 0, "ndots", 1);
  auto port = [&](int bit, const char *name, unsigned short p, bool udp) {
    add(bit, name, [=](User &u) {
      if (udp) u.o.udp_port = p;
      else u.o.tcp_port = p;
      u.okmask |= (unsigned)bit;
      u.other[udp ? "udp_port" : "tcp_port"] = std::to_string(p);
    });
  };
  port(ARES_OPT_UDP_PORT, "udp_port=1", 1, true);
  port(ARES_OPT_UDP_PORT, "udp_port=65535", 65535, true);
  port(ARES_OPT_UDP_PORT, "udp_port=5353", 5353, true);
  port(ARES_OPT_TCP_PORT, "tcp_port=1", 1, false);
  port(ARES_OPT_TCP_PORT, "tcp_port=65535", 65535, false);
  port(ARES_OPT_TCP_PORT, "tcp_port=5354", 5354, false);
  auto servers = [&](const char *name, int n) {
    add(ARES_OPT_SERVERS, name, [n](User &u) {
      for (int i = 0; i < n; i++) {
        std::string    a = "10.16.0." + std::to_string(i + 1);
        struct in_addr ia;
        inet_pton(AF_INET, a.c_str(), &ia);
        u.servers.push_back(ia);
        u.srv.push_back(v4(a.c_str()));
      }
      if (n > 0) {
        u.s_servers = true;
        u.okmask |= ARES_OPT_SERVERS;
      }
    });
  };
  servers("servers=0", 0);
  servers("servers=1", 1);
  servers("servers=2", 2);
  servers("servers=3", 3);
  auto domains = [&](const char *name, std::vector<std::string> d) {
    add(ARES_OPT_DOMAINS, name, [d](User &u) {
      u.domains   = d;
      u.dom       = d;
      u.s_domains = true; // an empty list is an explicit "no search domains" ("instead of resolv.conf or the hostname")
      u.okmask |= ARES_OPT_DOMAINS;
    });
  };
  domains("domains=0", {});
  domains("domains=1", { "user1.example" });
  domains("domains=2(empty string first)", { "", "user2.example" });
  auto lookups = [&](const char *name, const char *l) {
    add(ARES_OPT_LOOKUPS, name, [l](User &u) {
      if (!l) return; // NULL = not supplied
      u.lookups     = l;
      u.s_lookups   = true;
      u.lookups_txt = l;
      u.okmask |= ARES_OPT_LOOKUPS;
    });
  };
  lookups("lookups=b", "b");
  lookups("lookups=f", "f");
  lookups("lookups=bf", "bf");
  lookups("lookups=fb", "fb");
  lookups("lookups=NULL", nullptr);
  add(ARES_OPT_SOCK_STATE_CB, "sock_state_cb", [](User &u) {
    u.o.sock_state_cb      = dummy_sock_state_cb;
    u.o.sock_state_cb_data = (void *)0x5151;
    u.okmask |= ARES_OPT_SOCK_STATE_CB;
    u.other["sock_state_cb"] = "set/0x5151";
  });
  auto sortl = [&](const char *name, const char *str, const char *canon) {
    add(ARES_OPT_SORTLIST, name, [str, canon](User &u) {
      int n = 0;
      if (*str) u.sortlist = make_sortlist(str, &n);
      u.o.sortlist   = u.sortlist;
      u.o.nsort      = n;
      u.s_sortlist   = true; // zero entries is an explicit empty sortlist
      u.sortlist_txt = canon;
      u.okmask |= ARES_OPT_SORTLIST;
    });
  };
  sortl("sortlist=0", "", "");
  sortl("sortlist=1", "10.16.0.0/16", "10.16.0.0/16");
  sortl("sortlist=2", "10.16.0.0/255.255.0.0 2001:db8::/32", "10.16.0.0/16 2001:db8::/32");
  ival(ARES_OPT_SOCK_SNDBUF, "sndbuf=1", 1, 1, "sndbuf", 2);
  ival(ARES_OPT_SOCK_SNDBUF, "sndbuf=INT_MAX", INT_MAX, 1, "sndbuf", 2);
  ival(ARES_OPT_SOCK_SNDBUF, "sndbuf=0", 0, 1, "sndbuf", 2);
  ival(ARES_OPT_SOCK_RCVBUF, "rcvbuf=1", 1, 1, "rcvbuf", 3);
  ival(ARES_OPT_SOCK_RCVBUF, "rcvbuf=INT_MAX", INT_MAX, 1, "rcvbuf", 3);
  ival(ARES_OPT_SOCK_RCVBUF, "rcvbuf=0", 0, 1, "rcvbuf", 3);
  add(ARES_OPT_ROTATE, "rotate", [](User &u) {
    u.rotate = u.rotate == 0 ? 2 : 1;
    u.okmask |= ARES_OPT_ROTATE;
  });
  add(ARES_OPT_NOROTATE, "norotate", [](User &u) {
    u.rotate = u.rotate == 1 ? 2 : 0;
    u.okmask |= ARES_OPT_NOROTATE;
  });
  ival(ARES_OPT_EDNSPSZ, "ednspsz=512", 512, 1, "ednspsz", 4);
  ival(ARES_OPT_EDNSPSZ, "ednspsz=65535", 65535, 1, "ednspsz", 4);
  ival(ARES_OPT_EDNSPSZ, "ednspsz=0", 0, 1, "ednspsz", 4);
  auto rpath = [&](const char *name, const char *path) {
    add(ARES_OPT_RESOLVCONF, name, [path](User &u) {
      if (!path) return;
      u.resolvconf = path;
      u.okmask |= ARES_OPT_RESOLVCONF;
      u.other["resolvconf_path"] = path;
    });
  };
  rpath("resolvconf=/vfs/alt-resolv.conf", "/vfs/alt-resolv.conf");
  rpath("resolvconf=/vfs/missing", "/vfs/missing");
  rpath("resolvconf=NULL", nullptr);
  auto hpath = [&](const char *name, const char *path) {
    add(ARES_OPT_HOSTS_FILE, name, [path](User &u) {
      if (!path) return;
      u.hosts = path;
      u.okmask |= ARES_OPT_HOSTS_FILE;
      u.other["hosts_path"] = path;
    });
  };
  hpath("hosts=/vfs/hosts", "/vfs/hosts");
  hpath("hosts=NULL", nullptr);
  ival(ARES_OPT_UDP_MAX_QUERIES, "udp_max_queries=1", 1, 1, "udp_max_queries", 5);
  ival(ARES_OPT_UDP_MAX_QUERIES, "udp_max_queries=1000", 1000, 1, "udp_max_queries", 5);
  ival(ARES_OPT_UDP_MAX_QUERIES, "udp_max_queries=0", 0, 1, "udp_max_queries", 5);
  ival(ARES_OPT_MAXTIMEOUTMS, "maxtimeout=1", 1, 1, "maxtimeout", 6);
  ival(ARES_OPT_MAXTIMEOUTMS, "maxtimeout=INT_MAX", INT_MAX, 1, "maxtimeout", 6);
  ival(ARES_OPT_MAXTIMEOUTMS, "maxtimeout=0", 0, 1, "maxtimeout", 6);
  auto qc = [&](const char *name, unsigned ttl) {
    add(ARES_OPT_QUERY_CACHE, name, [ttl](User &u) {
      u.o.qcache_max_ttl        = ttl;
      u.other["qcache_max_ttl"] = std::to_string(ttl);
    });
  };
  qc("qcache=0", 0);
  qc("qcache=1", 1);
  qc("qcache=UINT_MAX", 0xffffffffu);
  auto fo = [&](const char *name, unsigned short chance, size_t delay) {
    add(ARES_OPT_SERVER_FAILOVER, name, [chance, delay](User &u) {
      u.o.server_failover_opts.retry_chance = chance;
      u.o.server_failover_opts.retry_delay  = delay;
      u.okmask |= ARES_OPT_SERVER_FAILOVER;
      u.other["retry_chance"] = std::to_string(chance);
      u.other["retry_delay"]  = std::to_string(delay);
    });
  };
  fo("failover=0/0", 0, 0);
  fo("failover=1/1", 1, 1);
  fo("failover=65535/big", 65535, (size_t)1 << 40);
  return v;
}

// ---------------------------------------------------------- reference model
struct Expect {
  std::map<std::string, std::string>           f;    // field -> expected text
  std::map<std::string, std::set<std::string>> alt;  // field -> acceptable texts (overrides f)
  std::set<std::string>                        skip; // not asserted
  bool                                         enoserver = false;
  std::map<std::string, std::string>           who;  // field -> "user" | "system" | "default"
};

static Part effective_sys(const Sys &s, const User &u)
{
  Part p;
  bool readable = !s.resolv_text.empty();
  if (!u.resolvconf.empty() && u.resolvconf == "/vfs/missing") readable = false;
  if (readable) p.overlay(s.resolv);
  p.overlay(s.nss); // nsswitch.conf is read after resolv.conf
  p.overlay(s.env); // the environment overrides the files
  return p;
}

// phase 0: after ares_init_options; phase 1: after ares_reinit with the system configuration `s` (prev = configuration at init)
static Expect model(const User &u, const Sys &s, int phase, const Sys *prev)
{
  Expect e;
  Part   p = effective_sys(s, u);
  auto   put = [&](const char *k, const std::string &v, const char *who) {
    e.f[k]   = v;
    e.who[k] = who;
  };
  unsigned fl = u.s_flags ? u.flags : (unsigned)(ARES_FLAG_EDNS | (p.usevc ? ARES_FLAG_USEVC : 0));
  put("flags", hexs(fl), u.s_flags ? "user" : "system");
  // fields a system configuration may leave unsaid: after a reinit the documentation does not say whether the earlier
  // system value stays or the default returns, so they are not asserted then
  auto sysfield = [&](const char *k, bool user, const std::string &uval, bool sys_has, const std::string &sval, const std::string &dflt) {
    if (user) put(k, uval, "user");
    else if (sys_has) put(k, sval, "system");
    else if (phase == 0) put(k, dflt, "default");
    else e.skip.insert(k);
  };
  if (u.s_timeout) {
    e.alt["timeout"] = u.timeout_ok;
    e.who["timeout"] = "user";
  } else sysfield("timeout", false, "", p.timeout >= 0, std::to_string(p.timeout), "2000");
  sysfield("tries", u.s_tries, u.tries, p.tries >= 0, std::to_string(p.tries), "3");
  put("ndots", u.s_ndots ? u.ndots : std::to_string(p.ndots >= 0 ? p.ndots : 1), u.s_ndots ? "user" : "system");
  if (u.rotate == 2) e.skip.insert("rotate"); // both ARES_OPT_ROTATE and ARES_OPT_NOROTATE: not documented
  else put("rotate", std::to_string(u.rotate >= 0 ? u.rotate : p.rotate), u.rotate >= 0 ? "user" : "system");
  std::string dj, sj;
  for (size_t i = 0; i < u.dom.size(); i++) dj += (i ? "," : "") + u.dom[i];
  for (size_t i = 0; i < p.domains.size(); i++) sj += (i ? "," : "") + p.domains[i];
  sysfield("domains", u.s_domains, "[" + dj + "]", p.has_domains, "[" + sj + "]", "[hostdom.example]");
  sysfield("lookups", u.s_lookups, u.lookups_txt, p.has_lookups, p.lookups, "fb");
  sysfield("sortlist", u.s_sortlist, "[" + u.sortlist_txt + "]", p.has_sortlist, "[" + p.sortlist + "]", "[]");
  int cu = u.other.count("udp_port") ? atoi(u.other.at("udp_port").c_str()) : 0;
  int ct = u.other.count("tcp_port") ? atoi(u.other.at("tcp_port").c_str()) : 0;
  bool primary = fl & ARES_FLAG_PRIMARY;
  if (u.set_during_reinit && phase == 1) {
    // set while the reload was under way: from then on they are the application's
    expect_servers(e.f, { v4("10.16.0.5") }, cu, ct, primary);
    e.who["servers"] = "user";
  } else if (u.s_servers) {
    std::vector<Srv> usrv = u.srv;
    if (u.csv_from_channel) {
      // the application named exactly the servers that were in force after initialisation: from then on they are its own
      Part p0 = effective_sys(prev ? *prev : s, u);
      usrv    = p0.has_servers ? p0.servers : std::vector<Srv>{ v4("127.0.0.1") };
      if (u.csv_from_channel == 2) std::reverse(usrv.begin(), usrv.end());
    }
    expect_servers(e.f, usrv, cu, ct, primary);
    e.who["servers"] = "user";
  } else if (p.has_servers) {
    expect_servers(e.f, p.servers, cu, ct, primary);
    e.who["servers"] = "system";
  } else if (phase == 0) {
    if (fl & ARES_FLAG_NO_DFLT_SVR) e.enoserver = true;
    expect_servers(e.f, { v4("127.0.0.1") }, cu, ct, primary);
    e.who["servers"] = "default";
  } else {
    e.skip.insert("servers");
    e.skip.insert("server_ports");
    e.skip.insert("server_detail");
  }
  e.who["server_ports"] = e.who["server_detail"] = e.who["servers"];
  static const char *dflt[][2] = { { "udp_port", "0" },        { "tcp_port", "0" },        { "maxtimeout", "0" },   { "sndbuf", "0" },       { "rcvbuf", "0" },
                                   { "ednspsz", "1232" },      { "qcache_max_ttl", "3600" }, { "udp_max_queries", "0" }, { "retry_chance", "10" }, { "retry_delay", "5000" },
                                   { "resolvconf_path", "(default)" }, { "hosts_path", "(default)" }, { "sock_state_cb", "unset/(nil)" }, { "evsys", "0" } };
  for (auto &d : dflt) {
    auto it = u.other.find(d[0]);
    put(d[0], it != u.other.end() ? it->second : d[1], it != u.other.end() ? "user" : "default");
  }
  unsigned m = u.okmask | ARES_OPT_QUERY_CACHE;
  if (u.set_csv || (u.set_during_reinit && phase == 1)) m |= ARES_OPT_SERVERS;
  if (u.set_sortlist) m |= ARES_OPT_SORTLIST;
  put("optmask", hexs(m), "user");
  return e;
}

static std::vector<std::pair<std::string, std::string>> compare(const Expect &e, const Cfg &c)
{
  std::vector<std::pair<std::string, std::string>> out; // (field, message)
  for (auto &kv : e.f) {
    if (e.skip.count(kv.first) || e.alt.count(kv.first)) continue;
    std::string got = c.get(kv.first);
    if (got != kv.second) out.push_back({ kv.first, kv.first + ": expected " + kv.second + ", effective " + got });
  }
  for (auto &kv : e.alt) {
    std::string got = c.get(kv.first);
    if (!kv.second.count(got)) {
      std::string w;
      for (auto &x : kv.second) w += (w.empty() ? "" : " or ") + x;
      out.push_back({ kv.first, kv.first + ": expected " + w + ", effective " + got });
    }
  }
  return out;
}

// ------------------------------------------------------------ environment
static Env make_env(const Sys &s, const User &u)
{
  Env e;
  if (!s.resolv_text.empty()) {
    if (!u.resolvconf.empty()) {
      if (u.resolvconf != "/vfs/missing") e.files[u.resolvconf] = s.resolv_text;
      // a decoy at the default location: reading it would apply values no reference contains
      e.files["/etc/resolv.conf"] = "nameserver 10.66.6.6\noptions ndots:9 timeout:29 attempts:19\nsearch decoy.example\nsortlist 10.66.0.0/16\n";
    } else e.files["/etc/resolv.conf"] = s.resolv_text;
  }
  if (!s.nsswitch_text.empty()) e.files["/etc/nsswitch.conf"] = s.nsswitch_text;
  e.has_resopts     = s.has_resopts;
  e.resopts         = s.resopts;
  e.has_localdomain = s.has_localdomain;
  e.localdomain     = s.localdomain;
  e.files["/vfs/hosts"] = "10.1.1.1 alpha\n";
  return e;
}

// canonical text of an options structure restricted to its mask
static std::string opts_text(const struct ares_options &o, int mask)
{
  std::string s = "mask=" + hexs((unsigned)mask);
  auto        n = [&](const char *k, long long v) { s += std::string(" ") + k + "=" + std::to_string(v); };
  if (mask & ARES_OPT_FLAGS) n("flags", o.flags);
  if (mask & (ARES_OPT_TIMEOUTMS | ARES_OPT_TIMEOUT)) n("timeout", o.timeout);
  if (mask & ARES_OPT_TRIES) n("tries", o.tries);
  if (mask & ARES_OPT_NDOTS) n("ndots", o.ndots);
  if (mask & ARES_OPT_MAXTIMEOUTMS) n("maxtimeout", o.maxtimeout);
  if (mask & ARES_OPT_UDP_PORT) n("udp_port", o.udp_port);
  if (mask & ARES_OPT_TCP_PORT) n("tcp_port", o.tcp_port);
  if (mask & ARES_OPT_SOCK_STATE_CB) {
    char b[64];
    snprintf(b, sizeof b, " cb=%s/%p", o.sock_state_cb ? "set" : "unset", o.sock_state_cb_data);
    s += b;
  }
  if (mask & ARES_OPT_SERVERS) {
    s += " servers=";
    for (int i = 0; i < o.nservers && o.servers; i++) {
      char b[32];
      inet_ntop(AF_INET, &o.servers[i], b, sizeof b);
      s += std::string(b) + ",";
    }
    n("nservers", o.nservers);
  }
  if (mask & ARES_OPT_DOMAINS) {
    s += " domains=";
    for (int i = 0; i < o.ndomains && o.domains; i++) s += std::string(o.domains[i] ? o.domains[i] : "(null)") + ",";
    n("ndomains", o.ndomains);
  }
  if (mask & ARES_OPT_LOOKUPS) s += std::string(" lookups=") + (o.lookups ? o.lookups : "(null)");
  if (mask & ARES_OPT_SORTLIST) {
    s += " sortlist=" + (o.sortlist ? sortlist_text(o.sortlist, o.nsort) : std::string());
    n("nsort", o.nsort);
  }
  if (mask & ARES_OPT_SOCK_SNDBUF) n("sndbuf", o.socket_send_buffer_size);
  if (mask & ARES_OPT_SOCK_RCVBUF) n("rcvbuf", o.socket_receive_buffer_size);
  if (mask & ARES_OPT_EDNSPSZ) n("ednspsz", o.ednspsz);
  if (mask & ARES_OPT_RESOLVCONF) s += std::string(" resolvconf=") + (o.resolvconf_path ? o.resolvconf_path : "(null)");
  if (mask & ARES_OPT_HOSTS_FILE) s += std::string(" hosts=") + (o.hosts_path ? o.hosts_path : "(null)");
  if (mask & ARES_OPT_UDP_MAX_QUERIES) n("udp_max_queries", o.udp_max_queries);
  if (mask & ARES_OPT_QUERY_CACHE) n("qcache_max_ttl", o.qcache_max_ttl);
  if (mask & ARES_OPT_EVENT_THREAD) n("evsys", (long long)o.evsys);
  if (mask & ARES_OPT_SERVER_FAILOVER) {
    n("retry_chance", o.server_failover_opts.retry_chance);
    n("retry_delay", (long long)o.server_failover_opts.retry_delay);
  }
  return s;
}

// ------------------------------------------------------------- one scenario
struct Finding {
  std::string key, desc;
};
struct Scenario {
  std::function<void(User &)> build; // fills the user side
  int                         sys = 0, re = 0;
  bool                        servers_expressible = true; // save->init->save can carry the server list (IPv4, channel-wide ports)
  std::string                 text;                       // human readable
};

static std::string first_field(const std::string &diff)
{
  size_t p = diff.find(':');
  return p == std::string::npos ? diff : diff.substr(0, p);
}

static std::vector<Finding> run_scenario(const Scenario &sc, Ctx &cx, const std::string &fam, std::string *outcome, bool verbose)
{
  std::vector<Finding> fs;
  static std::vector<Sys> sysv = sys_variants();
  const Sys              &S    = sysv[(size_t)sc.sys];
  User                    u;
  sc.build(u);
  u.finish();
  auto note = [&](const std::string &k, const std::string &d) {
    for (auto &f : fs)
      if (f.key == k) return;
    fs.push_back({ k, d });
  };
  size_t base = ledger_live();
  env_apply(make_env(S, u));
  ares_channel_t *ch = nullptr;
  int             rc = ares_init_options(&ch, u.options_null ? nullptr : &u.o, u.mask);
  cx.rep.executions++;
  Expect e0 = model(u, S, 0, nullptr);
  *outcome  = "rc=" + std::to_string(rc);
  if (e0.enoserver) {
    cx.rep.witness("init_error");
    if (rc != ARES_ENOSERVER) note("C16:init:" + fam + ":status", "ARES_FLAG_NO_DFLT_SVR without any server: expected ARES_ENOSERVER, got " + std::to_string(rc));
    if (rc == ARES_SUCCESS) ares_destroy(ch);
    if (ledger_live() != base) {
      note("C16:ledger:" + fam + ":init-error", "allocations left after a failed ares_init_options");
      ledger_forget();
    }
    return fs;
  }
  if (rc != ARES_SUCCESS) {
    note("C16:init:" + fam + ":status", "ares_init_options failed with " + std::to_string(rc));
    if (ledger_live() != base) ledger_forget();
    return fs;
  }
  install_sockfuncs(ch);
  if (u.set_csv && u.csv_from_channel) {
    char *cur = ares_get_servers_csv(ch);
    std::string csv = cur ? cur : "";
    ares_free_string(cur);
    if (u.csv_from_channel == 2) {
      std::vector<std::string> items;
      size_t                   pos = 0;
      while (pos <= csv.size()) {
        size_t e = csv.find(',', pos);
        items.push_back(csv.substr(pos, e == std::string::npos ? std::string::npos : e - pos));
        if (e == std::string::npos) break;
        pos = e + 1;
      }
      csv.clear();
      for (size_t i = items.size(); i-- > 0;) csv += items[i] + (i ? "," : "");
    }
    const_cast<User &>(u).csv = csv;
  }
  if (u.set_csv) {
    int r;
    if (u.setter == 3) r = ares_set_servers_ports_csv(ch, u.csv.c_str());
    else if (u.setter == 2) r = ares_set_servers_csv(ch, u.csv.c_str());
    else {
      std::vector<struct ares_addr_node>      an(u.srv.size());
      std::vector<struct ares_addr_port_node> pn(u.srv.size());
      for (size_t i = 0; i < u.srv.size(); i++) {
        memset(&an[i], 0, sizeof an[i]);
        memset(&pn[i], 0, sizeof pn[i]);
        an[i].family = pn[i].family = u.srv[i].v6 ? AF_INET6 : AF_INET;
        inet_pton(an[i].family, u.srv[i].addr.c_str(), &an[i].addr);
        inet_pton(pn[i].family, u.srv[i].addr.c_str(), &pn[i].addr);
        pn[i].udp_port = u.srv[i].udp;
        pn[i].tcp_port = u.srv[i].tcp;
        an[i].next     = i + 1 < u.srv.size() ? &an[i + 1] : nullptr;
        pn[i].next     = i + 1 < u.srv.size() ? &pn[i + 1] : nullptr;
      }
      r = u.setter == 0 ? ares_set_servers(ch, an.data()) : ares_set_servers_ports(ch, pn.data());
    }
    if (r != ARES_SUCCESS) note("C16:setter:" + fam + ":servers", "server setter " + std::to_string(u.setter) + " (\"" + u.csv + "\") failed with " + std::to_string(r));
  }
  if (u.set_sortlist) {
    int r = ares_set_sortlist(ch, u.sortlist_str.c_str());
    if (r != ARES_SUCCESS) note("C16:setter:" + fam + ":sortlist", "ares_set_sortlist failed with " + std::to_string(r));
  }
  Cfg c1 = peek_cfg(ch);
  cx.state(c1.str());
  if (verbose) printf("--- effective configuration after init\n%s", c1.str().c_str());
  // ---- (d) at init
  for (auto &m : compare(e0, c1)) {
    std::string who = e0.who.count(m.first) ? e0.who[m.first] : "?";
    note("C16:init:" + fam + ":" + m.first + ":" + who, "after ares_init_options: " + m.second + " (value expected from: " + who + ")");
  }
  for (auto &kv : e0.who)
    if (!e0.skip.count(kv.first)) cx.rep.witness(kv.second == "user" ? "user_setting_preserved" : kv.second == "system" ? "system_value_applied" : "default_applied");
  if (c1.get("server_detail").find("|eth0|2") != std::string::npos || c1.get("server_detail").find("|vnet0|7") != std::string::npos) cx.rep.witness("server_v6_linklocal");

  // ---- (a) save -> init -> save
  {
    struct ares_options o2, o3;
    int                 m2 = 0x5a5a5a5a, m3 = 0x5a5a5a5a;
    memset(&o2, 0x5a, sizeof o2);
    memset(&o3, 0x5a, sizeof o3);
    int r2 = ares_save_options(ch, &o2, &m2);
    if (r2 != ARES_SUCCESS) {
      note("C16:fixed:" + fam + ":save-status", "ares_save_options failed with " + std::to_string(r2));
      ares_destroy_options(&o2);
    } else {
      std::string     t2  = opts_text(o2, m2);
      ares_channel_t *ch2 = nullptr;
      int             ri  = ares_init_options(&ch2, &o2, m2);
      cx.rep.executions++;
      if (ri != ARES_SUCCESS) note("C16:fixed:" + fam + ":init-status", "ares_init_options(saved options) failed with " + std::to_string(ri) + "; saved: " + t2);
      else {
        int r3 = ares_save_options(ch2, &o3, &m3);
        if (r3 != ARES_SUCCESS) note("C16:fixed:" + fam + ":save-status", "second ares_save_options failed with " + std::to_string(r3));
        else {
          std::string t3 = opts_text(o3, m3);
          std::string a2 = t2, a3 = t3;
          if (!sc.servers_expressible) {
            // IPv6 / per-server ports / link-local interface cannot be written into struct ares_options (ares_save_options.3):
            // the server part of the structure is left out of the comparison
            a2 = opts_text(o2, m2 & ~ARES_OPT_SERVERS);
            a3 = opts_text(o3, m3 & ~ARES_OPT_SERVERS);
            a2 = a2.substr(a2.find(' ') == std::string::npos ? a2.size() : a2.find(' '));
            a3 = a3.substr(a3.find(' ') == std::string::npos ? a3.size() : a3.find(' '));
            if (((m2 ^ m3) & ~ARES_OPT_SERVERS) != 0) a2 = "mask " + a2;
          }
          if (a2 != a3) {
            // name the first differing token
            size_t i = 0;
            while (i < t2.size() && i < t3.size() && t2[i] == t3[i]) i++;
            size_t      b   = t2.rfind(' ', i);
            std::string tok = t2.substr(b == std::string::npos ? 0 : b + 1, t2.find('=', b == std::string::npos ? 0 : b + 1) - (b == std::string::npos ? 0 : b + 1));
            note("C16:fixed:" + fam + ":options:" + tok, "save -> init -> save is not a fixed point of the options structure: first " + t2 + " then " + t3);
          }
          ares_destroy_options(&o3);
        }
        Cfg                   c2 = peek_cfg(ch2);
        std::set<std::string> ign;
        if (!sc.servers_expressible) ign = { "servers", "server_ports", "server_detail", "optmask" };
        std::string d = diff_cfg(c1, c2, ign);
        if (!sc.servers_expressible && ((strtoul(c1.get("optmask").c_str(), nullptr, 16) ^ strtoul(c2.get("optmask").c_str(), nullptr, 16)) & ~(unsigned long)ARES_OPT_SERVERS))
          d = "optmask: " + c1.get("optmask") + " vs " + c2.get("optmask");
        if (!d.empty()) note("C16:fixed:" + fam + ":effective:" + first_field(d), "channel initialised from saved options differs (original vs copy): " + d + "; saved: " + t2);
        cx.rep.witness("fixedpoint_checked");
        if (!sc.servers_expressible) cx.rep.count("fixed:servers_not_expressible_in_options");
        ares_destroy(ch2);
      }
      size_t before = ledger_live();
      ares_destroy_options(&o2);
      (void)before;
    }
  }
  // ---- (b) dup
  {
    ares_channel_t *ch3 = nullptr;
    int             rd  = ares_dup(&ch3, ch);
    cx.rep.executions++;
    if (rd != ARES_SUCCESS) note("C16:dup:" + fam + ":status", "ares_dup failed with " + std::to_string(rd));
    else {
      Cfg                   c3 = peek_cfg(ch3);
      std::set<std::string> ign;
      if (u.ll_without_iface) { // the csv text cannot name a link-local server without its interface (documented): not asserted
        ign = { "servers", "server_ports", "server_detail" };
        cx.rep.count("linklocal_without_interface_not_carried_by_dup");
      }
      std::string d = diff_cfg(c1, c3, ign);
      if (!d.empty()) note("C16:dup:" + fam + ":" + first_field(d), "ares_dup(): original vs copy: " + d);
      cx.rep.witness("dup_checked");
      ares_destroy(ch3);
    }
  }
  // ---- (b') a duplicate is a channel of its own: with the legacy socket functions installed on the source (their
  //      trampolines carry a channel pointer), the copy must keep working after the source is destroyed
  if (fam == "servers" || (cx.ncases % 16) == 0) {
    static struct ares_socket_functions legacy;
    legacy.asocket   = [](int, int, int, void *) -> ares_socket_t {
      errno = EMFILE;
      return ARES_SOCKET_BAD;
    };
    legacy.aclose    = [](ares_socket_t, void *) -> int { return 0; };
    legacy.aconnect  = [](ares_socket_t, const struct sockaddr *, ares_socklen_t, void *) -> int { return -1; };
    legacy.arecvfrom = [](ares_socket_t, void *, size_t, int, struct sockaddr *, ares_socklen_t *, void *) -> ares_ssize_t { return -1; };
    legacy.asendv    = [](ares_socket_t, const struct iovec *, int, void *) -> ares_ssize_t { return -1; };
    ares_channel_t *a = nullptr, *b = nullptr;
    if (ares_init_options(&a, u.options_null ? nullptr : &u.o, u.mask) == ARES_SUCCESS) {
      ares_set_socket_functions(a, &legacy, nullptr);
      if (ares_dup(&b, a) == ARES_SUCCESS) {
        ares_destroy(a);
        a            = nullptr;
        static int n = 0;
        n            = 0;
        ares_query(b, "dup.example.com", 1, 1, [](void *, int, int, unsigned char *, int) { n++; }, nullptr);
        ares_cancel(b);
        if (n != 1) note("C16:dup:" + fam + ":copy-not-usable", "a query on the duplicate (source already destroyed) completed " + std::to_string(n) + " times");
        cx.rep.witness("dup_outlives_source");
        ares_destroy(b);
      }
      if (a) ares_destroy(a);
    }
    cx.rep.executions++;
  }
  // ---- (c) csv -> set -> csv on a fresh channel with the same options
  {
    ares_channel_t *ch4 = nullptr;
    int             ri  = ares_init_options(&ch4, u.options_null ? nullptr : &u.o, u.mask);
    cx.rep.executions++;
    if (ri == ARES_SUCCESS) {
      install_sockfuncs(ch4);
      std::string csv = c1.get("servers");
      int         rs  = ares_set_servers_ports_csv(ch4, csv.c_str());
      Cfg         c4  = peek_cfg(ch4);
      if (u.ll_without_iface) cx.rep.count("linklocal_without_interface_not_carried_by_csv");
      else if (rs != ARES_SUCCESS) note("C16:csv:" + fam + ":status", "ares_set_servers_ports_csv(\"" + csv + "\") failed with " + std::to_string(rs));
      else
        for (const char *k : { "servers", "server_ports", "server_detail" })
          if (c4.get(k) != c1.get(k)) {
            note("C16:csv:" + fam + ":" + k, std::string("csv -> set -> csv: ") + k + " " + c1.get(k) + " became " + c4.get(k) + " (csv text \"" + csv + "\")");
            break;
          }
      cx.rep.witness("csv_roundtrip");
      ares_destroy(ch4);
    }
  }
  // ---- (d) at reinit
  {
    Sys S2 = reinit_target(S, sc.re);
    env_apply(make_env(S2, u));
    bool fired = false;
    if (u.set_during_reinit)
      set_if_lookup_action([&] {
        fired = true;
        int r = ares_set_servers_ports_csv(ch, "10.16.0.5:53");
        if (r != ARES_SUCCESS) note("C16:setter:" + fam + ":servers", "ares_set_servers_ports_csv from the interface lookup callback failed with " + std::to_string(r));
      });
    int rr = ares_reinit(ch);
    set_if_lookup_action(nullptr);
    if (u.set_during_reinit && fired) cx.rep.witness("servers_set_while_reload_was_parsing");
    cx.rep.executions++;
    if (rr != ARES_SUCCESS) note("C16:reinit:" + fam + ":status", "ares_reinit failed with " + std::to_string(rr));
    Cfg    c5 = peek_cfg(ch);
    if (u.set_during_reinit && !fired) const_cast<User &>(u).set_during_reinit = false; // the new configuration had no line that needs an interface lookup
    Expect e1 = model(u, S2, 1, &S);
    if (verbose) printf("--- effective configuration after reinit (%s)\n%s", S2.name, c5.str().c_str());
    cx.state(c5.str());
    for (auto &m : compare(e1, c5)) {
      std::string who = e1.who.count(m.first) ? e1.who[m.first] : "?";
      note("C16:reinit:" + fam + ":" + m.first + ":" + who, std::string("after ares_reinit (system configuration ") + S2.name + "): " + m.second + " (value expected from: " + who + "; before reinit " + c1.get(m.first) + ")");
    }
    for (auto &k : e1.skip)
      if (k != "server_ports" && k != "server_detail") cx.rep.count(("reinit_field_not_in_new_config:" + k + (c5.get(k) == c1.get(k) ? ":kept" : ":changed")).c_str());
    cx.rep.witness("reinit_checked");
    *outcome += " re=" + std::string(S2.name);
  }
  ares_destroy(ch);
  if (ledger_live() != base) {
    ledger_forget();
    note("C16:ledger:" + fam, "allocations left after destroying all channels and options of the scenario");
  }
  return fs;
}

// ------------------------------------------------------------ family tables
struct Space {
  std::string                                        fam, bound;
  unsigned long long                                 total = 0;
  std::function<Scenario(unsigned long long)>        get;
  std::function<std::string(unsigned long long)>     json; // explicit replay encoding
  // explicit form of a case (used to shrink a failing scenario): parts -> scenario / replay text, and the one-step reductions of parts
  std::function<std::vector<int>(unsigned long long)>                      parts;
  std::function<Scenario(const std::vector<int> &)>                        from_parts;
  std::function<std::string(const std::vector<int> &)>                     parts_json;
  std::function<std::vector<std::vector<int>>(const std::vector<int> &)>   reductions;
};

// options: sets of (bit, variant) with at most `maxbits` bits
static Space options_space(unsigned maxbits)
{
  static std::vector<OptVariant> V = option_variants();
  auto                           sets = std::make_shared<std::vector<std::vector<int>>>();
  sets->push_back({ -1 }); // options == NULL (ares_init())
  sets->push_back({});     // empty mask
  // breadth order: all singles, then all pairs, then all triples (so small sets come first)
  for (unsigned sz = 1; sz <= maxbits; sz++) {
    std::function<void(std::vector<int> &, size_t)> r2 = [&](std::vector<int> &cur, size_t from) {
      if (cur.size() == sz) {
        sets->push_back(cur);
        return;
      }
      for (size_t i = from; i < V.size(); i++) {
        bool clash = false;
        auto grp   = [](int bit) { return bit == ARES_OPT_TIMEOUT ? ARES_OPT_TIMEOUTMS : bit; }; // one struct field, two spellings
        for (int j : cur) clash = clash || grp(V[(size_t)j].bit) == grp(V[i].bit);
        if (clash) continue;
        cur.push_back((int)i);
        r2(cur, i + 1);
        cur.pop_back();
      }
    };
    std::vector<int> cur;
    r2(cur, 0);
  }
  Space sp;
  sp.fam   = "options";
  sp.total = sets->size() * 9;
  sp.bound = "options: ares_init() and every set of <= " + std::to_string(maxbits) + " distinct option bits out of 23 (ARES_OPT_EVENT_THREAD excluded) with " + std::to_string(V.size()) +
             " boundary values in total (" + std::to_string(sets->size()) + " option sets) x 3 system configurations x 3 reinit targets";
  auto mk = [](const std::vector<int> &set, int sys, int re) {
    Scenario sc;
    sc.sys           = sys;
    sc.re            = re;
    std::vector<int> s = set;
    sc.build         = [s](User &u) {
      if (s.size() == 1 && s[0] == -1) {
        u.options_null = true;
        u.desc         = "options=NULL";
        return;
      }
      // ARES_OPT_TIMEOUT before ARES_OPT_TIMEOUTMS so that the shared field ends up as the library reads it
      for (int i : s)
        if (V[(size_t)i].bit == ARES_OPT_TIMEOUT) V[(size_t)i].apply(u);
      for (int i : s)
        if (V[(size_t)i].bit != ARES_OPT_TIMEOUT) V[(size_t)i].apply(u);
      for (int i : s) u.desc += (u.desc.empty() ? "" : " + ") + std::string(V[(size_t)i].name);
      if (s.empty()) u.desc = "empty mask";
    };
    return sc;
  };
  sp.get  = [sets, mk](unsigned long long idx) { return mk((*sets)[(size_t)(idx / 9)], (int)(idx % 9) / 3, (int)(idx % 3)); };
  sp.json = [sets](unsigned long long idx) { return "\"opts\":" + jarr((*sets)[(size_t)(idx / 9)]) + ",\"sys\":" + std::to_string((idx % 9) / 3) + ",\"re\":" + std::to_string(idx % 3); };
  // parts = [sys, re, option variants...]
  sp.parts = [sets](unsigned long long idx) {
    std::vector<int> p = { (int)(idx % 9) / 3, (int)(idx % 3) };
    for (int v : (*sets)[(size_t)(idx / 9)]) p.push_back(v);
    return p;
  };
  sp.from_parts = [mk](const std::vector<int> &p) { return mk(std::vector<int>(p.begin() + 2, p.end()), p[0], p[1]); };
  sp.parts_json = [](const std::vector<int> &p) { return "\"opts\":" + jarr(std::vector<int>(p.begin() + 2, p.end())) + ",\"sys\":" + std::to_string(p[0]) + ",\"re\":" + std::to_string(p[1]); };
  sp.reductions = [](const std::vector<int> &p) {
    std::vector<std::vector<int>> out;
    if (p.size() == 3 && p[2] == -1) return out; // options == NULL
    for (size_t i = 2; i < p.size(); i++) {
      std::vector<int> q = p;
      q.erase(q.begin() + (long)i);
      out.push_back(q);
    }
    return out;
  };
  return sp;
}
static Scenario options_scenario_explicit(const std::vector<int> &set, int sys, int re)
{
  static std::vector<OptVariant> V = option_variants();
  Scenario                       sc;
  sc.sys             = sys;
  sc.re              = re;
  std::vector<int> s = set;
  sc.build           = [s](User &u) {
    if (s.size() == 1 && s[0] == -1) {
      u.options_null = true;
      u.desc         = "options=NULL";
      return;
    }
    for (int i : s)
      if (V[(size_t)i].bit == ARES_OPT_TIMEOUT) V[(size_t)i].apply(u);
    for (int i : s)
      if (V[(size_t)i].bit != ARES_OPT_TIMEOUT) V[(size_t)i].apply(u);
    for (int i : s) u.desc += (u.desc.empty() ? "" : " + ") + std::string(V[(size_t)i].name);
    if (s.empty()) u.desc = "empty mask";
  };
  return sc;
}

// servers: lists of 1..3 servers, each {v4, v6, link-local} x {default, equal, differing ports}, through 4 setters, x 4 channel port options
struct SrvCase {
  std::vector<int> kinds; // per server: addr kind * 3 + port kind
  int              setter = 0, chan = 0, re = 1;
  bool             dupaddr = false; // second server repeats the first address
};
static Srv make_srv(int pos, int kind, bool dupaddr)
{
  int ak = kind / 3, pk = kind % 3;
  int p  = dupaddr && pos == 1 ? 0 : pos;
  Srv s;
  if (ak == 0) s = v4(("10.16." + std::to_string(p + 1) + ".1").c_str());
  else if (ak == 1) s = v6(("2001:db8:16::" + std::to_string(p + 1)).c_str());
  else {
    s       = v6(("fe80::16:" + std::to_string(p + 1)).c_str());
    // an interface only the application's own table knows (see exe_env.cc)
    s.iface = "vnet0";
    s.scope = 7;
  }
  if (pk == 1) s.udp = s.tcp = 5353;
  if (pk == 2) {
    s.udp = 5353;
    s.tcp = 5354;
  }
  return s;
}
static Scenario servers_scenario(const SrvCase &c)
{
  Scenario sc;
  sc.sys    = 1;
  sc.re     = c.re;
  SrvCase k = c;
  bool    expr = true;
  for (size_t i = 0; i < c.kinds.size(); i++)
    if (c.kinds[i] / 3 != 0 || (c.setter != 0 && c.kinds[i] % 3 != 0)) expr = false;
  sc.servers_expressible = expr;
  sc.build               = [k](User &u) {
    static const char *sn[] = { "ares_set_servers", "ares_set_servers_ports", "ares_set_servers_csv", "ares_set_servers_ports_csv" };
    if (k.chan & 1) {
      u.mask |= ARES_OPT_UDP_PORT;
      u.o.udp_port        = 5300;
      u.okmask |= ARES_OPT_UDP_PORT;
      u.other["udp_port"] = "5300";
    }
    if (k.chan & 2) {
      u.mask |= ARES_OPT_TCP_PORT;
      u.o.tcp_port        = 5301;
      u.okmask |= ARES_OPT_TCP_PORT;
      u.other["tcp_port"] = "5301";
    }
    u.desc = std::string(sn[k.setter]) + "(";
    std::string csv;
    for (size_t i = 0; i < k.kinds.size(); i++) {
      Srv s = make_srv((int)i, k.kinds[i], k.dupaddr);
      // what the setter can carry
      if (k.setter == 0) s.udp = s.tcp = 0;
      if (k.setter <= 1) {
        s.iface.clear();
        s.scope = 0;
      }
      u.srv.push_back(s);
      // csv text in the documented nameserver / URI formats, ports only when given
      std::string it;
      if (s.udp != s.tcp) it = "dns://" + (s.v6 ? "[" + s.addr + (s.iface.empty() ? "" : "%" + s.iface) + "]" : s.addr) + ":" + std::to_string(s.udp) + "?tcpport=" + std::to_string(s.tcp);
      else {
        it = s.v6 ? "[" + s.addr + "]" : s.addr;
        if (s.udp) it += ":" + std::to_string(s.udp);
        if (!s.iface.empty()) it += "%" + s.iface;
      }
      csv += (csv.empty() ? "" : ",") + it;
    }
    u.desc += csv + ")" + (k.chan ? " chan_ports=" + std::to_string(k.chan) : "");
    u.s_servers = true;
    u.set_csv   = true;
    u.csv       = csv;
    u.setter    = k.setter;
    for (auto &x : u.srv)
      if (x.addr.compare(0, 4, "fe80") == 0 && x.iface.empty()) u.ll_without_iface = true;
  };
  return sc;
}
static Space servers_space()
{
  auto cases = std::make_shared<std::vector<SrvCase>>();
  for (int chan = 0; chan < 4; chan++)
    for (int setter = 0; setter < 4; setter++)
      for (int n = 1; n <= 3; n++) {
        int tot = 1;
        for (int i = 0; i < n; i++) tot *= 9;
        for (int x = 0; x < tot; x++) {
          SrvCase c;
          int     y = x;
          bool    skip = false;
          for (int i = 0; i < n; i++) {
            c.kinds.push_back(y % 9);
            y /= 9;
          }
          // ares_set_servers carries no ports: only the default-port combinations are distinct inputs
          for (int kd : c.kinds)
            if (setter == 0 && kd % 3 != 0) skip = true;
          if (skip) continue;
          c.setter = setter;
          c.chan   = chan;
          c.re     = 1;
          cases->push_back(c);
          if (n == 2) { // the second entry repeats the first address (same or other ports)
            c.dupaddr = true;
            if (c.kinds[0] / 3 == c.kinds[1] / 3) cases->push_back(c);
          }
        }
      }
  Space sp;
  sp.fam   = "servers";
  sp.total = cases->size();
  sp.bound = "servers: lists of 1..3 servers over {IPv4, IPv6, link-local IPv6%vnet0 (an interface only the application's socket functions know)} x {default ports, udp=tcp=5353, udp 5353 / tcp 5354}, plus 2-entry lists repeating an address, through "
             "ares_set_servers / ares_set_servers_ports / ares_set_servers_csv / ares_set_servers_ports_csv x channel-wide {none, udp 5300, tcp 5301, both} port options; "
             "system configuration with other servers; reinit to a configuration with yet other servers (" + std::to_string(cases->size()) + " cases)";
  sp.get  = [cases](unsigned long long idx) { return servers_scenario((*cases)[(size_t)idx]); };
  sp.json = [cases](unsigned long long idx) {
    const SrvCase &c = (*cases)[(size_t)idx];
    return "\"kinds\":" + jarr(c.kinds) + ",\"setter\":" + std::to_string(c.setter) + ",\"chan\":" + std::to_string(c.chan) + ",\"dupaddr\":" + std::to_string(c.dupaddr ? 1 : 0);
  };
  return sp;
}

// userwins: every subset of the overridable settings
static const int UW_RADIX[] = { 6, 3, 3, 2, 2, 2, 2, 3, 4, 2, 3 }; // servers, sortlist, domains, lookups, ndots, tries, timeout, rotate, flags, sys(2), re(3)
static Scenario  userwins_scenario(const std::vector<int> &d)
{
  Scenario sc;
  sc.sys             = 1 + d[9];
  sc.re              = d[10];
  std::vector<int> k = d;
  sc.servers_expressible = k[0] != 2 && k[0] != 3 && k[0] != 4 && k[0] != 5;
  sc.build               = [k](User &u) {
    auto add = [&](const std::string &s) { u.desc += (u.desc.empty() ? "" : " + ") + s; };
    if (k[0] == 1) {
      u.mask |= ARES_OPT_SERVERS;
      struct in_addr ia;
      inet_pton(AF_INET, "10.16.0.1", &ia);
      u.servers.push_back(ia);
      u.srv       = { v4("10.16.0.1") };
      u.s_servers = true;
      u.okmask |= ARES_OPT_SERVERS;
      add("servers(option)");
    } else if (k[0] == 2) {
      u.set_csv   = true;
      u.csv       = "10.16.0.2:5353,[2001:db8:16::2]:53";
      Srv a       = v4("10.16.0.2");
      a.udp = a.tcp = 5353;
      u.srv       = { a, v6("2001:db8:16::2") };
      u.s_servers = true;
      add("servers(ares_set_servers_ports_csv)");
    } else if (k[0] == 5) {
      u.set_during_reinit = true;
      add("servers(set from the interface lookup callback while the reinit is reading the file)");
    } else if (k[0] == 3 || k[0] == 4) {
      u.set_csv          = true;
      u.csv_from_channel = k[0] == 3 ? 1 : 2;
      u.s_servers        = true;
      add(k[0] == 3 ? "servers(setter fed ares_get_servers_csv of the channel)" : "servers(setter fed the channel's own servers in reverse order)");
    }
    if (k[1] == 1) {
      int n = 0;
      u.mask |= ARES_OPT_SORTLIST;
      u.sortlist     = make_sortlist("10.16.0.0/16", &n);
      u.o.sortlist   = u.sortlist;
      u.o.nsort      = n;
      u.s_sortlist   = true;
      u.sortlist_txt = "10.16.0.0/16";
      u.okmask |= ARES_OPT_SORTLIST;
      add("sortlist(option)");
    } else if (k[1] == 2) {
      u.set_sortlist = true;
      u.sortlist_str = "10.17.0.0/255.255.0.0";
      u.s_sortlist   = true;
      u.sortlist_txt = "10.17.0.0/16";
      add("sortlist(ares_set_sortlist)");
    }
    if (k[2]) {
      u.mask |= ARES_OPT_DOMAINS;
      if (k[2] == 1) u.domains = u.dom = { "user1.example" };
      u.s_domains = true;
      u.okmask |= ARES_OPT_DOMAINS;
      add(k[2] == 1 ? "domains=1" : "domains=0");
    }
    if (k[3]) {
      u.mask |= ARES_OPT_LOOKUPS;
      u.lookups = u.lookups_txt = "bf";
      u.s_lookups               = true;
      u.okmask |= ARES_OPT_LOOKUPS;
      add("lookups=bf");
    }
    if (k[4]) {
      u.mask |= ARES_OPT_NDOTS;
      u.o.ndots = 2;
      u.s_ndots = true;
      u.ndots   = "2";
      u.okmask |= ARES_OPT_NDOTS;
      add("ndots=2");
    }
    if (k[5]) {
      u.mask |= ARES_OPT_TRIES;
      u.o.tries = 5;
      u.s_tries = true;
      u.tries   = "5";
      u.okmask |= ARES_OPT_TRIES;
      add("tries=5");
    }
    if (k[6]) {
      u.mask |= ARES_OPT_TIMEOUTMS;
      u.o.timeout  = 1500;
      u.s_timeout  = true;
      u.timeout_ok = { "1500" };
      u.okmask |= ARES_OPT_TIMEOUTMS;
      add("timeoutms=1500");
    }
    if (k[7]) {
      u.mask |= k[7] == 1 ? ARES_OPT_ROTATE : ARES_OPT_NOROTATE;
      u.okmask |= k[7] == 1 ? ARES_OPT_ROTATE : ARES_OPT_NOROTATE;
      u.rotate = k[7] == 1 ? 1 : 0;
      add(k[7] == 1 ? "rotate" : "norotate");
    }
    if (k[8]) {
      static const unsigned fl[] = { 0, ARES_FLAG_EDNS, ARES_FLAG_EDNS | ARES_FLAG_USEVC, 0 };
      u.mask |= ARES_OPT_FLAGS;
      u.o.flags = (int)fl[k[8]];
      u.s_flags = true;
      u.flags   = fl[k[8]];
      u.okmask |= ARES_OPT_FLAGS;
      add("flags=" + hexs(fl[k[8]]));
    }
    if (u.desc.empty()) u.desc = "nothing supplied";
  };
  return sc;
}
static Space userwins_space()
{
  Space sp;
  sp.fam   = "userwins";
  sp.total = 1;
  for (int r : UW_RADIX) sp.total *= (unsigned long long)r;
  sp.bound = "userwins: every combination of {servers: none/option/csv setter} x {sortlist: none/option/ares_set_sortlist} x {domains: none/one/empty list} x {lookups} x {ndots} x {tries} x "
             "{timeout} x {none/rotate/norotate} x {flags: none/EDNS/EDNS|USEVC/0} x 2 system configurations that set every overridable field x 3 reinit targets (" +
             std::to_string(sp.total) + " cases)";
  auto dec = [](unsigned long long idx) {
    std::vector<int> d;
    for (int r : UW_RADIX) {
      d.push_back((int)(idx % (unsigned long long)r));
      idx /= (unsigned long long)r;
    }
    return d;
  };
  sp.get  = [dec](unsigned long long idx) { return userwins_scenario(dec(idx)); };
  sp.json = [dec](unsigned long long idx) { return "\"digits\":" + jarr(dec(idx)); };
  sp.parts      = dec;
  sp.from_parts = [](const std::vector<int> &p) { return userwins_scenario(p); };
  sp.parts_json = [](const std::vector<int> &p) { return "\"digits\":" + jarr(p); };
  sp.reductions = [](const std::vector<int> &p) {
    std::vector<std::vector<int>> out;
    for (size_t i = 0; i < 9; i++)
      if (p[i]) {
        std::vector<int> q = p;
        q[i]               = 0; // setting not supplied
        out.push_back(q);
      }
    return out;
  };
  return sp;
}

bool is_c16_family(const std::string &f) { return f == "options" || f == "servers" || f == "userwins"; }

int run_c16(Ctx &cx)
{
  const std::string &fam = cx.args.family;
  Space              sp;
  if (fam == "options") sp = options_space((unsigned)cx.args.geti("bits", cx.args.tier == "thorough" ? 3 : 2));
  else if (fam == "servers") sp = servers_space();
  else sp = userwins_space();
  cx.rep.family = fam;
  cx.rep.bound  = sp.bound;

  auto describe = [&](const Scenario &sc) {
    User u;
    sc.build(u);
    static std::vector<Sys> sysv = sys_variants();
    return u.desc + " | system configuration: " + sysv[(size_t)sc.sys].name + " | reinit: " + (sc.re == 0 ? "unchanged" : sc.re == 1 ? "changed" : "removed");
  };
  std::set<std::string> reported;
  auto                  one = [&](unsigned long long idx, const Scenario &sc, const std::string &enc) {
    std::string cj = "{\"index\":" + std::to_string(idx) + ",\"family\":" + vf::jstr(fam) + "," + enc + ",\"desc\":" + vf::jstr(describe(sc)) + "}";
    vf::set_current_case(cj, "C16:crash:" + fam);
    vf::watchdog(30);
    std::string          outcome;
    std::vector<Finding> fs = run_scenario(sc, cx, fam, &outcome, cx.replay);
    vf::watchdog(0);
    cx.rep.transitions++;
    cx.ncases++;
    if (cx.ncases == 1 || cx.ncases % 997 == 17) cx.rep.sample(cj, 6);
    cx.rep.outcome(outcome + " findings=" + std::to_string(fs.size()));
    for (auto &f : fs) {
      if (!cx.replay && reported.count(f.key)) continue;
      reported.insert(f.key);
      std::string desc = f.desc + " | scenario: " + describe(sc), rj = cj;
      if (!cx.replay && sp.parts && idx != ~0ULL) {
        // shrink: drop supplied settings one at a time while the same finding stays
        std::vector<int> cur = sp.parts(idx);
        auto             w = cx.rep.witnesses;
        auto             c = cx.rep.counters;
        bool             changed = true;
        while (changed) {
          changed = false;
          for (auto &cand : sp.reductions(cur)) {
            std::string          o2;
            Scenario             s2  = sp.from_parts(cand);
            std::vector<Finding> fs2 = run_scenario(s2, cx, fam, &o2, false);
            for (auto &g : fs2)
              if (g.key == f.key) {
                cur     = cand;
                desc    = g.desc + " | minimal scenario: " + describe(s2);
                rj      = "{\"index\":" + std::to_string(idx) + ",\"family\":" + vf::jstr(fam) + "," + sp.parts_json(cand) + ",\"desc\":" + vf::jstr(describe(s2)) + "}";
                changed = true;
                break;
              }
            if (changed) break;
          }
        }
        cx.rep.witnesses = w;
        cx.rep.counters  = c;
        vf::set_current_case(cj, "C16:crash:" + fam);
      }
      cx.violation(f.key, desc, rj);
    }
  };

  if (cx.replay) {
    JVal j;
    if (!jparse(read_file(cx.args.replay), &j)) {
      fprintf(stderr, "cannot parse replay file\n");
      return 3;
    }
    Scenario sc;
    if (fam == "options") {
      std::vector<int> s;
      for (long long v : j.ai["opts"]) s.push_back((int)v);
      sc = options_scenario_explicit(s, (int)j.i["sys"], (int)j.i["re"]);
    } else if (fam == "servers") {
      SrvCase c;
      for (long long v : j.ai["kinds"]) c.kinds.push_back((int)v);
      c.setter  = (int)j.i["setter"];
      c.chan    = (int)j.i["chan"];
      c.dupaddr = j.i["dupaddr"] != 0;
      sc        = servers_scenario(c);
    } else {
      std::vector<int> d;
      for (long long v : j.ai["digits"]) d.push_back((int)v);
      if (d.size() != sizeof UW_RADIX / sizeof *UW_RADIX) {
        fprintf(stderr, "bad digits\n");
        return 3;
      }
      sc = userwins_scenario(d);
    }
    printf("scenario: %s\n", describe(sc).c_str());
    one(~0ULL, sc, "\"replayed\":1");
    printf(cx.failed ? "REPRODUCED\n" : "HELD\n");
    return cx.failed ? 1 : 0;
  }

  if (cx.args.shard == 0 && cx.args.resume == 0) cx.rep.counters["cases_total"] = sp.total; // counters are summed over shards and restarts
  // After a crash the driver restarts this shard behind the crashing scenario (which it reports).  From then on every
  // scenario is first executed in a forked child; the ones that kill the child are skipped and counted, so a defect
  // reached by hundreds of scenarios costs one restart per shard instead of hundreds.
  bool careful = cx.args.resume > 0;
  auto kills   = [&](const Scenario &sc) {
    fflush(nullptr);
    pid_t pid = fork();
    if (pid < 0) return false;
    if (pid == 0) {
      __sanitizer_set_death_callback(nullptr);
      for (int sg : { SIGSEGV, SIGBUS, SIGFPE, SIGILL, SIGABRT, SIGALRM }) signal(sg, SIG_DFL);
      vf::crashctx().path[0] = 0;
      vf::partial_writer()   = nullptr;
      int devnull            = open("/dev/null", O_WRONLY);
      if (devnull >= 0) {
        dup2(devnull, 1);
        dup2(devnull, 2);
      }
      alarm(30);
      std::string o;
      run_scenario(sc, cx, fam, &o, false);
      _exit(0);
    }
    int st = 0;
    waitpid(pid, &st, 0);
    return !(WIFEXITED(st) && WEXITSTATUS(st) == 0);
  };
  for (unsigned long long idx = (unsigned long long)cx.args.resume; idx < sp.total; idx++) {
    if (idx % (unsigned long long)cx.args.nshards != (unsigned long long)cx.args.shard) continue;
    if ((cx.ncases & 63) == 0 && cx.deadline_hit()) {
      cx.rep.exhaustive             = false;
      cx.rep.counters["stopped_at"] = idx;
      break;
    }
    Scenario sc = sp.get(idx);
    if (careful && kills(sc)) {
      cx.rep.count("skipped_crashing_scenario");
      continue;
    }
    one(idx, sc, sp.json(idx));
  }
  return 0;
}

} // namespace exe
