// EX-E: virtual environment (files, environment variables, hostname, interface
// table, clock, randomness, threads), library set-up, helpers.
#include "exe.h"
#include <functional>
#include <dlfcn.h>
#include <errno.h>
#include <net/if.h>
#include <sys/stat.h>
#include <sys/socket.h>
#include <time.h>
#include <ares_verif_hooks.h>

namespace exe {

// modification times of virtual files that were rewritten during a case (default: long ago)
static std::map<std::string, long> &vfs_mtime()
{
  static std::map<std::string, long> m;
  return m;
}
static std::map<std::string, std::string> &vfs()
{
  static std::map<std::string, std::string> m;
  return m;
}
static std::string &vhostname()
{
  static std::string h = "vhost";
  return h;
}
static uint64_t g_rand_ctr = 0;

std::string Env::json() const
{
  std::string s = "{\"hostname\":" + vf::jstr(hostname);
  if (has_localdomain) s += ",\"LOCALDOMAIN\":" + vf::jstr(localdomain);
  if (has_resopts) s += ",\"RES_OPTIONS\":" + vf::jstr(resopts);
  if (!hostaliases.empty()) s += ",\"HOSTALIASES\":" + vf::jstr(hostaliases);
  s += ",\"files\":{";
  bool first = true;
  for (auto &kv : files) {
    s += (first ? "" : ",") + vf::jstr(kv.first) + ":" + vf::jstr(kv.second);
    first = false;
  }
  s += "}}";
  return s;
}

void rewrite_file(const std::string &path, const std::string &content, long mtime)
{
  vfs()[path]       = content;
  vfs_mtime()[path] = mtime;
}
void env_apply(const Env &e)
{
  vfs() = e.files;
  vfs_mtime().clear();
  if (e.has_localdomain) setenv("LOCALDOMAIN", e.localdomain.c_str(), 1);
  else unsetenv("LOCALDOMAIN");
  if (e.has_resopts) setenv("RES_OPTIONS", e.resopts.c_str(), 1);
  else unsetenv("RES_OPTIONS");
  if (!e.hostaliases.empty()) setenv("HOSTALIASES", e.hostaliases.c_str(), 1);
  else unsetenv("HOSTALIASES");
  unsetenv("CARES_HOSTS");
  vhostname() = e.hostname;
  g_rand_ctr  = 0; // every case starts from the same random tape
}

// ------------------------------------------------------------------ hooks
static void h_tvnow(long long *sec, unsigned int *usec)
{
  *sec  = 1700000000LL;
  *usec = 0;
}
static uint64_t splitmix(uint64_t x)
{
  x += 0x9e3779b97f4a7c15ULL;
  x = (x ^ (x >> 30)) * 0xbf58476d1ce4e5b9ULL;
  x = (x ^ (x >> 27)) * 0x94d049bb133111ebULL;
  return x ^ (x >> 31);
}
static void h_rand(int, unsigned char *buf, size_t len)
{
  for (size_t i = 0; i < len; i += 8) {
    uint64_t x = splitmix(0xE5E0000000000000ULL + g_rand_ctr++);
    memcpy(buf + i, &x, len - i < 8 ? len - i : 8);
  }
}
static int h_seed(unsigned int *seed)
{
  *seed = 0x00c0ffee;
  return 1;
}
static int h_true1(void *) { return 1; }
static int h_condwait(void *, void *, size_t, int *timedout)
{
  *timedout = 1;
  return 1;
}
static int h_thread_create(void *(*func)(void *), void *arg, void **handle)
{
  func(arg); // the reinit "thread" runs synchronously
  *handle = (void *)1;
  return 1;
}
static int h_thread_join(void *, void **rv)
{
  if (rv) *rv = nullptr;
  return 1;
}

void lib_init()
{
  ares_verif_hooks.tvnow          = h_tvnow;
  ares_verif_hooks.rand_bytes     = h_rand;
  ares_verif_hooks.htable_seed    = h_seed;
  ares_verif_hooks.mutex_lock     = h_true1;
  ares_verif_hooks.mutex_unlock   = h_true1;
  ares_verif_hooks.cond_signal    = h_true1;
  ares_verif_hooks.cond_broadcast = h_true1;
  ares_verif_hooks.cond_wait      = h_condwait;
  ares_verif_hooks.thread_create  = h_thread_create;
  ares_verif_hooks.thread_join    = h_thread_join;
  vf::ledger().reset();
  if (ares_library_init_mem(ARES_LIB_INIT_ALL, vf::l_malloc, vf::l_free, vf::l_realloc) != ARES_SUCCESS) {
    fprintf(stderr, "ares_library_init_mem failed\n");
    exit(3);
  }
}

// ------------------------------------------------- dummy socket functions
static ares_socket_t s_socket(int, int, int, void *)
{
  errno = EAFNOSUPPORT;
  return ARES_SOCKET_BAD;
}
static int s_close(ares_socket_t, void *) { return 0; }
static int s_setsockopt(ares_socket_t, ares_socket_opt_t, const void *, ares_socklen_t, void *) { return 0; }
static int s_connect(ares_socket_t, const struct sockaddr *, ares_socklen_t, unsigned int, void *)
{
  errno = ECONNREFUSED;
  return -1;
}
static ares_ssize_t s_recvfrom(ares_socket_t, void *, size_t, int, struct sockaddr *, ares_socklen_t *, void *)
{
  errno = EWOULDBLOCK;
  return -1;
}
static ares_ssize_t s_sendto(ares_socket_t, const void *, size_t, int, const struct sockaddr *, ares_socklen_t, void *)
{
  errno = ECONNREFUSED;
  return -1;
}
static unsigned int v_nametoindex(const char *name)
{
  if (!name) return 0;
  if (!strcmp(name, "lo")) return 1;
  if (!strcmp(name, "eth0")) return 2;
  if (!strcmp(name, "eth1")) return 3;
  return 0;
}
static const char *v_indextoname(unsigned int idx, char *buf, size_t len)
{
  const char *n = idx == 1 ? "lo" : idx == 2 ? "eth0" : idx == 3 ? "eth1" : nullptr;
  if (!n || len < strlen(n) + 1) return nullptr;
  strcpy(buf, n);
  return buf;
}
// The application's own interface table (installed with its socket functions) knows one interface more than the
// operating system's (the interposed if_nametoindex / if_indextoname): vnet0 <-> 7. A channel that resolves interfaces
// through anything but its own callbacks loses servers bound to it.
// one-shot action the application performs from inside its own interface lookup callback (the library calls it, without
// holding the channel lock, while a reload is still reading the configuration file)
static std::function<void()> g_in_if_lookup;
void set_if_lookup_action(std::function<void()> fn) { g_in_if_lookup = std::move(fn); }
static unsigned int s_nametoindex(const char *name, void *)
{
  if (g_in_if_lookup) {
    auto fn = std::move(g_in_if_lookup);
    g_in_if_lookup = nullptr;
    fn();
  }
  if (name && !strcmp(name, "vnet0")) return 7;
  return v_nametoindex(name);
}
static const char *s_indextoname(unsigned int idx, char *buf, size_t len, void *)
{
  if (idx == 7) {
    if (len < 6) return nullptr;
    strcpy(buf, "vnet0");
    return buf;
  }
  return v_indextoname(idx, buf, len);
}

void install_sockfuncs(ares_channel_t *ch)
{
  struct ares_socket_functions_ex f;
  memset(&f, 0, sizeof f);
  f.version         = 1;
  f.flags           = ARES_SOCKFUNC_FLAG_NONBLOCKING;
  f.asocket         = s_socket;
  f.aclose          = s_close;
  f.asetsockopt     = s_setsockopt;
  f.aconnect        = s_connect;
  f.arecvfrom       = s_recvfrom;
  f.asendto         = s_sendto;
  f.aif_nametoindex = s_nametoindex;
  f.aif_indextoname = s_indextoname;
  if (ares_set_socket_functions_ex(ch, &f, nullptr) != ARES_SUCCESS) {
    fprintf(stderr, "ares_set_socket_functions_ex failed\n");
    exit(3);
  }
}

// ------------------------------------------------------------------- Ctx
bool Ctx::deadline_hit() { return vf::now_s() - t0 > args.deadline; }
void Ctx::violation(const std::string &key, const std::string &desc, const std::string &replay_json)
{
  failed = true;
  if (replay) printf("VIOLATED %s\n  %s\n", key.c_str(), desc.c_str());
  rep.violation(key, desc, replay_json);
}

size_t      ledger_live() { return vf::ledger().live.size(); }
std::string ledger_leak_sites()
{
  std::map<std::string, int> sites;
  for (auto &kv : vf::ledger().live) sites[vf::ledger_site(kv.first)]++;
  std::string s;
  for (auto &kv : sites) s += (s.empty() ? "" : ";") + kv.first;
  return s;
}
void ledger_forget()
{
  vf::ledger().live.clear();
  vf::ledger().bts.clear();
}

// ----------------------------------------------------------------- JSON
static void jskipws(const std::string &t, size_t &p)
{
  while (p < t.size() && (t[p] == ' ' || t[p] == '\n' || t[p] == '\t' || t[p] == '\r')) p++;
}
static bool jstring(const std::string &t, size_t &p, std::string *out)
{
  if (p >= t.size() || t[p] != '"') return false;
  p++;
  out->clear();
  while (p < t.size() && t[p] != '"') {
    if (t[p] == '\\' && p + 1 < t.size()) {
      char c = t[p + 1];
      if (c == 'u' && p + 5 < t.size()) {
        unsigned v = (unsigned)strtoul(t.substr(p + 2, 4).c_str(), nullptr, 16);
        *out += (char)(unsigned char)v; // this engine only writes \u00XX
        p += 6;
        continue;
      }
      *out += c == 'n' ? '\n' : c == 't' ? '\t' : c == 'r' ? '\r' : c;
      p += 2;
      continue;
    }
    *out += t[p++];
  }
  if (p >= t.size()) return false;
  p++;
  return true;
}
static bool jskipval(const std::string &t, size_t &p);
static bool jskipval(const std::string &t, size_t &p)
{
  jskipws(t, p);
  if (p >= t.size()) return false;
  if (t[p] == '"') {
    std::string d;
    return jstring(t, p, &d);
  }
  if (t[p] == '{' || t[p] == '[') {
    char open = t[p], close = open == '{' ? '}' : ']';
    p++;
    jskipws(t, p);
    if (p < t.size() && t[p] == close) {
      p++;
      return true;
    }
    for (;;) {
      if (open == '{') {
        std::string k;
        jskipws(t, p);
        if (!jstring(t, p, &k)) return false;
        jskipws(t, p);
        if (p >= t.size() || t[p] != ':') return false;
        p++;
      }
      if (!jskipval(t, p)) return false;
      jskipws(t, p);
      if (p < t.size() && t[p] == ',') {
        p++;
        continue;
      }
      if (p < t.size() && t[p] == close) {
        p++;
        return true;
      }
      return false;
    }
  }
  while (p < t.size() && t[p] != ',' && t[p] != '}' && t[p] != ']') p++;
  return true;
}
bool jparse(const std::string &t, JVal *out)
{
  size_t p = 0;
  jskipws(t, p);
  if (p >= t.size() || t[p] != '{') return false;
  p++;
  for (;;) {
    jskipws(t, p);
    if (p < t.size() && t[p] == '}') return true;
    std::string k;
    if (!jstring(t, p, &k)) return false;
    jskipws(t, p);
    if (p >= t.size() || t[p] != ':') return false;
    p++;
    jskipws(t, p);
    if (p >= t.size()) return false;
    if (t[p] == '"') {
      std::string v;
      if (!jstring(t, p, &v)) return false;
      out->s[k] = v;
    } else if (t[p] == '[') {
      size_t save = p;
      p++;
      std::vector<long long>   ai;
      std::vector<std::string> as;
      bool                     ok = true;
      for (;;) {
        jskipws(t, p);
        if (p < t.size() && t[p] == ']') {
          p++;
          break;
        }
        if (p < t.size() && t[p] == '"') {
          std::string v;
          if (!jstring(t, p, &v)) return false;
          as.push_back(v);
        } else if (p < t.size() && (isdigit((unsigned char)t[p]) || t[p] == '-')) {
          size_t q = p;
          while (q < t.size() && (isdigit((unsigned char)t[q]) || t[q] == '-')) q++;
          ai.push_back(atoll(t.substr(p, q - p).c_str()));
          p = q;
        } else {
          ok = false;
          break;
        }
        jskipws(t, p);
        if (p < t.size() && t[p] == ',') p++;
      }
      if (!ok) {
        p = save;
        if (!jskipval(t, p)) return false;
      } else {
        if (!as.empty()) out->as[k] = as;
        else out->ai[k] = ai;
      }
    } else if (isdigit((unsigned char)t[p]) || t[p] == '-') {
      size_t q = p;
      while (q < t.size() && (isdigit((unsigned char)t[q]) || t[q] == '-')) q++;
      out->i[k] = atoll(t.substr(p, q - p).c_str());
      p         = q;
    } else {
      if (!jskipval(t, p)) return false;
    }
    jskipws(t, p);
    if (p < t.size() && t[p] == ',') {
      p++;
      continue;
    }
    if (p < t.size() && t[p] == '}') return true;
    return false;
  }
}
std::string jarr(const std::vector<int> &v)
{
  std::string s = "[";
  for (size_t i = 0; i < v.size(); i++) s += (i ? "," : "") + std::to_string(v[i]);
  return s + "]";
}
std::string read_file(const std::string &path)
{
  std::string s;
  FILE       *f = fopen(path.c_str(), "rb");
  if (!f) return s;
  char   b[4096];
  size_t n;
  while ((n = fread(b, 1, sizeof b, f)) > 0) s.append(b, n);
  fclose(f);
  return s;
}

unsigned long long seq_total(unsigned n, unsigned k)
{
  unsigned long long t = 0, p = 1;
  for (unsigned l = 0; l <= k; l++) {
    t += p;
    p *= n;
  }
  return t;
}
void seq_decode(unsigned long long idx, unsigned n, std::vector<int> *out)
{
  out->clear();
  unsigned long long p = 1;
  unsigned           l = 0;
  while (idx >= p) {
    idx -= p;
    p *= n;
    l++;
  }
  out->resize(l);
  for (unsigned i = 0; i < l; i++) {
    (*out)[l - 1 - i] = (int)(idx % n);
    idx /= n;
  }
}

} // namespace exe

// ---------------------------------------------------------------------------
// libc interposition (libcares.a is linked statically into this executable, so
// these definitions are the ones the library calls)
// ---------------------------------------------------------------------------
extern "C" {

static bool virtual_path(const char *p) { return p && (strncmp(p, "/vfs/", 5) == 0 || strncmp(p, "/etc/", 5) == 0); }

typedef FILE *(*fopen_t)(const char *, const char *);
FILE *fopen(const char *path, const char *mode)
{
  static fopen_t real = (fopen_t)dlsym(RTLD_NEXT, "fopen");
  if (virtual_path(path)) {
    auto &m  = exe::vfs();
    auto  it = m.find(path);
    if (it == m.end()) {
      errno = ENOENT;
      return nullptr;
    }
    if (it->second.empty()) return real("/dev/null", "r");
    return fmemopen((void *)it->second.data(), it->second.size(), "r");
  }
  return real(path, mode);
}

typedef int (*stat_t)(const char *, struct stat *);
int stat(const char *path, struct stat *st)
{
  static stat_t real = (stat_t)dlsym(RTLD_NEXT, "stat");
  if (virtual_path(path)) {
    auto &m  = exe::vfs();
    auto  it = m.find(path);
    if (it == m.end()) {
      errno = ENOENT;
      return -1;
    }
    memset(st, 0, sizeof *st);
    st->st_mode  = S_IFREG | 0644;
    st->st_size  = (off_t)it->second.size();
    st->st_mtime = exe::vfs_mtime().count(path) ? exe::vfs_mtime()[path] : 1000;
    return 0;
  }
  return real(path, st);
}

time_t time(time_t *t)
{
  time_t v = 1700000000;
  if (t) *t = v;
  return v;
}

int gethostname(char *name, size_t len)
{
  snprintf(name, len, "%s", exe::vhostname().c_str());
  return 0;
}

unsigned int if_nametoindex(const char *ifname) { return exe::v_nametoindex(ifname); }
char        *if_indextoname(unsigned int ifindex, char *ifname) { return (char *)exe::v_indextoname(ifindex, ifname, IF_NAMESIZE); }
}
