// EX-E driver: exe <family> --tier T --shard i/n --out F --deadline S --resume K [--k N ...] | exe <family> --replay F
#include "exe.h"
#include <sys/personality.h>

int main(int argc, char **argv)
{
  // no ASLR: addresses never influence anything we compare, but keep runs bit-identical anyway
  if (!getenv("EXE_NOASLR_DONE")) {
    setenv("EXE_NOASLR_DONE", "1", 1);
    if (personality(ADDR_NO_RANDOMIZE) != -1) execv("/proc/self/exe", argv);
  }
  exe::Ctx cx;
  cx.args       = vf::parse_args(argc, argv);
  cx.t0         = vf::now_s();
  cx.rep.engine = "exe";
  cx.rep.tier   = cx.args.tier;
  cx.replay     = !cx.args.replay.empty();
  if (cx.args.family.empty() || (!exe::is_c15_family(cx.args.family) && !exe::is_c16_family(cx.args.family))) {
    fprintf(stderr, "usage: exe <resolvconf|resolvconf-deep|otherfiles|hosts|aliases|envopts|strings|options|servers|userwins> [--tier quick|thorough] [--shard i/n] [--out file] [--replay file]\n");
    return 3;
  }
  if (!cx.replay) {
    if (cx.args.out.empty()) cx.args.out = "/dev/stdout";
    else {
      vf::install_crash_handler(cx.args.out + ".crash");
      vf::enable_partial_report(&cx.rep, cx.args.out);
    }
  }
  exe::lib_init();
  int rc = exe::is_c15_family(cx.args.family) ? exe::run_c15(cx) : exe::run_c16(cx);
  if (cx.replay) return rc;
  if (rc == 3) return 3;
  cx.rep.states = cx.states.size();
  cx.rep.write(cx.args.out);
  return 0;
}
