// EX-E: the only translation unit that touches private c-ares structures.
// A rename of one of these fields in /repo makes this file fail to compile
// (reported by vf as an internal error, never as a verdict).
#include "exe.h"
#include <arpa/inet.h>
extern "C" {
#include "ares_private.h"
}

namespace exe {

static std::string addr_text(const struct ares_addr *a)
{
  char b[INET6_ADDRSTRLEN + 1] = "";
  if (a->family == AF_INET) inet_ntop(AF_INET, &a->addr.addr4, b, sizeof b);
  else if (a->family == AF_INET6) inet_ntop(AF_INET6, &a->addr.addr6, b, sizeof b);
  else snprintf(b, sizeof b, "family%d", a->family);
  return b;
}

std::string sortlist_text(const struct apattern *sl, int n)
{
  std::string s;
  // a count without an array is an inconsistent channel: say so instead of dereferencing it
  if (sl == nullptr && n > 0) return "(no array although the count is " + std::to_string(n) + ")";
  for (int i = 0; i < n; i++) s += (i ? " " : "") + addr_text(&sl[i].addr) + "/" + std::to_string((unsigned)sl[i].mask);
  return s;
}

std::string servers_csv(const ares_channel_t *ch)
{
  char *csv = ares_get_servers_csv(ch);
  if (!csv) return "(null)";
  std::string s = csv;
  ares_free_string(csv);
  return s;
}

std::string servers_ports(const ares_channel_t *ch)
{
  struct ares_addr_port_node *head = nullptr;
  int                         rc   = ares_get_servers_ports(ch, &head);
  if (rc != ARES_SUCCESS) return "(error " + std::to_string(rc) + ")";
  std::string s;
  for (struct ares_addr_port_node *n = head; n; n = n->next) {
    char b[INET6_ADDRSTRLEN + 1] = "";
    if (n->family == AF_INET) inet_ntop(AF_INET, &n->addr.addr4, b, sizeof b);
    else inet_ntop(AF_INET6, &n->addr.addr6, b, sizeof b);
    s += (s.empty() ? "" : ",") + std::string(b) + "|u" + std::to_string(n->udp_port) + "|t" + std::to_string(n->tcp_port);
  }
  ares_free_data(head);
  return s;
}

Cfg peek_cfg(const ares_channel_t *ch)
{
  Cfg  c;
  char b[128];
  auto num = [&](const char *k, unsigned long long v) {
    snprintf(b, sizeof b, "%llu", v);
    c.f[k] = b;
  };
  snprintf(b, sizeof b, "0x%x", ch->flags);
  c.f["flags"] = b;
  num("timeout", ch->timeout);
  num("tries", ch->tries);
  num("ndots", ch->ndots);
  num("maxtimeout", ch->maxtimeout);
  num("rotate", ch->rotate ? 1 : 0);
  num("udp_port", ch->udp_port);
  num("tcp_port", ch->tcp_port);
  num("sndbuf", (unsigned long long)(long long)ch->socket_send_buffer_size);
  num("rcvbuf", (unsigned long long)(long long)ch->socket_receive_buffer_size);
  num("ednspsz", ch->ednspsz);
  num("qcache_max_ttl", ch->qcache_max_ttl);
  num("udp_max_queries", ch->udp_max_queries);
  num("retry_chance", ch->server_retry_chance);
  num("retry_delay", ch->server_retry_delay);
  num("evsys", (unsigned long long)ch->evsys);
  snprintf(b, sizeof b, "0x%x", ch->optmask);
  c.f["optmask"] = b;
  std::string d;
  for (size_t i = 0; i < ch->ndomains; i++) d += (i ? "," : "") + std::string(ch->domains[i] ? ch->domains[i] : "(null)");
  c.f["domains"]  = "[" + d + "]";
  c.f["lookups"]  = ch->lookups ? ch->lookups : "(null)";
  c.f["sortlist"] = "[" + sortlist_text(ch->sortlist, (int)ch->nsort) + "]";
  c.f["resolvconf_path"] = ch->resolvconf_path ? ch->resolvconf_path : "(default)";
  c.f["hosts_path"]      = ch->hosts_path ? ch->hosts_path : "(default)";
  snprintf(b, sizeof b, "%s/%p", ch->sock_state_cb ? "set" : "unset", ch->sock_state_cb_data);
  c.f["sock_state_cb"] = b;
  c.f["servers"]       = servers_csv(ch);
  c.f["server_ports"]  = servers_ports(ch);
  // ordered server list incl. the link-local interface and scope (no public getter for the scope id)
  std::string sv;
  for (ares_slist_node_t *n = ares_slist_node_first(ch->servers); n; n = ares_slist_node_next(n)) {
    const ares_server_t *s = (const ares_server_t *)ares_slist_node_val(n);
    snprintf(b, sizeof b, "|u%u|t%u|%s|%u", (unsigned)s->udp_port, (unsigned)s->tcp_port, s->ll_iface, s->ll_scope);
    sv += (sv.empty() ? "" : ",") + addr_text(&s->addr) + b;
  }
  c.f["server_detail"] = sv;
  return c;
}

std::string Cfg::str(const std::set<std::string> &ignore) const
{
  std::string s;
  for (auto &kv : f)
    if (!ignore.count(kv.first)) s += kv.first + "=" + kv.second + "\n";
  return s;
}

std::string diff_cfg(const Cfg &a, const Cfg &b, const std::set<std::string> &ignore)
{
  std::string s;
  for (auto &kv : a.f) {
    if (ignore.count(kv.first)) continue;
    auto it = b.f.find(kv.first);
    if (it == b.f.end() || it->second != kv.second) s += (s.empty() ? "" : "; ") + kv.first + ": " + kv.second + " vs " + (it == b.f.end() ? "(absent)" : it->second);
  }
  return s;
}

struct apattern *make_sortlist(const char *str, int *n)
{
  struct apattern *sl = nullptr;
  size_t           ns = 0;
  *n                  = 0;
  if (ares_parse_sortlist(&sl, &ns, str) != ARES_SUCCESS) return nullptr;
  *n = (int)ns;
  return sl;
}
void free_sortlist(struct apattern *p) { ares_free(p); }

int lookup_alias(const ares_channel_t *ch, const char *name, std::string *out)
{
  char         *alias = nullptr;
  ares_status_t st    = ares_lookup_hostaliases(ch, name, &alias);
  out->clear();
  if (alias) {
    *out = alias;
    ares_free(alias);
  }
  return (int)st;
}

} // namespace exe
