# one .mk per engine; each defines rules for $(B)/bin/<name>
BIN := $(B)/bin
$(BIN):
	@mkdir -p $(BIN)
-include $(HSRC)/exa.mk
-include $(HSRC)/exb.mk
-include $(HSRC)/exc.mk
-include $(HSRC)/exd.mk
-include $(HSRC)/exe.mk
