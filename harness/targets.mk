# one .mk per engine; each defines rules for $(B)/bin/<name>
BIN := $(B)/bin
$(BIN):
	@mkdir -p $(BIN)
-include /verif/harness/exa.mk
-include /verif/harness/exb.mk
-include /verif/harness/exc.mk
-include /verif/harness/exd.mk
-include /verif/harness/exe.mk
