#!/usr/bin/env python3
"""Run c-ares' own suite (guard OFF, the normal cmake build in <repo>/_build) and
check that every test listed as stable_pass in /root/.vp/BASELINE.json passes.
usage: baseline_off.py [repo_dir]   (default /repo)"""
import json, subprocess, sys, os, tempfile, xml.etree.ElementTree as ET
repo = sys.argv[1] if len(sys.argv) > 1 else '/repo'
b = repo + '/_build'
if not os.path.exists(b + '/build.ninja'):
    subprocess.run(['cmake', '-S', repo, '-B', b, '-G', 'Ninja', '-DCMAKE_BUILD_TYPE=RelWithDebInfo',
                    '-DCARES_BUILD_TESTS=ON', '-DCARES_BUILD_CONTAINER_TESTS=ON', '-DCARES_BUILD_TOOLS=ON',
                    '-DFETCHCONTENT_SOURCE_DIR_GOOGLETEST=/usr/src/googletest'],
                   stdout=subprocess.DEVNULL, check=True)
r = subprocess.run(['cmake', '--build', b], stdout=subprocess.PIPE, stderr=subprocess.STDOUT, text=True)
if r.returncode != 0:
    print(r.stdout[-3000:]); print('BUILD FAILED'); sys.exit(2)
xml = tempfile.mktemp(suffix='.xml', dir='/var/tmp')
subprocess.run([b + '/bin/arestest', '--gtest_output=xml:' + xml], cwd=b + '/test' if os.path.isdir(b + '/test') else b,
               stdout=subprocess.DEVNULL, stderr=subprocess.DEVNULL)
passed = set()
for tc in ET.parse(xml).getroot().iter('testcase'):
    bad = any(ch.tag in ('failure', 'error') for ch in tc) or tc.get('status') == 'notrun' or tc.get('result') in ('skipped', 'suppressed')
    if not bad:
        passed.add(tc.get('classname') + '::' + tc.get('name'))
os.unlink(xml)
for t in ('aresfuzz', 'aresfuzzname'):
    rr = subprocess.run(['ctest', '--test-dir', b, '-R', '^' + t + '$', '--timeout', '900'], stdout=subprocess.PIPE, stderr=subprocess.STDOUT, text=True)
    if rr.returncode == 0 and '100% tests passed' in rr.stdout:
        passed.add(t + '::' + t)
want = set(json.load(open('/root/.vp/BASELINE.json'))['stable_pass'])
missing = sorted(want - passed)
print(f'stable_pass={len(want)} passed_now={len(passed)} missing={len(missing)}')
for m in missing[:40]:
    print('  NOT PASSING:', m)
sys.exit(1 if missing else 0)
