#!/bin/bash
# usage: eval_seed.sh <ID> [property ...]   - confirm a seeded change (suite passes, demo fails with / passes without), run our checks on it
id=$1; shift; props=${@:-$id}
S=${SEEDROOT:-/var/tmp/seed}/$id; O=/verif/seeded/$id${OUTSUFFIX:-}; oid=$id${OUTSUFFIX:-}
mkdir -p $O; cp $S/out/patch.diff $O/; rm -rf $O/demo; cp -r $S/out/demo $O/ 2>/dev/null; cp $S/out/NOTES.md $O/ 2>/dev/null
echo "== $id: suite with the change"; suite=$(python3 /var/tmp/seedtools/run_suite.py $S/wt 2>&1 | tail -1); echo "$suite"
echo "== demo with the change"; (cd $S/out/demo && timeout 600 bash ./run.sh $S/wt > /tmp/demo_$oid.with 2>&1); with=$?; tail -2 /tmp/demo_$oid.with
git -C $S/wt apply -R $S/out/patch.diff; cmake --build $S/wt/_build > /dev/null 2>&1
echo "== demo without the change"; (cd $S/out/demo && timeout 600 bash ./run.sh $S/wt > /tmp/demo_$oid.without 2>&1); without=$?; tail -2 /tmp/demo_$oid.without
git -C $S/wt apply $S/out/patch.diff; 
echo "demo exit with=$with without=$without"
res=""
for p in $props; do r=$(/verif/tools/try_mutant.sh seed$id $O/patch.diff $p 2>&1 | grep MUTANT); echo "$r"; res="$res | $r"; done
python3 - "$oid" "$suite" "$with" "$without" "$res" <<'PY'
import json,sys
id,suite,w,wo,res=sys.argv[1:6]
json.dump({'breaks_property':id.split('-')[0],'origin':'independent sub-agent given only the property text and a scratch worktree','suite_with_change':suite,
 'demo_exit_with_change':int(w),'demo_exit_without_change':int(wo),'our_checks':res.strip(' |'),
 'what_i_ran':['python3 run_suite.py <worktree with patch> (project suite, baseline list)','demo/run.sh <worktree> with and without the patch','tools/try_mutant.sh (vf <property> --tier quick against a scratch worktree of /repo HEAD + patch.diff)'],
 'needs_to_manifest':'see NOTES.md'},open('/verif/seeded/%s/meta.json'%id,'w'),indent=1)
PY
