#!/usr/bin/env python3
"""Regenerates /verif/MANIFEST.json from the table below + the plan registry.
A property is listed under checks only if it is in CLAIMED; everything else goes
to not_applicable with its reason."""
import json, sys, os, subprocess
V = os.path.dirname(os.path.dirname(os.path.abspath(__file__)))
sys.path.insert(0, V)
from vflib import plans

def hooks_commits():
    out = subprocess.run(['git', '-C', '/repo', 'log', '--format=%h %s'], stdout=subprocess.PIPE, text=True).stdout
    return [l.split()[0] for l in out.splitlines() if l.split(' ', 1)[1].startswith('verif hooks:')][::-1]

CLAIMED = {
 'C01': dict(engine='EX-A', technique='explicit-state BFS over event histories executed on the real library (virtual sockets/clock/random tape), state hashing, closure of every state, token/allocator ledgers + ASan/UBSan as oracles',
   text='Every history of the life-udp / life-tcp / life-reentrant families (all ten entry points, re-entrant callbacks that start requests or cancel, replies of 5 kinds, timers, cancel, destroy, server-list changes, one (quick) or two (thorough) injected socket faults) up to the stated depth is executed on the real code; in every reached state and after closing it (silence, timers, destroy) each request token was completed exactly once, never after destroy, cancel/destroy completed everything accepted, the allocator ledger is empty and the sanitizers are silent. Bounded-exhaustive, not a proof: depth, number of requests/servers and deviations are bounded.',
   note='Trusted: harness world model (sockets/clock), own DNS encoder, canonical state key (audited by running with de-duplication off), clang ASan/UBSan. Assumes a well-behaved single-threaded application; threads are C11.', ref='4/C01'),
 'C05': dict(engine='EX-A', technique='explicit-state BFS over event histories with adversary packets; provenance markers + reference acceptance rule as oracle',
   text='Family adversary: 2 servers / USEVC, EDNS(+cookies) / 0x20 / stay-open, cache on, up to 2 requests, genuine replies and every forgery kind (wrong id, name, type, class, letter case under 0x20, source address, other open socket, missing cookie after support was proven, wrong client cookie) injected at every point of the query life (before the first reply, after a timeout and re-send to the other server, after TC->TCP, after completion, after a cache insert). Every record delivered to a callback or served from the cache carries a marker naming the packet it came from; the oracle demands that packet is genuine, arrived on the descriptor of the latest transmission of that query id, from that server. Bounded-exhaustive within depth/forgery bounds.',
   note='Trusted: harness encoder (replies are built from the decoded transmission), marker extraction through the public getters. Cookie validity itself is decided by C17.', ref='4/C05'),
 'C06': dict(engine='EX-A', technique='explicit-state BFS over per-attempt outcome sequences x configurations; transmission ledger per query id, timeout-gap oracle, UBSan',
   text='Family retry: 12 configurations over servers 1-3, tries 1-3, timeout 1..2000 ms, maxtimeout unset/1/2500/3000/5000, rotate, udp_max_queries, EDNS/USEVC/0x20; per attempt the outcome is chosen from silence(timer), SERVFAIL, REFUSED, NOTIMP, FORMERR without OPT, TC, BADCOOKIE, success, socket/connect/send/recv failure, server-list change in flight; jitter and rotate draws enumerated. Oracle: transmissions per query id <= servers x tries + 5, closure terminates with a definite status, gap before a timeout-triggered resend >= min(base, cap) and <= maxtimeout, UBSan silent. Family retry-long runs tries 64/65/70 with silent servers to completion.',
   note='Trusted: virtual clock (timer fires exactly at the hint). Learned timeouts: lower bound relaxes to min(250 ms, cap) once a server has 3 accepted samples.', ref='4/C06'),
 'C07': dict(engine='EX-A', technique='explicit-state BFS; timeout hint compared with the earliest deadline of all outstanding queries in every state; early/on-time timer differential',
   text='EX-A part of C07 (event-loop applications): in every state of the life-udp, life-tcp and retry families ares_timeout() is evaluated for maxtv in {NULL, 0, 1 ms, 10 s}: never negative, never above the caller maximum, never later than the earliest deadline computed over ALL outstanding queries (not only the head of the timeout index); every timer event is first processed one microsecond early (nothing may be re-sent or completed) and then on time (something must be re-sent or completed); a request that is outstanding while the library offers no hint and no watched descriptor is ready is a liveness violation. The event-thread half of the property (no application action needed at all) is decided by EX-B and is listed in DESIGN.md; it is not part of this check yet.',
   note='Deadlines are read from the private query structs by the single peek translation unit; the event-thread/back-end part is outside this check.', ref='4/C07'),
 'C08': dict(engine='EX-A', technique='explicit-state BFS over request/reply/time/reconfiguration histories against a reference cache keyed by (flags,type,class,lower-case name)',
   text='Family cache: max_ttl in {3600,5,0}, 0x20 on/off, 1-2 servers; request menu = a base question and its near misses (case, type, class, RD off, CD on, trailing dot, search, getaddrinfo, legacy ares_query, send_dnsrec); replies with TTL 100/5/0, three-record TTL mix, NXDOMAIN with/without SOA, NODATA, TC, SERVFAIL; time advances 1/4/6/3601 s; server-list change (same, reorder, membership) and reinit. Oracle (only-if direction): a request completed with zero transmissions must be explained by a packet the library read earlier with the same key, not truncated, rcode NOERROR/NXDOMAIN, not older than min(max_ttl, its TTLs), not from before a flush; every TTL visible to the callback = original - seconds cached; nothing served when max_ttl = 0.',
   note='Age is measured from the virtual time the library read the packet. addrinfo/hostent TTL consumers are covered by C13.', ref='4/C08'),
 'C10': dict(engine='EX-A', technique='explicit-state BFS with a fault at every socket call site; per-descriptor automaton + notification-stream automaton + interest-set comparison as oracles',
   text='Families sock (UDP with per-socket query limits, TCP immediate/in-progress connect, fast open, stay-open, legacy ares_fds and ares_getsock applications, local bind, pending-write callback), life-udp and life-reentrant: every history incl. one (quick) or two (thorough) failures of socket/setsockopt/bind/connect/getsockname/send (refused, would-block, short)/recv. Oracle: each descriptor closed exactly once, none open after destroy, no call on a closed descriptor, UDP transmissions per socket <= limit, sock-state stream never after (0,0) / exactly one (0,0) iff announced, at every return to the application each descriptor with outstanding queries is announced readable and each TCP descriptor with unsent bytes or unfinished connect writable, ares_fds/ares_getsock report only open descriptors the channel holds.',
   note='Which descriptors carry outstanding queries is read from the channel by the peek translation unit. UDP would-block datagrams are left to the retry timer by design (observation, not asserted).', ref='4/C10'),

 'C09': dict(engine='EX-A', technique='explicit-state BFS over success/failure histories x random-tape choices; reference health table built from the public server-state callbacks',
   text='Family failover: 2-3 servers, rotation on/off, retry chance 0/1, retry delay 0/5000 ms, tries 1-2; up to three distinct queries (sequential or concurrent), per attempt success / SERVFAIL / timeout / send or connect failure, server-list reorder or removal in flight, a 6 s advance; the rotate pick and the probe coin are enumerated. Oracle: at every fresh attempt the destination has the fewest consecutive failures according to the callback stream (first such in configuration order without rotation, any of them with rotation); a transmission to a worse server is legal only as a probe copy: different query id, a question some user query asked, sent once, only with probing enabled, not before last failure + retry delay, never to a healthy server; successes announced <= acceptable replies read.',
   note='User queries are told from probe copies by the fact that the family asks every question once. The differential "user query unaffected by probes" run of the design is not built; probe copies are checked structurally only.', ref='4/C09'),
 'C12': dict(engine='EX-A', technique='explicit-state BFS over names x configurations x per-candidate outcome sequences against a reference written from resolv.conf(5)',
   text='Family search: names with 0-3 dots, trailing dot, escaped dot; ndots 0-3; domain lists {none, one, two, root, one+root}; NOSEARCH; HOSTALIASES with and without NOALIASES; entry points search_dnsrec, ares_search, getaddrinfo (A+AAAA), gethostbyname; every sequence of per-candidate outcomes from {data, NODATA, NXDOMAIN, SERVFAIL, REFUSED, silence}. Oracle: the sequence of question names the virtual server saw equals the reference candidate list up to the stop point; for the search entry points the final status is the first data / hard error, else NODATA if any candidate existed without data, else the last status. The documented single-label exception (issue #852) is accepted either way; candidates whose A and AAAA queries got outcomes of different classes are counted, not judged.',
   note='Reference list is 40 lines written from the man page. Alias lookups use an interposed HOSTALIASES file.', ref='4/C12'),
 'C13': dict(engine='EX-A', technique='explicit-state BFS over answer grammar x hints x sortlist x lookup order x hosts file with a provenance marker per resource record',
   text='Family addrs: getaddrinfo (UNSPEC/INET/INET6, CANONNAME+NOSORT, NUMERICSERV+port), gethostbyname, gethostbyaddr, getnameinfo; lookups b/fb/bf/f, hosts file with v4+v6+alias entries, sortlist, literals, localhost names; answers: single, three records with different TTLs, CNAME chain, mixed A+AAAA+foreign-class record, NODATA, NXDOMAIN; source-address change. Oracle: the multiset (family, packet, record index, TTL) of the result equals the A/AAAA records of the accepted answers for the winning name restricted to the requested family; hosts/literal/loopback answers equal the rule; port applied; NOSORT keeps answer order; reverse lookups ask exactly the reverse-map name with type PTR and return only names an answer carried.',
   note='RFC 6724 sorting is only checked for not losing/duplicating (multiset), not for its order.', ref='4/C13'),
 'C17': dict(engine='EX-A', technique='explicit-state BFS over server cookie behaviours x timers x source address against a reference RFC 7873 client automaton',
   text='Family cookie: 1-2 servers, EDNS, repeated requests, replies {no cookie, valid S1, valid S2, wrong client part, BADCOOKIE+cookie, bare BADCOOKIE, TC}, advances 119 s / 121 s / 301 s / 86401 s, source-address change, a whole-second clock variant. Oracle, evaluated over every UDP/TCP transmission and every packet the library looked at: no cookie over TCP; client part unchanged unless the source address changed, it is a day old or a cookie-less reply reset the automaton; must change (and drop the server part) when the source address changes; server part is empty or the latest valid one and is echoed once learned; cookie omitted only if support never proven or regressed; wrong-client and BADCOOKIE packets never delivered; after support is proven the first cookie-less reply is never delivered; at most three UDP re-sends caused by BADCOOKIE; a server that never returned a cookie is served plainly.',
   note='The lengths of the unsupported/regression back-off are not asserted (the statement does not fix them).', ref='4/C17'),

 'C02': dict(engine='EX-C', technique='bounded-exhaustive enumeration of DNS messages (complete small pointer-graph space; RR grammar x every truncation x every single-position substitution from a 10-value alphabet; corpus closure; size boundaries) through every decoding entry point, ASan/UBSan + allocator ledger + pointer-rule reference as oracles',
   text='Every input of four completely enumerated sub-spaces (name graphs of up to 5/6 cells with every pointer target incl. self/forward/past-the-end, decoding started at every cell; every supported RR type x RDATA shapes x RDLENGTH faults x owner-name layouts x sections closed under every truncation and every single-byte substitution from {00,01,3f,40,7f,80,c0,ff,orig^20,orig+1}; the 119 fuzz corpus files under the same closure; 0/1/11/12/65535/65536/70000-byte buffers) goes to ares_dns_parse (64 flag combinations on bases), every ares_parse_*_reply, ares_expand_name/ares_expand_string at every offset and the addrinfo paths; each call returns, the sanitizers are silent (inputs live in exact-size heap blocks), the ledger is empty after the matching free, success gives a complete result and failure none, and no forward/self compression pointer is ever accepted.',
   note='Claim is the single-fault closure of a structurally complete base family, not all byte strings. A lenient parse of a malformed message is not a violation.', ref='4/C02'),
 'C03': dict(engine='EX-C + EX-A', technique='bounded-exhaustive write/parse/write round trips over enumerated records and buffer placements against an independent decoder; plus explicit-state exploration of the frames actually handed to virtual sockets',
   text='Codec part: every valid base message and parseable corpus file, records built through the public setters (every RR type, boundary values, escaped names, 2-4 RRs sharing suffixes in all orders, sizes stepping across 16383/16384 and 65535), ares_dns_write_buf_tcp into buffers pre-filled with 0..16384 bytes with consumed prefixes and two messages back to back, and the legacy query builders over name x type x class x id x rd x edns tables: write OK implies length <= 65535, parse(write(r)) equals r field by field, write(parse(write(r))) is byte-identical, and the MESSAGE inside every TCP frame decodes with the independent decoder to the same record. Wire part (EX-A family wire): hand-built requests with three names sharing suffixes are sent over UDP, TCP (immediate / in-progress connect, pending-write callback, short writes, would-block) with up to three queued; every frame the virtual server receives decodes with the harness decoder to the names the application passed.',
   note='Round trip on wire-sourced records is asserted only when the source is reference-well-formed.', ref='4/C03'),
 'C04': dict(engine='EX-C', technique='differential decoding of the whole enumerated message space against an independent RFC 1035/2782/3596/6891/8659/9460 decoder written for the harness',
   text='For every base message and mutant of the C02 space: if c-ares and the reference both accept, their canonical dumps (header bits, counts, question, every RR field incl. OPT class/ttl mapping, option TLVs, SVCB params, CAA, TXT chunking, raw types) are identical; every generator-valid message inside the supported subset is accepted by c-ares; unescape(escape(labels)) == labels for every name with the reference presentation routines.',
   note='The reference decoder shares no code with c-ares (compiled without its include path). c-ares accepting what the reference rejects is not flagged.', ref='4/C04'),
 'C14': dict(engine='EX-A', technique='exhaustive single-fault enumeration: every allocation index of every scenario fails once; token/socket/allocator ledgers, sanitizers and a post-fault usability probe as oracles',
   text='Scenario family (per configuration udp+EDNS+cache+hosts, TCP, UDP+0x20+sortlist+rotate+udp_max_queries, and in thorough TFO+pending-write, legacy-fds+stay-open+bind, in-progress connect): channel set-up; each request kind answered / NXDOMAIN / timed out; cache hit; TC upgrade; failover; second search candidate; NODATA then data; CNAME / multi / mixed answers; cookie flows; BADCOOKIE; EDNS downgrade; malformed reply; set_servers (reorder, none, add); reinit; cancel; destroy with requests outstanding; dup; save_options; get_servers_csv; set_sortlist; socket faults. The clean run counts N allocations, then every n in 1..N fails alone: no sanitizer report, every accepted request completes exactly once, descriptors are closed once, the ledger is empty after destroy + library cleanup (leaks are attributed to their allocation site by re-running with call stacks), and afterwards a fresh query on the same channel succeeds.',
   note='One failing allocation per run. Event-thread allocations are outside (no event thread in EX-A).', ref='4/C14'),
 'C18': dict(engine='EX-C', technique='bounded-exhaustive comparison of the eleven legacy reply parsers with the record API over the enumerated message space x caller capacities, red-zoned output arrays',
   text='For every message of the RR-grammar and corpus closures and every caller capacity 0..N+1: each legacy parser reports a malformed-message status exactly when ares_dns_parse rejects; otherwise the list it returns equals the records of its type from the record API in answer order with equal fields (addresses, names after aliases, priorities, weights, ports, text chunks, TTLs) or the documented no-data status; never more elements than the offered capacity (exact-size heap arrays under ASan); the matching free function empties the ledger.',
   note='Statuses EBADNAME/EFORMERR/EBADSTR are accepted as malformed-message errors beside EBADRESP; behaviours pinned by the repository tests (SOA without answer, NULL list on success) are observations.', ref='4/C18'),
 'C19': dict(engine='EX-D', technique='breadth-first search over operation sequences on the real containers, state = abstract content + hidden layout read through peek translation units, std:: reference models compared after every operation',
   text='Array (all insert/remove/claim/set_size/sort/finish operations at every index class, growth across several thresholds, emptied-from-front patterns, dead slots poisoned), skip list (keys with duplicates, node level chosen exhaustively through the random tape, find/remove/claim/reinsert, both traversal directions), hash tables (generic + six typed fronts, three seeds + identity hash, colliding keys, two growth steps, overwrite/remove/get/keys), linked list (two lists, insert first/last/before/after, moves between lists, replace destructor, both directions) and byte buffer (append/consume/fetch/tag/rollback/clear/reclaim/set_length/split/replace/hex, dynamic and const): every return value and the full iteration order equal the reference after every operation; destructors run exactly once; ledger empty after destroy; sanitizers silent. Most families close (fixpoint under a live-element bound); buf and the prefilled skip list are depth-bounded.',
   note='Equal state keys are argued to have equal futures because dead array slots are poisoned and keys include every hidden layout field; verified by the perm configuration.', ref='4/C19'),
 'C20': dict(engine='EX-A', technique='exhaustive enumeration of inbound split plans and outbound acceptance plans of TCP byte streams, differential against the unsegmented run',
   text='For 1-3 queries queued on one TCP connection (USEVC and UDP->TC->TCP, deferred-write notification on/off, immediate / in-progress connect, all-at-once or staggered issue): every split of the reply stream into 2 and 3 reads and one byte per read; every accept-k-then-would-block and short-write pattern for every k, one byte per send, alternating byte/would-block, both directions one byte at a time. Each run must deliver the same results to the callbacks, put the same bytes on the wire and present the same whole, in-order, decodable frames to the server as the unsegmented run. UDP: a truncated answer is retried over TCP unless IGNTC (then delivered); a zero-length datagram before or after the real answer is harmless (library locals are pattern-initialised so that an uninitialised read is deterministic).',
   note='The server answers only after all queued frames arrived. Quick covers every second position of the 3-way splits; thorough all.', ref='4/C20'),
}

NOT_YET = {
}

def main():
    props = [json.loads(l) for l in open(V + '/properties.jsonl')]
    checks, na = [], []
    for p in props:
        pid = p['id']
        if pid in CLAIMED and pid in plans.PLANS:
            c = CLAIMED[pid]
            plan = plans.PLANS[pid]
            checks.append({
                'property_id': pid,
                'quick_cmd': '/verif/vf %s --tier quick' % pid,
                'thorough_cmd': '/verif/vf %s --tier thorough' % pid,
                'evidence_file': '/verif/evidence/%s.json' % pid,
                'replay_cmd_template': '/verif/vf replay {path}',
                'engine': c['engine'],
                'level_claimed': {'category': plan['level'], 'text': c['text'], 'design_ref': 'DESIGN.md ' + c['ref']},
                'level_note': c['note'],
                'technique': c['technique'],
            })
        else:
            na.append({'property_id': pid, 'reason': NOT_YET.get(pid, 'check not built/registered yet in this revision (design: DESIGN.md section 4/%s); will be claimed once its check has run to completion on the unchanged tree' % pid)})
    m = {
        'version': 1,
        'setup_cmd': 'make -C /verif -j16 cfg',
        'hooks': {
            'guard': 'CARES_VERIF_HOOKS',
            'enable': 'make -C /verif compiles /repo/src/lib/**/*.c directly with -DCARES_VERIF_HOOKS into /verif/.build/<flavour>/libcares.a (every check command does this first)',
            'baseline_off_cmd': 'python3 /verif/tools/baseline_off.py',
            'source_commits': hooks_commits(),
            'add_only': True,
        },
        'engines': [
            {'name': 'EX-A', 'path': '/verif/harness/exa_main.cc', 'serves_properties': ['C01', 'C03', 'C05', 'C06', 'C07', 'C08', 'C09', 'C10', 'C12', 'C13', 'C14', 'C17', 'C20'], 'kind_free_text': 'explicit-state search over event histories on the real library behind virtual sockets, clock and random tape'},
            {'name': 'EX-B', 'path': '/verif/harness/exb_main.cc', 'serves_properties': ['C07', 'C11'], 'kind_free_text': 'preemption-bounded exhaustive schedule exploration of real threads under a cooperative scheduler, TSan/ASan as oracles'},
            {'name': 'EX-C', 'path': '/verif/harness/exc_main.cc', 'serves_properties': ['C02', 'C03', 'C04', 'C18'], 'kind_free_text': 'bounded-exhaustive enumeration of DNS messages (grammar x single-fault closure) against an independent RFC decoder'},
            {'name': 'EX-D', 'path': '/verif/harness/exd_main.cc', 'serves_properties': ['C19'], 'kind_free_text': 'BFS over container operation sequences against std:: reference models'},
            {'name': 'EX-E', 'path': '/verif/harness/exe_main.cc', 'serves_properties': ['C15', 'C16'], 'kind_free_text': 'exhaustive enumeration of configuration texts/options with round-trip and metamorphic oracles'},
        ],
        'checks': checks,
        'notes': 'Single entry point /verif/vf; known findings in /verif/known_findings.json; replays under /verif/replays. Checks rebuild from /repo on every run (make dependency tracking).',
        'not_applicable': na,
    }
    json.dump(m, open(V + '/MANIFEST.json', 'w'), indent=1)
    print('checks:', [c['property_id'] for c in checks], 'not_applicable:', len(na))

main()
