#!/usr/bin/env python3
"""Regenerates /verif/MANIFEST.json from the table below + the plan registry.
A property is listed under checks only if it is in CLAIMED; everything else goes
to not_applicable with its reason."""
import json, sys, os, subprocess
V = os.path.dirname(os.path.dirname(os.path.abspath(__file__)))
sys.path.insert(0, V)
from vflib import plans

def hooks_commits():
    out = subprocess.run(['git', '-C', '/repo', 'log', '--format=%h %s'], stdout=subprocess.PIPE, text=True).stdout
    return [l.split()[0] for l in out.splitlines() if l.split(' ', 1)[1].startswith('verif hooks:')][::-1]

CLAIMED = {
 'C01': dict(engine='EX-A', technique='explicit-state BFS over event histories executed on the real library (virtual sockets/clock/random tape), state hashing, closure of every state, token/allocator ledgers + ASan/UBSan as oracles',
   text='Every history of the life-udp / life-tcp / life-reentrant families (all ten entry points, re-entrant callbacks that start requests or cancel, replies of 5 kinds, timers, cancel, destroy, server-list changes, one (quick) or two (thorough) injected socket faults) up to the stated depth is executed on the real code; in every reached state and after closing it (silence, timers, destroy) each request token was completed exactly once, never after destroy, cancel/destroy completed everything accepted, the allocator ledger is empty and the sanitizers are silent. Bounded-exhaustive, not a proof: depth, number of requests/servers and deviations are bounded.',
   note='Trusted: harness world model (sockets/clock), own DNS encoder, canonical state key (audited by running with de-duplication off), clang ASan/UBSan. Assumes a well-behaved single-threaded application; threads are C11.', ref='4/C01'),
}

NOT_YET = {
}

def main():
    props = [json.loads(l) for l in open(V + '/properties.jsonl')]
    checks, na = [], []
    for p in props:
        pid = p['id']
        if pid in CLAIMED and pid in plans.PLANS:
            c = CLAIMED[pid]
            plan = plans.PLANS[pid]
            checks.append({
                'property_id': pid,
                'quick_cmd': '/verif/vf %s --tier quick' % pid,
                'thorough_cmd': '/verif/vf %s --tier thorough' % pid,
                'evidence_file': '/verif/evidence/%s.json' % pid,
                'replay_cmd_template': '/verif/vf replay {path}',
                'engine': c['engine'],
                'level_claimed': {'category': plan['level'], 'text': c['text'], 'design_ref': 'DESIGN.md ' + c['ref']},
                'level_note': c['note'],
                'technique': c['technique'],
            })
        else:
            na.append({'property_id': pid, 'reason': NOT_YET.get(pid, 'check not built/registered yet in this revision (design: DESIGN.md section 4/%s); will be claimed once its check has run to completion on the unchanged tree' % pid)})
    m = {
        'version': 1,
        'setup_cmd': 'make -C /verif -j16 cfg',
        'hooks': {
            'guard': 'CARES_VERIF_HOOKS',
            'enable': 'make -C /verif compiles /repo/src/lib/**/*.c directly with -DCARES_VERIF_HOOKS into /verif/.build/<flavour>/libcares.a (every check command does this first)',
            'baseline_off_cmd': 'python3 /verif/tools/baseline_off.py',
            'source_commits': hooks_commits(),
            'add_only': True,
        },
        'engines': [
            {'name': 'EX-A', 'path': '/verif/harness/exa_main.cc', 'serves_properties': ['C01', 'C03', 'C05', 'C06', 'C07', 'C08', 'C09', 'C10', 'C12', 'C13', 'C14', 'C17', 'C20'], 'kind_free_text': 'explicit-state search over event histories on the real library behind virtual sockets, clock and random tape'},
            {'name': 'EX-B', 'path': '/verif/harness/exb_main.cc', 'serves_properties': ['C07', 'C11'], 'kind_free_text': 'preemption-bounded exhaustive schedule exploration of real threads under a cooperative scheduler, TSan/ASan as oracles'},
            {'name': 'EX-C', 'path': '/verif/harness/exc_main.cc', 'serves_properties': ['C02', 'C03', 'C04', 'C18'], 'kind_free_text': 'bounded-exhaustive enumeration of DNS messages (grammar x single-fault closure) against an independent RFC decoder'},
            {'name': 'EX-D', 'path': '/verif/harness/exd_main.cc', 'serves_properties': ['C19'], 'kind_free_text': 'BFS over container operation sequences against std:: reference models'},
            {'name': 'EX-E', 'path': '/verif/harness/exe_main.cc', 'serves_properties': ['C15', 'C16'], 'kind_free_text': 'exhaustive enumeration of configuration texts/options with round-trip and metamorphic oracles'},
        ],
        'checks': checks,
        'notes': 'Single entry point /verif/vf; known findings in /verif/known_findings.json; replays under /verif/replays. Checks rebuild from /repo on every run (make dependency tracking).',
        'not_applicable': na,
    }
    json.dump(m, open(V + '/MANIFEST.json', 'w'), indent=1)
    print('checks:', [c['property_id'] for c in checks], 'not_applicable:', len(na))

main()
