#!/bin/bash
# usage: reeval_seed.sh <id> [<property>]  -- re-run the property's quick check against /verif/seeded/<id>/patch.diff
# (scratch worktree, removed afterwards) and record the verdict in meta.json as "our_checks" (the previous value is
# kept once as "our_checks_before_strengthening" when it differs).
id=$1; prop=${2:-$1}
out=$(/verif/tools/try_mutant.sh seed$id /verif/seeded/$id/patch.diff $prop 2>&1 | grep '^MUTANT')
echo "$out"
python3 - "$id" "$out" <<'PY'
import json,sys
p='/verif/seeded/%s/meta.json'%sys.argv[1]
m=json.load(open(p)); new=sys.argv[2]
old=m.get('our_checks','')
def verdict(s):
    import re
    r=re.search(r'exit=(\d+)',s); return r.group(1) if r else '?'
if old and verdict(old)!=verdict(new) and 'our_checks_before_strengthening' not in m:
    m['our_checks_before_strengthening']=old
m['our_checks']=new
json.dump(m,open(p,'w'),indent=1)
PY
