#!/bin/bash
# usage: try_mutant.sh <name> <patch-file | revert:<sha>[,<sha>...]> <property> [<property> ...]
# Builds a scratch worktree of /repo HEAD with the change applied, runs the quick tier of the given
# properties against it (VERIF_REPO / VERIF_BUILD), prints one verdict line per property, removes the worktree.
set -u
name=$1; change=$2; shift 2
wt=/var/tmp/mut-$name; bd=/var/tmp/mut-$name-build
git -C /repo worktree remove --force $wt >/dev/null 2>&1; rm -rf $wt $bd
git -C /repo worktree add --detach $wt HEAD >/dev/null 2>&1 || { echo "worktree failed"; exit 2; }
if [[ $change == revert:* ]]; then
  for sha in $(echo ${change#revert:} | tr ',' ' '); do git -C $wt revert --no-commit $sha >/dev/null 2>&1 || { echo "revert $sha failed"; git -C /repo worktree remove --force $wt; exit 2; }; done
else
  git -C $wt apply $change || { echo "patch does not apply"; git -C /repo worktree remove --force $wt; exit 2; }
fi
mkdir -p $bd; cp -r /verif/.build/cfg $bd/ 2>/dev/null
for p in "$@"; do
  t0=$(date +%s)
  out=$(VERIF_REPO=$wt VERIF_BUILD=$bd VERIF_EVIDENCE_DIR=$bd/evidence /verif/vf $p --tier ${TIER:-quick} 2>&1); rc=$?
  t1=$(date +%s)
  nv=$(echo "$out" | grep -c '^VIOLATION')
  keys=$(echo "$out" | grep -E '^  key=' | sed 's/^  key=//' | sort -u | head -4 | tr '\n' ' ')
  echo "MUTANT $name property=$p exit=$rc violations=$nv time=$((t1-t0))s keys: $keys"
  echo "$out" | grep -E 'INTERNAL-ERROR' | head -3
done
git -C /repo worktree remove --force $wt >/dev/null 2>&1; rm -rf $bd; git -C /repo worktree prune
