"""Registry of per-property check plans. Each engine contributes a module
plans_<engine>.py defining PLANS = {property_id: plan}.

plan = {
  'level': 'model_checking' | 'fault_enumeration',
  'rule': str,                      # how cases are enumerated / what is distinct (goes to evidence.coverage.rule)
  'assumptions': [str],
  'targets': [make targets],        # built from /repo's current tree before every run
  'deadline': {'quick': secs, 'thorough': secs},
  'jobs': [ {
      'name': str, 'bin': str (under .build/bin), 'family': str,
      'tiers': ('quick','thorough'), 'shards': int,
      'args': {'quick': {k: v}, 'thorough': {k: v}},
      'require_witnesses': {'*': [names]}, 'min_outcomes': int,
      'resume': 'index' | 'poison',
  } ],
}
"""
import importlib

PLANS = {}
for mod in ('plans_exa', 'plans_exb', 'plans_exc', 'plans_exd', 'plans_exe'):
    try:
        m = importlib.import_module('vflib.' + mod)
    except ModuleNotFoundError as e:
        if mod in str(e):
            continue
        raise
    PLANS.update(m.PLANS)

# C03 = codec round trips (EX-C) + frames actually handed to sockets (EX-A family "wire")
try:
    from vflib import plans_exa as _pa
    if 'C03' in PLANS and not any(j['name'] == 'wire' for j in PLANS['C03']['jobs']):
        PLANS['C03']['jobs'].append(_pa.WIRE_JOB)
        PLANS['C03']['targets'] = list(PLANS['C03']['targets']) + ['bin/exa']
except Exception:
    raise

# C06 = retry/termination oracles over event histories (EX-A) + termination under the event thread (EX-B)
try:
    from vflib import plans_exb as _pb6
    if 'C06' in PLANS and not any(j['name'].startswith('c06-eventthread') for j in PLANS['C06']['jobs']):
        PLANS['C06']['jobs'] = list(PLANS['C06']['jobs']) + _pb6.C06_JOBS
        PLANS['C06']['targets'] = list(PLANS['C06']['targets']) + ['bin/exb_asan']
        PLANS['C06']['rule'] += '; event-thread part (two programs): ' + _pb6.RULE
except Exception:
    raise

# C07 = hint/timer oracles over event histories (EX-A) + event-thread liveness on every back end (EX-B)
try:
    from vflib import plans_exb as _pb
    if 'C07' in PLANS and not any(j['name'].startswith('c07-eventthread') for j in PLANS['C07']['jobs']):
        PLANS['C07']['jobs'] = list(PLANS['C07']['jobs']) + _pb.C07_JOBS
        PLANS['C07']['targets'] = list(PLANS['C07']['targets']) + ['bin/exb_tsan', 'bin/exb_asan']
        PLANS['C07']['assumptions'] = list(PLANS['C07']['assumptions']) + _pb.ASSUME
        PLANS['C07']['rule'] += '; event-thread part: ' + _pb.RULE
except Exception:
    raise
