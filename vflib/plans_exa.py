"""Plans for the EX-A engine (event-history exploration over virtual sockets/clock)."""
T = ['bin/exa']  # make targets relative to the build dir

ASSUME = [
    'single-threaded channel without event thread; the application is a well-behaved event loop (services only announced+ready descriptors, fires the timer exactly at the ares_timeout() hint)',
    'virtual name servers 10.0.0.k act only when the explorer schedules a reply/forgery; packets are built by the harness encoder',
    'policy random draws (rotate, probe, jitter) take the default answer unless the family enumerates them; nonce draws (ids, 0x20 bits, cookies) come from a collision-free counter stream',
    'histories longer than the stated depth, more requests/servers than the stated budgets, and more deviations (faults/forgeries) than the stated bound are outside the claim',
]


def job(name, family, oracles, depth, dev=None, tiers=('quick', 'thorough'), wit=None, extra=None, shards=16, min_outcomes=2):
    a = {}
    for tier in ('quick', 'thorough'):
        d = depth[tier] if isinstance(depth, dict) else depth
        a[tier] = {'oracles': oracles, 'depth': d}
        if dev is not None:
            a[tier]['dev'] = dev[tier] if isinstance(dev, dict) else dev
        if extra:
            a[tier].update(extra.get(tier, extra.get('*', {})))
    return {'name': name, 'bin': 'exa', 'family': family, 'tiers': tiers, 'shards': shards, 'args': a, 'resume': 'poison',
            'require_witnesses': {'*': wit or []}, 'min_outcomes': min_outcomes}


RULE_HIST = ('breadth-first search over event histories (application calls incl. re-entrant callbacks, server replies, socket readiness, '
             'timers, cancels, server-list changes, injected socket faults) executed on the real library from ares_library_init to '
             'ares_library_cleanup; a state is the canonical dump of the virtual world plus the channel internals, de-duplicated by 128-bit hash; '
             'every state is closed (servers silent, timers to quiescence, destroy) and the end-of-life oracles evaluated; distinct = distinct '
             'outcome signatures (per-token kind/status/timeouts + transmission count)')

PLANS = {
    'C01': {
        'level': 'model_checking', 'rule': RULE_HIST, 'assumptions': ASSUME, 'targets': T,
        'deadline': {'quick': 600, 'thorough': 3000},
        'jobs': [
            job('life-udp', 'life-udp', 'C01', {'quick': 4, 'thorough': 4}, {'quick': 1, 'thorough': 2},
                wit=['tx_udp', 'timer_fired', 'fault_fired']),
            job('life-reentrant', 'life-reentrant', 'C01', {'quick': 4, 'thorough': 5}, {'quick': 1, 'thorough': 2},
                wit=['reentrant_request', 'reentrant_cancel']),
            job('life-tcp', 'life-tcp', 'C01', {'quick': 4, 'thorough': 5}, {'quick': 1, 'thorough': 2}, wit=['tx_tcp', 'short_write']),
            job('life-reconf', 'life-reconf', 'C01', {'quick': 4, 'thorough': 5}, 1, wit=['reentrant_set_servers', 'tx_tcp', 'tx_udp']),
            job('opts-reconf', 'opts-reconf', 'C01', 4, 0, tiers=('thorough',), wit=['reentrant_set_servers']),
            job('opts', 'opts', 'C01', {'quick': 4, 'thorough': 4}, {'quick': 0, 'thorough': 1}, wit=['reentrant_cancel', 'tx_tcp', 'tx_udp']),
        ],
    },
    'C05': {
        'level': 'model_checking', 'rule': RULE_HIST + '; adversary packets (one mutation of what a genuine reply would be) are extra events; provenance markers in RDATA identify the packet every delivered record came from', 'assumptions': ASSUME, 'targets': T,
        'deadline': {'quick': 420, 'thorough': 2400},
        'jobs': [
            job('adversary', 'adversary', 'C05', {'quick': 5, 'thorough': 6}, {'quick': 1, 'thorough': 2},
                wit=['c05_authentic_delivery', 'forged_packet_read', 'tx_tcp']),
        ],
    },
    'C06': {
        'level': 'model_checking', 'rule': RULE_HIST + '; per-attempt server outcomes and the jitter/rotate draws are enumerated; transmissions are counted per query id at the virtual network', 'assumptions': ASSUME, 'targets': T,
        'deadline': {'quick': 420, 'thorough': 2400},
        'jobs': [
            job('retry', 'retry', 'C06', {'quick': 4, 'thorough': 5}, {'quick': 1, 'thorough': 1},
                wit=['c06_retransmission', 'c06_budget_exhausted', 'c06_gap_checked', 'c06_tc_upgrade_seen', 'c06_edns_downgrade_seen', 'policy_alternatives', 'fault_fired']),
            job('retry-long', 'retry-long', 'C06', 1, 0, wit=['c06_budget_exhausted'], min_outcomes=1, shards=1),
            job('retry-opts', 'opts', 'C06', {'quick': 4, 'thorough': 4}, {'quick': 0, 'thorough': 1}, tiers=('thorough',), wit=['c06_retransmission']),
            job('retry-gai', 'retry-gai', 'C06', {'quick': 5, 'thorough': 6}, 0, wit=['c06_tc_upgrade_seen', 'c06_retransmission']),
        ],
    },
    'C07': {
        'level': 'model_checking', 'rule': RULE_HIST + '; in every state the timeout hint is compared (for four caller maxima) with the earliest deadline over ALL outstanding queries, and every timer event is executed one microsecond early (must change nothing) and on time (must make progress)', 'assumptions': ASSUME, 'targets': T,
        'deadline': {'quick': 420, 'thorough': 2400},
        'jobs': [
            job('hint-udp', 'life-udp', 'C07', {'quick': 4, 'thorough': 4}, {'quick': 1, 'thorough': 2}, wit=['hint_checked', 'timer_fired']),
            job('hint-retry', 'retry', 'C07', {'quick': 4, 'thorough': 5}, {'quick': 1, 'thorough': 1}, wit=['hint_checked', 'timer_fired']),
            job('hint-opts', 'opts', 'C07', {'quick': 4, 'thorough': 4}, {'quick': 0, 'thorough': 1}, tiers=('thorough',), wit=['hint_checked', 'timer_fired']),
            job('hint-tcp', 'life-tcp', 'C07', {'quick': 4, 'thorough': 5}, {'quick': 1, 'thorough': 2}, wit=['hint_checked', 'timer_fired']),
        ],
    },
    'C08': {
        'level': 'model_checking', 'rule': RULE_HIST + '; request menu = a base question and its near misses, replies with TTL mixes, virtual-time advances, server-list changes and reinit; reference cache keyed by (flags,type,class,lower-case name) built from the packets the library actually read', 'assumptions': ASSUME, 'targets': T,
        'deadline': {'quick': 420, 'thorough': 2400},
        'jobs': [
            job('cache', 'cache', 'C08', {'quick': 4, 'thorough': 4}, 0, wit=['c08_cache_hit', 'c08_aged_hit_ttl_checked']),
            job('cache-types', 'cache-types', 'C08', {'quick': 4, 'thorough': 5}, 0, wit=['c08_cache_hit']),
            job('cache-deep', 'cache-deep', 'C08', {'quick': 5, 'thorough': 5}, 0, tiers=('thorough',), wit=['c08_cache_hit', 'c08_aged_hit_ttl_checked']),
        ],
    },
    'C10': {
        'level': 'model_checking', 'rule': RULE_HIST + '; per-descriptor automaton from the socket-call log, sock-state callback stream, legacy ares_fds/ares_getsock sets compared with what the channel holds, a fault at every socket call site', 'assumptions': ASSUME, 'targets': T,
        'deadline': {'quick': 600, 'thorough': 5400},
        'jobs': [
            job('sock', 'sock', 'C10', {'quick': 4, 'thorough': 5}, {'quick': 1, 'thorough': 2}, wit=['fault_fired', 'tx_tcp', 'tx_udp', 'write_interest_needed', 'pending_write_cb']),
            job('sock-life-udp', 'life-udp', 'C10', {'quick': 4, 'thorough': 4}, {'quick': 1, 'thorough': 2}, wit=['fault_fired']),
            job('sock-reentrant', 'life-reentrant', 'C10', {'quick': 4, 'thorough': 5}, {'quick': 1, 'thorough': 2}),
            job('sock-opts', 'opts', 'C10', {'quick': 4, 'thorough': 5}, {'quick': 0, 'thorough': 0}, wit=['tx_tcp', 'tx_udp', 'pending_write_cb']),
        ],
    },
    'C09': {
        'level': 'model_checking', 'rule': RULE_HIST + '; the rotate pick and the probe coin are enumerated through the random tape; reference health table driven only by the public server-state callback stream', 'assumptions': ASSUME, 'targets': T,
        'deadline': {'quick': 420, 'thorough': 2400},
        'jobs': [
            job('failover', 'failover', 'C09', {'quick': 4, 'thorough': 5}, 1,
                wit=['c09_selection_checked', 'c09_selection_after_list_edit', 'c09_network_view_checked', 'c09_failed_over', 'c09_probe_seen', 'c09_rotate_choice', 'policy_alternatives', 'tx_tcp']),
        ],
    },
    'C12': {
        'level': 'model_checking', 'rule': RULE_HIST + '; names x ndots x domain lists x flags x aliases x per-candidate outcome sequences; reference = candidate order of resolv.conf(5)', 'assumptions': ASSUME, 'targets': T,
        'deadline': {'quick': 420, 'thorough': 2400},
        'jobs': [
            job('search', 'search', 'C12', {'quick': 6, 'thorough': 8}, 0, wit=['c12_sequence_checked', 'c12_multi_candidate']),
            job('search-fault', 'search-fault', 'C12', {'quick': 5, 'thorough': 5}, 1, wit=['fault_fired', 'c12_sequence_checked']),
            job('search-reinit', 'search-reinit', 'C12', {'quick': 5, 'thorough': 5}, 0, wit=['c12_reinit_changed_search_list']),
        ],
    },
    'C13': {
        'level': 'model_checking', 'rule': RULE_HIST + '; answer grammar (single, multi, CNAME chain, mixed families + foreign class) x hints x sortlists x lookup orders x hosts files; provenance markers per resource record', 'assumptions': ASSUME, 'targets': T,
        'deadline': {'quick': 420, 'thorough': 2400},
        'jobs': [
            job('addrs', 'addrs', 'C13', {'quick': 4, 'thorough': 5}, 1, wit=['c13_set_checked', 'fault_fired', 'c13_multi_address', 'c13_non_dns_checked', 'c13_non_dns_port_checked', 'c13_loopback_checked', 'c13_reverse_question_checked']),
            job('addrs-envhosts', 'addrs-envhosts', 'C13', {'quick': 4, 'thorough': 5}, 0, wit=['c13_env_hosts_file_used', 'c13_non_dns_checked']),
            job('addrs-cache', 'addrs-cache', 'C13', {'quick': 6, 'thorough': 7}, 0, wit=['c13_cache_hit_ttl_checked']),
        ],
    },
    'C17': {
        'level': 'model_checking', 'rule': RULE_HIST + '; server cookie behaviours (none, valid, changed, wrong client part, BADCOOKIE with/without cookie, TC) x virtual-time advances across the timers x source-address change; reference RFC 7873 client automaton replayed over the transmissions and the packets the library looked at', 'assumptions': ASSUME, 'targets': T,
        'deadline': {'quick': 420, 'thorough': 3600},
        'jobs': [
            job('cookie', 'cookie', 'C17', {'quick': 5, 'thorough': 6}, 1,
                wit=['c17_client_cookie_constant', 'c17_client_cookie_rotated', 'c17_server_cookie_echoed', 'c17_tcp_without_cookie', 'c17_badcookie_resend',
                     'c17_cookieless_dropped', 'c17_never_cookie_server_served', 'c17_wrong_client_dropped', 'c17_valid_cookie_accept', 'c17_source_address_changed']),
        ],
    },
    'C14': {
        'level': 'fault_enumeration',
        'rule': 'scenario family (channel set-up per configuration; each of the ten request kinds answered, answered NXDOMAIN and timed out, over UDP and TCP; cache hit; TC upgrade; failover; set_servers; reinit; cancel; destroy with requests outstanding; dup; save_options); the clean run counts N allocations through ares_library_init_mem, then every n in 1..N is executed with only the n-th allocation failing; distinct = distinct vectors of request statuses',
        'assumptions': ['one failing allocation per run (pairs are outside the claim)', 'allocations made before the channel exists (none) and inside the event thread (not used here) are not covered',
                        'after the fault a fresh query must succeed on the same channel unless the scenario removed all servers'] + ASSUME[:2],
        'targets': T, 'deadline': {'quick': 420, 'thorough': 2400},
        'jobs': [
            {'name': 'alloc', 'bin': 'exa', 'family': 'alloc', 'shards': 16, 'args': {'quick': {}, 'thorough': {}}, 'resume': 'index', 'max_restarts': 60,
             'require_witnesses': {'*': ['fault_hit', 'init_reported_failure']}, 'min_outcomes': 2},
        ],
    },
    'C20': {
        'level': 'model_checking',
        'rule': 'for 1..3 queries queued on one TCP connection (USEVC and UDP->TC->TCP upgrade, with/without deferred-write notification, immediate/in-progress connect, all-at-once or staggered issue) every split of the server\'s reply byte stream into 2 and 3 reads plus the one-byte-per-read plan, and every "accept k bytes then would-block" / short-write pattern of the request stream for every k plus the one-byte-per-send and alternating plans, is executed and compared with the unsegmented run of the same scenario; states = plans, transitions = application I/O rounds',
        'assumptions': ASSUME[:2] + ['the server answers only once all queued frames have arrived completely, in order'],
        'targets': T, 'deadline': {'quick': 300, 'thorough': 1800},
        'jobs': [
            {'name': 'stream', 'bin': 'exa', 'family': 'stream', 'shards': 16, 'args': {'quick': {}, 'thorough': {}}, 'resume': 'index',
             'require_witnesses': {'*': ['plan_wouldblock', 'plan_einprogress', 'short_write', 'close_behind_last_reply_byte', 'pending_write_cb', 'tc_retried_over_tcp', 'tc_on_last_attempt_retried', 'tc_retried_over_tcp_in_dual_lookup', 'igntc_delivered', 'zero_length_datagram']}, 'min_outcomes': 2},
        ],
    },
}
# C03's on-the-wire part is added to the EX-C plan by plans.py (see there)
WIRE_JOB = job('wire', 'wire', 'C03', {'quick': 5, 'thorough': 6}, 1, wit=['c03_wire_tcp_frame_checked', 'c03_wire_udp_frame_checked', 'c03_wire_compression_used'])
