"""Plans for the EX-B engine (preemption-bounded schedule exploration of real threads)."""
RULE = ('stateless depth-first search with iterative context bounding (CHESS): every schedule of the driver program with at most k preemptions; '
        'scheduling points are the hooked mutex / condition / thread operations of util/ares_threads.c and the interposed epoll_wait / poll / select; '
        'mutexes and condition variables are modelled by the scheduler, exactly one thread runs at a time, hand-off by raw futex in an uninstrumented '
        'translation unit; blocking is visible (event wait enabled iff a zero-timeout system call reports readiness or virtual time reached its deadline); '
        'virtual time advances only when no thread is enabled; one forked child per schedule; states = schedules, transitions = decision points')
ASSUME = ['sequentially consistent execution (the scheduler serialises threads; ThreadSanitizer happens-before analysis on every explored schedule covers missing synchronisation)',
          'sockets are socketpair ends; a virtual server answers inside sendto or stays silent; its reply is written with a raw system call so that no happens-before edge is handed to ThreadSanitizer',
          'at most 3 client threads plus the event thread and the reinit thread; schedules with more preemptions than the stated bound are outside the claim']


def job(name, flavour, group, bound, wit):
    return {'name': name, 'bin': 'exb_' + flavour, 'family': group, 'shards': 16,
            'args': {'quick': {'bound': bound['quick']}, 'thorough': {'bound': bound['thorough']}}, 'resume': 'index',
            'require_witnesses': {'*': wit}, 'min_outcomes': 2}


C11_JOBS = [
    job('c11-tsan', 'tsan', 'c11', {'quick': 1, 'thorough': 2}, ['schedule_completed', 'lock_contention_point', 'virtual_time_advanced']),
    job('c11-asan', 'asan', 'c11', {'quick': 1, 'thorough': 1}, ['schedule_completed', 'lock_contention_point']),
]
C07_JOBS = [
    job('c07-eventthread-tsan', 'tsan', 'c07', {'quick': 1, 'thorough': 2}, ['schedule_completed', 'virtual_time_advanced']),
    job('c07-eventthread-asan', 'asan', 'c07', {'quick': 1, 'thorough': 2}, ['schedule_completed', 'virtual_time_advanced']),
]

C06_JOBS = [
    job('c06-eventthread-termination', 'asan', 'c06', {'quick': 1, 'thorough': 2}, ['schedule_completed', 'virtual_time_advanced']),
]

PLANS = {
    'C11': {'level': 'model_checking', 'rule': RULE, 'assumptions': ASSUME, 'targets': ['bin/exb_tsan', 'bin/exb_asan'],
            'deadline': {'quick': 420, 'thorough': 2700}, 'jobs': C11_JOBS},
}
