"""EX-C (wire codec) plans: C02, C03 (codec part), C04, C18.

One binary .build/bin/exc; families: names (pointer-graph space), rrfault (RR
grammar x single-fault closure), corpus (closure of test/fuzzinput +
test/fuzznames), sizes (size boundaries), roundtrip (setter-built records, TCP
frames, size steps), builders (ares_create_query / ares_mkquery tables).  The
`oracle` argument selects which property's oracles are evaluated on the space.
"""

_T = ['bin/exc']  # make targets relative to the build dir

_ASSUME_REF = ('the independent RFC decoder/encoder in harness/exc_ref.cc (compiled without any c-ares include path) is the '
               'reference; its "supported subset" is: one question, opcodes 0/1/2/4/5, classes IN/CH/HS/NONE (ANY in questions and SIG), '
               'printable character-strings in HINFO/NAPTR/CAA tag/URI, non-empty SIG/TLSA/CAA/URI payloads')
_ASSUME_SAN = 'memory safety / undefined behaviour are observed through ASan+UBSan on inputs held in exact-size heap blocks; leaks through the allocator ledger installed with ares_library_init_mem'


def _job(name, family, oracle, witnesses, tiers=('quick', 'thorough'), extra=None, min_outcomes=2, deadline=None):
    args = {'oracle': oracle}
    j = {'name': name, 'bin': 'exc', 'family': family, 'tiers': tiers, 'shards': 16,
         'args': {'quick': dict(args), 'thorough': dict(args)},
         'require_witnesses': {'*': witnesses}, 'min_outcomes': min_outcomes, 'resume': 'index'}
    if extra:
        for t in ('quick', 'thorough'):
            j['args'][t].update(extra.get(t, {}))
    if deadline:
        j['deadline'] = deadline
    return j


_RR_OK = ['rr_ok_' + t for t in ('A', 'NS', 'CNAME', 'SOA', 'PTR', 'HINFO', 'MX', 'TXT', 'SIG', 'AAAA', 'SRV', 'NAPTR', 'OPT',
                                  'TLSA', 'SVCB', 'HTTPS', 'URI', 'CAA')]
_LEGACY_OK = ['legacy_ok_ares_parse_' + t for t in ('a_reply', 'aaaa_reply', 'caa_reply', 'mx_reply', 'naptr_reply', 'ns_reply',
                                                      'ptr_reply', 'soa_reply', 'srv_reply', 'txt_reply', 'txt_reply_ext', 'uri_reply')]

PLANS = {
    'C02': {
        'level': 'model_checking',
        'rule': ('bounded-exhaustive enumeration of inputs (no sampling): (1) every name region of <= N cells over a 9+N symbol cell '
                 'alphabet, decoded from every cell; (2) every message of a structure-aware RR grammar (23 type groups x RDATA shapes x '
                 'RDLENGTH variants x owner-name layouts x sections, header / question / multi-RR groups) and (3) every file of '
                 'test/fuzzinput + test/fuzznames, each closed under every truncation and every single-position substitution from '
                 '{00,01,3f,40,7f,80,c0,ff,orig^20,orig+1}; (4) size boundaries. states = distinct base messages (hash set), transitions '
                 '= mutants executed, executions = calls of decoding entry points; an input is distinct by its bytes (128-bit hash, '
                 'duplicates inside a shard are skipped), non-trivial = it reached at least one entry point; distinct_nontrivial counts '
                 'distinct (entry point, status, result shape) outcomes'),
        'assumptions': [_ASSUME_SAN, _ASSUME_REF, 'multi-fault corruptions and byte strings outside the closure are not covered'],
        'targets': _T,
        'deadline': {'quick': 270, 'thorough': 2400},
        'jobs': [
            _job('c02-names', 'names', 'C02', ['pointer_followed', 'forward_pointer_rejected', 'name_agree', 'malformed_rejected']),
            _job('c02-sizes', 'sizes', 'C02', ['size_65535_accepted', 'oversize_rejected', 'nonpositive_alen', 'parse_ok', 'parse_fail']),
            _job('c02-rrfault', 'rrfault', 'C02', ['parse_ok', 'parse_fail', 'pointer_followed', 'forward_pointer_rejected']),
            _job('c02-corpus', 'corpus', 'C02', ['parse_ok', 'parse_fail']),
        ],
    },
    'C04': {
        'level': 'model_checking',
        'rule': ('same bounded-exhaustive input space as C02 (name graphs, RR grammar x single-fault closure, corpus closure); every input '
                 'is decoded by ares_dns_parse (flags 0 and all-raw; all 64 flag combinations on unmutated bases) and by the independent '
                 'decoder, canonical dumps compared field by field; states = distinct base messages, transitions = mutants, executions = '
                 'decodes (both decoders); distinct_nontrivial = distinct (c-ares status, reference verdict, flag class) outcomes'),
        'assumptions': [_ASSUME_REF, 'c-ares accepting what the reference calls malformed is not a violation (lenient parsing is allowed by the statement)',
                        'representation limits counted as observations, not violations: unassigned RCODE values reported as SERVFAIL; repeated EDNS option codes collapsed to the last value'],
        'targets': _T,
        'deadline': {'quick': 270, 'thorough': 2400},
        'jobs': [
            _job('c04-names', 'names', 'C04', ['pointer_followed', 'forward_pointer_rejected', 'name_agree', 'agree']),
            _job('c04-rrfault', 'rrfault', 'C04', ['parse_ok', 'parse_fail', 'agree', 'pointer_followed', 'forward_pointer_rejected',
                                                     'opt_with_options', 'svcb_params', 'raw_rr', 'lenient_accept'] + _RR_OK),
            _job('c04-corpus', 'corpus', 'C04', ['parse_ok', 'parse_fail', 'agree']),
        ],
    },
    'C18': {
        'level': 'model_checking',
        'rule': ('RR grammar x single-fault closure and corpus closure (as C02) x each of the 12 legacy reply parsers (ares_parse_ptr_reply '
                 'with no / IPv4 / IPv6 address) x every addrttl capacity 0..N+1 in exact-size heap arrays; expected result computed from '
                 'the record API on the same bytes; states = distinct base messages, transitions = mutants, executions = legacy parser '
                 'calls + record parses; distinct_nontrivial = distinct (parser, status, result shape) outcomes'),
        'assumptions': [_ASSUME_SAN,
                        'statuses pinned by the repository tests are observations, not violations: ares_parse_soa_reply returns EBADRESP when no SOA answer exists; list parsers return SUCCESS with an empty list when answers exist but none of their type',
                        'a malformed-message error is any of EBADRESP/EBADNAME/EFORMERR/EBADSTR (the parsers forward the record parser status)',
                        'TTLs >= 2^31 in addrttl arrays are not compared (int field)'],
        'targets': _T,
        'deadline': {'quick': 270, 'thorough': 2400},
        'jobs': [
            _job('c18-rrfault', 'rrfault', 'C18', ['parse_ok', 'parse_fail', 'legacy_ok', 'legacy_nodata', 'legacy_badresp', 'legacy_cname_followed',
                                                     'addrttls_filled', 'addrttls_capacity_limited'] + _LEGACY_OK),
            _job('c18-corpus', 'corpus', 'C18', ['parse_ok', 'parse_fail', 'legacy_nodata', 'legacy_badresp']),
        ],
    },
    'C03': {
        'level': 'model_checking',
        'rule': ('bounded-exhaustive: (a) every base message of the RR grammar and every corpus file that parses (flags 0 and all-raw); '
                 '(b) records built through the public setters: every RR type x every key x boundary values, name escape forms in '
                 'question/owner/RDATA, every ordered selection of 2..3 (thorough: 2..5) RRs from 6 (thorough: 7) suffix-sharing names x {NS,SRV,MX}, first-occurrence '
                 'name offsets 16376..16392 and message sizes 65525..65545; (c) ares_dns_write_buf_tcp with prefill {0,1,2,3,17,16383,16384} x '
                 'consumed {0,1,p-1,p} x two messages, frames decoded with the independent decoder; (d) ares_create_query/ares_mkquery '
                 'tables. states = distinct records/base messages, transitions = TCP-frame placements + builder calls, executions = '
                 'write/parse/decode calls; distinct_nontrivial = distinct (call, status, shape class) outcomes'),
        'assumptions': [_ASSUME_REF,
                        'documented writer behaviour counted as observations: TXT chunks longer than 255 bytes are split; an extended RCODE without an OPT RR is written as SERVFAIL',
                        'serialisation failures are not violations (the statement is conditional on success)'],
        'targets': _T,
        'deadline': {'quick': 200, 'thorough': 1500},
        'jobs': [
            _job('c03-roundtrip', 'roundtrip', 'C03', ['roundtrip_ok', 'compression_used', 'size_over_16383', 'size_near_65535_ok', 'write_failed',
                                                         'tcpframe_compression_checked', 'name_form_roundtrip_ok',
                                                         'setter_rr_ok_A', 'setter_rr_ok_OPT', 'setter_rr_ok_SVCB', 'setter_rr_ok_TXT', 'setter_rr_ok_RAWRR']),
            _job('c03-wire-bases', 'rrfault', 'C03', ['roundtrip_ok', 'parse_ok', 'compression_used']),
            _job('c03-wire-corpus', 'corpus', 'C03', ['roundtrip_ok', 'parse_ok']),
            _job('c03-builders', 'builders', 'C03', ['builder_ok', 'builder_edns', 'builder_rejected', 'builder_escaped_name']),
            # (e) on-the-wire frames (request built by hand, sent over UDP/TCP through the simulator) is an EX-A job
            #     added by the EX-A plan module: append it to PLANS['C03']['jobs'] there.
        ],
    },
}
