"""EX-D: container explorer (property C19).

One job per container family; every job runs harness binary `exd`:
breadth-first search over operation sequences on the REAL container, state =
history replayed on a fresh container, state key = abstract content + hidden
layout read through the exd_peek_*.c translation units, reference models from
the C++ standard library compared after every operation.

Shards: configurations (seed / destructor / mode) and depth-1 prefixes are dealt
round-robin; every shard keeps its own seen set, so `states` summed over shards
counts a state once per shard that reached it.  For the closed families the
number of shards equals the number of configurations (disjoint state spaces, no
double counting).
"""

_T = ['/verif/.build/bin/exd']


def _job(name, family, shards, quick=None, thorough=None, witnesses=(), min_outcomes=4, tiers=('quick', 'thorough'), deadline=(45, 420)):
    return {
        'name': name, 'bin': 'exd', 'family': family, 'tiers': tiers, 'shards': shards,
        'args': {'quick': quick or {}, 'thorough': thorough or {}},
        'require_witnesses': {'*': list(witnesses)},
        'min_outcomes': min_outcomes,
        'resume': 'poison',
        # a job whose state space does not close (e.g. on a broken tree) must not starve the other families
        'deadline': {'quick': deadline[0], 'thorough': deadline[1]},
        'max_restarts': 20,  # at most one restart per operation code: afterwards that operation is probed in a child
    }


_HT_W = ['expanded', 'expanded_twice', 'collision', 'expanded_with_collisions', 'chain_split_by_expansion', 'overwrite', 'remove_missing']

PLANS = {
    'C19': {
        'level': 'model_checking',
        'rule': ('breadth-first search over operation sequences on the real c-ares containers; a case is one sequence replayed on a '
                 'fresh container whose last operation is compared (return value, full iteration order / content through the public '
                 'API, destructor callbacks, allocator ledger, ASan/UBSan) with a std:: reference model; states are distinct canonical '
                 'keys (abstract content + hidden layout: array cnt/offset/alloc_cnt, hash table seed/size/collisions/chain positions, '
                 'skip list complete link structure incl. node levels, linked list link structure, buffer offset/tag/data_len/alloc_len); '
                 'skip-list node levels and hash seeds are enumerated through the verification hooks, never sampled; distinct_nontrivial = '
                 'distinct (operation, result shape) outcomes summed over the jobs; states are summed over shards (a state reached by two '
                 'shards of a prefix-sharded job is counted twice)'),
        'assumptions': [
            'single-threaded use of each container; allocation never fails (allocation failure is property C14)',
            'the allocator returns NULL for size 0 like c-ares\' default allocator',
            'element payloads are opaque to the containers (ids are renamed canonically in the state key)',
            'array: dead slots of the allocation are overwritten with a poison member by the harness after every operation',
            'bounds as printed per job in coverage.jobs[].bound; closed=true means no new state exists under that bound',
        ],
        'targets': _T,
        'deadline': {'quick': 200, 'thorough': 1500},
        'jobs': [
            _job('array', 'array', 4,
                 quick={'nperm': 5, 'ndeep': 10, 'maxsz': 17}, thorough={'nperm': 6, 'ndeep': 18, 'maxsz': 33},
                 witnesses=['offset_nonzero', 'grew', 'grew_twice', 'emptied_from_front_then_insert', 'insert_with_offset_at_alloc_end',
                            'compacted_on_insert', 'finish_with_offset', 'sorted'], min_outcomes=12),
            _job('slist', 'slist', 2, quick={'n': 4}, thorough={'n': 5},
                 witnesses=['multi_level', 'removed_tail', 'removed_head', 'removed_middle', 'reinsert_moved', 'duplicate_keys'], min_outcomes=10),
            _job('slist-prefilled', 'slist', 16, quick={'n': 3, 'prefill': 16, 'depth': 3}, thorough={'n': 4, 'prefill': 16, 'depth': 4},
                 witnesses=['multi_level', 'removed_tail', 'list_levels_grew'], min_outcomes=10),
            _job('htable', 'htable', 4, quick={'active': 6, 'background': 22}, thorough={'active': 8, 'background': 22},
                 witnesses=_HT_W, min_outcomes=6),
            _job('htable_strvp', 'htable_strvp', 3, quick={'active': 3, 'background': 22}, thorough={'active': 5, 'background': 22},
                 witnesses=_HT_W, min_outcomes=8),
            _job('htable_szvp', 'htable_szvp', 3, quick={'active': 4, 'background': 22}, thorough={'active': 7, 'background': 22},
                 witnesses=_HT_W, min_outcomes=6),
            _job('htable_asvp', 'htable_asvp', 3, quick={'active': 4, 'background': 22}, thorough={'active': 7, 'background': 22},
                 witnesses=_HT_W, min_outcomes=6),
            _job('htable_dict', 'htable_dict', 3, quick={'active': 3, 'background': 22}, thorough={'active': 5, 'background': 22},
                 witnesses=_HT_W, min_outcomes=6),
            _job('htable_vpvp', 'htable_vpvp', 3, quick={'active': 4, 'background': 22}, thorough={'active': 6, 'background': 22},
                 witnesses=_HT_W, min_outcomes=6),
            _job('htable_vpstr', 'htable_vpstr', 3, quick={'active': 4, 'background': 22}, thorough={'active': 6, 'background': 22},
                 witnesses=_HT_W, min_outcomes=6),
            _job('llist', 'llist', 1, quick={'n': 6}, thorough={'n': 12},
                 witnesses=['moved_between_lists', 'moved_middle_between_nonempty_lists', 'replaced_value', 'destructor_replaced'],
                 min_outcomes=8),
            _job('buf', 'buf', 16, quick={'depth': 5}, thorough={'depth': 6},
                 witnesses=['rollback', 'reclaimed', 'reclaimed_by_append', 'reclaimed_with_tag', 'regrew', 'truncated', 'split_multi'],
                 min_outcomes=15, deadline=(75, 480)),
        ],
    },
}
