"""EX-E: configuration engine (properties C15 and C16), harness binary `exe`.

C15: every family enumerates ALL sequences of at most k items over a fixed
item alphabet (lines of a configuration file, tokens of an environment
variable, items of a setter string) in shortlex order, which is the global
case index used for sharding (index % n) and for resuming after a crash.

C16: product of option masks/values, server sets, setters, system
configurations and reinit points (see the rule text).
"""

_T = ['bin/exe']


def _job(name, family, quick=None, thorough=None, witnesses=(), min_outcomes=2, tiers=('quick', 'thorough'), deadline=(120, 900), shards=16):
    return {
        'name': name, 'bin': 'exe', 'family': family, 'tiers': tiers, 'shards': shards,
        'args': {'quick': quick or {}, 'thorough': thorough or {}},
        'require_witnesses': {'*': list(witnesses)},
        'min_outcomes': min_outcomes,
        'resume': 'index',
        'deadline': {'quick': deadline[0], 'thorough': deadline[1]},
        'max_restarts': 40,
    }


_C15_RULE = (
    'bounded-exhaustive enumeration: a case is one input built from a sequence of items of a fixed alphabet (resolv.conf / nsswitch.conf / '
    'netsvc.conf / svc.conf / host.conf / hosts / HOSTALIASES lines; RES_OPTIONS tokens x LOCALDOMAIN values; ares_set_sortlist and '
    'ares_set_servers_csv / ares_set_servers_ports_csv items); ALL sequences up to the length printed in coverage.jobs[].bound are executed '
    '(shortlex order = case index) plus whole-input variants (CRLF line ends, no final newline, tab separators, trailing comma); every case runs '
    'the real ares_init_options()/setter in a virtual environment (files, environment, hostname, interface table, clock, random tape, inline '
    'threads) and is checked for: return within the watchdog, ASan/UBSan silence, empty allocator ledger after ares_destroy, documented ranges of '
    'the effective configuration, agreement with the documented effect annotated on every item (independent reference, undocumented effects are '
    'counted not asserted), equality with the configuration of the same input without its comment/junk/malformed items (metamorphic), and '
    'unchanged configuration after ares_reinit() on unchanged files; transitions = inputs evaluated; states = distinct observations (canonical '
    'dump of the effective configuration + probe results), summed over shards; distinct_nontrivial = distinct (status, set of fields changed '
    'from the default, probe hit counts) tuples summed over jobs; executions = library runs incl. metamorphic partners and minimisation')

_C15_ASSUME = [
    'Unix file based system configuration (the #else branch of ares_init_by_sysconfig): /etc/resolv.conf, /etc/nsswitch.conf, /etc/netsvc.conf, /etc/svc.conf',
    'files are served through interposed fopen()/stat(); interface names through interposed if_nametoindex()/if_indextoname() (lo=1, eth0=2, eth1=3)',
    'allocation never fails (allocation failure is property C14)',
    'the effective configuration is read through ares_get_servers_csv()/ares_get_servers_ports() and, where no public getter exists '
    '(ndots, timeout, tries, rotate, flags, lookups, domains, sortlist, link-local scope), from the private channel structure',
    'HOSTALIASES is exercised through ares_lookup_hostaliases() (the parser entry point used by ares_search and ares_gethostbyname)',
    'item alphabets and bounds as printed per job in coverage.jobs[].bound',
]

PLANS = {
    'C15': {
        'level': 'model_checking',
        'rule': _C15_RULE,
        'assumptions': _C15_ASSUME,
        'targets': _T,
        'deadline': {'quick': 280, 'thorough': 2300},
        'jobs': [
            _job('resolvconf', 'resolvconf', quick={'k': 3}, thorough={'k': 4},
                 witnesses=['init_ok', 'junk_line_ignored', 'metamorphic_pairs', 'option_timeout_zero', 'server_v6_linklocal', 'reference_agreed'],
                 min_outcomes=20, deadline=(150, 1200)),
            _job('resolvconf-deep', 'resolvconf-deep', thorough={'k': 5}, tiers=('thorough',),
                 witnesses=['init_ok', 'junk_line_ignored', 'metamorphic_pairs', 'option_timeout_zero', 'reference_agreed'], min_outcomes=10,
                 deadline=(0, 600)),
            _job('otherfiles', 'otherfiles', quick={'k': 3}, thorough={'k': 4},
                 witnesses=['init_ok', 'junk_line_ignored', 'metamorphic_pairs', 'reference_agreed'], min_outcomes=2, deadline=(60, 300)),
            _job('hosts', 'hosts', quick={'k': 3}, thorough={'k': 4},
                 witnesses=['init_ok', 'junk_line_ignored', 'metamorphic_pairs', 'hosts_entry_found', 'reference_agreed'], min_outcomes=8, deadline=(60, 600)),
            _job('aliases', 'aliases', quick={'k': 3}, thorough={'k': 4},
                 witnesses=['init_ok', 'junk_line_ignored', 'metamorphic_pairs', 'alias_found', 'reference_agreed'], min_outcomes=3, deadline=(60, 300)),
            _job('envopts', 'envopts', quick={'k': 3}, thorough={'k': 4},
                 witnesses=['init_ok', 'junk_line_ignored', 'metamorphic_pairs', 'option_timeout_zero', 'env_overrides_file', 'reference_agreed'],
                 min_outcomes=10, deadline=(60, 600)),
            _job('strings', 'strings', quick={'k': 2}, thorough={'k': 3},
                 witnesses=['init_ok', 'setter_ok', 'setter_error', 'csv_roundtrip', 'server_v6_linklocal'], min_outcomes=2, deadline=(60, 600)),
        ],
    },
}
